package c02

import (
	"fmt"
	"sync/atomic"
	"time"

	"github.com/krotik/ecal/engine"

	"verif/harness/core"
)

// Stream latehandler: the processor creates the root monitor itself
// (AddEvent(event, nil), no wait), the host installs the finish handler on
// the monitor it got back while the root action is still running - the only
// order possible in this use - and the action goes on only after that. The
// cascade's finish notification has to fire exactly once all the same. The
// count is judged at quiescence (root monitor finished, processor finished).
func runLateHandler(c *core.Ctx, idx int) {
	r := c.Rng("latehandler", idx)
	workers := r.Range(1, 4)
	nkids := r.Intn(4)
	failing := r.Chance(1, 4)
	yields := r.Intn(4)
	alsoWait := r.Chance(1, 3) // the cascade is awaited by a second event's AddEventAndWait on the same processor
	desc := fmt.Sprintf("workers=%d children=%d failing=%v yields=%d second-cascade=%v", workers, nkids, failing, yields, alsoWait)

	proc := engine.NewProcessor(workers)
	installed := make(chan struct{})
	var waitedOut, kidsRun, finishes int32
	proc.AddRule(&engine.Rule{Name: "root", Desc: "c02", KindMatch: []string{"c02l.root"}, ScopeMatch: []string{},
		Action: func(p engine.Processor, m engine.Monitor, e *engine.Event, tid uint64) error {
			select {
			case <-installed:
			case <-time.After(10 * time.Second):
				atomic.StoreInt32(&waitedOut, 1)
			}
			for k := 0; k < nkids; k++ {
				p.AddEvent(engine.NewEvent("kid", []string{"c02l", "kid"}, nil), m.NewChildMonitor(k%2))
			}
			if failing {
				return fmt.Errorf("root fails")
			}
			return nil
		}})
	proc.AddRule(&engine.Rule{Name: "kid", Desc: "c02", KindMatch: []string{"c02l.kid"}, ScopeMatch: []string{},
		Action: func(p engine.Processor, m engine.Monitor, e *engine.Event, tid uint64) error {
			atomic.AddInt32(&kidsRun, 1)
			return nil
		}})
	proc.AddRule(&engine.Rule{Name: "other", Desc: "c02", KindMatch: []string{"c02l.other"}, ScopeMatch: []string{},
		Action: func(p engine.Processor, m engine.Monitor, e *engine.Event, tid uint64) error { return nil }})
	proc.Start()
	mon, err := proc.AddEvent(engine.NewEvent("root", []string{"c02l", "root"}, nil), nil)
	if err != nil || mon == nil {
		close(installed)
		proc.Finish()
		c.Violation("latehandler:no-monitor", fmt.Sprintf("AddEvent(triggering event, nil) returned monitor=%v err=%v", mon != nil, err), "latehandler", idx, map[string]interface{}{"case": desc})
		return
	}
	rm := mon.RootMonitor()
	rm.SetFinishHandler(func(engine.Processor) { atomic.AddInt32(&finishes, 1) })
	for y := 0; y < yields; y++ {
		time.Sleep(20 * time.Microsecond)
	}
	close(installed)
	if alsoWait {
		proc.AddEventAndWait(engine.NewEvent("other", []string{"c02l", "other"}, nil), nil)
	}
	finished := false
	for i := 0; i < 40000; i++ {
		if rm.IsFinished() {
			finished = true
			break
		}
		time.Sleep(250 * time.Microsecond)
	}
	if !finished || atomic.LoadInt32(&waitedOut) != 0 {
		// whether the cascade ends is the business of the other streams
		go proc.Finish()
		c.Inconclusive("latehandler: the cascade did not finish within the polling bound", "latehandler", idx, map[string]interface{}{"case": desc})
		return
	}
	proc.Finish()
	c.Event("latehandler.cascades", 1)
	c.NontrivialKey("latehandler|" + desc)
	if n := atomic.LoadInt32(&finishes); n != 1 {
		c.Violation(fmt.Sprintf("finish-handler-count:late-handler:%d", min(int(n), 2)),
			fmt.Sprintf("finish handler installed on the monitor returned by AddEvent(event, nil) while the root action was still running ran %d times for a finished cascade (%d of %d children ran)", n, atomic.LoadInt32(&kidsRun), nkids),
			"latehandler", idx, map[string]interface{}{"case": desc})
	}
}
