package c02

import (
	"os"
	"fmt"
	"strings"
	"sync/atomic"
	"time"

	"github.com/krotik/ecal/engine"

	"verif/harness/core"
	"verif/harness/sched"
)

// Nested waits: rule actions that themselves add an event and wait for its
// cascade (what an ECAL sink calling addEventAndWait does). With F such
// actions blocked at a time and more than F workers, every wait must return:
// "it does return whenever the actions terminate and a worker is available".

func runNested(c *core.Ctx, idx int) {
	stream := "nested"
	r := c.Rng(stream, idx)
	workers := r.Range(3, 8)
	fan := r.Range(2, workers-1)
	depth2 := r.Chance(1, 3) && fan+1 < workers // the leaves add one more plain child
	desc := fmt.Sprintf("workers=%d fan=%d leaf-adds-child=%v", workers, fan, depth2)
	c.Begin(0, stream, idx, desc)
	defer c.End(0)
	tr := sched.NewTracer()
	tr.SetNoise(r.U64(), uint64(r.OneOf(0, 0, 100, 400)))
	proc := engine.NewProcessor(workers)
	var midDone, leafDone, tailDone int32
	var nestedErr atomic.Value
	rule := func(name, kind string, act func(p engine.Processor, m engine.Monitor, e *engine.Event) error) {
		if err := proc.AddRule(&engine.Rule{Name: name, Desc: "c02 nested", KindMatch: []string{kind}, ScopeMatch: []string{},
			Action: func(p engine.Processor, m engine.Monitor, e *engine.Event, tid uint64) error { return act(p, m, e) }}); err != nil {
			panic(err)
		}
	}
	rule("root", "c02n.root", func(p engine.Processor, m engine.Monitor, e *engine.Event) error {
		for i := 0; i < fan; i++ {
			if _, err := p.AddEvent(engine.NewEvent(fmt.Sprintf("mid%d", i), []string{"c02n", "mid"}, map[interface{}]interface{}{"i": i}), m.NewChildMonitor(0)); err != nil {
				nestedErr.Store(err.Error())
			}
		}
		return nil
	})
	rule("mid", "c02n.mid", func(p engine.Processor, m engine.Monitor, e *engine.Event) error {
		// a nested cascade of its own, awaited inside the action
		mon, err := p.AddEventAndWait(engine.NewEvent("leaf", []string{"c02n", "leaf"}, e.State()), nil)
		if err != nil || mon == nil {
			nestedErr.Store(fmt.Sprintf("nested wait returned monitor=%v err=%v", mon != nil, err))
		}
		atomic.AddInt32(&midDone, 1)
		return nil
	})
	rule("leaf", "c02n.leaf", func(p engine.Processor, m engine.Monitor, e *engine.Event) error {
		if depth2 {
			p.AddEvent(engine.NewEvent("tail", []string{"c02n", "tail"}, nil), m.NewChildMonitor(1))
		}
		atomic.AddInt32(&leafDone, 1)
		return nil
	})
	rule("tail", "c02n.tail", func(p engine.Processor, m engine.Monitor, e *engine.Event) error {
		atomic.AddInt32(&tailDone, 1)
		return nil
	})
	pool := proc.ThreadPool()
	tr.Install()
	defer sched.Uninstall()
	proc.Start()
	done := make(chan struct{})
	var gid uint64
	var rmon engine.Monitor
	var rerr error
	go func() {
		defer close(done)
		atomic.StoreUint64(&gid, sched.GoID())
		rmon, rerr = proc.AddEventAndWait(engine.NewEvent("root", []string{"c02n", "root"}, nil), nil)
	}()
	verdict := "inconclusive"
	for i := 0; i < 20000; i++ {
		select {
		case <-done:
			verdict = "done"
		default:
		}
		if verdict == "done" {
			break
		}
		if i > 5 && nestedStuck(tr, pool, atomic.LoadUint64(&gid)) {
			select {
			case <-done:
				verdict = "done"
			default:
				verdict = "stuck"
			}
			break
		}
		if i < 100 {
			time.Sleep(50 * time.Microsecond)
		} else {
			time.Sleep(500 * time.Microsecond)
		}
	}
	detail := map[string]interface{}{"case": desc, "trace_tail": traceTail(tr, 50)}
	switch verdict {
	case "stuck":
		if queued(tr, pool) == 0 {
			c.Violation("stuck:nested-wait-nothing-left", "AddEventAndWait does not return: nothing is queued, every worker is parked in Cond.Wait or blocked in a nested AddEventAndWait inside an action, no AddTask in flight and no goroutine able to take a step - the notification the waiters wait for can never come", stream, idx, detail)
		} else {
			c.Violation("stuck:nested-wait-with-idle-worker", fmt.Sprintf("AddEventAndWait does not return: %d queued task(s), every worker is either parked in Cond.Wait or blocked in a nested AddEventAndWait inside an action, at least one is parked, no AddTask in flight", queued(tr, pool)), stream, idx, detail)
		}
		if queued(tr, pool) == 0 {
			return // workers blocked in their waits for good: WaitAll would never return either
		}
		pool.WaitAll()
		select {
		case <-done:
		case <-time.After(5 * time.Second):
			return
		}
	case "inconclusive":
		c.Inconclusive("nested cascade neither returned nor stuck", stream, idx, detail)
		return
	}
	if rmon == nil || rerr != nil {
		c.Violation("wait-result", fmt.Sprintf("AddEventAndWait returned monitor=%v err=%v", rmon != nil, rerr), stream, idx, detail)
	}
	if v := nestedErr.Load(); v != nil {
		detail["nested"] = v
		c.Violation("nested-wait-result", "a nested AddEventAndWait/AddEvent inside an action failed", stream, idx, detail)
	}
	want := int32(fan)
	if atomic.LoadInt32(&midDone) != want || atomic.LoadInt32(&leafDone) != want || (depth2 && atomic.LoadInt32(&tailDone) != want) {
		detail["counts"] = fmt.Sprintf("mid=%d leaf=%d tail=%d want=%d", midDone, leafDone, tailDone, want)
		c.Violation("late-action", "the outer wait returned before all actions of its cascade (incl. the nested cascades they waited for) had returned", stream, idx, detail)
	}
	proc.Finish()
	c.Event("nested.cascade", 1)
	c.Event("nested.waits", int64(fan))
	c.Nontrivial(sched.Signature(tr.Snapshot(), func(p string) bool { return !strings.HasPrefix(p, "pool.broadcast") }))
	if idx%37 == 0 {
		c.Sample(stream, desc)
	}
}

func queued(tr *sched.Tracer, pool interface{}) int {
	n := 0
	for _, e := range tr.Snapshot() {
		if len(e.Args) > 0 && e.Args[0] == pool {
			switch e.Point {
			case "pool.add.pushed":
				n++
			case "pool.get.popped":
				n--
			}
		}
	}
	return n
}

// nestedStuck: every live worker is parked idle (Cond.Wait) or blocked in the
// wait of AddEventAndWait (a nested wait inside an action); no AddTask is in
// flight; the outer waiter is blocked in its wait; no goroutine can take a
// step; the logical clock did not move. Then either a task is queued next to an
// idle worker (a lost wake-up) or nothing is queued at all (nobody is left who
// could ever deliver the notification the waiters wait for).
func nestedStuck(tr *sched.Tracer, pool interface{}, waiter uint64) bool {
	seq0 := tr.Now()
	evs := tr.Snapshot()
	v := sched.ViewPool(evs, pool)
	if len(v.LiveWorkers) == 0 || v.Pushed != v.Signalled {
		return false
	}
	if wc, ok := pool.(interface{ WorkerCount() int }); ok && wc.WorkerCount() != len(v.LiveWorkers) {
		return false
	}
	nq := queued(tr, pool)
	d := sched.Dump() // states and stacks from one dump
	inWait := func(g uint64) bool {
		return sched.BlockedIn(d, g, waitStates, "AddEventAndWait") && strings.HasSuffix(sched.InnermostNonRuntime(d, g), ".AddEventAndWait")
	}
	dbg := os.Getenv("VH_DEBUG") != ""
	idle := 0
	for g := range v.LiveWorkers {
		p := v.LastPoint[g]
		if dbg {
			fmt.Fprintf(os.Stderr, "worker g%d last=%s state=%s inner=%s\n", g, p, d[g].State, sched.InnermostNonRuntime(d, g))
		}
		if (p == "pool.idle.locked" || p == "pool.idle.beforewait") && d[g].State == "sync.Cond.Wait" {
			idle++
			continue
		}
		if p == "pool.get.popped" && inWait(g) {
			continue
		}
		return false
	}
	if dbg {
		fmt.Fprintf(os.Stderr, "waiter g%d state=%s inner=%s nq=%d idle=%d canstep=%v\n", waiter, d[waiter].State, sched.InnermostNonRuntime(d, waiter), nq, idle, sched.CanStep(d, sched.GoID()))
	}
	if waiter == 0 || !inWait(waiter) {
		return false
	}
	if nq >= 1 && idle == 0 {
		return false // tasks are queued but every worker waits: no worker is available
	}
	if sched.CanStep(d, sched.GoID()) {
		return false
	}
	return tr.Now() == seq0
}
