package c02

import (
	"time"
	"fmt"
	"sort"
	"strings"
	"sync"

	"github.com/krotik/ecal/interpreter"
	"github.com/krotik/ecal/parser"
	"github.com/krotik/ecal/scope"
	"github.com/krotik/ecal/stdlib"
	"github.com/krotik/ecal/util"

	"verif/harness/core"
	"verif/harness/sched"
)

// The same cascade scripts expressed as ECAL sinks; the cascade is started
// and awaited with the ECAL built-in addEventAndWait, whose return value is
// the error report the language user sees.

type ecalRec struct {
	mu     sync.Mutex
	tr     *sched.Tracer
	begins map[string][]int64
	ends   map[string][]int64
	ret    map[string]int64
}

var curRec *ecalRec
var curRecMu sync.Mutex

type recFunc struct{}

func (recFunc) Run(instanceID string, vs parser.Scope, is map[string]interface{}, tid uint64, args []interface{}) (interface{}, error) {
	curRecMu.Lock()
	r := curRec
	curRecMu.Unlock()
	if r == nil || len(args) < 2 {
		return nil, nil
	}
	tag := fmt.Sprint(args[0])
	key := fmt.Sprint(args[1])
	if len(args) > 2 {
		key += "|" + fmt.Sprint(args[2])
	}
	s := r.tr.Stamp()
	r.mu.Lock()
	switch tag {
	case "b":
		r.begins[key] = append(r.begins[key], s)
	case "e":
		r.ends[key] = append(r.ends[key], s)
	case "ret":
		r.ret[key] = s
	}
	r.mu.Unlock()
	return nil, nil
}
func (recFunc) DocString() (string, error) { return "c02 recorder", nil }

var regOnce sync.Once

func ecalSource(s *script) string {
	var b strings.Builder
	dead := len(s.kinds)
	for i, rules := range s.kinds {
		for _, r := range rules {
			fmt.Fprintf(&b, "sink %s\n    kindmatch [ \"c02.%s\" ],\n    priority %d,\n    {\n", r.name, kindName(i), r.prio)
			fmt.Fprintf(&b, "        c02.rec(\"b\", event.state.path, %q)\n", r.name)
			for j, ch := range r.children {
				kn := kindName(ch.kind)
				if ch.kind == dead {
					kn = "dead"
				}
				fmt.Fprintf(&b, "        addEvent(\"e\", \"c02.%s\", {\"path\" : \"{{event.state.path}}/%s.%d\"})\n", kn, r.name, j)
			}
			fmt.Fprintf(&b, "        c02.rec(\"e\", event.state.path, %q)\n", r.name)
			if r.fail {
				fmt.Fprintf(&b, "        raise(\"E\", \"{{event.state.path}}|%s\", [event.state.path])\n", r.name)
			}
			b.WriteString("    }\n")
		}
	}
	for k := 0; k < s.cascades; k++ {
		fmt.Fprintf(&b, "res%d := addEventAndWait(\"e\", \"c02.%s\", {\"path\" : \"c%d\"})\n", k, kindName(s.rootKind[k]), k)
		fmt.Fprintf(&b, "c02.rec(\"ret\", \"c%d\")\n", k)
	}
	return b.String()
}

func runEcal(c *core.Ctx, stream string, idx int, s *script, noise, noiseSeed uint64) {
	regOnce.Do(func() {
		if err := stdlib.AddStdlibFunc("c02", "rec", recFunc{}); err != nil {
			stdlib.AddStdlibPkg("c02", "c02 harness functions")
			if err := stdlib.AddStdlibFunc("c02", "rec", recFunc{}); err != nil {
				panic(err)
			}
		}
	})
	s.failFirst = true // the interpreter enables fail-on-first-error for sinks
	src := ecalSource(s)
	c.Begin(0, stream, idx, src)
	defer c.End(0)
	tr := sched.NewTracer()
	rec := &ecalRec{tr: tr, begins: map[string][]int64{}, ends: map[string][]int64{}, ret: map[string]int64{}}
	curRecMu.Lock()
	curRec = rec
	curRecMu.Unlock()
	tr.SetNoise(noiseSeed, noise)
	tr.Install()
	defer sched.Uninstall()
	erp := interpreter.NewECALRuntimeProvider("c02", nil, util.NewMemoryLogger(10))
	defer func() { go erp.Cron.Stop() }()
	// worker count of the interpreter's processor is fixed by the provider
	lastView := ""
	detail := func() map[string]interface{} {
		return map[string]interface{}{"source": src, "trace_tail": traceTail(tr, 40), "view": lastView}
	}
	ast, err := parser.ParseWithRuntime("c02", src, erp)
	if err == nil {
		err = ast.Runtime.Validate()
	}
	if err != nil {
		c.Inconclusive("generated ECAL program rejected: "+err.Error(), stream, idx, detail())
		return
	}
	vs := scope.NewScope(scope.GlobalScope)
	type evalRes struct {
		err error
	}
	done := make(chan evalRes, 1)
	var gid uint64
	go func() {
		gid = sched.GoID()
		_, e := ast.Runtime.Eval(vs, make(map[string]interface{}), erp.NewThreadID())
		done <- evalRes{e}
	}()
	var er evalRes
	finished := false
	pool := erp.Processor.ThreadPool()
	for i := 0; i < 20000 && !finished; i++ {
		select {
		case er = <-done:
			finished = true
			continue
		default:
		}
		if i > 5 {
			seq0 := tr.Now()
			if st, view := sched.PoolStuck(tr, pool); st {
				dump := sched.Dump()
				gs := dump[gid].State
				lastView = fmt.Sprintf("live=%v last=%v pushed=%d signalled=%d tracelen=%d wc=%d evalstate=%s", view.LiveWorkers, view.LastPoint, view.Pushed, view.Signalled, view.TraceLen, pool.WorkerCount(), gs)
				if view.Pushed > 0 && sched.BlockedIn(dump, gid, waitStates, "AddEventAndWait") && strings.HasSuffix(sched.InnermostNonRuntime(dump, gid), ".AddEventAndWait") &&
					!sched.CanStep(dump, sched.GoID()) && tr.Now() == seq0 {
					select {
					case er = <-done:
						finished = true
						continue
					default:
					}
					c.Violation("stuck:ecal-addeventandwait", "ECAL addEventAndWait does not return: all workers parked in Cond.Wait, no AddTask in flight", stream, idx, detail())
					pool.WaitAll()
					select {
					case er = <-done:
						finished = true
						continue
					case <-time.After(2 * time.Second):
						// the notification is lost for good: the evaluating goroutine is left behind
						return
					}
				}
			}
		}
		if i < 100 {
			time50us()
		} else {
			time500us()
		}
	}
	if !finished {
		c.Inconclusive("ECAL program neither returned nor pool stuck", stream, idx, detail())
		return
	}
	erp.Processor.Finish()
	if er.err != nil {
		d := detail()
		d["error"] = er.err.Error()
		c.Violation("ecal-eval-error", "evaluating the sink program failed although every failure happens inside a sink", stream, idx, d)
		return
	}
	for k := 0; k < s.cascades; k++ {
		name := fmt.Sprintf("c%d", k)
		exp := expand(s, s.rootKind[k], name)
		rec.mu.Lock()
		ret := rec.ret[name]
		var late, missing, extra []string
		for key := range exp.invocations {
			if len(rec.begins[key]) != 1 {
				missing = append(missing, fmt.Sprintf("%s ran %d times", key, len(rec.begins[key])))
				continue
			}
			failed := exp.errors[key]
			_ = failed
			if len(rec.ends[key]) != 1 || rec.ends[key][0] > ret {
				late = append(late, key)
			}
		}
		for key := range rec.begins {
			if (strings.HasPrefix(key, name+"/") || strings.HasPrefix(key, name+"|")) && !exp.invocations[key] {
				extra = append(extra, key)
			}
		}
		rec.mu.Unlock()
		sort.Strings(late)
		sort.Strings(missing)
		sort.Strings(extra)
		d := detail()
		if len(late) > 0 {
			d["late"] = late
			c.Violation("ecal-late-action", "ECAL addEventAndWait returned before all sinks of its cascade had finished", stream, idx, d)
		}
		if len(missing) > 0 || len(extra) > 0 {
			d["missing"] = missing
			d["extra"] = extra
			c.Violation("ecal-actions", "sink invocations differ from the expected set", stream, idx, d)
		}
		// the error report as seen by the program
		v, _, _ := vs.GetValue(fmt.Sprintf("res%d", k))
		got := map[string]bool{}
		var bad []string
		if v != nil {
			lst, ok := v.([]interface{})
			if !ok {
				bad = append(bad, fmt.Sprintf("result is %T", v))
			}
			for _, it := range lst {
				m, _ := it.(map[interface{}]interface{})
				ev, _ := m["event"].(map[interface{}]interface{})
				st, _ := ev["state"].(map[interface{}]interface{})
				path := fmt.Sprint(st["path"])
				errs, _ := m["errors"].(map[interface{}]interface{})
				for rule, e := range errs {
					em, _ := e.(map[interface{}]interface{})
					key := path + "|" + fmt.Sprint(rule)
					if fmt.Sprint(em["type"]) != "E" || fmt.Sprint(em["detail"]) != key {
						bad = append(bad, fmt.Sprintf("%s: type=%v detail=%v", key, em["type"], em["detail"]))
						continue
					}
					if dl, ok := em["data"].([]interface{}); !ok || len(dl) != 1 || fmt.Sprint(dl[0]) != path {
						bad = append(bad, fmt.Sprintf("%s: data=%v", key, em["data"]))
						continue
					}
					if got[key] {
						bad = append(bad, "duplicate "+key)
					}
					got[key] = true
				}
			}
		}
		if len(bad) > 0 {
			d["bad"] = bad
			c.Violation("ecal-errors-foreign", "the report returned by addEventAndWait holds an entry that is not what that sink produced for that event", stream, idx, d)
		}
		if m := setDiff(exp.errors, got); len(m) > 0 {
			d["lost"] = m
			c.Violation("ecal-errors-lost", "failing (event, sink) pairs are missing from the report returned by addEventAndWait", stream, idx, d)
		}
		if m := setDiff(got, exp.errors); len(m) > 0 {
			d["unexpected"] = m
			c.Violation("ecal-errors-unexpected", "the report returned by addEventAndWait holds pairs that did not fail", stream, idx, d)
		}
		c.Event("ecal.cascade", 1)
		c.Event("ecal.actions", int64(len(exp.invocations)))
		c.Event("ecal.errors.expected", int64(len(exp.errors)))
	}
	c.Nontrivial(core.Hash64(src))
	for k, v := range tr.Counts() {
		c.Event(k, v)
	}
	if idx%53 == 0 {
		c.Sample(stream, map[string]interface{}{"source": src})
	}
}
