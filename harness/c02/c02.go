// Package c02 holds the runtime monitors for property C02 (see DESIGN.md section 4).
package c02

import "verif/harness/core"

func init() { core.Register("C02", Run) }

// Run is the check.
func Run(c *core.Ctx) {
}
