// Package c02 holds the runtime monitors for property C02: waiting on an
// event returns after its whole cascade, with exactly its errors (DESIGN.md 4, C02).
package c02

import (
	"fmt"
	"runtime"
	"sort"
	"strings"
	"sync"
	"sync/atomic"
	"time"

	"github.com/krotik/ecal/engine"

	"verif/harness/core"
	"verif/harness/sched"
)

func init() { core.Register("C02", Run) }

// ---- cascade scripts (data) --------------------------------------------------

type childScript struct {
	kind int // index into script.kinds; == len(kinds) means the dead (non-triggering) kind
	prio int
	late int // > 0: the child monitor is created inside the action, the event is added under it by a helper goroutine late microseconds after the action returned
}

type ruleScript struct {
	name     string
	prio     int
	fail     bool
	yields   int
	children []childScript
}

type script struct {
	kinds     [][]ruleScript
	failFirst bool
	workers   int
	cascades  int
	rootKind  []int
}

func kindName(i int) string { return fmt.Sprintf("k%d", i) }

func (s *script) String() string {
	var b strings.Builder
	fmt.Fprintf(&b, "workers=%d cascades=%d failfirst=%v roots=%v;", s.workers, s.cascades, s.failFirst, s.rootKind)
	for i, rs := range s.kinds {
		fmt.Fprintf(&b, " k%d:", i)
		for _, r := range rs {
			fmt.Fprintf(&b, "[%s p%d", r.name, r.prio)
			if r.fail {
				b.WriteString(" FAIL")
			}
			for _, c := range r.children {
				if c.kind == len(s.kinds) {
					fmt.Fprintf(&b, " +dead/p%d", c.prio)
				} else {
					fmt.Fprintf(&b, " +k%d/p%d", c.kind, c.prio)
				}
				if c.late > 0 {
					fmt.Fprintf(&b, "~late%d", c.late)
				}
			}
			b.WriteString("]")
		}
	}
	return b.String()
}

var prios = []int{0, 1, 2, 5, 9}

func genScript(r *core.Rand) *script {
	for {
		s := &script{}
		nk := r.Range(1, 5)
		s.failFirst = r.Bool()
		s.workers = r.OneOf(1, 1, 2, 2, 3, 4, 8, 16)
		s.cascades = r.OneOf(1, 1, 1, 2, 3, 8)
		maxFan := r.Range(1, 4)
		for i := 0; i < nk; i++ {
			nr := r.Range(1, 3)
			pp := r.Perm(len(prios))
			var rs []ruleScript
			for j := 0; j < nr; j++ {
				ru := ruleScript{name: fmt.Sprintf("r%dx%d", i, j), prio: prios[pp[j]], fail: r.Chance(1, 4), yields: r.Intn(4)}
				nc := 0
				if i < nk-1 || r.Chance(1, 3) {
					nc = r.Intn(maxFan + 1)
				}
				for c := 0; c < nc; c++ {
					k := nk // dead
					if i < nk-1 && !r.Chance(1, 5) {
						k = r.Range(i+1, nk-1)
					}
					ru.children = append(ru.children, childScript{kind: k, prio: prios[r.Intn(len(prios))]})
				}
				rs = append(rs, ru)
			}
			s.kinds = append(s.kinds, rs)
		}
		for c := 0; c < s.cascades; c++ {
			s.rootKind = append(s.rootKind, r.Intn((nk+1)/2))
		}
		// bound the size
		total := 0
		for c := 0; c < s.cascades; c++ {
			e := expand(s, s.rootKind[c], fmt.Sprintf("c%d", c))
			total += len(e.invocations)
		}
		if total <= 400 {
			return s
		}
	}
}

// ---- reference expansion ------------------------------------------------------

type expected struct {
	invocations map[string]bool // "path|rule"
	errors      map[string]bool // "path|rule"
	events      int
	skipped     int
}

func expand(s *script, kind int, path string) *expected {
	e := &expected{invocations: map[string]bool{}, errors: map[string]bool{}}
	expandInto(s, kind, path, e, 0)
	return e
}

func expandInto(s *script, kind int, path string, e *expected, depth int) {
	if depth > 12 || len(e.invocations) > 2000 {
		return
	}
	e.events++
	rs := append([]ruleScript{}, s.kinds[kind]...)
	sort.SliceStable(rs, func(i, j int) bool { return rs[i].prio < rs[j].prio })
	for _, r := range rs {
		e.invocations[path+"|"+r.name] = true
		for j, c := range r.children {
			if c.kind == len(s.kinds) {
				e.skipped++
				continue
			}
			expandInto(s, c.kind, fmt.Sprintf("%s/%s.%d", path, r.name, j), e, depth+1)
		}
		if r.fail {
			e.errors[path+"|"+r.name] = true
			if s.failFirst {
				break
			}
		}
	}
}

// ---- the run -----------------------------------------------------------------

type invocation struct {
	key        string
	begin, end int64
}

type runState struct {
	tr           *sched.Tracer
	mu           sync.Mutex
	invs         map[string][]*invocation // key -> invocations
	mons         []engine.Monitor
	skipMismatch []string
	obsPanics    []string // panics out of RootMonitor.AllErrors() called by the error observer
	obsCalls     int64
	latePending  int32 // events a helper goroutine still has to add under a child monitor that exists already
}

func (rs *runState) begin(key string) *invocation {
	inv := &invocation{key: key, begin: rs.tr.Stamp()}
	rs.mu.Lock()
	rs.invs[key] = append(rs.invs[key], inv)
	rs.mu.Unlock()
	return inv
}

func buildProcessor(s *script, rs *runState) engine.Processor {
	proc := engine.NewProcessor(s.workers)
	proc.SetFailOnFirstErrorInTriggerSequence(s.failFirst)
	// the error observer of an embedding host: it is told that a cascade has
	// new errors and reads the report (as the repository's own tests do). It
	// runs on the worker that reported the failure, next to the other workers.
	proc.SetRootMonitorErrorObserver(func(rm *engine.RootMonitor) {
		atomic.AddInt64(&rs.obsCalls, 1)
		if key, msg, panicked := core.Guard(func() { rm.AllErrors() }); panicked {
			rs.mu.Lock()
			if len(rs.obsPanics) < 4 {
				rs.obsPanics = append(rs.obsPanics, key+": "+firstLineOf(msg))
			}
			rs.mu.Unlock()
		}
	})
	dead := len(s.kinds)
	for i, rules := range s.kinds {
		for _, r := range rules {
			r := r
			rule := &engine.Rule{
				Name:       r.name,
				Desc:       "c02",
				KindMatch:  []string{"c02." + kindName(i)},
				ScopeMatch: []string{},
				Priority:   r.prio,
				Action: func(p engine.Processor, m engine.Monitor, e *engine.Event, tid uint64) error {
					path := e.State()["path"].(string)
					inv := rs.begin(path + "|" + r.name)
					for y := 0; y < r.yields; y++ {
						runtime.Gosched()
					}
					returned := make(chan struct{})
					defer close(returned)
					for j, ch := range r.children {
						j, ch := j, ch
						cm := m.NewChildMonitor(ch.prio)
						rs.mu.Lock()
						rs.mons = append(rs.mons, cm)
						rs.mu.Unlock()
						kn := kindName(ch.kind)
						if ch.kind == dead {
							kn = "dead"
						}
						ce := engine.NewEvent("e", []string{"c02", kn}, map[interface{}]interface{}{"path": fmt.Sprintf("%s/%s.%d", path, r.name, j)})
						add := func() {
							res, err := p.AddEvent(ce, cm)
							if err != nil || (res == nil) != (ch.kind == dead) {
								rs.mu.Lock()
								rs.skipMismatch = append(rs.skipMismatch, fmt.Sprintf("%s/%s.%d kind=%s monitor=%v err=%v", path, r.name, j, kn, res != nil, err))
								rs.mu.Unlock()
							}
						}
						if ch.late > 0 {
							// an asynchronous producer: the child monitor exists (and
							// belongs to the cascade) before the action returns, the
							// event arrives afterwards
							atomic.AddInt32(&rs.latePending, 1)
							go func() {
								<-returned
								if ch.late > 1 {
									time.Sleep(time.Duration(ch.late) * time.Microsecond)
								} else {
									runtime.Gosched()
								}
								add()
								atomic.AddInt32(&rs.latePending, -1)
							}()
							continue
						}
						add()
					}
					inv.end = rs.tr.Stamp()
					if r.fail {
						return fmt.Errorf("E|%s|%s", path, r.name)
					}
					return nil
				},
			}
			if err := proc.AddRule(rule); err != nil {
				panic(err)
			}
		}
	}
	return proc
}

type cascadeResult struct {
	idx          int
	ret          int64 // stamp at return of AddEventAndWait
	mon          engine.Monitor
	err          error
	rm           *engine.RootMonitor
	errsAtReturn map[string]bool
	foreign      []string
	dupErr       []string
	finishes     int32
	ownMon       bool   // the processor created the root monitor (AddEventAndWait(event, nil))
	gid          uint64 // goroutine of the waiter
	done         chan struct{}
}

func collectErrors(rm *engine.RootMonitor, cascade string) (map[string]bool, []string, []string) {
	got := map[string]bool{}
	var foreign, dup []string
	for _, te := range rm.AllErrors() {
		if te == nil {
			foreign = append(foreign, "nil TaskError")
			continue
		}
		path, _ := te.Event.State()["path"].(string)
		for rule, err := range te.ErrorMap {
			want := fmt.Sprintf("E|%s|%s", path, rule)
			k := path + "|" + rule
			if err == nil || err.Error() != want {
				foreign = append(foreign, fmt.Sprintf("entry (%s,%s) holds error %v", path, rule, err))
				continue
			}
			if !strings.HasPrefix(path, cascade+"/") && path != cascade {
				foreign = append(foreign, "entry of another cascade: "+k)
				continue
			}
			if got[k] {
				dup = append(dup, k)
			}
			got[k] = true
		}
	}
	return got, foreign, dup
}

func setDiff(a, b map[string]bool) []string {
	var r []string
	for k := range a {
		if !b[k] {
			r = append(r, k)
		}
	}
	sort.Strings(r)
	if len(r) > 6 {
		r = append(r[:6], fmt.Sprintf("... %d more", len(r)-6))
	}
	return r
}

// runScenario executes one script on the real engine and applies all oracles.
// gate may be nil.
func runScenario(c *core.Ctx, stream string, idx int, s *script, noise uint64, noiseSeed uint64, gate *sched.Gate) {
	desc := s.String()
	c.Begin(0, stream, idx, desc)
	defer c.End(0)
	tr := sched.NewTracer()
	tr.Collapse["pool.broadcast"] = true
	rs := &runState{tr: tr, invs: map[string][]*invocation{}}
	proc := buildProcessor(s, rs)
	pool := proc.ThreadPool()
	tr.SetNoise(noiseSeed, noise)
	tr.Install()
	defer sched.Uninstall()
	proc.Start()
	if gate != nil {
		tr.AddGate(gate)
	}
	results := make([]*cascadeResult, s.cascades)
	for k := 0; k < s.cascades; k++ {
		cr := &cascadeResult{idx: k, done: make(chan struct{})}
		results[k] = cr
		// every fifth cascade lets the processor create the root monitor itself
		// (AddEventAndWait(event, nil)); there is no finish handler to count then
		cr.ownMon = k%5 == 4
		if !cr.ownMon {
			cr.rm = proc.NewRootMonitor(nil, nil)
			cr.rm.SetFinishHandler(func(engine.Processor) { atomic.AddInt32(&cr.finishes, 1) })
			rs.mu.Lock()
			rs.mons = append(rs.mons, cr.rm)
			rs.mu.Unlock()
		}
		go func(k int) {
			defer close(cr.done)
			atomic.StoreUint64(&cr.gid, sched.GoID())
			name := fmt.Sprintf("c%d", k)
			ev := engine.NewEvent("e", []string{"c02", kindName(s.rootKind[k])}, map[interface{}]interface{}{"path": name})
			cr.mon, cr.err = proc.AddEventAndWait(ev, cr.rm)
			cr.ret = tr.Stamp()
			if cr.ownMon {
				if cr.mon == nil {
					cr.rm = proc.NewRootMonitor(nil, nil) // (reported below as a missing monitor)
				} else {
					cr.rm = cr.mon.RootMonitor()
					rs.mu.Lock()
					rs.mons = append(rs.mons, cr.rm)
					rs.mu.Unlock()
				}
			}
			// what a caller sees right after the wait returned
			cr.errsAtReturn, cr.foreign, cr.dupErr = collectErrors(cr.rm, name)
		}(k)
	}
	// wait for all cascades, or a stuck state
	allDone := func() bool {
		for _, cr := range results {
			select {
			case <-cr.done:
			default:
				return false
			}
		}
		return true
	}
	verdict := "inconclusive"
	gateForced := false
	for i := 0; i < 20000; i++ {
		if allDone() {
			verdict = "done"
			break
		}
		if gate != nil && gate.Holding() && i > 400 && !gateForced {
			// the partner cannot reach its point while the holder is held
			// (or needs much longer): open the gate, record as infeasible
			gate.Release()
			gateForced = true
		}
		if i > 5 && (gate == nil || !gate.Holding()) {
			// all parts of the predicate must describe ONE moment: the logical
			// clock (every hook event and stamp moves it) must not move from
			// before the pool view until after the waiters were inspected
			seq0 := tr.Now()
			if st, _ := sched.PoolStuck(tr, pool); st && atomic.LoadInt32(&rs.latePending) == 0 && waitersBlocked(results) && tr.Now() == seq0 && !allDone() {
				verdict = "stuck"
				break
			}
		}
		if i < 100 {
			time.Sleep(50 * time.Microsecond)
		} else {
			time.Sleep(500 * time.Microsecond)
		}
	}
	detail := func() map[string]interface{} {
		return map[string]interface{}{"script": desc, "trace_tail": traceTail(tr, 50)}
	}
	if gate != nil {
		tr.ClearGates()
		if gate.WasHeld() && gate.Released != 0 {
			c.Event("gate.feasible", 1)
			c.NontrivialKey("gate|" + gate.HoldPoint + "|" + gate.UntilPoint + "|" + desc)
		} else {
			c.Event("gate.infeasible", 1)
		}
	}
	switch verdict {
	case "stuck":
		key := "stuck:addeventandwait"
		if gate != nil {
			key = fmt.Sprintf("stuck:%s->%s", gate.HoldPoint, gate.UntilPoint)
		}
		c.Violation(key, "AddEventAndWait does not return: all workers parked in Cond.Wait, no AddTask in flight, cascade unfinished", stream, idx, detail())
		// outside help so that the scenario can be torn down
		pool.WaitAll()
		for i := 0; i < 2000 && !allDone(); i++ {
			time.Sleep(time.Millisecond)
		}
		if !allDone() {
			return
		}
	case "inconclusive":
		c.Inconclusive("cascades neither returned nor pool stuck", stream, idx, detail())
		return
	}
	// ---- oracles at return time
	for k, cr := range results {
		name := fmt.Sprintf("c%d", k)
		exp := expand(s, s.rootKind[k], name)
		if cr.mon == nil || cr.err != nil {
			c.Violation("wait-result", fmt.Sprintf("AddEventAndWait returned monitor=%v err=%v for a triggering event", cr.mon != nil, cr.err), stream, idx, detail())
			continue
		}
		// (1) no action of the cascade ends after the return; exactly the expected invocations
		rs.mu.Lock()
		late, missing, extra, dup := []string{}, []string{}, []string{}, []string{}
		for key := range exp.invocations {
			invs := rs.invs[key]
			if len(invs) == 0 {
				missing = append(missing, key)
				continue
			}
			if len(invs) > 1 {
				dup = append(dup, key)
			}
			for _, inv := range invs {
				if inv.end == 0 || inv.end > cr.ret {
					late = append(late, fmt.Sprintf("%s (end stamp %d, return stamp %d)", key, inv.end, cr.ret))
				}
			}
		}
		for key := range rs.invs {
			if (strings.HasPrefix(key, name+"/") || strings.HasPrefix(key, name+"|")) && !exp.invocations[key] {
				extra = append(extra, key)
			}
		}
		rs.mu.Unlock()
		sort.Strings(late)
		sort.Strings(missing)
		sort.Strings(extra)
		d := detail()
		if len(late) > 0 {
			d["late"] = late
			c.Violation("late-action", fmt.Sprintf("AddEventAndWait returned before %d action(s) of its cascade had returned", len(late)), stream, idx, d)
		}
		if len(missing) > 0 {
			d["missing"] = missing
			c.Violation("action-missing", fmt.Sprintf("%d expected rule invocation(s) never ran although the wait returned", len(missing)), stream, idx, d)
		}
		if len(extra) > 0 || len(dup) > 0 {
			d["extra"] = extra
			d["dup"] = dup
			c.Violation("action-extra", "rule invocations outside the expected set (or repeated)", stream, idx, d)
		}
		// (4) error report
		if len(cr.foreign) > 0 {
			d["foreign"] = cr.foreign
			c.Violation("errors-foreign", "error report holds an entry that does not belong to this (event, rule) / cascade", stream, idx, d)
		}
		if len(cr.dupErr) > 0 {
			d["dup"] = cr.dupErr
			c.Violation("errors-duplicate", "error report holds an (event, rule) entry twice", stream, idx, d)
		}
		if m := setDiff(exp.errors, cr.errsAtReturn); len(m) > 0 {
			d["lost"] = m
			c.Violation("errors-lost", fmt.Sprintf("%d failing (event, rule) pair(s) are missing from the error report when the wait returns", len(m)), stream, idx, d)
		}
		if m := setDiff(cr.errsAtReturn, exp.errors); len(m) > 0 {
			d["unexpected"] = m
			c.Violation("errors-unexpected", "error report holds (event, rule) pairs that did not fail", stream, idx, d)
		}
		c.Event("cascade", 1)
		c.Event("actions", int64(len(exp.invocations)))
		c.Event("errors.expected", int64(len(exp.errors)))
		c.Event("children.skipped", int64(exp.skipped))
	}
	// ---- oracles at quiescence
	for i := 0; i < 4000 && atomic.LoadInt32(&rs.latePending) > 0; i++ {
		// (only on a tree where the wait returned too early) let the helper
		// goroutines add their events before the processor is stopped
		time.Sleep(500 * time.Microsecond)
	}
	proc.Finish()
	for k, cr := range results {
		if n := atomic.LoadInt32(&cr.finishes); n != 1 && !cr.ownMon {
			c.Violation(fmt.Sprintf("finish-handler-count:%d", min(int(n), 2)), fmt.Sprintf("finish handler of cascade c%d ran %d times", k, n), stream, idx, detail())
		}
		if cr.rm == nil {
			continue
		}
		got, _, _ := collectErrors(cr.rm, fmt.Sprintf("c%d", k))
		if len(setDiff(got, cr.errsAtReturn)) > 0 || len(setDiff(cr.errsAtReturn, got)) > 0 {
			c.Violation("errors-changed-after-return", "the error report changed after the wait had returned", stream, idx, detail())
		}
	}
	rs.mu.Lock()
	unfinished := 0
	for _, m := range rs.mons {
		if f, ok := m.(interface{ IsFinished() bool }); ok && !f.IsFinished() {
			unfinished++
		}
	}
	nm := len(rs.mons)
	sm := rs.skipMismatch
	op := rs.obsPanics
	rs.mu.Unlock()
	c.Event("error-observer.calls(AllErrors read next to running workers)", atomic.LoadInt64(&rs.obsCalls))
	if len(op) > 0 {
		d := detail()
		d["panics"] = op
		c.Violation("error-observer:allerrors-panics", "RootMonitor.AllErrors() called by the root monitor error observer panicked: "+op[0], stream, idx, d)
	}
	if unfinished > 0 {
		c.Violation("monitor-unfinished", fmt.Sprintf("%d of %d monitors handed to the processor are not finished at quiescence", unfinished, nm), stream, idx, detail())
	}
	if len(sm) > 0 {
		d := detail()
		d["mismatch"] = sm
		c.Violation("child-skip-mismatch", "AddEvent on a child monitor returned a monitor for a non-triggering event or none for a triggering one", stream, idx, d)
	}
	c.Event("monitors", int64(nm))
	c.Nontrivial(sched.Signature(tr.Snapshot(), func(p string) bool { return !strings.HasPrefix(p, "pool.broadcast") }))
	for k, v := range tr.Counts() {
		c.Event(k, v)
	}
	if idx%101 == 0 {
		c.Sample(stream, map[string]interface{}{"script": desc, "trace_tail": traceTail(tr, 10)})
	}
}

// waitersBlocked tells whether every waiter that has not returned is blocked
// inside the wait itself, i.e. is not merely on its way in or out: its
// innermost frame outside runtime/sync is AddEventAndWait and the scheduler
// reports it waiting for a semaphore, a channel or a condition (whatever the
// implementation waits on). In the same dump no other goroutine may be able to
// take a step (a goroutine outside the pool could be the one that is going to
// deliver the notification).
func waitersBlocked(results []*cascadeResult) bool {
	d := sched.Dump() // state and stack from the same dump
	if sched.CanStep(d, sched.GoID()) {
		return false
	}
	for _, cr := range results {
		select {
		case <-cr.done:
			continue
		default:
		}
		g := atomic.LoadUint64(&cr.gid)
		if g == 0 || !sched.BlockedIn(d, g, waitStates, "AddEventAndWait") {
			return false
		}
		if !strings.HasSuffix(sched.InnermostNonRuntime(d, g), ".AddEventAndWait") {
			return false
		}
	}
	return true
}

var waitStates = []string{"semacquire", "sync.WaitGroup.Wait", "chan receive", "select", "sync.Cond.Wait", "chan receive (nil chan)", "select (no cases)"}

func traceTail(tr *sched.Tracer, n int) []string {
	evs := tr.Snapshot()
	if len(evs) > n {
		evs = evs[len(evs)-n:]
	}
	var out []string
	for _, e := range evs {
		extra := ""
		for _, a := range e.Args {
			switch v := a.(type) {
			case *engine.Event:
				if p, ok := v.State()["path"]; ok {
					extra += fmt.Sprint(" ", p)
				}
			case int, bool, uint64, string:
				extra += fmt.Sprint(" ", v)
			}
		}
		out = append(out, fmt.Sprintf("%d g%d %s%s", e.Seq, e.G, e.Point, extra))
	}
	return out
}

func time50us()  { time.Sleep(50 * time.Microsecond) }
func time500us() { time.Sleep(500 * time.Microsecond) }

// ---- gate matrix ---------------------------------------------------------------

var holdPoints = []string{"mon.finish.unlocked", "mon.posted", "task.run.begin", "task.run.processed", "task.run.end",
	"task.err.begin", "task.err.seterrors", "task.err.finished", "pool.get.empty", "pool.worker.loop", "pool.get.popped", "pool.idle.beforewait",
	// the adding goroutine (first AddTask of a scenario is the root event's) between queueing / signalling and its wait
	"pool.add.pushed", "pool.add.signalled"}
var untilPoints = []string{"mon.created.locked", "mon.activated.locked", "mon.finish.locked", "mon.finish.unlocked", "mon.posted",
	"task.run.begin", "task.run.processed", "task.err.seterrors", "task.err.finished", "pool.get.empty", "pool.add.signalled", "tq.push", "tq.pop"}

func gateShapes() []*script {
	mk := func(w int, ff bool, kinds [][]ruleScript) *script {
		return &script{kinds: kinds, failFirst: ff, workers: w, cascades: 1, rootKind: []int{0}}
	}
	// shape A: root adds two children, one fails; shape B: chain of depth 3 with a failing leaf and a skipped child
	a := [][]ruleScript{
		{{name: "r0x0", prio: 0, children: []childScript{{kind: 1, prio: 1}, {kind: 1, prio: 2}, {kind: 2, prio: 0}}}},
		{{name: "r1x0", prio: 1, fail: true}, {name: "r1x1", prio: 2}},
	}
	b := [][]ruleScript{
		{{name: "r0x0", prio: 0, fail: true, children: []childScript{{kind: 1, prio: 0}}}, {name: "r0x1", prio: 5, children: []childScript{{kind: 3, prio: 0}}}},
		{{name: "r1x0", prio: 0, children: []childScript{{kind: 2, prio: 2}, {kind: 3, prio: 1}}}},
		{{name: "r2x0", prio: 9, fail: true}},
	}
	return []*script{mk(2, false, a), mk(2, true, b), mk(3, false, b), mk(1, false, a)}
}

// capped: a tree on which waits do not return costs seconds per case; after
// 60 violations in one process the rest of a stream is skipped (recorded as
// inconclusive, the violations found stay reported).
func capped(c *core.Ctx, stream string, idx int) bool {
	if c.Violations() < 60 || c.Replay() {
		return false
	}
	c.Inconclusive("remaining cases of the stream skipped after 60 violations in this process", stream, idx, nil)
	return true
}

// Run is the check.
func Run(c *core.Ctx) {
	c.Note("rule", "cascade scripts are data (per event kind a list of rules with priority, fail flag, yields and child events with priorities, incl. non-triggering children); an independent expansion gives the expected (event, rule) invocations and failures (respecting fail-on-first-error); the real engine runs them with harness closures as actions, 1..16 workers, 1..8 cascades in flight from separate goroutines; streams: 'gate' = 4 fixed shapes x 14 hold points (12 on workers, 2 on the adding goroutine between AddTask and its wait) x 13 partner points (one goroutine held at the hold point until another passed the partner point; infeasible pairs are released), 'nested' = rule actions that wait for a nested cascade of their own (fan < workers) with a stuck predicate that accepts workers blocked in a nested wait, 'late' = random scripts in which half of the child events are added by a helper goroutine after the action that created their monitor has returned (asynchronous producer; the wait still has to cover them), 'latehandler' = AddEvent(event, nil) without wait, the finish handler installed on the returned monitor while the root action is still running (1..4 workers, 0..3 children, failing root, a second awaited cascade), judged at quiescence, 'ecal' = the same scripts as ECAL sinks awaited with the built-in addEventAndWait, 'noise' = seeded random scripts with random yields/sleeps at the lock-free hook points, also under -race; every processor carries a root monitor error observer that reads AllErrors() on the reporting worker; oracles: no panic out of that read, stamps of action ends vs. return of AddEventAndWait, exactly-once invocation table, AllErrors() at return time and again at quiescence vs. expected failures, finish-handler count, IsFinished of every monitor handed out, stuck-state predicate for a wait that cannot return; non-trivial/distinct = distinct interleaving signatures of the hook trace and feasible gate cases")
	shapes := gateShapes()
	i := 0
	for si, sh := range shapes {
		for _, h := range holdPoints {
			for _, u := range untilPoints {
				idx := i
				i++
				if !c.Take("gate", idx) {
					continue
				}
				_ = si
				g := sched.NewGate(h, u)
				runScenario(c, "gate", idx, sh, 0, 0, g)
			}
		}
	}
	n := c.Pick(8000, 150000)
	if c.Race {
		n = c.Pick(2500, 30000)
	}
	for k := 0; k < n; k++ {
		if capped(c, "noise", k) {
			break
		}
		if !c.Take("noise", k) {
			continue
		}
		r := c.Rng("noise", k)
		s := genScript(r)
		runScenario(c, "noise", k, s, uint64(r.OneOf(0, 100, 300, 700)), r.U64(), nil)
	}
	n = c.Pick(1500, 20000)
	if c.Race {
		n = c.Pick(400, 3000)
	}
	for k := 0; k < n; k++ {
		if capped(c, "nested", k) {
			break
		}
		if c.Take("nested", k) {
			runNested(c, k)
		}
	}
	// asynchronous producers: some children get their monitor inside the action
	// and their event only after the action returned
	n = c.Pick(2500, 40000)
	if c.Race {
		n = c.Pick(600, 6000)
	}
	for k := 0; k < n; k++ {
		if capped(c, "late", k) {
			break
		}
		if !c.Take("late", k) {
			continue
		}
		r := c.Rng("late", k)
		s := genScript(r)
		nl := 0
		for _, rules := range s.kinds {
			for ri := range rules {
				for ci := range rules[ri].children {
					if r.Chance(1, 2) {
						rules[ri].children[ci].late = r.OneOf(1, 1, 20, 100, 400)
						nl++
					}
				}
			}
		}
		if nl == 0 {
			continue
		}
		c.Event("late.children", int64(nl))
		runScenario(c, "late", k, s, uint64(r.OneOf(0, 100, 300)), r.U64(), nil)
	}
	n = c.Pick(400, 4000)
	for k := 0; k < n; k++ {
		if capped(c, "latehandler", k) {
			break
		}
		if c.Take("latehandler", k) {
			runLateHandler(c, k)
		}
	}
	n = c.Pick(1500, 20000)
	if c.Race {
		n = c.Pick(500, 4000)
	}
	for k := 0; k < n; k++ {
		if capped(c, "ecal", k) {
			break
		}
		if !c.Take("ecal", k) {
			continue
		}
		r := c.Rng("ecal", k)
		s := genScript(r)
		runEcal(c, "ecal", k, s, uint64(r.OneOf(0, 100, 300, 700)), r.U64())
	}
}

func firstLineOf(s string) string {
	for i := 0; i < len(s); i++ {
		if s[i] == '\n' {
			return s[:i]
		}
	}
	return s
}
