// Package c11kit holds the plumbing shared by the C11 and C12 checks: building
// an ECAL runtime provider with a chosen worker count, a pool "kicker" that
// keeps a lost pool wake-up (a C09 matter) from freezing a scenario, and a
// goroutine dump parser used for stuck-state witnesses. It contains no oracle.
package c11kit

import (
	"fmt"
	"regexp"
	"strconv"
	"strings"
	"sync"
	"sync/atomic"
	"time"

	"github.com/krotik/ecal/engine"
	"github.com/krotik/ecal/interpreter"
	"github.com/krotik/ecal/parser"
	"github.com/krotik/ecal/scope"
	"github.com/krotik/ecal/util"

	"verif/harness/sched"
)

// Env is one interpreter instance with its global scope.
type Env struct {
	Erp     *interpreter.ECALRuntimeProvider
	VS      parser.Scope
	Workers int
	started bool
}

// NewEnv creates a provider whose processor has `workers` workers, evaluates
// the program text once on the calling goroutine (declaring functions, sinks
// and globals) and leaves the processor stopped.
func NewEnv(name, src string, workers int, failFirst bool) (*Env, error) {
	erp := interpreter.NewECALRuntimeProvider(name, nil, util.NewMemoryLogger(8))
	// the provider was created with the configured default worker count; the
	// processor is a public field and has not been started: replace it
	erp.Processor = engine.NewProcessor(workers)
	erp.Processor.SetFailOnFirstErrorInTriggerSequence(failFirst)
	erp.Processor.ThreadPool().TooManyCallback = func() {}
	e := &Env{Erp: erp, VS: scope.NewScope(scope.GlobalScope), Workers: workers}
	ast, err := parser.ParseWithRuntime(name, src, erp)
	if err != nil {
		e.Close()
		return nil, fmt.Errorf("parse: %v", err)
	}
	if err = ast.Runtime.Validate(); err != nil {
		e.Close()
		return nil, fmt.Errorf("validate: %v", err)
	}
	if _, err = ast.Runtime.Eval(e.VS, make(map[string]interface{}), erp.NewThreadID()); err != nil {
		e.Close()
		return nil, fmt.Errorf("eval: %v", err)
	}
	return e, nil
}

// Start starts the processor.
func (e *Env) Start() {
	e.Erp.Processor.Start()
	e.started = true
}

// Finish drains and stops the processor (must not be called when workers are
// known to be blocked for good).
func (e *Env) Finish() {
	if e.started {
		e.Erp.Processor.Finish()
		e.started = false
	}
}

// CronStopsAbandoned counts Cron.Stop calls that did not return (see Close).
var CronStopsAbandoned int64

// Close stops the cron goroutine of the provider. krotik/common's Cron.Stop
// sends on the stop channel while holding the cron lock; when the cron
// goroutine's one-second tick fires at that moment it waits for the same lock
// and both block for ever (seen once in a race-build run under load). That is
// outside /repo and outside C11/C12, so Stop runs on a helper goroutine and is
// abandoned (two parked goroutines are left behind) if it does not come back.
func (e *Env) Close() {
	done := make(chan struct{})
	go func() {
		e.Erp.Cron.Stop()
		close(done)
	}()
	select {
	case <-done:
	case <-time.After(3 * time.Second):
		atomic.AddInt64(&CronStopsAbandoned, 1)
	}
}

// Compile parses and validates a small program against the provider.
func (e *Env) Compile(name, src string) (*parser.ASTNode, error) {
	ast, err := parser.ParseWithRuntime(name, src, e.Erp)
	if err != nil {
		return nil, err
	}
	if err = ast.Runtime.Validate(); err != nil {
		return nil, err
	}
	return ast, nil
}

// Kicker watches the pool for the symptom of a lost wake-up (tasks queued
// while a worker sits idle, on two looks 40 ms apart) and then makes the pool
// broadcast (WaitAll on a helper goroutine). Pool liveness is C09's property;
// the checks using the kicker only need their own scenario to keep going. The
// number of kicks is reported as an observed event.
type Kicker struct {
	stop  chan struct{}
	done  chan struct{}
	kicks int64
	busy  int32
}

// StartKicker starts watching the processor's pool.
func StartKicker(p engine.Processor) *Kicker {
	k := &Kicker{stop: make(chan struct{}), done: make(chan struct{})}
	tp := p.ThreadPool()
	symptom := func() bool {
		st := tp.State()
		q, _ := st["TaskQueueSize"].(int)
		idle, _ := st["IdleWorkerThreads"].([]uint64)
		return q > 0 && len(idle) > 0
	}
	go func() {
		defer close(k.done)
		seen := 0
		for {
			select {
			case <-k.stop:
				return
			case <-time.After(20 * time.Millisecond):
			}
			if symptom() {
				seen++
			} else {
				seen = 0
			}
			if seen >= 3 && atomic.CompareAndSwapInt32(&k.busy, 0, 1) {
				seen = 0
				atomic.AddInt64(&k.kicks, 1)
				go func() {
					tp.WaitAll()
					atomic.StoreInt32(&k.busy, 0)
				}()
			}
		}
	}()
	return k
}

// Stop ends the watcher and returns the number of kicks.
func (k *Kicker) Stop() int64 {
	close(k.stop)
	<-k.done
	return atomic.LoadInt64(&k.kicks)
}

// G is one goroutine of a full stack dump.
type G struct {
	ID     uint64
	State  string   // "running", "sync.Mutex.Lock", "sync.Cond.Wait", "sleep", ...
	Frames []string // function names, innermost first
}

var gHead = regexp.MustCompile(`^goroutine (\d+) \[([^\],]+)`)

// Dump parses the stacks of all goroutines.
func Dump() []G {
	txt := sched.FullDump()
	var res []G
	for _, blk := range strings.Split(txt, "\n\n") {
		lines := strings.Split(strings.TrimSpace(blk), "\n")
		if len(lines) == 0 {
			continue
		}
		m := gHead.FindStringSubmatch(lines[0])
		if m == nil {
			continue
		}
		id, _ := strconv.ParseUint(m[1], 10, 64)
		g := G{ID: id, State: m[2]}
		for _, l := range lines[1:] {
			if strings.HasPrefix(l, "\t") || strings.HasPrefix(l, " ") || l == "" {
				continue
			}
			if strings.HasPrefix(l, "created by ") {
				g.Frames = append(g.Frames, strings.Fields(strings.TrimPrefix(l, "created by "))[0])
				continue
			}
			if i := strings.LastIndex(l, "("); i > 0 {
				l = l[:i]
			}
			g.Frames = append(g.Frames, l)
		}
		res = append(res, g)
	}
	return res
}

// Has tells whether some frame of g contains sub.
func (g *G) Has(sub string) bool {
	for _, f := range g.Frames {
		if strings.Contains(f, sub) {
			return true
		}
	}
	return false
}

// FirstWith returns the index of the innermost frame containing sub, or -1.
func (g *G) FirstWith(sub string) int {
	for i, f := range g.Frames {
		if strings.Contains(f, sub) {
			return i
		}
	}
	return -1
}

// BlockedInEcalMutex tells whether g is parked acquiring the sync.Mutex of a
// `mutex` block: scheduler state "sync.Mutex.Lock" with a sync.(*Mutex).Lock
// frame, and the innermost non-runtime/sync frame is mutexRuntime.Eval.
func (g *G) BlockedInEcalMutex() bool {
	if !g.inSyncLock() {
		return false
	}
	for _, f := range g.Frames {
		if strings.HasPrefix(f, "sync.") || strings.HasPrefix(f, "runtime.") || strings.HasPrefix(f, "internal/") {
			continue
		}
		return strings.Contains(f, "interpreter.(*mutexRuntime).Eval")
	}
	return false
}

// InInterpreter tells whether g has a frame of the ECAL interpreter.
func (g *G) InInterpreter() bool { return g.Has("github.com/krotik/ecal/interpreter.") }

// IsPoolWorker tells whether g is a worker of an ECAL thread pool.
func (g *G) IsPoolWorker() bool { return g.Has("pool.(*ThreadPoolWorker).run") }

// Once is a tiny helper: first caller wins.
type Once struct {
	m    sync.Mutex
	done map[string]bool
}

// First reports true the first time key is seen.
func (o *Once) First(key string) bool {
	o.m.Lock()
	defer o.m.Unlock()
	if o.done == nil {
		o.done = map[string]bool{}
	}
	if o.done[key] {
		return false
	}
	o.done[key] = true
	return true
}

// GoroutineSet returns the ids of all goroutines that exist now.
func GoroutineSet() map[uint64]bool {
	res := map[uint64]bool{}
	for id := range sched.GoStates() {
		res[id] = true
	}
	return res
}

// inSyncLock tells whether g is parked acquiring a sync.Mutex / sync.RWMutex:
// the scheduler's wait reason names the lock operation (the generic
// "semacquire" is NOT accepted: the runtime also uses it for its own
// semaphores, e.g. while a goroutine waits for a GC phase) and the stack has
// the matching sync frame.
func (g *G) inSyncLock() bool {
	switch g.State {
	case "sync.Mutex.Lock":
		return g.Has("sync.(*Mutex).Lock")
	case "sync.RWMutex.Lock":
		return g.Has("sync.(*RWMutex).Lock")
	case "sync.RWMutex.RLock":
		return g.Has("sync.(*RWMutex).RLock")
	}
	return false
}

// lockTakenByEcal tells whether the innermost frame below the sync/runtime
// frames is krotik/ecal code, i.e. the lock being acquired is one of ecal's
// own and not one of the harness or of a library.
func (g *G) lockTakenByEcal() bool {
	for _, f := range g.Frames {
		if strings.HasPrefix(f, "sync.") || strings.HasPrefix(f, "runtime.") || strings.HasPrefix(f, "internal/") {
			continue
		}
		return strings.HasPrefix(f, "github.com/krotik/ecal/")
	}
	return false
}

// LockStuck evaluates a stuck-state witness on one dump: among the goroutines
// that did not exist before the scenario (pre), every one that is executing
// ECAL interpreter or scope code is parked in a lock acquisition, and there is
// at least one. Goroutines waiting on anything else (a harness gate, a sleep,
// a condition variable) make the predicate false, and so does ANY goroutine of
// the scenario - with or without interpreter frames - that is running,
// runnable or in a system call in the same dump (it may be the lock holder). frame is the innermost
// krotik/ecal frame of one of the parked goroutines.
func LockStuck(pre map[uint64]bool) (stuck bool, frame string, parked int) {
	stuck, frame, parked, _ = LockStuckStacks(pre)
	return
}

// LockStuckStacks is LockStuck plus the stacks of the parked goroutines.
func LockStuckStacks(pre map[uint64]bool) (stuck bool, frame string, parked int, stacks []string) {
	self := sched.GoID()
	for _, g := range Dump() {
		if pre[g.ID] || g.ID == self {
			continue
		}
		// A lock somebody is parked on is held by SOME goroutine of the scenario,
		// not necessarily one inside interpreter or scope code (a pool worker in
		// getTask, the kicker inside ThreadPool.State()). As long as any of them
		// can still take a step - on a processor, waiting for one, or inside a
		// system call - the lock may be released in the next instant, however
		// long the machine keeps that goroutine off the processor.
		switch g.State {
		case "running", "runnable", "syscall", "IO wait":
			return false, "", 0, nil
		}
		i := g.FirstWith("github.com/krotik/ecal/interpreter.")
		if j := g.FirstWith("github.com/krotik/ecal/scope."); j >= 0 && (i < 0 || j < i) {
			i = j
		}
		if i < 0 {
			continue
		}
		if !g.inSyncLock() || !g.lockTakenByEcal() {
			return false, "", 0, nil
		}
		parked++
		if frame == "" {
			frame = strings.TrimPrefix(g.Frames[i], "github.com/krotik/")
		}
		if len(stacks) < 8 {
			fr := g.Frames
			if len(fr) > 14 {
				fr = fr[:14]
			}
			stacks = append(stacks, fmt.Sprintf("goroutine %d [%s]: %s", g.ID, g.State, strings.Join(fr, " <- ")))
		}
	}
	return parked > 0, frame, parked, stacks
}

// WaitDone waits for done. While the progress counter stands still it
// evaluates the stuck predicate; three consecutive confirmations without
// progress give "stuck". The bound only limits how long we poll ("timeout" is
// an inconclusive outcome, never a verdict).
func WaitDone(done <-chan struct{}, progress func() int64, stuck func() (bool, string), bound time.Duration) (string, string) {
	end := time.Now().Add(bound)
	var last int64 = -1
	conf := 0
	tick := time.NewTicker(5 * time.Millisecond)
	defer tick.Stop()
	for {
		select {
		case <-done:
			return "done", ""
		case <-tick.C:
		}
		if p := progress(); p != last {
			last, conf = p, 0
			continue
		}
		if ok, why := stuck(); ok {
			conf++
			if conf >= 3 {
				return "stuck", why
			}
		} else {
			conf = 0
		}
		if time.Now().After(end) {
			return "timeout", ""
		}
	}
}
