// Package main is a real Go plugin (go build -buildmode=plugin) loaded by the
// C19 check through the repository's own stdlib.AddStdlibPluginFunc /
// stdlib.LoadStdlibPlugins. Every exported variable conforms to
// util.ECALPluginFunction.
package main

import (
	"errors"
	"fmt"
)

type fn struct {
	run func(args []interface{}) (interface{}, error)
	doc string
}

func (f fn) Run(args []interface{}) (interface{}, error) { return f.run(args) }
func (f fn) DocString() string                           { return f.doc }

// PlCount returns the number of arguments as a Go int.
var PlCount = fn{func(a []interface{}) (interface{}, error) { return len(a), nil }, "count"}

// PlCountFloat returns the number of arguments as a float64.
var PlCountFloat = fn{func(a []interface{}) (interface{}, error) { return float64(len(a)), nil }, "countfloat"}

// PlEcho returns its arguments (nil for none, the value for one, the list otherwise).
var PlEcho = fn{func(a []interface{}) (interface{}, error) {
	switch len(a) {
	case 0:
		return nil, nil
	case 1:
		return a[0], nil
	}
	return append([]interface{}(nil), a...), nil
}, "echo"}

// PlError always returns a partial result and an error.
var PlError = fn{func(a []interface{}) (interface{}, error) { return "partial", errors.New("plugin failed") }, "error"}

// PlPanicIndex panics with a runtime error unless it gets more than five arguments.
var PlPanicIndex = fn{func(a []interface{}) (interface{}, error) { return a[5], nil }, "panicindex"}

// PlPanicOdd panics with a custom value when called with an odd number of
// arguments and returns the count otherwise.
var PlPanicOdd = fn{func(a []interface{}) (interface{}, error) {
	if len(a)%2 == 1 {
		panic(fmt.Sprintf("odd number of arguments: %d", len(a)))
	}
	return float64(len(a)), nil
}, "panicodd"}

// PlSum adds the numeric arguments and fails on anything else.
var PlSum = fn{func(a []interface{}) (interface{}, error) {
	s := 0.0
	for i, x := range a {
		f, ok := x.(float64)
		if !ok {
			return nil, fmt.Errorf("argument %d is not a number", i+1)
		}
		s += f
	}
	return s, nil
}, "sum"}

// NotAFunction does not conform to util.ECALPluginFunction.
var NotAFunction = 5
