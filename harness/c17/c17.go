// Package c17 monitors the file import locator: every Resolve either fails or
// returns the content of a file lexically inside the root (DESIGN.md, C17).
package c17

import (
	"sort"
	"bufio"
	"fmt"
	"os"
	"os/exec"
	"path/filepath"
	"regexp"
	"strings"

	"github.com/krotik/ecal/interpreter"
	"github.com/krotik/ecal/parser"
	"github.com/krotik/ecal/scope"
	"github.com/krotik/ecal/util"

	"verif/harness/core"
)

func init() { core.Register("C17", Run) }

// refResolve is the reference: segment-stack resolution of an absolute path
// string. It shares no code with path/filepath.
func refResolve(abs string) []string {
	var st []string
	for _, seg := range strings.Split(abs, "/") {
		switch seg {
		case "", ".":
		case "..":
			if len(st) > 0 {
				st = st[:len(st)-1]
			}
		default:
			st = append(st, seg)
		}
	}
	return st
}

func hasPrefix(p, root []string) bool {
	if len(p) < len(root) {
		return false
	}
	for i := range root {
		if p[i] != root[i] {
			return false
		}
	}
	return true
}

var segs = []string{"in.ecal", "sub", ".", "..", "", "..x", "a b", "rootx", "root"}

type layout struct {
	base      string
	sentinels map[string]string // joined segment path -> content
}

func mkLayout(dir string) (*layout, error) {
	l := &layout{base: dir, sentinels: map[string]string{}}
	files := []string{
		"outside.ecal", "in.ecal", "root/in.ecal", "root/sub/in.ecal", "root/..x/in.ecal",
		"root/a b/in.ecal", "rootx/in.ecal", "root/root/in.ecal", "root/rootx/in.ecal",
		"root/sub/deeper/in.ecal", "root/sub/sub/in.ecal", "sub/in.ecal",
		// files named like a directory plus the source extension, next to it
		"root.ecal", "rootx.ecal", "root/sub.ecal", "root/sub/deeper.ecal", "root/in.ecal.ecal", "outside.ecal.ecal", "sub.ecal",
	}
	for _, f := range files {
		p := filepath.Join(dir, f)
		if err := os.MkdirAll(filepath.Dir(p), 0o755); err != nil {
			return nil, err
		}
		content := "SENTINEL " + f + "\n"
		if err := os.WriteFile(p, []byte(content), 0o644); err != nil {
			return nil, err
		}
		l.sentinels["/"+strings.Join(refResolve(p), "/")] = content
	}
	os.MkdirAll(filepath.Join(dir, "root/sub/deeper/empty"), 0o755)
	return l, nil
}

type rootCfg struct {
	name string
	cwd  string // relative to base ("" = do not care)
	root string // the Root string handed to the locator ({base} is substituted)
}

var roots = []rootCfg{
	{"absolute", "", "{base}/root"},
	{"absolute-trailing-slash", "", "{base}/root/"},
	{"absolute-dotdot", "", "{base}/root/sub/.."},
	{"absolute-nested", "", "{base}/root/sub"},
	{"absolute-doubled-sep", "", "{base}//root"},
	{"relative", ".", "root"},
	{"relative-dot-slash", ".", "./root"},
	{"relative-trailing", ".", "root/"},
	{"dot", "root", "."},
	{"dot-slash", "root", "./"},
	{"empty", "root", ""},
	{"relative-up", "root/sub", "../../root"},
	{"relative-nested", ".", "root/sub"},
	// roots that are pure chains of ".." (a locator started with -dir ..)
	{"up", "root/sub", ".."},
	{"up-slash", "root/sub", "../"},
	{"dot-up", "root/sub", "./.."},
	{"up-up", "root/sub/deeper", "../.."},
	{"up-down-up", "root/sub", "../sub/.."},
	{"up-named-up", "root/sub/deeper", "../../sub/.."},
}

func decorate(p string, variant int) string {
	switch variant {
	case 1:
		return "/" + p
	case 2:
		return p + "/"
	case 3:
		return strings.ReplaceAll(p, "/", "//")
	case 4:
		return "./" + p
	case 5:
		return "//" + p + "//"
	}
	return p
}

const nVariants = 6

// one verdict
func (l *layout) judge(c *core.Ctx, stream string, idx int, rc rootCfg, rootStr, cwdAbs, p string, res string, err error) {
	rootAbs := rootStr
	if !strings.HasPrefix(rootAbs, "/") {
		rootAbs = cwdAbs + "/" + rootAbs
	}
	rootSegs := refResolve(rootAbs)
	target := refResolve(rootAbs + "/" + p)
	inside := hasPrefix(target, rootSegs)
	tpath := "/" + strings.Join(target, "/")
	if err != nil {
		c.Event("resolve.error", 1)
		if !inside {
			c.Event("resolve.error.outside", 1)
			c.Nontrivial(core.Hash64("out|" + rc.name + "|" + p))
		}
		return
	}
	c.Event("resolve.content", 1)
	want, exists := l.sentinels[tpath]
	detail := map[string]interface{}{"root": rootStr, "cwd": cwdAbs, "path": p, "rootcfg": rc.name,
		"resolved_by_reference": tpath, "content": trunc(res)}
	if !inside {
		c.Violation("escape:"+rc.name, fmt.Sprintf("Resolve(%q) with root %q returned content although the path resolves outside the root (%s)", p, rootStr, tpath), stream, idx, detail)
		return
	}
	if !exists || res != want {
		c.Violation("wrongfile:"+rc.name, fmt.Sprintf("Resolve(%q) with root %q returned content that is not the file at the lexically resolved path %s", p, rootStr, tpath), stream, idx, detail)
		return
	}
	c.Nontrivial(core.Hash64("in|" + rc.name + "|" + p))
}

func trunc(s string) string {
	if len(s) > 80 {
		return s[:80]
	}
	return s
}

func pathFromIndex(i int, n int) (string, bool) {
	// i enumerates all sequences of exactly n segments in base len(segs)
	parts := make([]string, n)
	for k := n - 1; k >= 0; k-- {
		parts[k] = segs[i%len(segs)]
		i /= len(segs)
	}
	return strings.Join(parts, "/"), true
}

// Run is the check.
func Run(c *core.Ctx) {
	c.Note("rule", "paths: all sequences of <=N segments over {in.ecal,sub,.,..,'',..x,'a b',rootx,root} joined by '/' (N=4 quick, 6 thorough; exhaustive) x 6 decorations (plain, leading /, trailing /, doubled separators, ./ prefix, // both ends) x 19 root configurations (absolute, relative, '.', '', and pure chains of '..'), plus the absolute paths of all existing files inside and outside the root in 7 spellings, random longer paths with NUL/backslash variants and imports through the interpreter; non-trivial = distinct (root configuration, path) whose reference resolution lies outside the root (must fail) or inside the root on an existing file (must return that file's sentinel)")
	c.Note("exhaustive", "true")
	if os.Getenv("VH_C17_STRACE_CHILD") == "" && !c.Quick() && !c.Replay() && c.Batch == 0 {
		defer straceRun(c)
	}
	base, err := os.MkdirTemp(c.OutDir, "c17fs")
	if err != nil {
		panic(err)
	}
	base, _ = filepath.Abs(base)
	defer os.RemoveAll(base)
	l, err := mkLayout(base)
	if err != nil {
		panic(err)
	}
	if f := os.Getenv("VH_C17_STRACE_CHILD"); f != "" {
		os.WriteFile(f, []byte(base+"\n"), 0o644)
	}
	origWd, _ := os.Getwd()
	defer os.Chdir(origWd)
	maxSeg := c.Pick(4, 6)
	if os.Getenv("VH_C17_STRACE_CHILD") != "" {
		maxSeg = 4
	}
	for ri, rc := range roots {
		rootStr := strings.ReplaceAll(rc.root, "{base}", base)
		cwdAbs := base
		if rc.cwd != "" {
			cwdAbs = "/" + strings.Join(refResolve(base+"/"+rc.cwd), "/")
		}
		if err := os.Chdir(cwdAbs); err != nil {
			panic(err)
		}
		il := &util.FileImportLocator{Root: rootStr}
		stream := "enum-" + rc.name
		idx := 0
		for n := 0; n <= maxSeg; n++ {
			total := 1
			for k := 0; k < n; k++ {
				total *= len(segs)
			}
			for i := 0; i < total; i++ {
				for v := 0; v < nVariants; v++ {
					if n == 0 && v > 1 {
						continue
					}
					idx++
					if !c.Take(stream, idx) {
						continue
					}
					p, _ := pathFromIndex(i, n)
					p = decorate(p, v)
					res, err := il.Resolve(p)
					l.judge(c, stream, idx, rc, rootStr, cwdAbs, p, res, err)
					if idx%50021 == 7 {
						c.Sample("enum", map[string]interface{}{"root": rootStr, "cwd": cwdAbs, "path": p, "error": fmt.Sprint(err), "content": trunc(res)})
					}
				}
			}
		}
		// absolute paths of files that exist (inside and outside the root), plain
		// and decorated: whatever the root string is, an import path is taken
		// relative to the root - the file it names as an absolute path is not
		// the file below the root, so no content of it may come back
		stream = "abs-" + rc.name
		var sfiles []string
		for f := range l.sentinels {
			sfiles = append(sfiles, f)
		}
		sort.Strings(sfiles)
		ai := 0
		for _, f := range sfiles {
			noext := strings.TrimSuffix(f, ".ecal")
			for _, q := range []string{f, noext} {
				first := strings.Index(q[1:], "/") + 1
				forms := []string{q, strings.ReplaceAll(q, "/", "//"), q + "/", q[:first] + "/." + q[first:], q[:first] + "/sub/.." + q[first:], "/" + q, q + "/."}
				for _, p := range forms {
					ai++
					if !c.Take(stream, ai) {
						continue
					}
					res, err := il.Resolve(p)
					l.judge(c, stream, ai, rc, rootStr, cwdAbs, p, res, err)
				}
			}
		}
		// random longer paths incl. NUL and backslash
		stream = "rand-" + rc.name
		nr := c.Pick(3000, 60000)
		extra := []string{"\x00", "\\", "..\\", "...", "....", " ", "%2e%2e", "~", "root/..", "../root", "..;", "in.ecal\x00"}
		for i := 0; i < nr; i++ {
			if !c.Take(stream, i) {
				continue
			}
			r := c.Rng(stream, i)
			n := r.Range(5, 14)
			parts := make([]string, n)
			for k := range parts {
				if r.Chance(1, 8) {
					parts[k] = extra[r.Intn(len(extra))]
				} else {
					parts[k] = segs[r.Intn(len(segs))]
				}
			}
			p := decorate(strings.Join(parts, "/"), r.Intn(nVariants))
			res, err := il.Resolve(p)
			l.judge(c, stream, i, rc, rootStr, cwdAbs, p, res, err)
		}
		// through the interpreter: import "<p>" as m
		stream = "import-" + rc.name
		ni := c.Pick(150, 3000)
		for i := 0; i < ni; i++ {
			if !c.Take(stream, i) {
				continue
			}
			r := c.Rng(stream, i)
			n := r.Range(1, 6)
			parts := make([]string, n)
			for k := range parts {
				parts[k] = segs[r.Intn(len(segs))]
			}
			p := decorate(strings.Join(parts, "/"), r.Intn(nVariants))
			importThroughInterpreter(c, l, stream, i, rc, ri, rootStr, cwdAbs, p)
		}
	}
}

// importThroughInterpreter evaluates `import "<p>" as m` with the file locator.
// The sentinel files are not valid ECAL (they start with the word SENTINEL
// followed by a path) so a successful read shows as a parse error that names
// the imported text, or – for the inside files – we only rely on the
// locator-level verdict: here we compare "import failed because of the
// locator" against the reference inside/outside decision.
func importThroughInterpreter(c *core.Ctx, l *layout, stream string, idx int, rc rootCfg, ri int, rootStr, cwdAbs, p string) {
	il := &util.FileImportLocator{Root: rootStr}
	// wrap the locator to observe what the interpreter asks and gets
	w := &watchLocator{inner: il}
	erp := interpreter.NewECALRuntimeProvider("c17", w, util.NewMemoryLogger(10))
	defer erp.Cron.Stop()
	src := fmt.Sprintf("import %q as m\n", p)
	key, msg, panicked := core.Guard(func() {
		ast, err := parser.ParseWithRuntime("c17", src, erp)
		if err != nil {
			return
		}
		if err = ast.Runtime.Validate(); err != nil {
			return
		}
		vs := scope.NewScope(scope.GlobalScope)
		ast.Runtime.Eval(vs, make(map[string]interface{}), erp.NewThreadID())
	})
	if panicked {
		// owned by C06; not a C17 verdict
		c.Event("import.panic", 1)
		_ = key
		_ = msg
		return
	}
	for _, call := range w.calls {
		c.Event("import.resolve", 1)
		l.judge(c, stream, idx, rc, rootStr, cwdAbs, call.path, call.res, call.err)
	}
}

type call struct {
	path string
	res  string
	err  error
}
type watchLocator struct {
	inner util.ECALImportLocator
	calls []call
}

func (w *watchLocator) Resolve(path string) (string, error) {
	res, err := w.inner.Resolve(path)
	w.calls = append(w.calls, call{path, res, err})
	return res, err
}

var openRe = regexp.MustCompile(`^(\d+)\s+(openat|open|chdir)\((?:AT_FDCWD, )?"((?:[^"\\]|\\.)*)"[^)]*\)\s+=\s+(-?\d+)`)

// straceRun repeats the (<=4 segment) enumeration in a child under strace and
// checks that no file below the sandbox base but outside a root was opened
// successfully... the allowed opens are: anything not under base, and under
// base only paths inside <base>/root.
func straceRun(c *core.Ctx) {
	self, err := os.Executable()
	if err != nil {
		c.Inconclusive("strace: no executable path", "strace", 0, nil)
		return
	}
	if _, err := exec.LookPath("strace"); err != nil {
		c.Inconclusive("strace not available", "strace", 0, nil)
		return
	}
	sub := filepath.Join(c.OutDir, "strace-child")
	os.MkdirAll(sub, 0o755)
	logf := filepath.Join(sub, "strace.log")
	basef := filepath.Join(sub, "base.txt")
	cmd := exec.Command("strace", "-f", "-qq", "-e", "trace=openat,open,chdir", "-o", logf,
		self, "C17", "--tier", "quick", "--seed", fmt.Sprint(c.Seed), "--out", sub)
	cmd.Env = append(os.Environ(), "VH_C17_STRACE_CHILD="+basef)
	if out, err := cmd.CombinedOutput(); err != nil {
		c.Inconclusive("strace child failed: "+err.Error()+" "+trunc(string(out)), "strace", 0, nil)
		return
	}
	bb, err := os.ReadFile(basef)
	if err != nil {
		c.Inconclusive("strace child wrote no base", "strace", 0, nil)
		return
	}
	base := strings.TrimSpace(string(bb))
	baseSegs := refResolve(base)
	rootSegs := append(append([]string{}, baseSegs...), "root")
	f, err := os.Open(logf)
	if err != nil {
		c.Inconclusive("no strace log", "strace", 0, nil)
		return
	}
	defer f.Close()
	cwd, _ := os.Getwd()
	sc := bufio.NewScanner(f)
	sc.Buffer(make([]byte, 1<<20), 1<<20)
	n := 0
	for sc.Scan() {
		m := openRe.FindStringSubmatch(sc.Text())
		if m == nil {
			continue
		}
		path := unescape(m[3])
		ok := !strings.HasPrefix(m[4], "-")
		if m[2] == "chdir" {
			if ok {
				if strings.HasPrefix(path, "/") {
					cwd = path
				} else {
					cwd = cwd + "/" + path
				}
			}
			continue
		}
		abs := path
		if !strings.HasPrefix(abs, "/") {
			abs = cwd + "/" + abs
		}
		s := refResolve(abs)
		if !hasPrefix(s, baseSegs) {
			continue
		}
		n++
		c.Event("strace.open.under_base", 1)
		if !ok {
			continue
		}
		if len(s) == len(baseSegs) {
			continue // the base directory itself (MkdirTemp / cleanup)
		}
		if !hasPrefix(s, rootSegs) {
			// files created by mkLayout are written with O_CREAT by the harness; those
			// opens carry O_CREAT or O_WRONLY – skip them
			if strings.Contains(sc.Text(), "O_CREAT") || strings.Contains(sc.Text(), "O_WRONLY") || strings.Contains(sc.Text(), "O_DIRECTORY") {
				continue
			}
			c.Violation("strace-open-outside", "a file outside the root was opened for reading: "+abs, "strace", 0,
				map[string]interface{}{"line": sc.Text(), "base": base})
		}
	}
	if n == 0 {
		c.Inconclusive("strace log held no opens under the sandbox base", "strace", 0, nil)
	}
	c.AddEvals(1)
	os.RemoveAll(sub)
}

func unescape(s string) string {
	if !strings.Contains(s, "\\") {
		return s
	}
	var b strings.Builder
	for i := 0; i < len(s); i++ {
		if s[i] == '\\' && i+1 < len(s) {
			i++
			switch s[i] {
			case 'n':
				b.WriteByte('\n')
			case 't':
				b.WriteByte('\t')
			case '0', '1', '2', '3', '4', '5', '6', '7':
				v := 0
				j := i
				for ; j < len(s) && j < i+3 && s[j] >= '0' && s[j] <= '7'; j++ {
					v = v*8 + int(s[j]-'0')
				}
				b.WriteByte(byte(v))
				i = j - 1
			default:
				b.WriteByte(s[i])
			}
			continue
		}
		b.WriteByte(s[i])
	}
	return b.String()
}
