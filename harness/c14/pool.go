package c14

import (
	"sync"
	"time"

	"verif/harness/core"
)

// slots gives every worker goroutine its own runner and a lazily written
// progress slot: a case is announced to the driver (c.Begin) only once it has
// been running for more than a second, so that a non-terminating evaluation
// that never passes through VisitState (and so escapes the node-visit budget)
// is still attributed to its case by the driver's watchdog, without paying a
// progress write for each of millions of cases. The verdict on such a case is
// the driver's (re-run alone, goroutine still running inside ecal), never this
// timer's.
type slots struct {
	c    *core.Ctx
	n    int
	mu   []sync.Mutex
	cur  []*slotCase
	last []*slotCase
	beg  []bool
	run  []*runner
	stop chan struct{}
	done chan struct{}
}

type slotCase struct {
	stream string
	idx    int
	text   string
}

func newSlots(c *core.Ctx, n int) *slots {
	s := &slots{c: c, n: n, mu: make([]sync.Mutex, n), cur: make([]*slotCase, n), last: make([]*slotCase, n),
		beg: make([]bool, n), run: make([]*runner, n), stop: make(chan struct{}), done: make(chan struct{})}
	go func() {
		defer close(s.done)
		t := time.NewTicker(time.Second)
		defer t.Stop()
		for {
			select {
			case <-s.stop:
				return
			case <-t.C:
			}
			for i := 0; i < n; i++ {
				s.mu[i].Lock()
				if s.cur[i] != nil && s.cur[i] == s.last[i] && !s.beg[i] {
					c.Begin(i, s.cur[i].stream, s.cur[i].idx, s.cur[i].text)
					s.beg[i] = true
				}
				s.last[i] = s.cur[i]
				s.mu[i].Unlock()
			}
		}
	}()
	return s
}

// runner returns the runner of a slot (created on first use).
func (s *slots) runner(slot int) *runner {
	if s.run[slot] == nil {
		s.run[slot] = newRunner()
	}
	return s.run[slot]
}

func (s *slots) enter(slot int, stream string, idx int, text string) {
	s.mu[slot].Lock()
	s.cur[slot] = &slotCase{stream, idx, text}
	s.mu[slot].Unlock()
}

func (s *slots) leave(slot int) {
	s.mu[slot].Lock()
	s.cur[slot] = nil
	if s.beg[slot] {
		s.c.End(slot)
		s.beg[slot] = false
	}
	s.mu[slot].Unlock()
}

func (s *slots) close() {
	close(s.stop)
	<-s.done
	for _, r := range s.run {
		if r != nil {
			r.close()
		}
	}
}
