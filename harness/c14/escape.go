package c14

import (
	"fmt"
	"strings"

	"verif/harness/core"
)

// Stream "escape": "evaluating a quoted string literal interprets its escape
// sequences". The literal is assembled from pieces whose source form and value
// are both written down here, for both quote kinds, with a second statement
// behind it (a literal that ends too early or too late turns the rest of the
// program into something else). Runs of backslashes in front of a quote, an
// escaped backslash as the last character, escapes next to interpolation
// markers. Only sequences whose meaning is beyond doubt are used (\' only inside single quotes, where it is the way to write the delimiter).

type escPiece struct {
	src, val string
	not      byte // quote kind in which the piece cannot be written (0: fine in both)
}

var escPieces = []escPiece{
	{"a", "a", 0},
	{" ", " ", 0},
	{`\\`, `\`, 0},
	{`\"`, `"`, 0},
	{`\n`, "\n", 0},
	{`\t`, "\t", 0},
	{`\r`, "\r", 0},
	{`\x41`, "A", 0},
	{`\u00e9`, "é", 0},
	{`\101`, "A", 0},
	{`'`, `'`, '\''},
	{`\'`, `'`, '"'},   // an escaped single quote exists in single quoted literals only
	{`\\\'`, `\'`, '"'},
	{`"`, `"`, '"'},
	{`{{1+1}}`, "2", 0},
	{`#`, "#", 0},
	{`\\\\`, `\\`, 0},
	{`\\\"`, `\"`, 0},
	{"é", "é", 0},
	{`{`, `{`, 0},
}

func (k *checker) escapes() {
	c := k.c
	const stream = "escape"
	np := len(escPieces)
	maxLen := c.Pick(3, 4)
	// exhaustive part: all sequences up to maxLen; random part: longer ones
	total := 0
	pow := 1
	for l := 1; l <= maxLen; l++ {
		pow *= np
		total += pow
	}
	nRand := c.Pick(6000, 400000)
	c.Parallel(k.sl.n, stream, 2*(total+nRand), func(slot, idx int) {
		quote := byte('"')
		if idx%2 == 1 {
			quote = '\''
		}
		i := idx / 2
		var seq []int
		if i < total {
			l, p := 1, np
			for i >= p {
				i -= p
				l++
				p *= np
			}
			for j := 0; j < l; j++ {
				seq = append(seq, i%np)
				i /= np
			}
		} else {
			rng := c.Rng(stream, idx)
			for n := rng.Range(maxLen+1, 12); n > 0; n-- {
				seq = append(seq, rng.Intn(np))
			}
		}
		var src, val strings.Builder
		for _, p := range seq {
			if escPieces[p].not == quote {
				return // cannot be written with this quote kind
			}
			src.WriteString(escPieces[p].src)
			val.WriteString(escPieces[p].val)
		}
		// "{" directly before "{{" or a value that forms markers by accident is
		// left to the other streams
		if strings.Contains(strings.ReplaceAll(val.String(), "2", ""), "{{") || strings.Contains(src.String(), "{{{") {
			return
		}
		lit := string(quote) + src.String() + string(quote)
		prog := "x := " + lit + "\ny := \"e\\\"nd\"\n[x, y]"
		r := k.sl.runner(slot)
		k.sl.enter(slot, stream, idx, prog)
		defer k.sl.leave(slot)
		res := r.eval(prog, nil, budgetFor(prog), false)
		want := val.String()
		detail := map[string]interface{}{"program": prog, "expected_value": want}
		switch {
		case res.panicked:
			k.violation("pp-"+res.panicKey, "panic while evaluating a literal with escape sequences", stream, idx, detail)
		case res.parseErr != nil:
			detail["error"] = res.parseErr.Error()
			k.violation("escape:rejected", "a literal made of well-defined escape sequences is rejected (or ends at the wrong quote): "+trunc(res.parseErr.Error(), 120), stream, idx, detail)
		case res.err != nil:
			detail["error"] = res.err.Error()
			k.violation("escape:eval-error", "evaluating a literal with escape sequences failed", stream, idx, detail)
		default:
			l, ok := res.out.([]interface{})
			if !ok || len(l) != 2 || l[1] != "e\"nd" {
				detail["observed"] = fmt.Sprintf("%#v", res.out)
				k.violation("escape:literal-end", "the literal does not end at its closing quote: the statement behind it is not what was written", stream, idx, detail)
			} else if l[0] != want {
				detail["observed"] = fmt.Sprintf("%q", l[0])
				k.violation("escape:value", "the value of the literal is not its text with the escape sequences interpreted", stream, idx, detail)
			} else {
				c.Event("escape.agree", 1)
				if strings.Contains(src.String(), `\`) {
					c.Nontrivial(core.Hash64(stream + "|" + lit))
				}
			}
		}
		if idx%9973 == 5 {
			c.Sample(stream, detail)
		}
	})
}
