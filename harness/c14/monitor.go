package c14

import (
	"errors"
	"fmt"
	"strings"
	"sync"
	"sync/atomic"
	"time"
	"unsafe"

	"github.com/krotik/common/datautil"
	"github.com/krotik/ecal/engine/pool"
	"github.com/krotik/ecal/interpreter"
	"github.com/krotik/ecal/parser"
	"github.com/krotik/ecal/scope"
	"github.com/krotik/ecal/stdlib"
	"github.com/krotik/ecal/util"

	"verif/harness/core"
)

// errBudget is the type of the error the counting debugger answers with once
// the node-visit budget of a case is used up.
var errBudget = errors.New("C14 node visit budget exceeded")

const interpPrefix = "String interpolation: "

// countDbg implements util.ECALDebugger. It only observes: it counts
// VisitState calls, records which interpolation expressions were evaluated
// (the parser names the source of an interpolated expression after its text)
// and, past the budget, answers every visit with an error so that an endless
// re-scan collapses deterministically.
type countDbg struct {
	visits   int64
	budget   int64
	exceeded int32

	mu       sync.Mutex
	lastSrc  *byte    // identity of the source-name string of the last visited node
	keep     []string // keeps the source-name strings alive (no address re-use)
	evald    []string // expression texts evaluated, one entry per parse
	otherSrc int
}

func (d *countDbg) reset(budget int64) {
	atomic.StoreInt64(&d.visits, 0)
	atomic.StoreInt32(&d.exceeded, 0)
	d.mu.Lock()
	d.budget = budget
	d.lastSrc = nil
	d.keep = d.keep[:0]
	d.evald = nil
	d.otherSrc = 0
	d.mu.Unlock()
}

func (d *countDbg) VisitState(node *parser.ASTNode, vs parser.Scope, tid uint64) util.TraceableRuntimeError {
	n := atomic.AddInt64(&d.visits, 1)
	if node.Token != nil {
		src := node.Token.Lsource
		if strings.HasPrefix(src, interpPrefix) {
			p := unsafe.StringData(src)
			d.mu.Lock()
			if p != d.lastSrc {
				d.lastSrc = p
				if len(d.evald) < 4096 {
					d.keep = append(d.keep, src)
					d.evald = append(d.evald, src[len(interpPrefix):])
				}
			}
			d.mu.Unlock()
		} else {
			d.mu.Lock()
			d.lastSrc = nil
			d.mu.Unlock()
		}
	}
	if n > d.budget {
		atomic.StoreInt32(&d.exceeded, 1)
		return util.NewRuntimeError("c14", errBudget, "", node).(util.TraceableRuntimeError)
	}
	return nil
}

func (d *countDbg) HandleInput(input string) (interface{}, error) { return nil, nil }
func (d *countDbg) StopThreads(t time.Duration) bool              { return false }
func (d *countDbg) BreakOnStart(flag bool)                        {}
func (d *countDbg) BreakOnError(flag bool)                        {}
func (d *countDbg) SetLockingState(mutexeOwners map[string]uint64, mutexLog *datautil.RingBuffer) {
}
func (d *countDbg) SetThreadPool(tp *pool.ThreadPool) {}
func (d *countDbg) VisitStepInState(node *parser.ASTNode, vs parser.Scope, tid uint64) util.TraceableRuntimeError {
	return nil
}
func (d *countDbg) VisitStepOutState(node *parser.ASTNode, vs parser.Scope, tid uint64, soErr error) util.TraceableRuntimeError {
	return nil
}
func (d *countDbg) RecordThreadFinished(tid uint64)                                 {}
func (d *countDbg) SetBreakPoint(source string, line int)                           {}
func (d *countDbg) DisableBreakPoint(source string, line int)                       {}
func (d *countDbg) RemoveBreakPoint(source string, line int)                        {}
func (d *countDbg) ExtractValue(threadID uint64, varName string, dest string) error { return nil }
func (d *countDbg) InjectValue(threadID uint64, varName string, expr string) error  { return nil }
func (d *countDbg) Continue(threadID uint64, contType util.ContType)                {}
func (d *countDbg) Status() interface{}                                             { return nil }
func (d *countDbg) LockState() interface{}                                          { return nil }
func (d *countDbg) Describe(threadID uint64) interface{}                            { return nil }

// runner is the per-goroutine execution context: one runtime provider with the
// counting debugger attached, re-used for all cases of that goroutine.
type runner struct {
	erp      *interpreter.ECALRuntimeProvider
	dbg      *countDbg
	ticks    int64
	tickSelf bool // tick() returns the text "{{tick()}}" instead of "t<n>"
	rec      []string
	recMu    sync.Mutex
}

var runners sync.Map // *interpreter.ECALRuntimeProvider -> *runner

func newRunner() *runner {
	r := &runner{dbg: &countDbg{}}
	r.erp = interpreter.NewECALRuntimeProvider("c14", nil, util.NewMemoryLogger(10))
	r.erp.Debugger = r.dbg
	runners.Store(r.erp, r)
	return r
}

func (r *runner) close() {
	runners.Delete(r.erp)
	r.erp.Processor.Finish()
	go r.erp.Cron.Stop() // never synchronously: Cron.Stop can deadlock with the cron goroutine's tick (krotik/common)
}

func runnerOf(is map[string]interface{}) *runner {
	if is == nil {
		return nil
	}
	if v, ok := runners.Load(is["erp"]); ok {
		return v.(*runner)
	}
	return nil
}

func tickText(n int) string { return fmt.Sprintf("t%d", n) }

// tickFunc is the side-effect oracle: a Go function callable from ECAL that
// counts its calls in the runner the calling provider belongs to.
type tickFunc struct{}

func (tickFunc) Run(instanceID string, vs parser.Scope, is map[string]interface{}, tid uint64, args []interface{}) (interface{}, error) {
	r := runnerOf(is)
	if r == nil {
		return nil, fmt.Errorf("tick: no runner")
	}
	n := atomic.AddInt64(&r.ticks, 1)
	if r.tickSelf {
		return "{{tick()}}", nil
	}
	return tickText(int(n)), nil
}
func (tickFunc) DocString() (string, error) { return "counts its calls", nil }

// recFunc lets a sink hand a value to the harness.
type recFunc struct{}

func (recFunc) Run(instanceID string, vs parser.Scope, is map[string]interface{}, tid uint64, args []interface{}) (interface{}, error) {
	r := runnerOf(is)
	if r == nil {
		return nil, fmt.Errorf("rec: no runner")
	}
	r.recMu.Lock()
	for _, a := range args {
		r.rec = append(r.rec, fmt.Sprint(a))
	}
	r.recMu.Unlock()
	return nil, nil
}
func (recFunc) DocString() (string, error) { return "records its arguments", nil }

func init() {
	// registered before any evaluation starts; never written afterwards
	interpreter.InbuildFuncMap["tick"] = tickFunc{}
	interpreter.InbuildFuncMap["rec"] = recFunc{}
	stdlib.AddStdlibPkg("vh", "verification harness functions")
	stdlib.AddStdlibFunc("vh", "tick", tickFunc{})
}

// real is what was observed on one execution.
type real struct {
	parseErr  error
	out       interface{}
	err       error
	panicked  bool
	panicKey  string
	panicMsg  string
	visits    int64
	exceeded  bool
	ticks     int
	evald     []string
	rec       []string
	otherEval bool
}

// eval runs a program with the given preset variables under the budget.
func (r *runner) eval(src string, vars map[string]interface{}, budget int64, tickSelf bool) *real {
	res := &real{}
	r.dbg.reset(budget)
	atomic.StoreInt64(&r.ticks, 0)
	r.tickSelf = tickSelf
	r.recMu.Lock()
	r.rec = nil
	r.recMu.Unlock()
	res.panicKey, res.panicMsg, res.panicked = core.Guard(func() {
		ast, err := parser.ParseWithRuntime("c14src", src, r.erp)
		if err != nil {
			res.parseErr = err
			return
		}
		if err = ast.Runtime.Validate(); err != nil {
			res.parseErr = err
			return
		}
		vs := scope.NewScope(scope.GlobalScope)
		for k, v := range vars {
			vs.SetValue(k, v)
		}
		res.out, res.err = ast.Runtime.Eval(vs, make(map[string]interface{}), r.erp.NewThreadID())
	})
	res.visits = atomic.LoadInt64(&r.dbg.visits)
	res.exceeded = atomic.LoadInt32(&r.dbg.exceeded) == 1
	res.ticks = int(atomic.LoadInt64(&r.ticks))
	r.dbg.mu.Lock()
	res.evald = r.dbg.evald
	r.dbg.mu.Unlock()
	r.recMu.Lock()
	res.rec = r.rec
	r.recMu.Unlock()
	return res
}
