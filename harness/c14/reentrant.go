package c14

import (
	"fmt"
	"strings"
	"sync"

	"github.com/krotik/ecal/parser"
	"github.com/krotik/ecal/scope"

	"verif/harness/core"
)

// Stream "reentrant": one literal NODE evaluated again before its first
// evaluation has finished — (A) by recursion through its own interpolated
// expression, (B) by several threads evaluating the same parsed function at
// once (what sinks on several workers do). Evaluating a literal must be
// self-contained per evaluation: the expected strings are computed directly.

var textPieces = []string{"", "a", "(", ")", "[", "{", "}", " ", "-", "x y", "}{", "{ {", "} }", "<", ">", "ab"}

func pieceText(r *core.Rand) string {
	n := r.Intn(3)
	var b strings.Builder
	for i := 0; i < n; i++ {
		b.WriteString(textPieces[r.Intn(len(textPieces))])
	}
	s := b.String()
	// never create a marker by concatenation
	s = strings.ReplaceAll(strings.ReplaceAll(s, "{{", "{ {"), "}}", "} }")
	return s
}

func joinSafe(parts ...string) string {
	// pieces are joined with the markers; a piece ending in '{' before "{{" or
	// starting with '}' after "}}" would shift the marker: pad such pieces
	var b strings.Builder
	for i, p := range parts {
		if i > 0 && strings.HasSuffix(b.String(), "}}") && strings.HasPrefix(p, "}") {
			b.WriteString(" ")
		}
		if strings.HasPrefix(p, "{{") && strings.HasSuffix(b.String(), "{") {
			b.WriteString(" ")
		}
		b.WriteString(p)
	}
	return b.String()
}

func (k *checker) reentrant() {
	c := k.c
	const stream = "reentrant"
	total := c.Pick(600, 40000)
	for idx := 0; idx < total; idx++ {
		if !c.Take(stream, idx) {
			continue
		}
		rng := c.Rng(stream, idx)
		if idx%2 == 0 {
			k.recursion(stream, idx, rng)
		} else {
			k.concurrent(stream, idx, rng)
		}
	}
}

func (k *checker) recursion(stream string, idx int, rng *core.Rand) {
	c := k.c
	base, pre, mid, post := pieceText(rng), pieceText(rng), pieceText(rng), pieceText(rng)
	two := rng.Chance(1, 3)
	depth := rng.Range(1, 6)
	if two {
		depth = rng.Range(1, 4)
	}
	lit := joinSafe(pre, "{{wrap(n - 1)}}", mid, "{{n}}", post)
	if two {
		lit = joinSafe(pre, "{{wrap(n - 1)}}", mid, "{{wrap(n - 1)}}", post, "{{n}}")
	}
	prog := fmt.Sprintf("func wrap(n) {\n    if n == 0 {\n        return \"%s\"\n    }\n    return \"%s\"\n}\nwrap(%d)", base, lit, depth)
	var want func(n int) string
	want = func(n int) string {
		if n == 0 {
			return base
		}
		if two {
			return joinSafeValues(pre, want(n-1), mid, want(n-1), post, fmt.Sprint(n))
		}
		return joinSafeValues(pre, want(n-1), mid, fmt.Sprint(n), post)
	}
	// the pads inserted by joinSafe are part of the literal text: recompute the
	// expectation from the literal itself
	exp := expandLiteral(lit, func(expr string, n int) string {
		if expr == "n" {
			return fmt.Sprint(n)
		}
		return ""
	}, base, depth)
	_ = want
	r := newRunner()
	defer r.close()
	c.Begin(0, stream, idx, prog)
	res := r.eval(prog, nil, 1<<40, false)
	c.End(0)
	detail := map[string]interface{}{"program": prog, "expected": exp, "observed": fmt.Sprint(res.out), "error": fmt.Sprint(res.err), "parse_error": fmt.Sprint(res.parseErr)}
	switch {
	case res.panicked:
		k.violation(res.panicKey, "panic while evaluating a literal that recurses through its own expression: "+trunc(res.panicMsg, 300), stream, idx, detail)
	case res.parseErr != nil || res.err != nil:
		k.violation("reentrant:recursion-error", "evaluating a literal that recurses through its own interpolated expression failed", stream, idx, detail)
	case fmt.Sprint(res.out) != exp:
		k.violation("reentrant:recursion-result", "a literal whose interpolated expression evaluates the same literal again (recursion) yields a wrong string", stream, idx, detail)
	default:
		c.Event("reentrant.recursion.ok", 1)
		c.NontrivialKey("rec|" + prog)
	}
	if idx%97 == 0 {
		c.Sample(stream, detail)
	}
}

func joinSafeValues(parts ...string) string { return strings.Join(parts, "") }

// expandLiteral computes the value of the recursive literal at depth n: every
// {{wrap(n - 1)}} span is the value at depth n-1, {{n}} is n.
func expandLiteral(lit string, val func(expr string, n int) string, base string, n int) string {
	if n == 0 {
		return base
	}
	var b strings.Builder
	rest := lit
	for {
		s := strings.Index(rest, "{{")
		if s < 0 {
			break
		}
		e := strings.Index(rest[s+2:], "}}")
		if e < 0 {
			break
		}
		e += s + 2
		expr := rest[s+2 : e]
		b.WriteString(rest[:s])
		if expr == "wrap(n - 1)" {
			b.WriteString(expandLiteral(lit, val, base, n-1))
		} else {
			b.WriteString(val(expr, n))
		}
		rest = rest[e+2:]
	}
	b.WriteString(rest)
	return b.String()
}

func (k *checker) concurrent(stream string, idx int, rng *core.Rand) {
	c := k.c
	pre, mid, post := pieceText(rng), pieceText(rng), pieceText(rng)
	lit := joinSafe(pre, "{{v}}", mid, "{{w}}", post)
	prog := fmt.Sprintf("func f(v, w) {\n    return \"%s\"\n}\n", lit)
	threads := rng.Range(2, 8)
	iters := rng.Range(50, 400)
	r := newRunner()
	defer r.close()
	r.dbg.reset(1 << 40)
	c.Begin(0, stream, idx, prog)
	defer c.End(0)
	var setupErr error
	var callAST *parser.ASTNode
	gvs := scope.NewScope(scope.GlobalScope)
	key, msg, panicked := core.Guard(func() {
		ast, err := parser.ParseWithRuntime("c14re", prog, r.erp)
		if err == nil {
			err = ast.Runtime.Validate()
		}
		if err == nil {
			_, err = ast.Runtime.Eval(gvs, make(map[string]interface{}), r.erp.NewThreadID())
		}
		if err == nil {
			callAST, err = parser.ParseWithRuntime("c14call", "f(x, y)", r.erp)
		}
		if err == nil {
			err = callAST.Runtime.Validate()
		}
		setupErr = err
	})
	detail := map[string]interface{}{"program": prog, "threads": threads, "iterations": iters}
	if panicked || setupErr != nil {
		detail["error"] = fmt.Sprint(setupErr, msg)
		if panicked {
			k.violation(key, "panic while defining a function with an interpolating literal", stream, idx, detail)
		} else {
			c.Inconclusive("could not set up the concurrent literal scenario", stream, idx, detail)
		}
		return
	}
	type bad struct{ got, want string }
	var mu sync.Mutex
	var firstBad *bad
	var panics []string
	var wg sync.WaitGroup
	for g := 0; g < threads; g++ {
		wg.Add(1)
		go func(g int) {
			defer wg.Done()
			tid := r.erp.NewThreadID()
			for i := 0; i < iters; i++ {
				x := fmt.Sprintf("g%d.%d.%s", g, i, strings.Repeat(string(rune('a'+g)), 1+(i*7+g)%23))
				y := fmt.Sprintf("%s.%d", strings.Repeat(string(rune('A'+g)), 1+(i*3+g)%17), i)
				want := expandValues(lit, x, y)
				vs := gvs.NewChild(fmt.Sprintf("t%d", g))
				vs.SetValue("x", x)
				vs.SetValue("y", y)
				var out interface{}
				var err error
				pk, pm, p := core.Guard(func() {
					out, err = callAST.Runtime.Eval(vs, make(map[string]interface{}), tid)
				})
				mu.Lock()
				if p {
					panics = append(panics, pk+": "+trunc(pm, 200))
				} else if err != nil || fmt.Sprint(out) != want {
					if firstBad == nil {
						firstBad = &bad{fmt.Sprint(out, " err=", err), want}
					}
				}
				stop := firstBad != nil || len(panics) > 0
				mu.Unlock()
				if stop {
					return
				}
			}
		}(g)
	}
	wg.Wait()
	c.AddEvals(threads * iters)
	switch {
	case len(panics) > 0:
		detail["panic"] = panics[0]
		k.violation("reentrant:concurrent-panic", "panic while several threads evaluate the same literal at once", stream, idx, detail)
	case firstBad != nil:
		detail["observed"] = firstBad.got
		detail["expected"] = firstBad.want
		k.violation("reentrant:concurrent-result", "several threads evaluating the same literal node at once got each other's text", stream, idx, detail)
	default:
		c.Event("reentrant.concurrent.ok", int64(threads*iters))
		c.NontrivialKey("conc|" + prog)
	}
}

func expandValues(lit, x, y string) string {
	return strings.Replace(strings.Replace(lit, "{{v}}", x, 1), "{{w}}", y, 1)
}
