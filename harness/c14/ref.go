package c14

import (
	"regexp"
	"strconv"
	"strings"
)

// This file is the reference model of string interpolation, written from the
// property statement only. It shares no code with /repo.
//
// One left-to-right pass over the ORIGINAL literal: find "{{", then the first
// "}}" after it; the text between is the expression; the text of its value
// (or, on failure, a marker starting with '#') replaces the span; scanning
// continues after the span; substituted text is never scanned again; no
// closing marker => the rest is literal.

// span classes
const (
	clsExact   = iota // the reference knows the value's text
	clsFail           // the expression must fail: "#" + anything
	clsUnknown        // the reference does not know the expression: anything
)

// refEnv is what the reference knows about the evaluation environment.
type refEnv struct {
	vars    map[string]string // expression text -> value text (variables preset in the scope)
	unknown map[string]string // expression texts that are valid but whose text the reference does not predict -> text the value is known to contain (used by the deviating model only)
	tickRet func(n int) string
	ticks   int // tick() calls so far (exactly known part)
	ticksHi int // additional calls that unknown spans may make
}

func (e *refEnv) clone() *refEnv {
	c := *e
	return &c
}

var sumRe = regexp.MustCompile(`^[0-9]{1,6}(\+[0-9]{1,6})*$`)

// refExpr classifies one expression text and gives its value if known. Several
// expressions of the pool on lines of their own are statements evaluated in
// order; the value is the last one's.
func refExpr(code string, env *refEnv) (string, int) {
	t := strings.Trim(code, " \n\t")
	if strings.Contains(t, "\n") && !strings.Contains(t, "\"") {
		lines := strings.Split(t, "\n")
		known := true
		for _, l := range lines {
			probe := env.clone()
			if _, cls := refAtom(l, probe); cls != clsExact && strings.Trim(l, " \t") != "" {
				known = false
			}
		}
		if known {
			val, cls := "", clsUnknown
			for _, l := range lines {
				if strings.Trim(l, " \t") == "" {
					continue
				}
				val, cls = refAtom(l, env)
			}
			return val, cls
		}
	}
	return refAtom(code, env)
}

func refAtom(code string, env *refEnv) (string, int) {
	t := strings.Trim(code, " \n\t")
	if v, ok := env.vars[t]; ok {
		return v, clsExact
	}
	if _, ok := env.unknown[t]; ok {
		return "", clsUnknown
	}
	switch {
	case t == "tick()" || t == "vh.tick()":
		env.ticks++
		if env.ticksHi > 0 {
			// an earlier expression outside the reference's pool may have
			// called tick() too: the ordinal in the value is not known
			return "", clsUnknown
		}
		return env.tickRet(env.ticks), clsExact
	case sumRe.MatchString(t):
		s := 0
		for _, p := range strings.Split(t, "+") {
			n, _ := strconv.Atoi(p)
			s += n
		}
		return strconv.Itoa(s), clsExact
	case len(t) >= 2 && t[0] == '"' && t[len(t)-1] == '"' && !strings.ContainsAny(t[1:len(t)-1], "\"\\\n\r") &&
		!strings.Contains(t[1:len(t)-1], "}}"):
		// a nested quoted literal without escapes; it cannot hold a complete
		// span (the enclosing span ended at the first "}}"), so its value is
		// its content
		return t[1 : len(t)-1], clsExact
	case t == "{" || t == "}" || t == "\"":
		return "", clsFail
	case t == "nosuch()" || t == "1 + null" || t == "raise(1)" || t == "a.b.c.d":
		// parses and validates, fails when evaluated: the inline marker is due
		return "", clsFail
	}
	env.ticksHi += strings.Count(t, "tick()")
	return "", clsUnknown
}

// refSpan is one expression the reference evaluates.
type refSpan struct {
	code string
	cls  int
	val  string
}

// refResult is the reference outcome as a glob: chunks separated by "anything".
type refResult struct {
	chunks []string // literal chunks; between two chunks any text may stand
	spans  []refSpan
}

func (r *refResult) exact() bool { return len(r.chunks) == 1 }

// refInterp evaluates the reference on the (already unescaped) literal text.
func refInterp(lit string, env *refEnv) *refResult {
	res := &refResult{}
	var cur strings.Builder
	pos := 0
	for {
		s := strings.Index(lit[pos:], "{{")
		if s < 0 {
			break
		}
		s += pos
		e := strings.Index(lit[s+2:], "}}")
		if e < 0 {
			break
		}
		e += s + 2
		code := lit[s+2 : e]
		val, cls := refExpr(code, env)
		res.spans = append(res.spans, refSpan{code, cls, val})
		cur.WriteString(lit[pos:s])
		switch cls {
		case clsExact:
			cur.WriteString(val)
		case clsFail:
			cur.WriteString("#")
			res.chunks = append(res.chunks, cur.String())
			cur.Reset()
		case clsUnknown:
			res.chunks = append(res.chunks, cur.String())
			cur.Reset()
		}
		pos = e + 2
	}
	cur.WriteString(lit[pos:])
	res.chunks = append(res.chunks, cur.String())
	return res
}

// match tells whether s has the shape chunk0 * chunk1 * ... chunkN.
func (r *refResult) match(s string) bool {
	c := r.chunks
	if len(c) == 1 {
		return s == c[0]
	}
	if !strings.HasPrefix(s, c[0]) {
		return false
	}
	s = s[len(c[0]):]
	last := c[len(c)-1]
	for _, mid := range c[1 : len(c)-1] {
		i := strings.Index(s, mid)
		if i < 0 {
			return false
		}
		s = s[i+len(mid):]
	}
	return len(s) >= len(last) && strings.HasSuffix(s, last)
}

func (r *refResult) String() string {
	return strings.Join(r.chunks, "<*>")
}

// ---------------------------------------------------------------------------
// The known deviations of krotik/ecal (candidate finding 22) as switches of a
// second model. It is only consulted after the real result differed from the
// reference above, to name the deviation.

const (
	devOutcomeOK = iota
	devOutcomePanic
	devOutcomeLoop
	devOutcomeUnknown // a value the model needs is not known to the reference
)

type devResult struct {
	outcome int
	out     string
	fired   map[string]bool
	ticks   int
}

// devInterp: the working copy is re-scanned from its start after every
// substitution (switch "rescan-substituted-text") and the closing marker is
// searched independently of the opening one (switch "close-before-open").
func devInterp(lit string, env *refEnv, maxIter int) *devResult {
	r := &devResult{fired: map[string]bool{}}
	ret := lit
	done := 0 // text before this offset was produced by earlier substitutions
	approx := false
	for it := 0; ; it++ {
		if it > maxIter {
			r.outcome = devOutcomeLoop
			return r
		}
		s := strings.Index(ret, "{{")
		e := strings.Index(ret, "}}")
		if s < 0 || e < 0 {
			break
		}
		if e < s+2 {
			r.fired["close-before-open"] = true
			r.outcome = devOutcomePanic
			return r
		}
		if s < done {
			r.fired["rescan-substituted-text"] = true
		}
		val, cls := refExpr(ret[s+2:e], env)
		if cls != clsExact {
			// The value's text is not known. ecal's failure markers echo the
			// expression text, so the model goes on with "#" + expression to
			// see whether the re-scan would pick up markers from it; from here
			// on only the fired switches are meaningful, not the output.
			approx = true
			val = "#" + ret[s+2:e]
			if h, ok := env.unknown[strings.Trim(ret[s+2:e], " \n\t")]; ok {
				val = "?" + h + "?"
			}
		}
		ret = ret[:s] + val + ret[e+2:]
		done = s + len(val)
	}
	if approx {
		r.outcome = devOutcomeUnknown
		return r
	}
	r.out = ret
	r.ticks = env.ticks
	return r
}
