// Package c14 monitors string interpolation: a quoted literal is interpolated in
// one left-to-right pass over its own text, substituted text is never scanned
// again, raw strings are untouched, and every arrangement of markers yields a
// string (DESIGN.md section 4, C14).
package c14

import (
	"fmt"
	"runtime"
	"strings"
	"sync"
	"sync/atomic"

	"verif/harness/core"
)

func init() { core.Register("C14", Run) }

// pieces is the alphabet of the exhaustive enumeration (source text form).
var pieces = []string{"{{", "}}", "{", "}", "a", "x", "tick()", "1+1", " ", `\"`, `\n`}

// valueCfg is one configuration of the substituted values.
type valueCfg struct {
	name     string
	a, x     string
	tickSelf bool
}

var valueCfgs = []valueCfg{
	{"plain", "A", "X", false},
	{"expr-in-value", "{{tick()}}", "p{{1+1}}q", false},
	{"self-reproducing", "{{a}}", "<{{x}}>", false},
	{"close-open", "}}", "{{", false},
	{"open-close", "{{", "}}", false},
	{"mutual", "{{x}}", "{{a}}", false},
	{"half-markers", "}} {{tick()}}", "{{tick()", false},
	{"tick-returns-marker", "{{", "x}}{{tick()}}", true},
}

// unescape turns the source form of a piece sequence into the literal's value.
func unescape(src string) string {
	src = strings.ReplaceAll(src, `\"`, `"`)
	return strings.ReplaceAll(src, `\n`, "\n")
}

// litCase is one literal under test.
type litCase struct {
	body string // the text between the quotes as written in the program
	raw  bool
}

func (l litCase) source() string {
	if l.raw {
		if strings.Contains(l.body, `"`) {
			return "r'" + l.body + "'"
		}
		return `r"` + l.body + `"`
	}
	return `"` + l.body + `"`
}

func (l litCase) value() string {
	if l.raw {
		return l.body
	}
	return unescape(l.body)
}

type checker struct {
	c        *core.Ctx
	sl       *slots
	recorded sync.Map // key -> *int64 (violation records written by this process)
}

func (k *checker) violation(key, what, stream string, idx int, detail interface{}) {
	v, _ := k.recorded.LoadOrStore(key, new(int64))
	if atomic.AddInt64(v.(*int64), 1) > 12 {
		// the defect is established; keep the record files small
		k.c.Event("violations_not_recorded:"+key, 1)
		return
	}
	k.c.Violation(key, what, stream, idx, detail)
}

// budgetFor is the node-visit budget of a case. A one-pass interpolator
// evaluates every expression of the literal once, and an expression has fewer
// AST nodes than characters, so it needs at most len(literal) visits plus the
// nodes of the surrounding program (< 64 in every generated program shape).
func budgetFor(lit string, vals ...string) int64 {
	n := 8 * len(lit)
	for _, v := range vals {
		n += 2 * len(v)
	}
	return int64(n + 128)
}

func trunc(s string, n int) string {
	if len(s) > n {
		return s[:n] + "..."
	}
	return s
}

// judge compares one observed execution with the reference.
//
//	lit      the literal's value text (after escape processing)
//	interp   whether the reference interpolates (quoted) or not (raw)
//	got      the value the literal evaluated to
//	vars     the preset variables (to re-run a crashing expression on its own)
func (k *checker) judge(r *runner, stream string, idx int, what string, lit string, interp bool, env *refEnv, res *real, got interface{}, vars map[string]interface{}, detail map[string]interface{}) {
	c := k.c
	detail["literal_value"] = lit
	if res.parseErr != nil {
		c.Inconclusive("generated program was rejected by the parser: "+res.parseErr.Error(), stream, idx, detail)
		return
	}
	devEnv := env.clone()
	var ref *refResult
	if interp {
		ref = refInterp(lit, env)
	} else {
		ref = &refResult{chunks: []string{lit}}
	}
	var own []string
	for _, s := range ref.spans {
		own = append(own, s.code)
	}
	_, foreign := evalOrder(ref.spans, res.evald)
	if res.panicked {
		c.Event("outcome.panic", 1)
		if !strings.Contains(res.panicKey, "stringValueRuntime") {
			// does one of the evaluated expressions crash on its own, outside
			// any string? Then the crash belongs to expression evaluation
			// (property C06), not to interpolation.
			cand := append(append([]string{}, own...), firstN(res.evald, 32)...)
			for _, code := range cand {
				if alone := r.eval(code, vars, 4096, false); alone.panicked && alone.panicKey == res.panicKey {
					c.Event("panic.in-expression-itself(C06)", 1)
					if foreign != "" && interp {
						detail["foreign_expression"] = foreign
						detail["literal_own_expressions"] = own
						k.violation("dev:rescan-substituted-text", "text produced by a substitution was scanned again and evaluated ("+what+")", stream, idx, detail)
					}
					return
				}
			}
		}
		detail["panic"] = trunc(res.panicMsg, 1500)
		k.violation(res.panicKey, "evaluating the string literal panicked ("+what+")", stream, idx, detail)
		return
	}
	var dev *devResult
	if interp {
		dev = devInterp(lit, devEnv, 200)
	}
	rescanSeen := foreign != "" || (dev != nil && dev.fired["rescan-substituted-text"])
	if res.exceeded {
		c.Event("outcome.budget-exceeded", 1)
		detail["visits"] = res.visits
		detail["budget"] = r.dbg.budget
		detail["evaluated_expressions"] = firstN(res.evald, 12)
		detail["literal_own_expressions"] = own
		key := "hang:budget-exceeded"
		if rescanSeen {
			key = "hang:self-reproducing"
		}
		k.violation(key, "node-visit budget exceeded: evaluation of the literal does not finish in one pass ("+what+")", stream, idx, detail)
		return
	}
	if res.err != nil {
		detail["error"] = res.err.Error()
		k.violation("diff:eval-error", "evaluating the string literal returned an error ("+what+")", stream, idx, detail)
		return
	}
	gs, ok := got.(string)
	if !ok {
		detail["result"] = fmt.Sprintf("%T %v", got, got)
		k.violation("diff:not-a-string", "the literal did not evaluate to a string ("+what+")", stream, idx, detail)
		return
	}
	okOut := ref.match(gs)
	okTicks := res.ticks >= env.ticks && res.ticks <= env.ticks+env.ticksHi
	// which expressions were evaluated: in order, a subsequence of the
	// literal's own spans, every span with a known value exactly once
	okEval, _ := evalOrder(ref.spans, res.evald)
	c.Event("span.evaluated.reference", int64(len(ref.spans)))
	c.Event("span.evaluated.observed", int64(len(res.evald)))
	c.Event("tick.calls.observed", int64(res.ticks))
	if okOut && okTicks && okEval {
		c.Event("outcome.agree", 1)
		return
	}
	detail["result"] = trunc(gs, 600)
	detail["reference"] = trunc(ref.String(), 600)
	detail["tick_calls"] = res.ticks
	detail["tick_calls_reference"] = fmt.Sprintf("%d..%d", env.ticks, env.ticks+env.ticksHi)
	detail["evaluated_expressions"] = firstN(res.evald, 12)
	detail["literal_own_expressions"] = own
	c.Event("outcome.differ", 1)
	// name the deviation: (1) the result equals the model with the known
	// deviations switched on; (2) an expression was evaluated that the literal
	// does not contain; (3) the deviating model re-scanned substituted text
	// before it met an expression whose value the reference does not know
	if dev != nil && dev.outcome == devOutcomeOK && dev.out == gs && dev.ticks == res.ticks && len(dev.fired) > 0 {
		for sw := range dev.fired {
			k.violation("dev:"+sw, "result equals the model with the known deviation '"+sw+"' switched on ("+what+")", stream, idx, detail)
		}
		return
	}
	if interp && rescanSeen {
		if foreign != "" {
			detail["foreign_expression"] = foreign
		}
		k.violation("dev:rescan-substituted-text", "text produced by a substitution was scanned again ("+what+")", stream, idx, detail)
		return
	}
	switch {
	case !okOut:
		cat := "output"
		if !interp {
			cat = "raw-string-changed"
		}
		k.violation("diff:"+cat, "the literal evaluated to a string different from the reference ("+what+")", stream, idx, detail)
	case !okTicks:
		k.violation("diff:side-effect-count", "tick() was called a different number of times than the literal's own expressions call it ("+what+")", stream, idx, detail)
	default:
		k.violation("diff:evaluation-order", "the literal's own expressions were not each evaluated once, in order ("+what+")", stream, idx, detail)
	}
}

func firstN(s []string, n int) []string {
	if len(s) > n {
		return s[:n]
	}
	return s
}

// evalOrder checks the observed list of evaluated expression texts against the
// literal's own spans. Expressions that fail to parse are never visited, so
// spans of class fail/unknown may be missing; spans with a known value must
// appear exactly once, in order. foreign is the first observed text that is
// not among the remaining own spans at all (text that a substitution produced
// was evaluated).
func evalOrder(spans []refSpan, evald []string) (ok bool, foreign string) {
	ok = true
	i := 0
	for _, e := range evald {
		j := i
		for j < len(spans) && spans[j].code != e {
			j++
		}
		if j == len(spans) {
			if foreign == "" {
				foreign = e
			}
			ok = false
			continue
		}
		for ; i < j; i++ {
			if spans[i].cls == clsExact {
				ok = false // a span with a known value was skipped
			}
		}
		i = j + 1
	}
	for ; i < len(spans); i++ {
		if spans[i].cls == clsExact {
			ok = false
		}
	}
	return ok, foreign
}

func newEnv(a, x string, tickSelf bool) *refEnv {
	env := &refEnv{vars: map[string]string{"a": a, "x": x}, unknown: map[string]string{}, tickRet: tickText}
	if tickSelf {
		env.tickRet = func(int) string { return "{{tick()}}" }
	}
	return env
}

// nontrivial: the reference evaluates at least one span, or a closing marker
// stands before the first opening one, or the literal is raw and holds a
// complete span.
func nontrivial(lit string, raw bool) bool {
	s := strings.Index(lit, "{{")
	e := strings.Index(lit, "}}")
	if s < 0 || e < 0 {
		return false
	}
	if raw {
		return strings.Contains(lit[s:], "}}")
	}
	return true
}

// Run is the check.
func Run(c *core.Ctx) {
	c.Note("rule", "enum: every sequence of <=N pieces (N=5 quick, 6 thorough) over {'{{','}}','{','}','a','x','tick()','1+1',' ','\\\"','\\n'} as quoted and as raw literal x 8 configurations of the preset variables a,x (plain; holding {{tick()}} / {{1+1}}; self-reproducing {{a}}; '}}' / '{{' alone in both orders; mutually reproducing; half markers; tick() returning marker text) - configurations beyond the first only where the reference evaluates an expression that mentions a, x or tick; "+
		"rand: 5..16 pieces from a pool extended by whole spans ({{a}}, {{x}}, {{tick()}}, {{vh.tick()}}, {{1+1}}, failing spans) with random marker-laden values, as plain statement / assigned / returned from a function; except: literals inside an except clause echoing e.detail/e.error/e.type of an error raised with marker-laden detail; sink: literals inside a sink echoing event state. "+
		"Oracles: result string == one-pass reference (shape prefix+'#...'+suffix for failing, prefix+anything+suffix for expressions the reference does not know), tick() call count, list of evaluated expression texts (seen by a counting util.ECALDebugger) is the literal's own spans in order, node-visit budget 8*len(literal)+2*len(values)+128, no panic. "+
		"escape: literals assembled from pieces with known source form and value (\\\\, \\\", \\n, \\t, \\r, \\x41, \\u00e9, \\101, runs of 2 and 3 backslashes before a quote, plain quotes of the other kind, non-ASCII, {{1+1}}) in both quote kinds, all sequences of <=3 (thorough 4) pieces and random longer ones, followed by a second statement; the value must be the pieces' values and the second statement must be what was written. "+
		"reentrant: one literal node evaluated again before its first evaluation finished - by recursion through its own interpolated expression (depth <= 6, expected string computed directly) and by 2..8 threads evaluating the same parsed function at once with thread-specific values. "+
		"non-trivial = distinct (literal, form, value configuration) with a '{{' and a '}}' in the literal")
	c.Note("exhaustive", "true")
	k := &checker{c: c}
	k.sl = newSlots(c, workers())
	k.enum()
	k.random()
	k.escapes()
	k.except()
	k.sl.close()
	k.sink()
	k.reentrant()
}

func workers() int {
	n := runtime.GOMAXPROCS(0)
	if n > 4 {
		n = 4
	}
	return n
}

// enum: the exhaustive stream.
func (k *checker) enum() {
	c := k.c
	const stream = "enum"
	maxN := c.Pick(5, 6)
	np := len(pieces)
	// literal index L enumerates by length, then base-11 value
	offs := []int{0}
	pow := 1
	for n := 0; n <= maxN; n++ {
		offs = append(offs, offs[len(offs)-1]+pow)
		pow *= np
	}
	NL := offs[len(offs)-1]
	ncfg := len(valueCfgs)
	decode := func(L int) string {
		n := 0
		for L >= offs[n+1] {
			n++
		}
		i := L - offs[n]
		parts := make([]string, n)
		for p := n - 1; p >= 0; p-- {
			parts[p] = pieces[i%np]
			i /= np
		}
		return strings.Join(parts, "")
	}
	var next int64 = -1
	var wg sync.WaitGroup
	for g := 0; g < k.sl.n; g++ {
		wg.Add(1)
		go func(slot int) {
			defer wg.Done()
			r := k.sl.runner(slot)
			for {
				L := int(atomic.AddInt64(&next, 1))
				if L >= NL {
					return
				}
				if c.Replay() && !mineAny(c, stream, L, NL, 2*ncfg) {
					continue
				}
				body := decode(L)
				for form := 0; form < 2; form++ {
					lc := litCase{body, form == 1}
					lit := lc.value()
					// which configurations matter for this literal
					relevant := false
					if !lc.raw {
						probe := refInterp(lit, newEnv("", "", false))
						for _, s := range probe.spans {
							if strings.ContainsAny(s.code, "ax") || strings.Contains(s.code, "tick") {
								relevant = true
							}
						}
					}
					for ci := 0; ci < ncfg; ci++ {
						if ci > 0 && !relevant {
							continue
						}
						idx := (form*ncfg+ci)*NL + L
						if !c.Take(stream, idx) {
							continue
						}
						k.sl.enter(slot, stream, idx, lc.source())
						k.one(r, stream, idx, lc, valueCfgs[ci])
						k.sl.leave(slot)
					}
				}
			}
		}(g)
	}
	wg.Wait()
}

// mineAny tells whether any of the case indices derived from literal L is
// selected (replay of a single case: skip the other literals quickly).
func mineAny(c *core.Ctx, stream string, L, NL, combos int) bool {
	for k := 0; k < combos; k++ {
		if c.Mine(stream, k*NL+L) {
			return true
		}
	}
	return false
}

func (k *checker) one(r *runner, stream string, idx int, lc litCase, vc valueCfg) {
	c := k.c
	lit := lc.value()
	src := lc.source()
	vars := map[string]interface{}{"a": vc.a, "x": vc.x}
	res := r.eval(src, vars, budgetFor(lit, vc.a, vc.x), vc.tickSelf)
	env := newEnv(vc.a, vc.x, vc.tickSelf)
	detail := map[string]interface{}{"program": src, "a": vc.a, "x": vc.x, "values": vc.name}
	if vc.tickSelf {
		detail["tick_returns"] = "{{tick()}}"
	}
	k.judge(r, stream, idx, "values: "+vc.name, lit, !lc.raw, env, res, res.out, vars, detail)
	if lc.raw {
		c.Event("case.raw", 1)
	} else {
		c.Event("case.quoted", 1)
	}
	if nontrivial(lit, lc.raw) {
		c.Nontrivial(core.Hash64(stream + "|" + src + "|" + vc.name))
		if idx%7919 == 3 {
			c.Sample(stream, map[string]interface{}{"program": src, "a": vc.a, "x": vc.x, "result": fmt.Sprint(res.out)})
		}
	}
}

// extended piece pool of the random streams
var randPieces = []string{"{{", "}}", "{", "}", "a", "x", "tick()", "1+1", " ", `\"`, `\n`,
	"{{a}}", "{{x}}", "{{tick()}}", "{{vh.tick()}}", "{{1+1}}", "{{ a }}", "{{\\\"{{\\\"}}", "{{}}", "{{{}}", "{{a x}}",
	"#", "}}}", "{{{", "text", "{{12+30}}", "{{a}}{{x}}", "\\t", "'", "{{ tick() }}",
	"{{nosuch()}}", "{{1 + null}}", "{{raise(1)}}", "{{ nosuch() }}"}

var valParts = []string{"{{", "}}", "{", "}", "a", "x", "tick()", "1+1", " ", "{{a}}", "{{x}}", "{{tick()}}", "{{vh.tick()}}",
	"{{1+1}}", "#", "\"", "\n", "plain", "{{b}}", "}}{{"}

func randValue(r *core.Rand) string {
	if r.Chance(1, 4) {
		return "V"
	}
	n := r.Range(1, 5)
	var b strings.Builder
	for i := 0; i < n; i++ {
		b.WriteString(valParts[r.Intn(len(valParts))])
	}
	return b.String()
}

func unescapeRand(s string) string {
	s = unescape(s)
	return strings.ReplaceAll(s, `\t`, "\t")
}

func (k *checker) random() {
	c := k.c
	const stream = "rand"
	total := c.Pick(60000, 6000000)
	c.Parallel(k.sl.n, stream, total, func(slot, idx int) {
		r := k.sl.runner(slot)
		rng := c.Rng(stream, idx)
		n := rng.Range(5, 16)
		var b strings.Builder
		for i := 0; i < n; i++ {
			if rng.Chance(1, 2) {
				b.WriteString(randPieces[rng.Intn(11)])
			} else {
				b.WriteString(randPieces[rng.Intn(len(randPieces))])
			}
		}
		body := b.String()
		raw := rng.Chance(1, 8)
		if raw && strings.Contains(body, `"`) && strings.Contains(body, "'") {
			raw = false
		}
		va, vx := randValue(rng), randValue(rng)
		lit := body
		var src string
		if raw {
			if strings.Contains(body, `"`) {
				src = "r'" + body + "'"
			} else {
				src = `r"` + body + `"`
			}
		} else {
			lit = unescapeRand(body)
			src = `"` + body + `"`
		}
		shape := rng.Intn(3)
		prog := src
		switch shape {
		case 1:
			prog = "b := " + src + "\nb"
		case 2:
			prog = "func f() {\n    return " + src + "\n}\nf()"
		}
		vars := map[string]interface{}{"a": va, "x": vx}
		k.sl.enter(slot, stream, idx, prog)
		res := r.eval(prog, vars, budgetFor(lit, va, vx), false)
		env := newEnv(va, vx, false)
		detail := map[string]interface{}{"program": prog, "a": va, "x": vx}
		k.judge(r, stream, idx, "random literal", lit, !raw, env, res, res.out, vars, detail)
		k.sl.leave(slot)
		if nontrivial(lit, raw) {
			c.Nontrivial(core.Hash64(stream + "|" + prog + "|" + va + "|" + vx))
			if idx%9973 == 1 {
				c.Sample(stream, map[string]interface{}{"program": prog, "a": va, "x": vx, "result": fmt.Sprint(res.out)})
			}
		}
	})
}

var exceptPieces = []string{"{{nosuch()}}", "{{1 + null}}", "{{e.detail}}", "{{e.type}}", "{{e.error}}", "{{ e.detail }}", "{{a}}", "{{tick()}}", "}}", "{{", " ", "msg: ", "{{1+1}}", "a", "{", "}"}

// except: error messages echoed back inside an except clause.
func (k *checker) except() {
	c := k.c
	const stream = "except"
	total := c.Pick(12000, 800000)
	c.Parallel(k.sl.n, stream, total, func(slot, idx int) {
		r := k.sl.runner(slot)
		rng := c.Rng(stream, idx)
		n := rng.Range(1, 6)
		var b strings.Builder
		for i := 0; i < n; i++ {
			b.WriteString(exceptPieces[rng.Intn(len(exceptPieces))])
		}
		body := b.String()
		va := randValue(rng)
		if idx < len(valueCfgs) {
			va = valueCfgs[idx].a
		}
		prog := "r := null\ntry {\n    raise(\"T\", a)\n} except e {\n    r := \"" + body + "\"\n}\nr"
		vars := map[string]interface{}{"a": va}
		k.sl.enter(slot, stream, idx, prog)
		res := r.eval(prog, vars, budgetFor(body, va, va, va), false)
		env := newEnv(va, "", false)
		delete(env.vars, "x")
		env.vars["e.detail"] = va
		env.vars["e.type"] = "T"
		env.unknown["e.error"] = va // the message text is the implementation's; it echoes the detail
		detail := map[string]interface{}{"program": prog, "a": va}
		k.judge(r, stream, idx, "literal in an except clause echoing the error", body, true, env, res, res.out, vars, detail)
		k.sl.leave(slot)
		if nontrivial(body, false) {
			c.Nontrivial(core.Hash64(stream + "|" + body + "|" + va))
			if idx%997 == 1 {
				c.Sample(stream, map[string]interface{}{"program": prog, "a": va, "result": fmt.Sprint(res.out)})
			}
		}
	})
}

var sinkPieces = []string{"{{nosuch()}}", "{{raise(1)}}", "{{event.state.v}}", "{{event.state.w}}", "{{event.name}}", "{{ event.state.v }}", "{{tick()}}", "}}", "{{", " ", "got: ", "{{1+1}}", "a", "{{a}}"}

// sink: event state echoed inside a sink. The sink body runs on a pool worker
// where a panic would kill the process, so the same literal is first
// evaluated on this goroutine with an equivalent `event` variable; the real
// sink is only triggered if that did not panic.
func (k *checker) sink() {
	c := k.c
	const stream = "sink"
	total := c.Pick(600, 24000)
	for idx := 0; idx < total; idx++ {
		if !c.Take(stream, idx) {
			continue
		}
		rng := c.Rng(stream, idx)
		n := rng.Range(1, 5)
		var b strings.Builder
		for i := 0; i < n; i++ {
			b.WriteString(sinkPieces[rng.Intn(len(sinkPieces))])
		}
		body := b.String()
		vv, vw := randValue(rng), randValue(rng)
		if idx < len(valueCfgs) {
			vv, vw = valueCfgs[idx].a, valueCfgs[idx].x
		}
		mkEnv := func() *refEnv {
			env := newEnv("A", "", false)
			delete(env.vars, "x")
			env.vars["event.state.v"] = vv
			env.vars["event.state.w"] = vw
			env.vars["event.name"] = "ev"
			return env
		}
		budget := budgetFor(body, vv, vw, vv, vw) + 256
		vars := map[string]interface{}{"a": "A", "v": vv, "w": vw}
		// 1. on this goroutine
		r := newRunner()
		pre := "event := {\"name\": \"ev\", \"kind\": \"c14.ev\", \"state\": {\"v\": v, \"w\": w}}\n\"" + body + "\""
		res := r.eval(pre, vars, budget, false)
		detail := map[string]interface{}{"program": pre, "v": vv, "w": vw}
		k.judge(r, stream, idx, "literal echoing event state (outside a sink)", body, true, mkEnv(), res, res.out, vars, detail)
		if res.panicked || res.exceeded || res.parseErr != nil {
			c.Event("sink.not-triggered-after-guarded-failure", 1)
			r.close()
			continue
		}
		// 2. inside a real sink
		prog := "sink s1\n    kindmatch [\"c14.ev\"],\n{\n    rec(\"" + body + "\")\n}\naddEventAndWait(\"ev\", \"c14.ev\", {\"v\": v, \"w\": w})"
		c.Begin(0, stream, idx, prog)
		res = r.eval(prog, vars, budget, false)
		c.End(0)
		c.AddEvals(1)
		detail = map[string]interface{}{"program": prog, "v": vv, "w": vw, "add_event_result": fmt.Sprint(res.out)}
		var got interface{}
		if len(res.rec) == 1 {
			got = res.rec[0]
			c.Event("sink.executed", 1)
		} else if !res.exceeded && !res.panicked && res.parseErr == nil && res.err == nil {
			c.Inconclusive("the sink did not record exactly one value", stream, idx, detail)
			r.close()
			continue
		}
		k.judge(r, stream, idx, "literal echoing event state inside a sink", body, true, mkEnv(), res, got, vars, detail)
		r.close()
		if nontrivial(body, false) {
			c.Nontrivial(core.Hash64(stream + "|" + body + "|" + vv + "|" + vw))
			if idx%97 == 1 {
				c.Sample(stream, map[string]interface{}{"program": prog, "v": vv, "w": vw, "recorded": res.rec})
			}
		}
	}
}
