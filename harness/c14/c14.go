// Package c14 holds the runtime monitors for property C14 (see DESIGN.md section 4).
package c14

import "verif/harness/core"

func init() { core.Register("C14", Run) }

// Run is the check.
func Run(c *core.Ctx) {
}
