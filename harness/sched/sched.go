// Package sched is the hook handler shared by the schedule-quantified checks:
// a trace with one logical clock, seeded noise at hook points, directed gates
// (hold goroutine A at point p until another goroutine passed point q) and
// goroutine-state inspection for stuck detection (DESIGN.md section 3).
package sched

import (
	"bytes"
	"regexp"
	"runtime"
	"strconv"
	"strings"
	"sync"
	"sync/atomic"
	"time"

	"github.com/krotik/ecal/verifhook"
)

// Event is one trace entry.
type Event struct {
	Seq   int64
	G     uint64 // goroutine id
	Point string
	Args  []interface{}
}

// Gate holds the first goroutine that passes HoldPoint (and satisfies Match)
// until a different goroutine passes UntilPoint, or Release is called.
type Gate struct {
	HoldPoint  string
	Match      func(args []interface{}) bool // nil = any
	UntilPoint string
	UntilMatch func(args []interface{}) bool

	mu       sync.Mutex
	state    int // 0 armed, 1 holding, 2 done
	holder   uint64
	release  chan struct{}
	HeldAt   int64 // seq when the hold began (0 = never held)
	Released int64 // seq when released by the partner (0 = not by partner)
	Forced   bool  // released by Release()
}

// NewGate creates an armed gate.
func NewGate(hold, until string) *Gate {
	return &Gate{HoldPoint: hold, UntilPoint: until, release: make(chan struct{})}
}

// Release opens the gate from the harness (escape).
func (g *Gate) Release() {
	g.mu.Lock()
	if g.state != 2 {
		if g.state == 1 {
			g.Forced = true
		}
		g.state = 2
		close(g.release)
	}
	g.mu.Unlock()
}

// Holding tells whether a goroutine is currently held.
func (g *Gate) Holding() bool {
	g.mu.Lock()
	defer g.mu.Unlock()
	return g.state == 1
}

// WasHeld tells whether the gate ever held a goroutine.
func (g *Gate) WasHeld() bool {
	g.mu.Lock()
	defer g.mu.Unlock()
	return g.HeldAt != 0
}

// Tracer is a hook handler.
type Tracer struct {
	mu     sync.Mutex
	events []Event
	seq    int64
	Keep   bool // keep events (else only count)
	counts map[string]int64

	Filter func(point string, args []interface{}) bool // nil = all

	noiseOn   int32
	noiseSeed uint64
	NoiseNum  uint64          // probability NoiseNum/1024 of a perturbation per point
	NoPoints  map[string]bool // points at which no noise is injected (inside locks)

	gmu   sync.Mutex
	gates []*Gate

	Observer func(ev Event) // called (outside the trace lock) for each event

	Collapse  map[string]bool // points whose immediate repetitions by one goroutine are merged
	collapsed int64
}

// NewTracer creates a tracer that keeps events.
func NewTracer() *Tracer {
	return &Tracer{Keep: true, counts: map[string]int64{}, NoiseNum: 0, Collapse: map[string]bool{"pool.broadcast": true},
		NoPoints: map[string]bool{"pool.add.pushed": true, "pool.add.signalled": true, "pool.idle.locked": true,
			"pool.idle.woken": true, "mon.created.locked": true, "mon.activated.locked": true,
			"mon.failed.locked": true, "mon.finish.locked": true, "tq.push": true, "tq.pop": true}}
}

// Install makes t the process-wide hook handler.
func (t *Tracer) Install() { verifhook.Set(t.handle) }

// Uninstall removes any handler.
func Uninstall() { verifhook.Set(nil) }

// SetNoise enables perturbation with the given seed and probability (x/1024).
func (t *Tracer) SetNoise(seed uint64, num uint64) {
	t.noiseSeed = seed
	t.NoiseNum = num
	if num > 0 {
		atomic.StoreInt32(&t.noiseOn, 1)
	} else {
		atomic.StoreInt32(&t.noiseOn, 0)
	}
}

// AddGate arms a gate.
func (t *Tracer) AddGate(g *Gate) {
	t.gmu.Lock()
	t.gates = append(t.gates, g)
	t.gmu.Unlock()
}

// ClearGates releases and removes all gates.
func (t *Tracer) ClearGates() {
	t.gmu.Lock()
	gs := t.gates
	t.gates = nil
	t.gmu.Unlock()
	for _, g := range gs {
		g.Release()
	}
}

// Stamp advances the logical clock and returns the new value.
func (t *Tracer) Stamp() int64 { return atomic.AddInt64(&t.seq, 1) }

// Now returns the current clock value without advancing it.
func (t *Tracer) Now() int64 { return atomic.LoadInt64(&t.seq) }

// Record adds a harness-side event to the trace.
func (t *Tracer) Record(point string, args ...interface{}) int64 {
	s := t.record(point, args)
	// a harness event can be the partner point of a gate (it never holds)
	t.gmu.Lock()
	gs := t.gates
	t.gmu.Unlock()
	if len(gs) > 0 {
		me := GoID()
		for _, g := range gs {
			g.mu.Lock()
			if g.state == 1 && point == g.UntilPoint && g.holder != me && (g.UntilMatch == nil || g.UntilMatch(args)) {
				g.state = 2
				g.Released = s
				close(g.release)
			}
			g.mu.Unlock()
		}
	}
	return s
}

func (t *Tracer) record(point string, args []interface{}) int64 {
	g := GoID()
	t.mu.Lock()
	s := atomic.AddInt64(&t.seq, 1)
	t.counts[point]++
	var ev Event
	if t.Keep {
		ev = Event{s, g, point, args}
		// a polling loop that notifies again and again (WaitAll, JoinAll,
		// SetWorkerCount(wait)) is kept as ONE event carrying the latest stamp
		if n := len(t.events); n > 0 && t.Collapse[point] && t.events[n-1].Point == point && t.events[n-1].G == g {
			t.events[n-1].Seq = s
			t.collapsed++
		} else {
			t.events = append(t.events, ev)
		}
	}
	t.mu.Unlock()
	if t.Observer != nil {
		t.Observer(Event{s, g, point, args})
	}
	return s
}

func (t *Tracer) handle(point string, args []interface{}) {
	if t.Filter != nil && !t.Filter(point, args) {
		return
	}
	s := t.record(point, args)
	// gates
	t.gmu.Lock()
	gs := t.gates
	t.gmu.Unlock()
	if len(gs) > 0 {
		me := GoID()
		for _, g := range gs {
			g.mu.Lock()
			switch {
			case g.state == 0 && point == g.HoldPoint && (g.Match == nil || g.Match(args)):
				g.state = 1
				g.holder = me
				g.HeldAt = s
				ch := g.release
				g.mu.Unlock()
				<-ch
				continue
			case g.state == 1 && point == g.UntilPoint && g.holder != me && (g.UntilMatch == nil || g.UntilMatch(args)):
				g.state = 2
				g.Released = s
				close(g.release)
			}
			g.mu.Unlock()
		}
	}
	if atomic.LoadInt32(&t.noiseOn) == 1 && !t.NoPoints[point] {
		x := mix(t.noiseSeed ^ uint64(s)*0x9E3779B97F4A7C15)
		if x%1024 < t.NoiseNum {
			switch (x >> 10) % 4 {
			case 0, 1:
				runtime.Gosched()
			case 2:
				time.Sleep(time.Duration((x>>12)%50) * time.Microsecond)
			case 3:
				time.Sleep(time.Duration((x>>12)%200) * time.Microsecond)
			}
		}
	}
}

func mix(z uint64) uint64 {
	z = (z ^ (z >> 30)) * 0xBF58476D1CE4E5B9
	z = (z ^ (z >> 27)) * 0x94D049BB133111EB
	return z ^ (z >> 31)
}

// Snapshot copies the trace.
func (t *Tracer) Snapshot() []Event {
	t.mu.Lock()
	defer t.mu.Unlock()
	r := make([]Event, len(t.events))
	copy(r, t.events)
	return r
}

// Len returns the number of kept events.
func (t *Tracer) Len() int {
	t.mu.Lock()
	defer t.mu.Unlock()
	return len(t.events)
}

// Counts copies the per-point counters.
func (t *Tracer) Counts() map[string]int64 {
	t.mu.Lock()
	defer t.mu.Unlock()
	r := map[string]int64{}
	for k, v := range t.counts {
		r[k] = v
	}
	return r
}

// Reset clears the trace (not the clock, not the counters).
func (t *Tracer) Reset() {
	t.mu.Lock()
	t.events = t.events[:0]
	t.mu.Unlock()
}

// GoID returns the id of the calling goroutine.
func GoID() uint64 {
	var buf [64]byte
	n := runtime.Stack(buf[:], false)
	// "goroutine 123 [running]:"
	b := buf[:n]
	b = b[len("goroutine "):]
	i := bytes.IndexByte(b, ' ')
	id, _ := strconv.ParseUint(string(b[:i]), 10, 64)
	return id
}

var gHead = regexp.MustCompile(`(?m)^goroutine (\d+) \[([^\],]+)`)

// GoStates returns the scheduler state of every goroutine ("running",
// "sync.Cond.Wait", "chan receive", "semacquire", ...), from a full stack dump.
func GoStates() map[uint64]string {
	buf := make([]byte, 1<<20)
	for {
		n := runtime.Stack(buf, true)
		if n < len(buf) {
			buf = buf[:n]
			break
		}
		buf = make([]byte, 2*len(buf))
	}
	res := map[uint64]string{}
	for _, m := range gHead.FindAllSubmatch(buf, -1) {
		id, _ := strconv.ParseUint(string(m[1]), 10, 64)
		res[id] = string(m[2])
	}
	return res
}

// FullDump returns the stacks of all goroutines.
func FullDump() string {
	buf := make([]byte, 1<<20)
	for {
		n := runtime.Stack(buf, true)
		if n < len(buf) {
			return string(buf[:n])
		}
		buf = make([]byte, 2*len(buf))
	}
}

// Signature hashes the sequence of (goroutine-role, point) pairs of a trace
// slice; role maps goroutine ids to small role numbers in order of appearance.
func Signature(evs []Event, keep func(p string) bool) uint64 {
	roles := map[uint64]uint64{}
	var h uint64 = 1469598103934665603
	for _, e := range evs {
		if keep != nil && !keep(e.Point) {
			continue
		}
		r, ok := roles[e.G]
		if !ok {
			r = uint64(len(roles) + 1)
			roles[e.G] = r
		}
		h ^= r
		h *= 1099511628211
		for i := 0; i < len(e.Point); i++ {
			h ^= uint64(e.Point[i])
			h *= 1099511628211
		}
	}
	return h
}

// PoolView is what the trace says about one thread pool.
type PoolView struct {
	LiveWorkers map[uint64]int64 // goroutine id -> seq of its last event
	LastPoint   map[uint64]string
	Pushed      int64
	Signalled   int64
	LastNotify  int64             // seq of the last add.signalled / broadcast
	WorkerIDs   map[uint64]uint64 // goroutine id -> pool worker id
	Exited      int
	TraceLen    int
}

// ViewPool summarises the trace for one pool (first hook argument == pool).
func ViewPool(evs []Event, pool interface{}) *PoolView {
	v := &PoolView{LiveWorkers: map[uint64]int64{}, LastPoint: map[uint64]string{}, WorkerIDs: map[uint64]uint64{}, TraceLen: len(evs)}
	for _, e := range evs {
		if len(e.Args) == 0 || e.Args[0] != pool || len(e.Point) < 5 || e.Point[:5] != "pool." {
			continue
		}
		switch e.Point {
		case "pool.add.pushed":
			v.Pushed++
		case "pool.add.signalled":
			v.Signalled++
			v.LastNotify = e.Seq
		case "pool.broadcast":
			v.LastNotify = e.Seq
		case "pool.worker.loop":
			v.LiveWorkers[e.G] = e.Seq
			v.LastPoint[e.G] = e.Point
			if len(e.Args) > 1 {
				if id, ok := e.Args[1].(uint64); ok {
					v.WorkerIDs[e.G] = id
				}
			}
		case "pool.worker.exit":
			delete(v.LiveWorkers, e.G)
			delete(v.LastPoint, e.G)
			v.Exited++
		case "pool.get.kill", "pool.get.popped", "pool.get.empty", "pool.idle.beforewait", "pool.idle.locked", "pool.idle.woken":
			if _, ok := v.LiveWorkers[e.G]; ok {
				v.LiveWorkers[e.G] = e.Seq
				v.LastPoint[e.G] = e.Point
			}
		}
	}
	return v
}

// PoolStuck decides the stuck state of DESIGN.md 3.3 for one pool: there is
// at least one live worker, no AddTask is between push and signal, every live
// worker's last event is its "before wait" event, every such goroutine is
// blocked in sync.Cond.Wait according to the scheduler (taken after the trace
// snapshot), and the trace did not grow while this was established. The caller
// must make sure that no pool call of its own is outstanding.
func PoolStuck(t *Tracer, pool interface{}) (bool, *PoolView) {
	seq0 := t.Now()
	evs := t.Snapshot()
	v := ViewPool(evs, pool)
	if len(v.LiveWorkers) == 0 || v.Pushed != v.Signalled {
		return false, v
	}
	// a worker that was created but has not reached its loop head yet is
	// unknown to the trace and will still look for work
	if wc, ok := pool.(interface{ WorkerCount() int }); ok && wc.WorkerCount() != len(v.LiveWorkers) {
		return false, v
	}
	for g, l := range v.LiveWorkers {
		p := v.LastPoint[g]
		if p != "pool.idle.locked" && p != "pool.idle.beforewait" {
			return false, v
		}
		_ = l
	}
	// Every notify call that was started has returned (pushed == signalled;
	// broadcasts come from calls of the harness, which are not outstanding):
	// Signal/Broadcast make the chosen waiters runnable before they return,
	// so a worker that the scheduler still reports in sync.Cond.Wait below
	// was not chosen by any of them and nothing is left to wake it.
	st := GoStates()
	for g := range v.LiveWorkers {
		if st[g] != "sync.Cond.Wait" {
			return false, v
		}
	}
	if t.Now() != seq0 {
		return false, v
	}
	return true, v
}

var gBlock = regexp.MustCompile(`(?m)^goroutine (\d+) `)

// GoStackHas tells whether the current stack of goroutine gid contains all the
// given substrings (e.g. "sync.(*WaitGroup).Wait" and the name of the API
// function that is expected to be blocked there).
func GoStackHas(gid uint64, subs ...string) bool {
	dump := FullDump()
	for _, blk := range strings.Split(dump, "\n\n") {
		m := gBlock.FindStringSubmatch(blk)
		if m == nil {
			continue
		}
		id, _ := strconv.ParseUint(m[1], 10, 64)
		if id != gid {
			continue
		}
		for _, s := range subs {
			if !strings.Contains(blk, s) {
				return false
			}
		}
		return true
	}
	return false
}

// GInfo is the state and the stack text of one goroutine, taken from ONE dump
// (a state from one dump must never be combined with a stack from another).
type GInfo struct {
	State string
	Stack string
}

// Dump returns state and stack of every goroutine from a single stack dump.
func Dump() map[uint64]GInfo {
	res := map[uint64]GInfo{}
	for _, blk := range strings.Split(FullDump(), "\n\n") {
		m := gHead.FindStringSubmatch(blk)
		if m == nil {
			continue
		}
		id, _ := strconv.ParseUint(m[1], 10, 64)
		res[id] = GInfo{State: m[2], Stack: blk}
	}
	return res
}

// BlockedIn tells whether goroutine g is, in this dump, in one of the given
// scheduler states with all the given substrings on its stack.
func BlockedIn(d map[uint64]GInfo, g uint64, states []string, subs ...string) bool {
	gi, ok := d[g]
	if !ok {
		return false
	}
	okState := false
	for _, s := range states {
		if gi.State == s {
			okState = true
		}
	}
	if !okState {
		return false
	}
	for _, s := range subs {
		if !strings.Contains(gi.Stack, s) {
			return false
		}
	}
	return true
}

// CanStep tells whether, in this dump, some goroutine other than the caller
// (self) is on a processor, waiting for one, or inside a system call. While
// such a goroutine exists no picture of blocked goroutines is final: it may be
// about to send, unlock or signal, however long the machine keeps it waiting.
func CanStep(d map[uint64]GInfo, self uint64) bool {
	for id, gi := range d {
		if id == self {
			continue
		}
		switch gi.State {
		case "running", "runnable", "syscall", "IO wait":
			return true
		}
	}
	return false
}

// LockHeldForGood evaluates, on one dump, the witness for "this call can never
// return": goroutine probe is parked acquiring a sync.Mutex / sync.RWMutex
// below a function whose name contains frame; every other goroutine that has
// such a function on its stack is itself parked in a sync primitive (so
// whoever holds the lock cannot release it); and no goroutine can take a step.
func LockHeldForGood(d map[uint64]GInfo, probe uint64, frame string) (bool, string) {
	pg, ok := d[probe]
	if !ok || !strings.Contains(pg.Stack, frame) {
		return false, ""
	}
	switch pg.State {
	case "sync.Mutex.Lock", "sync.RWMutex.Lock", "sync.RWMutex.RLock":
	default:
		return false, ""
	}
	if CanStep(d, GoID()) {
		return false, ""
	}
	wit := pg.Stack
	for id, gi := range d {
		if id == probe || !strings.Contains(gi.Stack, frame) {
			continue
		}
		if !strings.HasPrefix(gi.State, "sync.") && !strings.HasPrefix(gi.State, "semacquire") {
			return false, ""
		}
		if len(wit) < 6000 {
			wit += "\n\n" + gi.Stack
		}
	}
	return true, wit
}

// InnermostNonRuntime returns the innermost frame of goroutine g that does
// not belong to the runtime, sync or internal packages ("" if unknown).
func InnermostNonRuntime(d map[uint64]GInfo, g uint64) string {
	gi, ok := d[g]
	if !ok {
		return ""
	}
	for _, l := range strings.Split(gi.Stack, "\n")[1:] {
		if strings.HasPrefix(l, "\t") || l == "" {
			continue
		}
		if strings.HasPrefix(l, "runtime.") || strings.HasPrefix(l, "sync.") || strings.HasPrefix(l, "internal/") || strings.HasPrefix(l, "sync/") {
			continue
		}
		if i := strings.LastIndex(l, "("); i > 0 {
			l = l[:i]
		}
		return l
	}
	return ""
}

// WaitGroupStates are the scheduler states of a goroutine blocked in
// sync.WaitGroup.Wait (go1.23: "semacquire"; later versions name it).
var WaitGroupStates = []string{"semacquire", "sync.WaitGroup.Wait"}
