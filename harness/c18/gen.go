package c18

import (
	"fmt"
	"strings"

	"verif/harness/core"
)

// The source builder. A source text is assembled from token texts and
// separator atoms; while it appends bytes it tracks the byte offset, the line
// (1 + number of '\n' before) and the column (bytes since the last '\n', from
// 1) of every token's first character. It never looks at the lexer. For the
// known deviation it also remembers which '\n' bytes terminate a '#' comment.

type tokClass int

const (
	clsWord tokClass = iota // identifier, keyword, number
	clsSym                  // symbol
	clsStr                  // string literal
)

type tokKind struct {
	name  string
	text  string
	class tokClass
}

type placed struct {
	kind   string
	text   string
	offset int
	line   int
	col    int
}

type builder struct {
	sb      strings.Builder
	line    int
	lineOff int          // offset of the first byte of the current line
	hashNL  map[int]bool // offsets of '\n' bytes that terminate a # comment
	toks    []placed
	lastTok *tokKind
	lastSep string // separator text appended since the last token
}

func newBuilder() *builder {
	return &builder{line: 1, hashNL: map[int]bool{}}
}

func (b *builder) raw(s string) {
	for i := 0; i < len(s); i++ {
		if s[i] == '\n' {
			b.line++
			b.lineOff = b.sb.Len() + i + 1
		}
	}
	b.sb.WriteString(s)
}

// sep appends a separator atom; a '#' atom marks its terminating newline.
func (b *builder) sep(a string) {
	start := b.sb.Len()
	if strings.HasPrefix(a, "#") {
		if i := strings.IndexByte(a, '\n'); i >= 0 {
			b.hashNL[start+i] = true
		}
	}
	b.raw(a)
	b.lastSep += a
}

func (b *builder) tok(k *tokKind) {
	off := b.sb.Len()
	b.toks = append(b.toks, placed{k.name, k.text, off, b.line, off - b.lineOff + 1})
	b.raw(k.text)
	b.lastTok = k
	b.lastSep = ""
}

func (b *builder) String() string { return b.sb.String() }

// ---------------------------------------------------------------------
// junction rules (generator restrictions): which texts may follow a token
// directly without changing the intended token boundaries. They are written
// from the language's lexical conventions, conservatively: when in doubt a
// junction is refused and the generator puts a blank in between (random
// streams) or skips the combination (exhaustive triples).

func wordy(c byte) bool {
	return c >= '0' && c <= '9' || c >= 'a' && c <= 'z' || c >= 'A' && c <= 'Z' || c == '_' || c >= 0x80
}

var twoChar = map[string]bool{">=": true, "<=": true, "!=": true, "==": true, ":=": true, "//": true, "/*": true}

// mayFollow tells whether text x (a token text or a separator) may be placed
// directly after token k.
func mayFollow(k *tokKind, x string) bool {
	if x == "" {
		return true
	}
	f := x[0]
	if f == ' ' || f == '\t' || f == '\n' || f == '\r' {
		return true
	}
	l := k.text[len(k.text)-1]
	switch k.class {
	case clsWord:
		// a text block ends only at white space or a symbol: words, quotes,
		// '#' and '.' after a number would be swallowed
		if wordy(f) || f == '"' || f == '\'' || f == '#' || f == '.' {
			return false
		}
		return true
	case clsStr:
		return true
	default:
		if twoChar[string([]byte{l, f})] {
			return false
		}
		if l == '.' && f >= '0' && f <= '9' {
			return false
		}
		return true
	}
}

// ---------------------------------------------------------------------

var keywords = []string{"let", "import", "as", "sink", "kindmatch", "scopematch", "statematch", "priority",
	"suppresses", "func", "return", "and", "or", "not", "like", "hasprefix", "hassuffix", "in", "notin",
	"false", "true", "null", "if", "elif", "else", "for", "break", "continue", "try", "except",
	"otherwise", "finally", "mutex"}

var symbols = []string{">=", "<=", "!=", "==", ">", "<", "(", ")", "[", "]", "{", "}", ".", ",", ";", ":", "=",
	"+", "-", "*", "/", "//", "%", ":="}

// kinds of the exhaustive triples
var enumKinds []tokKind

// separator atoms of the exhaustive triples
var enumAtoms = []string{
	" ", "\t", "\n", "\r\n",
	"# c\n", "#\n", "# cü\r\n",
	"/* c */", "/*ü*/", "/* c\nd */", "/* c\n\r\nü\n */",
}

func init() {
	add := func(name, text string, c tokClass) { enumKinds = append(enumKinds, tokKind{name, text, c}) }
	add("identifier", "a", clsWord)
	add("identifier-long", "Foo9", clsWord)
	add("identifier-r", "r", clsWord)
	add("keyword-if", "if", clsWord)
	add("keyword-notin", "notin", clsWord)
	add("keyword-return", "return", clsWord)
	add("keyword-TRUE", "TRUE", clsWord)
	add("number-int", "1", clsWord)
	add("number-float", "1.5", clsWord)
	add("number-exp", "1e+3", clsWord)
	for _, s := range symbols {
		add("symbol "+s, s, clsSym)
	}
	add("string-dq", `"s"`, clsStr)
	add("string-sq", `'s'`, clsStr)
	add("string-escapes", `"a\nb\"c\t"`, clsStr)
	add("string-multibyte", `"äö€😀"`, clsStr)
	add("string-empty", `""`, clsStr)
	add("raw-dq", `r"raw\n"`, clsStr)
	add("raw-sq", `r'x'`, clsStr)
	add("raw-1nl", "r\"l1\nl2\"", clsStr)
	add("raw-2nl", "r'l1\n\nl3'", clsStr)
	add("raw-3nl-crlf-multibyte", "r\"ä\r\n ö\n\n  \"", clsStr)
}

// enumSeps lists all separator combinations of up to max atoms.
func enumSeps(max int) [][]string {
	res := [][]string{{}}
	level := [][]string{{}}
	for n := 1; n <= max; n++ {
		var next [][]string
		for _, p := range level {
			for _, a := range enumAtoms {
				c := append(append([]string{}, p...), a)
				next = append(next, c)
			}
		}
		res = append(res, next...)
		level = next
	}
	return res
}

// ---------------------------------------------------------------------
// random material

func randIdent(r *core.Rand) string {
	const first = "abcdefghijklmnopqrstuvwxyzABCDEFGHIJKLMNOPQRSTUVWXYZ"
	const rest = first + "0123456789"
	n := 1 + r.Intn(8)
	b := make([]byte, n)
	b[0] = first[r.Intn(len(first))]
	for i := 1; i < n; i++ {
		b[i] = rest[r.Intn(len(rest))]
	}
	s := string(b)
	low := strings.ToLower(s)
	for _, k := range keywords {
		if k == low {
			return s + "x"
		}
	}
	return s
}

func randNumber(r *core.Rand) string {
	switch r.Intn(4) {
	case 0:
		return fmt.Sprint(r.Intn(100000))
	case 1:
		return fmt.Sprintf("%d.%d", r.Intn(1000), r.Intn(1000))
	case 2:
		return fmt.Sprintf("%de+%d", 1+r.Intn(9), r.Intn(20))
	default:
		return fmt.Sprintf("%d.%de+%d", r.Intn(10), r.Intn(100), r.Intn(9))
	}
}

var strPieces = []string{"a", "b c", "ä", "€", "😀", "日本", `\n`, `\t`, `\"`, `\\x`, `ä`, "{{", "}}", "#", "/*", "*/", "'", " ", "1", ":=", "\t"}

func randString(r *core.Rand) tokKind {
	switch r.Intn(4) {
	case 0, 1: // quoted with escapes
		q := `"`
		if r.Bool() {
			q = "'"
		}
		var sb strings.Builder
		for i, n := 0, r.Intn(6); i < n; i++ {
			p := strPieces[r.Intn(len(strPieces))]
			if p == q || (q == "'" && p == `\"`) {
				continue
			}
			sb.WriteString(p)
		}
		body := sb.String()
		// a body ending in a backslash would escape the closing quote (and a
		// body ending in an escaped backslash is the C08 finding): not generated
		for strings.HasSuffix(body, `\`) || strings.HasSuffix(body, `\x`) && false {
			body = body[:len(body)-1]
		}
		if strings.HasSuffix(body, `\\x`) {
			body += "y"
		}
		return tokKind{"string-quoted", q + body + q, clsStr}
	default: // raw, possibly multi-line
		q := `"`
		if r.Bool() {
			q = "'"
		}
		var sb strings.Builder
		for i, n := 0, r.Intn(7); i < n; i++ {
			switch r.Intn(5) {
			case 0:
				sb.WriteString("\n")
			case 1:
				sb.WriteString("\r\n")
			default:
				p := strPieces[r.Intn(len(strPieces))]
				if strings.Contains(p, q) {
					continue
				}
				sb.WriteString(p)
			}
		}
		return tokKind{"string-raw", "r" + q + sb.String() + q, clsStr}
	}
}

func randToken(r *core.Rand) tokKind {
	switch x := r.Intn(10); {
	case x < 2:
		return tokKind{"identifier", randIdent(r), clsWord}
	case x < 3:
		k := keywords[r.Intn(len(keywords))]
		if r.Chance(1, 6) {
			k = strings.ToUpper(k)
		}
		return tokKind{"keyword", k, clsWord}
	case x < 4:
		return tokKind{"number", randNumber(r), clsWord}
	case x < 7:
		s := symbols[r.Intn(len(symbols))]
		return tokKind{"symbol " + s, s, clsSym}
	default:
		return randString(r)
	}
}

var cmtPieces = []string{"c", " ", "ü", "€", "x y", "\"", "'", "r\"", "#", "/ *", "* /", "1", "{", "\t", "日本語"}

func randAtom(r *core.Rand) string {
	switch r.Intn(9) {
	case 0, 1:
		return " "
	case 2:
		return "\t"
	case 3:
		return "\n"
	case 4:
		return "\r\n"
	case 5, 6: // # comment
		var sb strings.Builder
		sb.WriteString("#")
		for i, n := 0, r.Intn(5); i < n; i++ {
			sb.WriteString(cmtPieces[r.Intn(len(cmtPieces))])
		}
		if r.Chance(1, 4) {
			sb.WriteString("\r")
		}
		sb.WriteString("\n")
		return sb.String()
	default: // block comment with 0..3 newlines
		var sb strings.Builder
		sb.WriteString("/*")
		for i, n := 0, r.Intn(6); i < n; i++ {
			if r.Chance(1, 3) {
				if r.Bool() {
					sb.WriteString("\n")
				} else {
					sb.WriteString("\r\n")
				}
			} else {
				p := cmtPieces[r.Intn(len(cmtPieces))]
				sb.WriteString(p)
			}
		}
		s := sb.String()
		// the comment text must not contain the end marker and must not end in '*'
		s = "/*" + strings.ReplaceAll(s[2:], "*/", "* /")
		if strings.HasSuffix(s, "*") || strings.HasSuffix(s, "/") && len(s) == 3 {
			s += " "
		}
		return s + "*/"
	}
}

// randSep appends 0..3 atoms after the last token; a blank is put first when
// the junction rule refuses the direct contact. next is the token that will
// follow (nil at the end of the text).
func (b *builder) randSep(r *core.Rand, next *tokKind) {
	n := r.Intn(4)
	if r.Chance(1, 3) {
		n = 1
	}
	var atoms []string
	for i := 0; i < n; i++ {
		atoms = append(atoms, randAtom(r))
	}
	b.putSep(atoms, next)
}

// putSep appends the atoms, inserting a blank where a junction is refused.
func (b *builder) putSep(atoms []string, next *tokKind) {
	for i, a := range atoms {
		if i == 0 && b.lastTok != nil && !mayFollow(b.lastTok, a) {
			b.sep(" ")
		}
		// '/' '*' hazards between atoms do not exist: every atom is self-delimiting
		b.sep(a)
	}
	if next != nil && b.lastTok != nil && b.lastSep == "" && !mayFollow(b.lastTok, next.text) {
		b.sep(" ")
	}
}
