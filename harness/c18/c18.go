// Package c18 holds the runtime monitors for property C18: tokens, errors and
// breakpoints carry the true source position (DESIGN.md section 4).
package c18

import (
	"fmt"
	"runtime"
	"strings"

	"github.com/krotik/ecal/interpreter"
	"github.com/krotik/ecal/parser"
	"github.com/krotik/ecal/scope"
	"github.com/krotik/ecal/util"
	"github.com/krotik/ecal/verifhook"

	"verif/harness/core"
)

func init() { core.Register("C18", Run) }

const srcName = "c18src"

type monitor struct {
	c       *core.Ctx
	counts  map[string]int64
	emitted map[string]int
	erp     *interpreter.ECALRuntimeProvider
}

func (m *monitor) ev(name string) { m.counts[name]++ }

func trunc(s string, n int) string {
	if len(s) > n {
		return s[:n] + fmt.Sprintf("…(%d bytes)", len(s))
	}
	return s
}

func (m *monitor) violation(key, what, stream string, idx int, src string, extra map[string]interface{}) {
	m.counts["violation:"+key]++
	if m.emitted[key] >= 4 {
		return
	}
	m.emitted[key]++
	d := map[string]interface{}{"input": trunc(src, 1200), "input_quoted": fmt.Sprintf("%q", trunc(src, 500))}
	for k, v := range extra {
		d[k] = v
	}
	m.c.Violation(key, what, stream, idx, d)
}

// ---------------------------------------------------------------------
// the position reference

type pos struct{ line, col int }

// truePos is the ground truth recomputed from the text alone (used for error
// positions; for tokens the builder's own bookkeeping is the primary truth and
// this function is its cross-check).
func truePos(src string, off int) pos {
	line, last := 1, -1
	for i := 0; i < off && i < len(src); i++ {
		if src[i] == '\n' {
			line++
			last = i
		}
	}
	return pos{line, off - last}
}

// Known deviation switch: after a '#' comment the line counter advances but
// the line-start offset does not (candidate finding 25). devPos evaluates the
// reference with that switch on and tells whether the switch influenced the
// result for this offset.
func devPos(src string, off int, hashNL map[int]bool) (pos, bool) {
	line, last, lastTrue := 1, -1, -1
	for i := 0; i < off && i < len(src); i++ {
		if src[i] == '\n' {
			line++
			lastTrue = i
			if !hashNL[i] {
				last = i
			}
		}
	}
	return pos{line, off - last}, last != lastTrue
}

const devHash = "dev:hash-comment-keeps-line-start"

// judge compares one reported position with the reference.
// returns "" (ok), the deviation key or a diff key.
func judge(src string, off int, hashNL map[int]bool, got pos, what string) string {
	want := truePos(src, off)
	if got == want {
		return ""
	}
	if d, fired := devPos(src, off, hashNL); fired && got == d {
		return devHash
	}
	if got.line != want.line {
		return "diff:" + what + "-line"
	}
	return "diff:" + what + "-column"
}

// ---------------------------------------------------------------------
// token positions

func (m *monitor) checkTokens(stream string, idx int, b *builder) {
	src := b.String()
	var real []parser.LexToken
	key, msg, panicked := core.Guard(func() { real = parser.LexToList(srcName, src) })
	if panicked {
		m.violation(key, "panic in LexToList", stream, idx, src, map[string]interface{}{"panic": trunc(msg, 1500)})
		return
	}
	var toks []parser.LexToken
	for _, t := range real {
		switch t.ID {
		case parser.TokenPRECOMMENT, parser.TokenPOSTCOMMENT, parser.TokenEOF:
			m.ev("lex.token.excluded(comment/EOF)")
		default:
			toks = append(toks, t)
		}
	}
	m.counts["lex.token.compared"] += int64(len(toks))
	describe := func() []string {
		var r []string
		for _, t := range toks {
			r = append(r, fmt.Sprintf("id=%d pos=%d line=%d col=%d val=%q", t.ID, t.Pos, t.Lline, t.Lpos, trunc(t.Val, 30)))
		}
		if len(r) > 12 {
			r = r[:12]
		}
		return r
	}
	if len(toks) != len(b.toks) {
		m.violation("diff:tokenization", fmt.Sprintf("the lexer produced %d tokens for a text built from %d tokens", len(toks), len(b.toks)),
			stream, idx, src, map[string]interface{}{"lexer": describe(), "built": b.toks})
		return
	}
	reported := map[string]bool{}
	for i, t := range toks {
		g := b.toks[i]
		// cross-check of the builder's bookkeeping against the text
		if tp := truePos(src, g.offset); tp.line != g.line || tp.col != g.col || !strings.HasPrefix(src[g.offset:], g.text) {
			panic(fmt.Sprintf("c18 builder inconsistent at token %d: %+v vs %+v", i, g, tp))
		}
		if t.ID == parser.TokenError {
			m.violation("diff:tokenization", "the lexer reports an error token for a well-formed token text: "+t.Val, stream, idx, src,
				map[string]interface{}{"token": g, "lexer": describe()})
			return
		}
		k := ""
		if t.Pos != g.offset {
			k = "diff:token-offset"
		} else {
			k = judge(src, g.offset, b.hashNL, pos{t.Lline, t.Lpos}, "token")
		}
		if k != "" && !reported[k] {
			reported[k] = true
			prev := ""
			if i > 0 {
				prev = b.toks[i-1].kind
			}
			m.violation(k, fmt.Sprintf("token %d (%s %q) is at offset %d, line %d, column %d; the lexer reports Pos=%d Lline=%d Lpos=%d",
				i, g.kind, trunc(g.text, 30), g.offset, g.line, g.col, t.Pos, t.Lline, t.Lpos), stream, idx, src,
				map[string]interface{}{"token_index": i, "token_kind": g.kind, "previous_kind": prev,
					"true":     map[string]int{"offset": g.offset, "line": g.line, "column": g.col},
					"reported": map[string]int{"offset": t.Pos, "line": t.Lline, "column": t.Lpos}})
		}
	}
}

// ---------------------------------------------------------------------
// programs with known statement positions

type stmt struct {
	name   string
	offset int // first byte of the statement
	line   int
}

// statement separators: every one contains at least one newline, so the next
// statement starts on a later line; comments only, no code.
func stmtSep(r *core.Rand) []string {
	var atoms []string
	n := 1 + r.Intn(4)
	nl := false
	for i := 0; i < n; i++ {
		a := randAtom(r)
		if strings.Contains(a, "\n") {
			nl = true
		}
		atoms = append(atoms, a)
	}
	if !nl {
		k := []string{"\n", "\r\n", "# sep\n", "/* a\nb */"}
		atoms = append(atoms, k[r.Intn(len(k))])
	}
	return atoms
}

var rhs = []string{"1", "2 + 3", `"s"`, "[1, 2]", "{1 : 2}", "r\"l1\nl2\"", "r'a\n\nb'", "true", "1 * (2 + 3)", `"ä€"`}

// buildProgram makes n assignments v1..vn, one per line, with random comment
// separators between them. plant(i, b) may add text before statement i.
func buildProgram(r *core.Rand, n int, lead bool, before func(i int, b *builder), after ...func(i int, b *builder)) (*builder, []stmt) {
	b := newBuilder()
	var st []stmt
	if lead {
		for _, a := range stmtSep(r) {
			b.sep(a)
		}
	}
	for i := 1; i <= n; i++ {
		if before != nil {
			before(i, b)
		}
		name := fmt.Sprintf("v%d", i)
		s := stmt{name, b.sb.Len(), b.line}
		b.tok(&tokKind{"identifier", name, clsWord})
		b.sep(" ")
		b.tok(&tokKind{"symbol :=", ":=", clsSym})
		b.sep(" ")
		// the value is appended as raw text: only statement starts are judged here
		b.raw(rhs[r.Intn(len(rhs))])
		b.lastTok = nil
		st = append(st, s)
		for _, f := range after {
			f(i, b)
		}
		if i < n || r.Bool() {
			// a ' ' first: '#' must not touch the value
			b.sep(" ")
			for _, a := range stmtSep(r) {
				b.sep(a)
			}
		}
	}
	return b, st
}

// separation: statements separated only by comments and newlines stay
// separate statements, each starting on its true line.
func (m *monitor) checkSeparation(stream string, idx int, r *core.Rand) {
	n := 2 + r.Intn(5)
	b, st := buildProgram(r, n, r.Bool(), nil)
	src := b.String()
	var tree *parser.ASTNode
	var err error
	key, msg, panicked := core.Guard(func() { tree, err = parser.Parse(srcName, src) })
	if panicked {
		m.violation(key, "panic in Parse", stream, idx, src, map[string]interface{}{"panic": trunc(msg, 1500)})
		return
	}
	if err != nil || tree == nil {
		m.violation("diff:separation-parse-error", fmt.Sprintf("a program of %d assignments separated by comment lines does not parse: %v", n, err),
			stream, idx, src, nil)
		return
	}
	if tree.Name != parser.NodeSTATEMENTS || len(tree.Children) != n {
		m.violation("diff:separation-count", fmt.Sprintf("%d assignments separated only by comment lines parse into %d statement(s)", n, len(tree.Children)),
			stream, idx, src, map[string]interface{}{"root": tree.Name})
		return
	}
	for i, ch := range tree.Children {
		if ch == nil || ch.Name != parser.NodeASSIGN || len(ch.Children) != 2 || ch.Children[0] == nil || ch.Children[0].Token == nil ||
			ch.Children[0].Token.Val != st[i].name {
			m.violation("diff:separation-shape", fmt.Sprintf("statement %d is not the assignment to %s", i+1, st[i].name), stream, idx, src, nil)
			return
		}
		t := ch.Children[0].Token
		if k := judge(src, st[i].offset, b.hashNL, pos{t.Lline, t.Lpos}, "statement"); k != "" {
			m.violation(k, fmt.Sprintf("statement %d starts at line %d column 1, its first token reports line %d column %d", i+1, st[i].line, t.Lline, t.Lpos),
				stream, idx, src, nil)
			return
		}
	}
	m.ev("separation.ok")
	if idx%1600 == 0 {
		m.c.Sample("sep", map[string]interface{}{"input_quoted": fmt.Sprintf("%q", trunc(src, 300)), "statements": n})
	}
	m.c.Nontrivial(core.Hash64("sep|" + src))
}

// checkSeparation2: statements that start with a token which could also
// continue the previous line ('[', '(', 'not', '{') stay separate statements
// when they follow a line break - with or without comments between the line
// break and the token. ('(' is not used: an identifier followed by '(' on the
// next line is a call in this language, comments or not.)
func (m *monitor) checkSeparation2(stream string, idx int, r *core.Rand) {
	type st struct{ text, name string }
	kinds := []st{{"[p, q] := l", parser.NodeASSIGN}, {"not true", parser.NodeNOT}, {"{\"k\" : 1}", parser.NodeMAP},
		{"[l, l]", parser.NodeLIST}, {"x := 1", parser.NodeASSIGN}}
	n := 2 + r.Intn(4)
	var b strings.Builder
	b.WriteString("l := [1, 2]")
	want := []string{parser.NodeASSIGN}
	for i := 1; i < n; i++ {
		b.WriteString("\n")
		for j := r.Intn(3); j > 0; j-- { // whole comment lines in between (no '#': known column deviation is irrelevant here, lines are not)
			b.WriteString([]string{"/* c */\n", "/* a\n b */\n", "    /* c */  \n"}[r.Intn(3)])
		}
		b.WriteString([]string{"", "", "/* c */ ", "/* a\n b */ ", "  ", "/* c *//* d */ ", "\t/* c */\t"}[r.Intn(7)])
		k := kinds[r.Intn(len(kinds))]
		b.WriteString(k.text)
		want = append(want, k.name)
	}
	src := b.String()
	var tree *parser.ASTNode
	var err error
	key, msg, panicked := core.Guard(func() { tree, err = parser.Parse(srcName, src) })
	if panicked {
		m.violation(key, "panic in Parse", stream, idx, src, map[string]interface{}{"panic": trunc(msg, 1500)})
		return
	}
	if err != nil || tree == nil {
		m.violation("diff:separation-parse-error", fmt.Sprintf("a program of %d statements on separate lines (some starting with '[', '(', 'not', '{' after a comment) does not parse: %v", n, err),
			stream, idx, src, nil)
		return
	}
	if tree.Name != parser.NodeSTATEMENTS || len(tree.Children) != n {
		m.violation("diff:separation-count", fmt.Sprintf("%d statements on separate lines parse into %d statement(s)", n, len(tree.Children)),
			stream, idx, src, map[string]interface{}{"root": tree.Name})
		return
	}
	for i, ch := range tree.Children {
		if ch == nil || ch.Name != want[i] {
			m.violation("diff:separation-shape", fmt.Sprintf("statement %d is a %v, expected %s", i+1, ch, want[i]), stream, idx, src, nil)
			return
		}
	}
	m.ev("separation2.ok")
	m.c.Nontrivial(core.Hash64("sep2|" + src))
}

// planted parse errors
func (m *monitor) checkParseError(stream string, idx int, r *core.Rand) {
	n := 2 + r.Intn(4)
	slot := 1 + r.Intn(n)
	kinds := []string{")", "}", "]", "a$b", "ä", "@", "日本", "\"unterminated", "'open", "r\"open\nstill open"}
	ki := r.Intn(len(kinds))
	kind := kinds[ki]
	atEnd := ki >= 7 // an unterminated string/comment swallows everything after it (an unterminated comment is not planted: comment positions follow the lexer's own start-of-text convention and are excluded)
	sameLine := r.Chance(1, 3)
	off := -1
	errAt := 0 // offset inside the planted text of the token the error must point to
	var b *builder
	switch {
	case atEnd:
		b, _ = buildProgram(r, n, r.Bool(), nil)
		if !strings.HasSuffix(b.String(), "\n") {
			if sameLine {
				b.sep(" ")
			} else {
				b.sep("\n")
			}
		}
		for j, k := 0, r.Intn(3); j < k; j++ {
			b.sep(" ")
		}
		off = b.sb.Len()
		b.raw(kind)
		if r.Bool() {
			b.raw("\n v9 := 1\n")
		}
	case sameLine:
		// on the line of statement `slot`, right after its value
		b, _ = buildProgram(r, n, r.Bool(), nil, func(i int, b *builder) {
			if i != slot {
				return
			}
			for j, k := 0, 1+r.Intn(3); j < k; j++ {
				b.sep(" ")
			}
			off = b.sb.Len()
			b.raw(kind)
		})
	default:
		// on a line of its own before statement `slot`
		b, _ = buildProgram(r, n, r.Bool(), func(i int, b *builder) {
			if i != slot {
				return
			}
			if b.sb.Len() > 0 && !strings.HasSuffix(b.String(), "\n") {
				b.sep("\n")
			}
			for j, k := 0, r.Intn(3); j < k; j++ {
				b.sep(" ")
			}
			off = b.sb.Len()
			b.raw(kind)
			b.sep("\n")
		})
	}
	src := b.String()
	var tree *parser.ASTNode
	var err error
	key, msg, panicked := core.Guard(func() { tree, err = parser.Parse(srcName, src) })
	_ = tree
	if panicked {
		m.violation(key, "panic in Parse", stream, idx, src, map[string]interface{}{"panic": trunc(msg, 1500)})
		return
	}
	pe, ok := err.(*parser.Error)
	if !ok || pe == nil {
		m.violation("diff:planted-parse-error-missing", fmt.Sprintf("no parser error for a program with a planted %q: %v", kind, err), stream, idx, src, nil)
		return
	}
	off += errAt
	want := truePos(src, off)
	k := judge(src, off, b.hashNL, pos{pe.Line, pe.Pos}, "parse-error")
	if k != "" {
		m.violation(k, fmt.Sprintf("planted %q at line %d column %d; the parser error says line %d column %d (%v)", kind, want.line, want.col, pe.Line, pe.Pos, pe.Type),
			stream, idx, src, map[string]interface{}{"error": pe.Error(), "planted": kind})
		return
	}
	m.ev("parse-error.ok:" + fmt.Sprint(pe.Type))
	if idx%1600 == 0 {
		m.c.Sample("perr", map[string]interface{}{"input_quoted": fmt.Sprintf("%q", trunc(src, 300)), "planted": kind, "line": want.line, "column": want.col, "error": pe.Error()})
	}
	m.c.Nontrivial(core.Hash64("perr|" + src))
}

// planted runtime errors
func (m *monitor) checkRuntimeError(stream string, idx int, r *core.Rand) {
	n := 2 + r.Intn(4)
	slot := 1 + r.Intn(n)
	type plant struct {
		text string
		at   int // offset inside text of the token the error must point to
		typ  error
	}
	plants := []plant{
		{`w := 1 + "a"`, 9, util.ErrNotANumber},
		{`w := "b" * 2`, 5, util.ErrNotANumber},
		{`w := not 5`, 9, util.ErrNotABoolean},
		{`w := 1 - (2 / "c")`, 14, util.ErrNotANumber},
	}
	p := plants[r.Intn(len(plants))]
	off := -1
	b, _ := buildProgram(r, n, r.Bool(), func(i int, b *builder) {
		if i != slot {
			return
		}
		if b.sb.Len() > 0 && !strings.HasSuffix(b.String(), "\n") {
			b.sep("\n")
		}
		for j, k := 0, r.Intn(3); j < k; j++ {
			b.sep(" ")
		}
		off = b.sb.Len() + p.at
		b.raw(p.text)
		b.sep(" ")
		for _, a := range stmtSep(r) {
			b.sep(a)
		}
	})
	src := b.String()
	var eerr error
	var perr error
	key, msg, panicked := core.Guard(func() {
		var tree *parser.ASTNode
		tree, perr = parser.ParseWithRuntime(srcName, src, m.erp)
		if perr == nil {
			if perr = tree.Runtime.Validate(); perr == nil {
				vs := scope.NewScope(scope.GlobalScope)
				_, eerr = tree.Runtime.Eval(vs, make(map[string]interface{}), m.erp.NewThreadID())
			}
		}
	})
	if panicked {
		m.violation(key, "panic while running a planted-error program", stream, idx, src, map[string]interface{}{"panic": trunc(msg, 1500)})
		return
	}
	if perr != nil {
		m.violation("diff:planted-runtime-error-parse", fmt.Sprintf("program with planted runtime error does not parse/validate: %v", perr), stream, idx, src, nil)
		return
	}
	re, ok := eerr.(*util.RuntimeError)
	if !ok || re == nil || re.Type != p.typ {
		m.violation("diff:planted-runtime-error-missing", fmt.Sprintf("expected a runtime error %v from %q, got %v", p.typ, p.text, eerr), stream, idx, src, nil)
		return
	}
	want := truePos(src, off)
	k := judge(src, off, b.hashNL, pos{re.Line, re.Pos}, "runtime-error")
	if k != "" {
		m.violation(k, fmt.Sprintf("runtime error planted at line %d column %d (%s); the error says line %d column %d", want.line, want.col, p.text, re.Line, re.Pos),
			stream, idx, src, map[string]interface{}{"error": re.Error()})
		return
	}
	m.ev("runtime-error.ok")
	if idx%1600 == 0 {
		m.c.Sample("rerr", map[string]interface{}{"input_quoted": fmt.Sprintf("%q", trunc(src, 300)), "planted": p.text, "line": want.line, "column": want.col, "error": re.Error()})
	}
	m.c.Nontrivial(core.Hash64("rerr|" + src))
}

// breakpoints: the real debugger gets a break point on the true line of one
// statement; the observation point dbg.beforewait (build tag verif) tells where
// the evaluating goroutine is about to suspend. The goroutine is ended right
// there (runtime.Goexit, like the debugger's own kill), so no resume is needed.
func (m *monitor) checkBreakpoint(stream string, idx int, r *core.Rand) {
	n := 2 + r.Intn(5)
	b, st := buildProgram(r, n, r.Bool(), nil)
	src := b.String()
	k := r.Intn(n)
	vs := scope.NewScope(scope.GlobalScope)
	dbg := interpreter.NewECALDebugger(vs)
	erp := m.erp // one provider for all cases; only the debugger is per case
	erp.Debugger = dbg
	defer func() { erp.Debugger = nil }()
	dbg.SetBreakPoint(srcName, st[k].line)
	type obs struct {
		line       int
		prevSet    bool
		selfSet    bool
		suspended  bool
		suspendCnt int
	}
	var o obs
	verifhook.Set(func(point string, args []interface{}) {
		if point != "dbg.beforewait" || len(args) < 4 {
			return
		}
		o.suspendCnt++
		o.suspended = true
		o.line, _ = args[2].(int)
		if k > 0 {
			_, o.prevSet, _ = vs.GetValue(st[k-1].name)
		}
		_, o.selfSet, _ = vs.GetValue(st[k].name)
		runtime.Goexit()
	})
	defer verifhook.Set(nil)
	var perr, eerr error
	var pmsg string
	done := make(chan struct{})
	go func() {
		defer close(done)
		_, pmsg, _ = core.Guard(func() {
			var tree *parser.ASTNode
			tree, perr = parser.ParseWithRuntime(srcName, src, erp)
			if perr == nil {
				if perr = tree.Runtime.Validate(); perr == nil {
					_, eerr = tree.Runtime.Eval(vs, make(map[string]interface{}), erp.NewThreadID())
				}
			}
		})
	}()
	<-done
	if perr != nil || pmsg != "" {
		m.violation("diff:breakpoint-program", fmt.Sprintf("breakpoint program does not run: %v %s", perr, trunc(pmsg, 300)), stream, idx, src, nil)
		return
	}
	d := map[string]interface{}{"breakpoint_line": st[k].line, "statement": st[k].name, "observed": fmt.Sprintf("%+v", o), "eval_error": fmt.Sprint(eerr)}
	switch {
	case !o.suspended:
		m.violation("diff:breakpoint-missed", fmt.Sprintf("a break point on line %d (statement %s) never suspended the evaluation", st[k].line, st[k].name), stream, idx, src, d)
	case o.line != st[k].line || o.selfSet || (k > 0 && !o.prevSet):
		m.violation("diff:breakpoint-wrong-statement", fmt.Sprintf("a break point on line %d (statement %s) suspended the evaluation elsewhere (line %d)", st[k].line, st[k].name, o.line), stream, idx, src, d)
	default:
		m.ev("breakpoint.ok")
		if idx%1600 == 0 {
			m.c.Sample("bp", map[string]interface{}{"input_quoted": fmt.Sprintf("%q", trunc(src, 300)), "breakpoint_line": st[k].line, "statement": st[k].name})
		}
		m.c.Nontrivial(core.Hash64("bp|" + src + fmt.Sprint(k)))
	}
}

// ---------------------------------------------------------------------

// Run is the check.
func Run(c *core.Ctx) {
	m := &monitor{c: c, counts: map[string]int64{}, emitted: map[string]int{}}
	m.erp = interpreter.NewECALRuntimeProvider(srcName, &util.MemoryImportLocator{Files: map[string]string{}}, util.NewNullLogger())
	go m.erp.Cron.Stop() // never synchronously (can deadlock with the cron tick)
	maxAtoms := c.Pick(2, 3)
	seps := enumSeps(maxAtoms)
	c.Note("rule", fmt.Sprintf("the source is assembled from token texts and separator atoms by a builder that records offset/line/column of each token's first byte while appending (never consulting the lexer); compared with parser.LexToList tokens (Pos, Lline, Lpos), comment and EOF tokens excluded. "+
		"triple: ALL (separator combination of <=%d atoms out of %q) x (token kind) x (token kind) over %d token kinds (identifiers, keywords, numbers 1 / 1.5 / 1e+3, every symbol, quoted strings with escapes and multi-byte characters, raw strings with 0..3 embedded newlines incl. CRLF), also with the separator before the first token; combinations whose junction would merge two texts into one token (word+word, word+quote, word+'#', number+'.', two-character symbols, '/'+'*') are skipped; "+
		"stream: random streams of <=40 tokens with random identifiers/keywords/numbers/symbols/strings and 0..3 random separator atoms (blank, tab, LF, CRLF, '# ...' and '/* ... */' comments with multi-byte text and 0..3 newlines), a blank is inserted where a junction is refused; "+
		"sep: 2..6 one-line assignments separated only by comment/blank lines must parse into that many statements on their true lines; perr: ')' '}' ']' illegal identifiers or unterminated strings planted on a known line, the parser error must carry that line and column; rerr: a type error planted on a known line, the runtime error must point to the offending operand; bp: break point of the real debugger on the true line of a statement, observed at hook dbg.beforewait. "+
		"The known deviation (no line-start update after a '#' comment) is a switch in the reference: reported as %s only if the result equals the reference with the switch on. "+
		"distinct_nontrivial = distinct (separator combination, kind, kind) triples / distinct stream texts with >=2 compared tokens / distinct programs", maxAtoms, enumAtoms, len(enumKinds), devHash))
	c.Note("exhaustive", "true")

	// (a) exhaustive triples. case idx = (kind1, kind2) pair; all separator
	// combinations inside the case.
	nk := len(enumKinds)
	for p := 0; p < nk*nk; p++ {
		if !c.Take("triple", p) {
			continue
		}
		k1, k2 := &enumKinds[p/nk], &enumKinds[p%nk]
		c.Begin(0, "triple", p, k1.text+" <every separator combination> "+k2.text)
		for si, sp := range seps {
			first := ""
			if len(sp) > 0 {
				first = sp[0]
			} else {
				first = k2.text
			}
			if !mayFollow(k1, first) {
				m.ev("triple.skipped(junction)")
				continue
			}
			for variant := 0; variant < 2; variant++ {
				b := newBuilder()
				if variant == 1 {
					if len(sp) == 0 {
						continue
					}
					for _, a := range sp { // the same separator also before the first token
						b.sep(a)
					}
				}
				b.tok(k1)
				for _, a := range sp {
					b.sep(a)
				}
				b.tok(k2)
				m.checkTokens("triple", p, b)
				m.ev("triple.checked")
				c.Nontrivial(core.Hash64(fmt.Sprintf("t|%d|%d|%d", p, si, variant)))
			}
		}
		c.AddEvals(len(seps)*2 - 2)
		if p%397 == 0 {
			c.Sample("triple", map[string]interface{}{"kind1": k1.name, "kind2": k2.name, "separators": len(seps)})
		}
	}
	c.End(0)

	// (b) random streams
	ns := c.Pick(240000, 6000000)
	for i := 0; i < ns; i++ {
		if !c.Take("stream", i) {
			continue
		}
		r := c.Rng("stream", i)
		b := newBuilder()
		nt := 1 + r.Intn(40)
		next := randToken(r)
		if r.Bool() {
			b.randSep(r, nil)
		}
		for t := 0; t < nt; t++ {
			cur := next
			b.tok(&cur)
			if t == nt-1 {
				if r.Bool() {
					b.randSep(r, nil)
				}
				break
			}
			next = randToken(r)
			b.randSep(r, &next)
		}
		c.Begin(0, "stream", i, b.String())
		m.checkTokens("stream", i, b)
		if nt >= 2 {
			c.Nontrivial(core.Hash64("s|" + b.String()))
		}
		if i%9001 == 0 {
			c.Sample("stream", map[string]interface{}{"input_quoted": fmt.Sprintf("%q", trunc(b.String(), 300)), "tokens": nt})
		}
	}
	c.End(0)

	// (c) programs: separation, planted errors, break points
	np := c.Pick(20000, 500000)
	for i := 0; i < np; i++ {
		if c.Take("sep2", i) {
			m.checkSeparation2("sep2", i, c.Rng("sep2", i))
		}
		if c.Take("sep", i) {
			c.Begin(0, "sep", i, "")
			m.checkSeparation("sep", i, c.Rng("sep", i))
		}
		if c.Take("perr", i) {
			c.Begin(0, "perr", i, "")
			m.checkParseError("perr", i, c.Rng("perr", i))
		}
		if c.Take("rerr", i) {
			c.Begin(0, "rerr", i, "")
			m.checkRuntimeError("rerr", i, c.Rng("rerr", i))
		}
	}
	nb := c.Pick(4000, 100000)
	for i := 0; i < nb; i++ {
		if c.Take("bp", i) {
			c.Begin(0, "bp", i, "")
			m.checkBreakpoint("bp", i, c.Rng("bp", i))
		}
	}
	c.End(0)
	for k, v := range m.counts {
		c.Event(k, v)
	}
}
