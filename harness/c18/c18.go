// Package c18 holds the runtime monitors for property C18 (see DESIGN.md section 4).
package c18

import "verif/harness/core"

func init() { core.Register("C18", Run) }

// Run is the check.
func Run(c *core.Ctx) {
}
