package c20

import (
	"bytes"
	"fmt"
	"strings"
)

// geometry describes where the marker of a packed file starts relative to the
// scanner's reads as stated by the property record: 4096-byte blocks, and a
// 28-byte overlap read after every block that holds a '#'. It is used ONLY to
// name a refuting observation (finding signature) and to report which
// alignment classes the sweep exercised – never to decide a verdict.
type geometry struct {
	where string // "block" | "overlap"
	off   int    // offset of the marker's first byte inside that read
	hash  bool   // block: a '#' precedes the marker inside the same block
	class string
}

func locate(file []byte, L int) geometry {
	p := 0
	for p < len(file) {
		n := blockLen
		if len(file)-p < n {
			n = len(file) - p
		}
		if L < p+n {
			g := geometry{where: "block", off: L - p, hash: bytes.IndexByte(file[p:L], '#') >= 0}
			switch {
			case g.off == blockLen-1:
				g.class = "last-byte"
			case g.off >= blockLen-len(refMarker)+1:
				g.class = "straddles-block-end"
			case g.off == 0:
				g.class = "first-byte"
			default:
				g.class = "inside"
			}
			return g
		}
		hasHash := bytes.IndexByte(file[p:p+n], '#') >= 0
		p += n
		if hasHash {
			if L < p+overlapLen {
				g := geometry{where: "overlap", off: L - p, hash: true}
				switch {
				case g.off+len(refMarker) < overlapLen:
					g.class = "fits"
				case g.off+len(refMarker) == overlapLen:
					g.class = "ends-at-buffer-end"
				default:
					g.class = "tail"
				}
				return g
			}
			p += overlapLen
		}
	}
	return geometry{where: "none", class: "none"}
}

func (g geometry) String() string {
	h := "hashfree"
	if g.hash {
		h = "hash"
	}
	return fmt.Sprintf("%s-%s-%s", g.where, g.class, h)
}

// missKey is the finding signature of "the marker was not found".
func (g geometry) missKey(L int) string {
	switch {
	case g.where == "block" && g.class == "last-byte" && !g.hash:
		return "miss:marker-newline-last-byte-of-hashfree-block"
	case g.where == "overlap" && g.class == "tail":
		return "miss:marker-starts-in-overlap-tail"
	}
	return "miss:marker-at-" + g.String() + "/" + alignedClass(L)
}

// alignedClass places the marker relative to plain 4096-byte boundaries (what
// a scanner without the overlap read sees).
func alignedClass(L int) string {
	switch r := L % blockLen; {
	case r == blockLen-1:
		return "newline-ends-aligned-block"
	case r > blockLen-len(refMarker):
		return "crosses-aligned-boundary"
	case r == 0:
		return "starts-aligned-block"
	}
	return "inside-aligned-block"
}

// panicKey refines the signature of a panic inside the scanner.
func (g geometry) panicKey(guardKey, msg string) string {
	if strings.Contains(guardKey, "RunPackedBinary") && strings.Contains(guardKey, "index out of range") &&
		g.where == "overlap" && g.class == "ends-at-buffer-end" {
		return "panic:index-past-buffer-after-marker"
	}
	if viaErrorHandler(guardKey) {
		// the package's error handler: an error after the marker search
		first := msg
		if i := strings.Index(first, "\n"); i >= 0 {
			first = first[:i]
		}
		if len(first) > 60 {
			first = first[:60]
		}
		return "error:" + first + ":marker-at-" + g.String()
	}
	return guardKey
}

// viaErrorHandler: the panic is the package's error handler (errorutil.AssertOk)
// being handed an error, not a runtime fault.
func viaErrorHandler(guardKey string) bool { return strings.Contains(guardKey, "errorutil.AssertOk") }
