// Package c20 monitors the pack tool: a packed executable, when started,
// finds its embedded archive, recovers every packed file and runs the entry
// file (DESIGN.md section 4, C20).
package c20

import (
	"archive/zip"
	"bytes"
	"fmt"
	"os"
	"path/filepath"
	"sync"

	"github.com/krotik/ecal/cli/tool"
	"github.com/krotik/ecal/verifhook"

	"verif/harness/core"
)

func init() { core.Register("C20", Run) }

// filesSeen is what the hook point pack.files announced during the current run.
var (
	filesMu   sync.Mutex
	filesSeen []map[string]string
)

func hook(point string, args []interface{}) {
	if point != "pack.files" || len(args) == 0 {
		return
	}
	m, ok := args[0].(map[string]string)
	if !ok {
		return
	}
	cp := make(map[string]string, len(m))
	for k, v := range m {
		cp[k] = v
	}
	filesMu.Lock()
	filesSeen = append(filesSeen, cp)
	filesMu.Unlock()
}

func takeFiles() []map[string]string {
	filesMu.Lock()
	defer filesMu.Unlock()
	r := filesSeen
	filesSeen = nil
	return r
}

// Run is the check.
func Run(c *core.Ctx) {
	c.Note("rule", fmt.Sprintf("in-process: for a synthetic interpreter binary of length L and filler F, CLIPacker.Pack() (the project directory given in 6 spellings: cleaned, trailing slash, /./ segment, double slash, trailing /., relative with ./) then RunPackedBinary() on the packed file with the package's args/exit/stderr indirections set by VerifSetOS; "+
		"L = EVERY value in [0,%d] (two periods of both scan geometries: %d-byte blocks, %d-byte overlap after a block holding '#') plus k*%d+d and k*%d+d for k=3..40, d in [-40,40]; "+
		"F = one stream per filler family: zeros, all '#', random without '#', '#' at strides 61/4000/4096, a single '#' at distance {1,2,17,28,29,2048,4096} from the end of block 0/1, "+
		"a partial marker (%q or %q) ending g bytes before the marker for g in {0,1,2,11,12,16,17,28}, back-to-back partial markers at 3 phases, sparse partial markers on a '#'-free random background, "+
		"seeded random with '#' density 1/64 and 1/4096; fillers never contain the complete marker line; "+
		"project tree per case drawn from {none (0 extra files), flat, nested3 (+empty directories), emptyfile, binary (all byte values, marker text inside), entry-inside, entry-twin (tree files named like the entry), big (9-30 KB incompressible)} x 3 content variants; "+
		"the entry program is written per case: it imports a packed library file (where the tree has one) and its value (= the exit code) is case-specific and computed from the imported value. "+
		"thorough adds real processes: the real CLI is built from /repo/cli, variant interpreters = binary + pad bytes, packed with `<variant> pack -dir -target <entry>`, the packed file is executed with stdin closed. "+
		"non-trivial/distinct = distinct (stream, marker offset L, tree kind) on which the packed file was produced and started; the L sweep over [0,%d] is exhaustive for the deterministic filler families",
		sweepMax, blockLen, overlapLen, blockLen, unitLen, partialA, partialB, sweepMax))
	c.Note("exhaustive", "true")

	verifhook.Set(hook)
	defer verifhook.Set(nil)

	work, err := filepath.Abs(filepath.Join(c.OutDir, fmt.Sprintf("c20-b%d-%d", c.Batch, os.Getpid())))
	if err != nil {
		panic(err)
	}
	if err := os.MkdirAll(work, 0o755); err != nil {
		panic(err)
	}
	defer os.RemoveAll(work)

	fo := &forest{work: work, seed: c.Seed, trees: map[string]*tree{}}
	part := os.Getenv("VH_C20_PART") // "", "inproc" or "exec" (driver variants; empty = both, e.g. replay)
	for _, f := range families(c) {
		if part == "exec" {
			break
		}
		ls := f.ls
		if c.Quick() {
			switch f.quick {
			case 0:
				continue
			case 1:
				ls = ls[:f.nSweep]
			}
		}
		for idx, L := range ls {
			if !c.Take(f.stream, idx) {
				continue
			}
			inprocCase(c, work, fo, f, idx, L)
		}
	}
	if !c.Quick() && part != "inproc" {
		realExec(c, work, fo)
	}
}

type inprocResult struct {
	packErr  error
	exits    []int
	stderr   string
	files    []map[string]string
	panicked bool
	panicKey string
	panicMsg string
	target   []byte
}

func inprocCase(c *core.Ctx, work string, fo *forest, f family, idx, L int) {
	r := c.Rng(f.stream, idx)
	filler, changed := sanitize(f.gen(r, L))
	if changed > 0 {
		c.Event("filler.sanitized", 1)
	}
	t := fo.pick(r)
	kind := t.kind
	maxCode := 250
	if r.Chance(1, 8) {
		maxCode = 100000
	}
	prog := t.mkProgram(r, fmt.Sprintf("%s:%d", f.stream, idx), 0, maxCode, "")
	dir, entry, err := t.place(fo.root(t), prog)
	if err != nil {
		c.Inconclusive("cannot write the project tree: "+err.Error(), f.stream, idx, nil)
		return
	}
	// the -dir value as a user may type it: the same directory in spellings
	// that are not in cleaned form
	dirSpelling := "clean"
	switch idx % 7 {
	case 2:
		dir, dirSpelling = dir+string(filepath.Separator), "trailing-slash"
	case 3:
		dir, dirSpelling = filepath.Dir(dir)+"/./"+filepath.Base(dir), "dot-segment"
	case 4:
		dir, dirSpelling = filepath.Dir(dir)+"//"+filepath.Base(dir), "double-slash"
	case 5:
		dir, dirSpelling = dir+"/.", "trailing-dot"
	case 6:
		if rel, rerr := filepath.Rel(mustGetwd(), dir); rerr == nil {
			dir, dirSpelling = "./"+rel, "relative-dot-slash"
		}
	}
	c.Event("dir-spelling."+dirSpelling, 1)
	src := filepath.Join(work, "source.bin")
	tgt := filepath.Join(work, "packed.bin")
	if err := os.WriteFile(src, filler, 0o755); err != nil {
		c.Inconclusive("cannot write the source binary: "+err.Error(), f.stream, idx, nil)
		return
	}
	os.Remove(tgt)
	rebuild := idx%3 == 1
	detail := func(extra map[string]interface{}) map[string]interface{} {
		d := map[string]interface{}{"family": f.stream, "L": L, "tree": kind, "entry": prog.src, "expected_code": prog.code,
			"filler_tail": fmt.Sprintf("%q", tail(filler, 48)), "dir": dir}
		for k, v := range extra {
			d[k] = v
		}
		return d
	}
	c.Begin(0, f.stream, idx, fmt.Sprintf("L=%d tree=%s", L, kind))
	defer c.End(0)

	// 1. pack with the real packer
	var res inprocResult
	var logOut bytes.Buffer
	p := &tool.CLIPacker{EntryFile: entry, Dir: &dir, SourceBinary: &src, TargetBinary: &tgt, LogOut: &logOut}
	if rebuild {
		// a rebuild: the target path already holds an older, LONGER packed file:
		// the same build followed by a complete archive of another project and
		// some more bytes - nothing of it may survive the second Pack()
		core.Guard(func() { p.Pack() })
		if fh, err := os.OpenFile(tgt, os.O_APPEND|os.O_WRONLY, 0o755); err == nil {
			fh.Write([]byte("\n####ECALSRC####\n"))
			fh.Write(staleArchive())
			fh.Write(bytes.Repeat([]byte("tail"), 10+idx%311))
			fh.Close()
		}
		logOut.Reset()
	}
	key, msg, panicked := core.Guard(func() { res.packErr = p.Pack() })
	if panicked {
		c.Violation(key, "Pack() panicked: "+firstLine(msg), f.stream, idx, detail(map[string]interface{}{"panic": msg}))
		return
	}
	if res.packErr != nil {
		c.Violation("pack:error", "Pack() failed on a readable tree: "+res.packErr.Error(), f.stream, idx, detail(nil))
		return
	}
	res.target, err = os.ReadFile(tgt)
	if err != nil {
		c.Violation("pack:no-target", "Pack() returned no error but the target cannot be read: "+err.Error(), f.stream, idx, detail(nil))
		return
	}
	c.Event("pack.ok", 1)
	geo := locate(res.target, L)
	c.Event("marker-at."+geo.String(), 1)
	c.Event("aligned."+alignedClass(L), 1)
	if len(res.target) < L+len(refMarker) || !bytes.Equal(res.target[:L], filler) || string(res.target[L:L+len(refMarker)]) != refMarker {
		c.Violation("pack:layout", "the packed file is not <source binary><marker line><archive>", f.stream, idx,
			detail(map[string]interface{}{"target_len": len(res.target)}))
		return
	}

	// 2. start it: RunPackedBinary with the os indirections pointing at the packed file
	var stderr bytes.Buffer
	takeFiles()
	restore := tool.VerifSetOS([]string{tgt}, func(code int) { res.exits = append(res.exits, code) }, &stderr)
	res.panicKey, res.panicMsg, res.panicked = core.Guard(tool.RunPackedBinary)
	restore()
	res.files = takeFiles()
	res.stderr = stderr.String()
	c.NontrivialKey(fmt.Sprintf("%s|%d|%s", f.stream, L, kind))
	if idx%4001 == 17 {
		c.Sample("inproc:"+f.stream, detail(map[string]interface{}{"exit_calls": res.exits, "marker_at": geo.String(), "files": len(t.files) + 1}))
	}

	// 3. oracles
	if res.panicked {
		c.Event("run.panic", 1)
		key := geo.panicKey(res.panicKey, res.panicMsg)
		what := fmt.Sprintf("RunPackedBinary panicked on a file produced by Pack() (marker at %s+%d): %s", geo.where, geo.off, firstLine(res.panicMsg))
		if viaErrorHandler(res.panicKey) && len(res.files) == 0 && bytes.Contains(res.target[L+len(refMarker):], []byte(refMarker)) {
			// the archive holds the marker text again (a packed file contains it): the
			// real marker was passed over and a later occurrence was taken
			key = geo.missKey(L)
			what = fmt.Sprintf("the packed file did not find its archive: the marker at offset %d (%s read, offset %d; '#' before it in that block: %v) was passed over, a later occurrence of the marker text inside the archive was taken and the error handler was called with %q",
				L, geo.where, geo.off, geo.hash, firstLine(res.panicMsg))
		}
		c.Violation(key, what, f.stream, idx, detail(map[string]interface{}{"panic": res.panicMsg, "marker_at": geo.String(), "marker_off": geo.off}))
		return
	}
	if len(res.exits) == 0 {
		c.Event("run.fellthrough", 1)
		what := fmt.Sprintf("the packed file did not find its archive: RunPackedBinary returned without running the entry (marker at offset %d = %s read, offset %d; '#' before it in that block: %v)",
			L, geo.where, geo.off, geo.hash)
		if len(res.files) > 0 {
			what = "the archive was loaded but the exit callback was never reached"
			c.Violation("run:no-exit-after-load", what, f.stream, idx, detail(map[string]interface{}{"stderr": res.stderr}))
			return
		}
		c.Violation(geo.missKey(L), what, f.stream, idx, detail(map[string]interface{}{"marker_at": geo.String(), "marker_off": geo.off, "stderr": res.stderr}))
		return
	}
	c.Event("run.exit-reached", 1)
	if len(res.exits) > 1 {
		c.Violation("run:exit-twice", fmt.Sprintf("exit callback reached %d times: %v", len(res.exits), res.exits), f.stream, idx, detail(nil))
		return
	}
	if res.stderr != "" {
		c.Violation("run:entry-error", "the entry program failed: "+firstLine(res.stderr), f.stream, idx, detail(map[string]interface{}{"stderr": res.stderr}))
		return
	}
	if res.exits[0] != prog.code {
		c.Violation("run:wrong-exit-code", fmt.Sprintf("exit code %d, the entry returns %d", res.exits[0], prog.code), f.stream, idx, detail(nil))
		return
	}
	if len(res.files) == 0 {
		c.Inconclusive("hook point pack.files was not reached although the entry ran", f.stream, idx, nil)
		return
	}
	c.Event("hook.pack.files", int64(len(res.files)))
	if cat, text := compareFiles(t.expected(prog), res.files[len(res.files)-1]); cat != "" {
		c.Violation(cat, text, f.stream, idx, detail(nil))
		return
	}
	c.Event("files.compared", int64(len(t.files)+1))
	if t.lib != "" {
		c.Event("import.used-in-exit-code", 1)
	}
}

func tail(b []byte, n int) []byte {
	if len(b) > n {
		return b[len(b)-n:]
	}
	return b
}

func firstLine(s string) string {
	for i := 0; i < len(s); i++ {
		if s[i] == '\n' {
			return s[:i]
		}
	}
	return s
}

var staleOnce sync.Once
var staleZip []byte

// staleArchive is a valid zip with an entry file that returns another code; a
// packed file that still ends with it would run the wrong program.
func staleArchive() []byte {
	staleOnce.Do(func() {
		var buf bytes.Buffer
		w := zip.NewWriter(&buf)
		f, _ := w.Create(".ecalsrc-entry")
		f.Write([]byte("424242\n"))
		g, _ := w.Create("old/stale.ecal")
		g.Write(bytes.Repeat([]byte("# stale\n"), 400))
		w.Close()
		staleZip = buf.Bytes()
	})
	return staleZip
}

func mustGetwd() string {
	wd, err := os.Getwd()
	if err != nil {
		return "/"
	}
	return wd
}
