// Package c20 holds the runtime monitors for property C20 (see DESIGN.md section 4).
package c20

import "verif/harness/core"

func init() { core.Register("C20", Run) }

// Run is the check.
func Run(c *core.Ctx) {
}
