package c20

import (
	"bytes"
	"fmt"
	"os"
	"path/filepath"
	"sort"
	"strings"

	"verif/harness/core"
)

// The on-disk format and the scanner geometry as *stated* by the property
// record (properties.jsonl, C20 anchors): the archive follows the marker line,
// the marker is searched with 4096-byte reads plus len(marker)+11 overlap bytes.
// Nothing here is imported from /repo.
const (
	refMarker  = "\n####ECALSRC####\n"
	blockLen   = 4096
	overlapLen = len(refMarker) + 11 // 28
	unitLen    = blockLen + overlapLen
	sweepMax   = 2*unitLen + 64 // every L in [0, sweepMax] is enumerated
	entryName  = ".ecalsrc-entry"
)

const (
	partialA = "\n####ECALSRC###"  // marker without its last two bytes
	partialB = "####ECALSRC####\n" // marker without the leading newline
)

// sweepLs is every marker offset of two full periods of both geometries.
func sweepLs() []int {
	ls := make([]int, 0, sweepMax+1)
	for l := 0; l <= sweepMax; l++ {
		ls = append(ls, l)
	}
	return ls
}

// farLs are the larger offsets: around every multiple of the block length and
// of block+overlap (the period when every block holds a '#') up to k = 40.
func farLs() []int {
	var ls []int
	for k := 3; k <= 40; k++ {
		for d := -40; d <= 40; d++ {
			ls = append(ls, k*blockLen+d)
		}
	}
	for k := 3; k <= 40; k++ {
		for d := -40; d <= 40; d++ {
			ls = append(ls, k*unitLen+d)
		}
	}
	return ls
}

// family is one filler family instance = one stream; case idx -> ls[idx].
// In the quick tier a stream is either left out (quick == 0), restricted to
// the exhaustive sweep prefix of its list (quick == 1) or complete (quick == 2).
type family struct {
	stream string
	ls     []int
	nSweep int // length of the sweep prefix of ls
	gen    func(r *core.Rand, L int) []byte
	quick  int
}

func zeros(L int) []byte { return make([]byte, L) }

func fromHalf(h uint32, hashDen int) byte {
	if hashDen > 0 && int(h>>12)%hashDen == 0 {
		return '#'
	}
	if h&0xf00 == 0 { // 1/16: newline / marker letters, the bytes a near miss is made of
		const pool = "\n\r ECALSRC\x00\x01\x7f"
		return pool[int(h>>12)%len(pool)]
	}
	b := byte(h)
	if b == '#' {
		b = '$'
	}
	return b
}

// randomFill: seeded random bytes; '#' with probability 1/hashDen (0 = never).
func randomFill(r *core.Rand, L int, hashDen int) []byte {
	f := make([]byte, L)
	for i := 0; i < L; i += 2 {
		v := r.U64()
		f[i] = fromHalf(uint32(v), hashDen)
		if i+1 < L {
			f[i+1] = fromHalf(uint32(v>>32), hashDen)
		}
	}
	return f
}

func strideFill(L, stride, off int) []byte {
	f := make([]byte, L)
	for i := off; i < L; i += stride {
		f[i] = '#'
	}
	return f
}

func allHash(L int) []byte { return bytes.Repeat([]byte{'#'}, L) }

func singleHash(L, q int) []byte {
	f := make([]byte, L)
	if q >= 0 && q < L {
		f[q] = '#'
	}
	return f
}

// partialBefore: zeros with one partial marker ending g bytes before the marker.
func partialBefore(L int, partial string, g int) []byte {
	f := make([]byte, L)
	at := L - g - len(partial)
	if at >= 0 {
		copy(f[at:], partial)
	}
	return f
}

func periodic(L int, pattern string, phase int) []byte {
	f := make([]byte, L)
	for i := range f {
		f[i] = pattern[(i+phase)%len(pattern)]
	}
	return f
}

// sanitize makes sure the only occurrence of the complete marker in
// filler+marker is the real one at offset L (the statement is silent about
// interpreter binaries that contain the marker line themselves).
func sanitize(f []byte) (out []byte, changed int) {
	m := []byte(refMarker)
	for {
		i := bytes.Index(f, m)
		if i < 0 {
			// an occurrence that ends inside the real marker
			n := len(m) - 1
			if n > len(f) {
				n = len(f)
			}
			j := bytes.Index(append(append([]byte{}, f[len(f)-n:]...), m...), m)
			if j >= n {
				return f, changed
			}
			i = len(f) - n + j
		}
		f[i] = 0
		changed++
	}
}

var hashClasses = []int{1, 2, 17, 28, 29, 2048, 4096} // distance of the single '#' from its block's end

func families(c *core.Ctx) []family {
	sw := sweepLs()
	far := farLs()
	all := append(append([]int{}, sw...), far...)
	var fs []family
	add := func(stream string, ls []int, nSweep int, quick int, gen func(r *core.Rand, L int) []byte) {
		fs = append(fs, family{stream: stream, ls: ls, nSweep: nSweep, gen: gen, quick: quick})
	}
	add("zeros", all, len(sw), 2, func(r *core.Rand, L int) []byte { return zeros(L) })
	add("allhash", all, len(sw), 2, func(r *core.Rand, L int) []byte { return allHash(L) })
	add("nohash-random", all, len(sw), 1, func(r *core.Rand, L int) []byte { return randomFill(r, L, 0) })
	add("hash-stride61", all, len(sw), 1, func(r *core.Rand, L int) []byte { return strideFill(L, 61, 7) })
	add("hash-stride4000", all, len(sw), 0, func(r *core.Rand, L int) []byte { return strideFill(L, 4000, 0) })
	add("hash-stride4096", all, len(sw), 0, func(r *core.Rand, L int) []byte { return strideFill(L, 4096, 4095) })
	for b := 0; b < 2; b++ {
		for _, cl := range hashClasses {
			q := (b+1)*blockLen - cl
			// L from just after the '#' over two periods of the shifted geometry
			var ls []int
			for l := q + 1; l <= q+1+sweepMax; l++ {
				ls = append(ls, l)
			}
			n := len(ls)
			if b == 0 {
				ls = append(ls, far...)
			}
			quick := 0
			if b == 0 && (cl == 1 || cl == 4096) {
				quick = 1
			}
			add(fmt.Sprintf("single-hash-b%d-e%d", b, cl), ls, n, quick, func(r *core.Rand, L int) []byte { return singleHash(L, q) })
		}
	}
	for pi, partial := range []string{partialA, partialB} {
		pn := string(rune('A' + pi))
		for _, g := range []int{0, 1, 2, 11, 12, 16, 17, 28} {
			partial, g := partial, g
			quick := 0
			if g == 0 || (g == 12 && pi == 1) {
				quick = 1
			}
			add(fmt.Sprintf("partial%s-gap%d", pn, g), all, len(sw), quick, func(r *core.Rand, L int) []byte { return partialBefore(L, partial, g) })
		}
	}
	for _, ph := range []int{0, 5, 11} {
		ph := ph
		quick := 0
		if ph == 0 {
			quick = 1
		}
		add(fmt.Sprintf("periodicA-ph%d", ph), all, len(sw), quick, func(r *core.Rand, L int) []byte { return periodic(L, partialA, ph) })
		add(fmt.Sprintf("periodicB-ph%d", ph), all, len(sw), quick, func(r *core.Rand, L int) []byte { return periodic(L, partialB+"\x00", ph) })
	}
	// sparse partial markers on a '#'-free random background: blocks with and without '#'
	add("sparse-partials", all, len(sw), 1, func(r *core.Rand, L int) []byte {
		f := randomFill(r, L, 0)
		for at := r.Intn(6000); at < L; at += 1 + r.Intn(9000) {
			p := partialA
			if r.Bool() {
				p = partialB
			}
			copy(f[at:], p)
		}
		return f
	})
	rounds := c.Pick(1, 4)
	for k := 0; k < rounds; k++ {
		add(fmt.Sprintf("random-d64-r%d", k), all, len(sw), 1, func(r *core.Rand, L int) []byte { return randomFill(r, L, 64) })
		add(fmt.Sprintf("random-d4096-r%d", k), all, len(sw), 2, func(r *core.Rand, L int) []byte { return randomFill(r, L, 4096) })
	}
	return fs
}

// ---------------------------------------------------------------------------
// project trees

// tree is one project directory. The directory content is fixed per (kind,
// variant) and written once per process; the entry program is per case.
type tree struct {
	kind      string
	files     map[string]string // relative path (slash separated) -> content; the ground truth
	emptyDirs []string
	entryRel  string // location of the entry file: inside the tree if entryIn, else below a sibling directory
	entryIn   bool
	lib       string // import path of the packed library file ("" = none)
	x         int    // the value the library file defines
	root      string // where it lives on disk ("" = not yet written)
	name      string // kind-variant
}

// program is the per-case entry file.
type program struct {
	src  string
	code int // the value of the program = the exit code of the packed executable
}

var treeKinds = []string{"none", "flat", "nested3", "emptyfile", "binary", "entry-inside", "entry-twin", "big"}

const treeVariants = 3

func allBytes() string {
	b := make([]byte, 0, 1024)
	for i := 0; i < 256; i++ {
		b = append(b, byte(i))
	}
	for i := 255; i >= 0; i-- {
		b = append(b, byte(i), byte(i))
	}
	b = append(b, refMarker...)
	b = append(b, "PK\x03\x04PK\x05\x06####"...)
	b = append(b, refMarker...)
	return string(b)
}

func randText(r *core.Rand, n int) string {
	const pool = "abcdefghij klmnop\nqrstuvwxyz#0123456789{}\"\\\t"
	b := make([]byte, n)
	for i := range b {
		b[i] = pool[r.Intn(len(pool))]
	}
	return string(b)
}

// mkTree builds the description of a project tree.
func mkTree(r *core.Rand, kind string) *tree {
	t := &tree{kind: kind, files: map[string]string{}, entryRel: "main.ecal"}
	t.x = r.Range(0, 40)
	bigLib := false
	switch kind {
	case "none":
	case "flat":
		t.lib = "lib.ecal"
		t.files["a.txt"] = randText(r, r.Range(1, 200))
		t.files["b.ecal"] = "y := 1\n"
	case "nested3":
		t.lib = "d1/d2/d3/lib.ecal"
		t.files["top.txt"] = randText(r, r.Range(1, 100))
		t.files["d1/a.txt"] = randText(r, r.Range(1, 100))
		t.files["d1/d2/b.txt"] = randText(r, r.Range(1, 100))
		t.files["d1/d2/d3/c.txt"] = randText(r, r.Range(1, 100))
		t.files["e1/e2/e3/deep.txt"] = randText(r, 5)
		t.emptyDirs = append(t.emptyDirs, "d1/hollow", "hollow2/inner")
	case "emptyfile":
		t.lib = "lib.ecal"
		t.files["empty.dat"] = ""
		t.files["sub/empty2"] = ""
		t.files["sub/nonempty"] = "z"
	case "binary":
		t.lib = "lib/val.ecal"
		t.files["all.bin"] = allBytes() + randText(r, 20)
		t.files["lib/crlf.txt"] = "a\r\nb\r\n\x00\xff\xfe"
	case "entry-inside":
		t.lib = "lib.ecal"
		t.entryIn = true
		if r.Bool() {
			t.entryRel = "app/start.ecal"
		}
	case "entry-twin":
		// files of the tree that are named like the entry file (which lives elsewhere)
		t.lib = "lib.ecal"
		t.files["main.ecal"] = "100001 # not the entry\n"
		t.files["sub/main.ecal"] = "100002\n"
	case "big":
		t.lib = "lib.ecal"
		// sizes on both sides of 32 KiB (one Read of a deflate stream returns
		// at most 32 KiB) and of 64 KiB
		n := r.Range(9000, 30000)
		switch r.Intn(3) {
		case 1:
			n = r.Range(32700, 70000)
		case 2:
			n = r.Range(100000, 260000)
		}
		b := make([]byte, n)
		for i := range b {
			b[i] = byte(r.U64())
		}
		t.files["big.bin"] = string(b)
		// a large compressible text file
		line := "the quick brown fox jumps over the lazy dog 0123456789\n"
		t.files["doc/big.txt"] = strings.Repeat(line, r.Range(700, 3000)) + randText(r, 10)
		bigLib = r.Bool()
	}
	if t.lib != "" {
		lib := fmt.Sprintf("# library\nx := %d\nfunc twice(a) {\n    return a * 2\n}\n", t.x)
		if bigLib {
			// an imported ECAL file of more than 32 KiB: the definitions come last
			lib = strings.Repeat("# padding padding padding padding padding padding padding\n", r.Range(650, 1500)) + lib
		}
		t.files[t.lib] = lib
	}
	return t
}

// mkProgram builds the entry program of a case. The value of an ECAL program
// is the value of its last statement; the packed executable exits with it.
func (t *tree) mkProgram(r *core.Rand, tag string, minCode, maxCode int, logTag string) program {
	base := r.Range(minCode, maxCode-40)
	var p program
	p.src = "# entry of " + tag + "\n"
	if logTag != "" {
		p.src += fmt.Sprintf("log(%q)\n", logTag)
	}
	if t.lib != "" {
		p.src += fmt.Sprintf("import %q as v\nv.x + v.twice(%d) - %d\n", t.lib, base, base)
		p.code = t.x + base
	} else {
		p.src += fmt.Sprintf("c := %d\nc\n", base)
		p.code = base
	}
	return p
}

// expected is the file map a started packed binary must have recovered.
func (t *tree) expected(p program) map[string]string {
	m := make(map[string]string, len(t.files)+2)
	for k, v := range t.files {
		m[k] = v
	}
	m[entryName] = p.src
	if t.entryIn {
		m[t.entryRel] = p.src
	}
	return m
}

// place writes the tree below root/tree once and the entry program of the
// case (below root/entry unless it lives inside the tree).
func (t *tree) place(root string, p program) (dir, entry string, err error) {
	dir = filepath.Join(root, "tree")
	if t.root == "" {
		os.RemoveAll(root)
		if err = os.MkdirAll(dir, 0o755); err != nil {
			return
		}
		names := make([]string, 0, len(t.files))
		for k := range t.files {
			names = append(names, k)
		}
		sort.Strings(names)
		for _, k := range names {
			f := filepath.Join(dir, filepath.FromSlash(k))
			if err = os.MkdirAll(filepath.Dir(f), 0o755); err != nil {
				return
			}
			if err = os.WriteFile(f, []byte(t.files[k]), 0o644); err != nil {
				return
			}
		}
		for _, d := range t.emptyDirs {
			if err = os.MkdirAll(filepath.Join(dir, filepath.FromSlash(d)), 0o755); err != nil {
				return
			}
		}
		entry = filepath.Join(root, "entry", t.entryRel)
		if t.entryIn {
			entry = filepath.Join(dir, filepath.FromSlash(t.entryRel))
		}
		if err = os.MkdirAll(filepath.Dir(entry), 0o755); err != nil {
			return
		}
		t.root = root
	}
	entry = filepath.Join(root, "entry", t.entryRel)
	if t.entryIn {
		entry = filepath.Join(dir, filepath.FromSlash(t.entryRel))
	}
	err = os.WriteFile(entry, []byte(p.src), 0o644)
	return
}

// forest caches the trees of one process.
type forest struct {
	work  string
	seed  uint64
	trees map[string]*tree
}

func (f *forest) pick(r *core.Rand) *tree {
	kind := treeKinds[r.Intn(len(treeKinds))]
	v := r.Intn(treeVariants)
	key := fmt.Sprintf("%s-%d", kind, v)
	t := f.trees[key]
	if t == nil {
		t = mkTree(core.NewRand(f.seed^core.Hash64(key)), kind)
		t.name = key
		f.trees[key] = t
	}
	return t
}

func (f *forest) root(t *tree) string { return filepath.Join(f.work, "trees", t.name) }

// compareFiles returns "" or a category + text describing the first difference.
func compareFiles(want, got map[string]string) (cat, text string) {
	var missing, extra, differ []string
	for k, v := range want {
		g, ok := got[k]
		if !ok {
			missing = append(missing, k)
		} else if g != v {
			differ = append(differ, k)
		}
	}
	for k := range got {
		if _, ok := want[k]; !ok {
			extra = append(extra, k)
		}
	}
	sort.Strings(missing)
	sort.Strings(extra)
	sort.Strings(differ)
	switch {
	case len(missing) > 0:
		return "files:missing", fmt.Sprintf("packed files not recovered: %q", missing)
	case len(extra) > 0:
		return "files:extra", fmt.Sprintf("files recovered that were never packed: %q", extra)
	case len(differ) > 0:
		return "files:content", fmt.Sprintf("files recovered with different bytes: %q", differ)
	}
	return "", ""
}
