package c20

import (
	"bytes"
	"context"
	"errors"
	"fmt"
	"io"
	"os"
	"os/exec"
	"path/filepath"
	"strings"
	"sync"
	"syscall"
	"time"

	"github.com/krotik/ecal/config"

	"verif/harness/core"
)

// Real processes (thorough tier): the real CLI, grown by pad bytes, packs a
// tree with its own `pack` sub-command; the packed file is executed.

type execStream struct {
	stream string
	n      int
	// anchored: the pad length is chosen so that the marker starts idx+shift
	// bytes behind the start of the first scan unit that lies completely in the
	// pad. The same idx then means the same alignment whatever the size of the
	// CLI binary built from the current tree (stable replays).
	anchored bool
	fill     byte // what the pad consists of up to that unit
	shift    int
	pad      func(r *core.Rand, n int) []byte // n = pad length for anchored streams, else idx
}

const execSpan = unitLen + 100 // one full period of either geometry, and a bit

func execStreams() []execStream {
	return []execStream{
		{"exec-zeros", execSpan, true, 0, 0, func(r *core.Rand, n int) []byte { return zeros(n) }},
		{"exec-allhash", execSpan, true, '#', 0, func(r *core.Rand, n int) []byte { return allHash(n) }},
		{"exec-partialB-gap0", 700, true, 0, 3600, func(r *core.Rand, n int) []byte { return partialBefore(n, partialB, 0) }},
		{"exec-random-d4096", 500, false, 0, 0, func(r *core.Rand, idx int) []byte { return randomFill(r, r.Range(0, 4*unitLen), 4096) }},
		{"exec-random-d64", 200, false, 0, 0, func(r *core.Rand, idx int) []byte { return randomFill(r, r.Range(0, 2*unitLen), 64) }},
	}
}

type execEnv struct {
	work     string
	variants [2]string // used alternately: the kernel may release a finished process' text file a little after its exit
	turn     int
	baseSize int64
	p0       int    // start of the first scan unit (block [+overlap]) that can reach beyond the CLI binary
	baseTail []byte // the CLI binary from p0 on
	runDir   string
}

// openVariant opens a variant interpreter for writing. ETXTBSY only means the
// kernel has not yet dropped the previous process' reference: wait for it.
func (e *execEnv) openVariant() (string, *os.File, error) {
	e.turn++
	name := e.variants[e.turn%2]
	var f *os.File
	var err error
	for try := 0; try < 2000; try++ {
		if f, err = os.OpenFile(name, os.O_WRONLY, 0); err == nil || !errors.Is(err, syscall.ETXTBSY) {
			break
		}
		time.Sleep(5 * time.Millisecond)
	}
	return name, f, err
}

// anchor is the file offset of the first scan unit that starts behind the CLI
// binary when the pad consists of fill bytes.
func (e *execEnv) anchor(fill byte) int {
	n := len(e.baseTail)
	p := 0
	for p < n {
		end := p + blockLen
		hash := end > n && fill == '#'
		if end > n {
			end = n
		}
		if hash || bytes.IndexByte(e.baseTail[p:end], '#') >= 0 {
			p += unitLen
		} else {
			p += blockLen
		}
	}
	return e.p0 + p
}

func repoDir() string {
	if d := os.Getenv("VERIF_REPO"); d != "" {
		if a, err := filepath.Abs(d); err == nil {
			return a
		}
	}
	return "/repo"
}

func buildCLI(work string) (*execEnv, error) {
	bin := filepath.Join(work, "ecal")
	cmd := exec.Command("go", "build", "-buildvcs=false", "-o", bin, "./cli")
	cmd.Dir = repoDir()
	cmd.Env = append(os.Environ(), "GOFLAGS=-mod=mod", "GOPROXY=off", "GOSUMDB=off", "GOTOOLCHAIN=local")
	if out, err := cmd.CombinedOutput(); err != nil {
		return nil, fmt.Errorf("go build ./cli: %v: %s", err, tail(out, 600))
	}
	base, err := os.ReadFile(bin)
	if err != nil {
		return nil, err
	}
	if bytes.Contains(base, []byte(refMarker)) {
		return nil, fmt.Errorf("the CLI binary itself contains the complete marker line")
	}
	env := &execEnv{work: work, baseSize: int64(len(base)), runDir: filepath.Join(work, "run")}
	for i := range env.variants {
		env.variants[i] = filepath.Join(work, fmt.Sprintf("ecal-variant%d", i))
		if err := os.WriteFile(env.variants[i], base, 0o755); err != nil {
			return nil, err
		}
	}
	// scan units that lie completely inside the CLI binary do not depend on the pad
	p := 0
	for p+unitLen <= len(base) {
		if bytes.IndexByte(base[p:p+blockLen], '#') >= 0 {
			p += unitLen
		} else {
			p += blockLen
		}
	}
	env.p0 = p
	env.baseTail = append([]byte{}, base[env.p0:]...)
	os.Remove(bin)
	return env, os.MkdirAll(env.runDir, 0o755)
}

func realExec(c *core.Ctx, work string, fo *forest) {
	streams := execStreams()
	mine := false
	for _, s := range streams {
		for i := 0; i < s.n && !mine; i++ {
			mine = c.Mine(s.stream, i)
		}
	}
	if !mine {
		return
	}
	env, err := buildCLI(work)
	if err != nil {
		c.Inconclusive("real-exec part not run: "+err.Error(), "exec-build", 0, nil)
		return
	}
	c.Event("exec.cli-built", 1)
	c.Note("cli_binary_bytes", fmt.Sprint(env.baseSize))
	for _, s := range streams {
		for i := 0; i < s.n; i++ {
			if !c.Take(s.stream, i) {
				continue
			}
			execCase(c, env, fo, s, i)
		}
	}
}

// bannerWatch collects stdout and stops the process as soon as the
// interactive console's banner shows: that is the logical witness of a
// fall-through; the deadline of the context only means "stop waiting".
type bannerWatch struct {
	mu     sync.Mutex
	buf    bytes.Buffer
	banner bool
	cancel context.CancelFunc
}

var consoleBanner = "ECAL " + config.ProductVersion

func (w *bannerWatch) Write(p []byte) (int, error) {
	w.mu.Lock()
	defer w.mu.Unlock()
	if w.buf.Len() < 1<<16 {
		w.buf.Write(p)
	}
	if !w.banner && (bytes.Contains(w.buf.Bytes(), []byte(consoleBanner)) || bytes.Contains(w.buf.Bytes(), []byte("Root directory:"))) {
		w.banner = true
		w.cancel()
	}
	return len(p), nil
}

func execCase(c *core.Ctx, env *execEnv, fo *forest, s execStream, idx int) {
	r := c.Rng(s.stream, idx)
	n := idx
	if s.anchored {
		n = env.anchor(s.fill) - int(env.baseSize) + idx + s.shift
	}
	pad, changed := sanitize(s.pad(r, n))
	if changed > 0 {
		c.Event("filler.sanitized", 1)
	}
	t := fo.pick(r)
	kind := t.kind
	tag := fmt.Sprintf("%s:%d", s.stream, idx)
	logTag := "c20-ran-" + strings.ReplaceAll(tag, ":", "-")
	prog := t.mkProgram(r, tag, 3, 250, logTag)
	dir, entry, err := t.place(fo.root(t), prog)
	if err != nil {
		c.Inconclusive("cannot write the project tree: "+err.Error(), s.stream, idx, nil)
		return
	}
	L := int(env.baseSize) + len(pad)
	detail := func(extra map[string]interface{}) map[string]interface{} {
		d := map[string]interface{}{"family": s.stream, "pad": len(pad), "cli_bytes": env.baseSize, "L": L, "tree": kind, "entry": prog.src,
			"expected_code": prog.code, "pad_tail": fmt.Sprintf("%q", tail(pad, 48))}
		for k, v := range extra {
			d[k] = v
		}
		return d
	}
	// the variant interpreter: real binary + pad (trailing bytes are ignored by the ELF loader)
	variant, vf, err := env.openVariant()
	if err == nil {
		if err = vf.Truncate(env.baseSize); err == nil {
			_, err = vf.WriteAt(pad, env.baseSize)
		}
		if e := vf.Close(); err == nil {
			err = e
		}
	}
	if err != nil {
		c.Inconclusive("cannot write the variant interpreter: "+err.Error(), s.stream, idx, nil)
		return
	}
	out := filepath.Join(env.work, fmt.Sprintf("packed-%d", idx))
	defer os.Remove(out)
	c.Begin(0, s.stream, idx, fmt.Sprintf("pad=%d tree=%s", len(pad), kind))
	defer c.End(0)

	// 1. pack with the variant's own pack sub-command (source defaults to itself)
	ctx, cancel := context.WithTimeout(context.Background(), 120*time.Second)
	pc := exec.CommandContext(ctx, variant, "pack", "-dir", dir, "-target", out, entry)
	pc.Dir = env.work
	pc.WaitDelay = 5 * time.Second
	pout, perr := pc.CombinedOutput()
	expired := ctx.Err() != nil
	cancel()
	if expired {
		c.Inconclusive("pack sub-command still running after 120 s (stopped waiting)", s.stream, idx, detail(nil))
		return
	}
	var exitErr *exec.ExitError
	if perr != nil && !errors.As(perr, &exitErr) {
		c.Inconclusive("the variant interpreter could not be started: "+perr.Error(), s.stream, idx, detail(nil))
		return
	}
	if perr != nil || !strings.Contains(string(pout), "Packing ") {
		c.Violation("exec:pack-failed", fmt.Sprintf("`<variant> pack` failed: %v", perr), s.stream, idx, detail(map[string]interface{}{"output": string(tail(pout, 1500))}))
		return
	}
	// look at the packed file from the first scan unit on that the pad can influence
	packed, perr2 := readFrom(out, int64(env.p0))
	if perr2 != nil {
		c.Violation("exec:pack-no-target", "`<variant> pack` succeeded but the target cannot be read: "+perr2.Error(), s.stream, idx, detail(map[string]interface{}{"output": string(tail(pout, 1500))}))
		return
	}
	c.Event("exec.pack.ok", 1)
	Lt := L - env.p0
	if len(packed) < Lt+len(refMarker) || string(packed[Lt:Lt+len(refMarker)]) != refMarker || !bytes.Equal(packed[Lt-len(pad):Lt], pad) ||
		!bytes.Equal(packed[:len(env.baseTail)], env.baseTail) {
		c.Violation("pack:layout", "the packed file is not <source binary><marker line><archive>", s.stream, idx, detail(map[string]interface{}{"target_tail_len": len(packed)}))
		return
	}
	geo := locate(packed, Lt)
	c.Event("exec.marker-at."+geo.String(), 1)
	c.Event("exec.aligned."+alignedClass(L), 1)
	laterMarker := bytes.Contains(packed[Lt+len(refMarker):], []byte(refMarker))
	packed = nil

	// 2. execute the packed file: stdin closed, stop waiting after 180 s
	ctx, cancel = context.WithTimeout(context.Background(), 180*time.Second)
	defer cancel()
	w := &bannerWatch{cancel: cancel}
	var stderr bytes.Buffer
	rc := exec.CommandContext(ctx, out)
	rc.Dir = env.runDir
	rc.Stdout = w
	rc.Stderr = &stderr
	rc.WaitDelay = 5 * time.Second
	rc.Env = []string{"PATH=/usr/bin:/bin", "HOME=" + env.runDir, "TERM=dumb"}
	t0 := time.Now()
	runErr := rc.Run()
	deadline := ctx.Err() == context.DeadlineExceeded
	w.mu.Lock()
	stdout, banner := w.buf.String(), w.banner
	w.mu.Unlock()
	code := -1
	if rc.ProcessState != nil {
		code = rc.ProcessState.ExitCode()
	}
	c.NontrivialKey(fmt.Sprintf("%s|%d|%s", s.stream, len(pad), kind))
	obs := map[string]interface{}{"exit_code": code, "stdout": trunc(stdout, 600), "stderr": trunc(stderr.String(), 1500), "marker_at": geo.String(), "marker_off": geo.off, "run_error": fmt.Sprint(runErr)}
	if idx%997 == 5 {
		c.Sample("exec:"+s.stream, detail(map[string]interface{}{"exit_code": code, "marker_at": geo.String(), "stdout": trunc(stdout, 100), "ms": time.Since(t0).Milliseconds()}))
	}
	if rc.ProcessState == nil {
		if errors.Is(runErr, syscall.ETXTBSY) || errors.Is(runErr, syscall.EAGAIN) || errors.Is(runErr, syscall.ENOMEM) {
			c.Inconclusive("the packed executable could not be started: "+fmt.Sprint(runErr), s.stream, idx, detail(obs))
		} else {
			c.Violation("exec:packed-file-not-startable", "the packed file cannot be executed: "+fmt.Sprint(runErr), s.stream, idx, detail(obs))
		}
		return
	}
	switch {
	case banner:
		c.Event("exec.console-banner", 1)
		c.Violation(geo.missKey(L), fmt.Sprintf("the packed executable did not find its archive and dropped into the interactive console (banner %q on stdout; marker at offset %d = %s read, offset %d; '#' before it in that block: %v)",
			consoleBanner, L, geo.where, geo.off, geo.hash), s.stream, idx, detail(obs))
	case deadline:
		c.Inconclusive("packed executable neither exited nor printed the console banner within 180 s (stopped waiting)", s.stream, idx, detail(obs))
	case strings.Contains(stderr.String(), "\ngoroutine ") && strings.Contains(stderr.String(), "panic: "):
		c.Event("exec.panic", 1)
		st := stderr.String()
		i := strings.Index(st, "panic: ")
		head := firstLine(st[i:])
		gk := "panic:" + core.InnermostEcalFrame(st[i:]) + ":" + core.PanicClass(head)
		key := geo.panicKey(gk, strings.TrimPrefix(head, "panic: "))
		what := fmt.Sprintf("the packed executable died with a Go panic (marker at %s+%d): %s", geo.where, geo.off, head)
		if viaErrorHandler(gk) && laterMarker {
			key = geo.missKey(L)
			what = fmt.Sprintf("the packed executable did not find its archive: the marker at offset %d (%s read, offset %d; '#' before it in that block: %v) was passed over, a later occurrence of the marker text inside the archive was taken: %s",
				L, geo.where, geo.off, geo.hash, head)
		}
		c.Violation(key, what, s.stream, idx, detail(obs))
	case code != prog.code:
		c.Violation("exec:wrong-exit-code", fmt.Sprintf("exit code %d, the entry returns %d", code, prog.code), s.stream, idx, detail(obs))
	case stdout != "":
		c.Violation("exec:unexpected-stdout", "the packed program printed to stdout although the entry prints nothing there", s.stream, idx, detail(obs))
	case !strings.Contains(stderr.String(), logTag):
		c.Violation("exec:entry-log-missing", "exit code as expected but the entry's log line never appeared", s.stream, idx, detail(obs))
	default:
		c.Event("exec.run.exit-code-and-log-ok", 1)
	}
}

func readFrom(name string, off int64) ([]byte, error) {
	f, err := os.Open(name)
	if err != nil {
		return nil, err
	}
	defer f.Close()
	if _, err = f.Seek(off, io.SeekStart); err != nil {
		return nil, err
	}
	return io.ReadAll(f)
}

func trunc(s string, n int) string {
	if len(s) > n {
		return s[:n] + "…"
	}
	return s
}
