// Command c15 is the check binary of property C15.
package main

import (
	_ "verif/harness/c15"
	"verif/harness/core"
)

func main() { core.Main() }
