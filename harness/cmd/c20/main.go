// Command c20 is the check binary of property C20.
package main

import (
	_ "verif/harness/c20"
	"verif/harness/core"
)

func main() { core.Main() }
