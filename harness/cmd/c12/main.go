// Command c12 is the check binary of property C12.
package main

import (
	_ "verif/harness/c12"
	"verif/harness/core"
)

func main() { core.Main() }
