// Command c19 is the check binary of property C19.
package main

import (
	_ "verif/harness/c19"
	"verif/harness/core"
)

func main() { core.Main() }
