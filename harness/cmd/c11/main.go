// Command c11 is the check binary of property C11.
package main

import (
	_ "verif/harness/c11"
	"verif/harness/core"
)

func main() { core.Main() }
