// Command c14 is the check binary of property C14.
package main

import (
	_ "verif/harness/c14"
	"verif/harness/core"
)

func main() { core.Main() }
