// Command c10 is the check binary of property C10.
package main

import (
	_ "verif/harness/c10"
	"verif/harness/core"
)

func main() { core.Main() }
