// Command c01 is the check binary of property C01.
package main

import (
	_ "verif/harness/c01"
	"verif/harness/core"
)

func main() { core.Main() }
