// Command c06 is the check binary of property C06.
package main

import (
	_ "verif/harness/c06"
	"verif/harness/core"
)

func main() { core.Main() }
