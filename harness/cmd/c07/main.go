// Command c07 is the check binary of property C07.
package main

import (
	_ "verif/harness/c07"
	"verif/harness/core"
)

func main() { core.Main() }
