// Command c02 is the check binary of property C02.
package main

import (
	_ "verif/harness/c02"
	"verif/harness/core"
)

func main() { core.Main() }
