// Command c08 is the check binary of property C08.
package main

import (
	_ "verif/harness/c08"
	"verif/harness/core"
)

func main() { core.Main() }
