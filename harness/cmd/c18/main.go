// Command c18 is the check binary of property C18.
package main

import (
	_ "verif/harness/c18"
	"verif/harness/core"
)

func main() { core.Main() }
