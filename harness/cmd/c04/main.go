// Command c04 is the check binary of property C04.
package main

import (
	_ "verif/harness/c04"
	"verif/harness/core"
)

func main() { core.Main() }
