// Command c05 is the check binary of property C05.
package main

import (
	_ "verif/harness/c05"
	"verif/harness/core"
)

func main() { core.Main() }
