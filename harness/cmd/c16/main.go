// Command c16 is the check binary of property C16.
package main

import (
	_ "verif/harness/c16"
	"verif/harness/core"
)

func main() { core.Main() }
