// Command c17 is the check binary of property C17.
package main

import (
	_ "verif/harness/c17"
	"verif/harness/core"
)

func main() { core.Main() }
