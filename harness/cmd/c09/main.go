// Command c09 is the check binary of property C09.
package main

import (
	_ "verif/harness/c09"
	"verif/harness/core"
)

func main() { core.Main() }
