// Command c03 is the check binary of property C03.
package main

import (
	_ "verif/harness/c03"
	"verif/harness/core"
)

func main() { core.Main() }
