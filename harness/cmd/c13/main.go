// Command c13 is the check binary of property C13.
package main

import (
	_ "verif/harness/c13"
	"verif/harness/core"
)

func main() { core.Main() }
