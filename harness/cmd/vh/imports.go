package main

// every check package registers itself in init()
import (
	_ "verif/harness/c17"
)
