// Package c09 holds the runtime monitors for property C09: the thread pool
// runs every accepted task exactly once without outside help (DESIGN.md 4, C09).
package c09

import (
	"fmt"
	"runtime"
	"sync"
	"sync/atomic"
	"time"

	"github.com/krotik/ecal/engine/pool"
	"github.com/krotik/ecal/verifhook"

	"verif/harness/core"
	"verif/harness/sched"
)

func init() { core.Register("C09", Run) }

// ---- harness tasks ---------------------------------------------------------

type scen struct {
	tr      *sched.Tracer
	tp      *pool.ThreadPool
	started []int32 // per task id
	ended   []int32
	addRet  []int64 // stamp when AddTask returned
	beginAt []int64
	endAt   []int64
	mu      sync.Mutex
	nextID  int32
	dup     int32
	block   map[int]chan struct{} // tasks that wait for the harness
}

func newScen(tr *sched.Tracer, max int) *scen {
	return &scen{tr: tr, tp: pool.NewThreadPool(), started: make([]int32, max), ended: make([]int32, max),
		addRet: make([]int64, max), beginAt: make([]int64, max), endAt: make([]int64, max), block: map[int]chan struct{}{}}
}

// sizeHookQueue is the pool's default queue with one observation point more:
// the Size() call of the idle task, which lies between the idle task's look
// at the pending kill requests and its wait (inside the condition's lock and
// the queue lock - used as a gate only with the forced release of runGate).
type sizeHookQueue struct {
	pool.DefaultTaskQueue
	tp *pool.ThreadPool
}

func (q *sizeHookQueue) Size() int {
	var pcs [4]uintptr
	n := runtime.Callers(2, pcs[:])
	fr := runtime.CallersFrames(pcs[:n])
	for {
		f, more := fr.Next()
		if len(f.Function) > 15 && f.Function[len(f.Function)-15:] == "(*idleTask).Run" {
			verifhook.At(idleSizePoint, q.tp)
			break
		}
		if !more {
			break
		}
	}
	return q.DefaultTaskQueue.Size()
}

const idleSizePoint = "poolq.idle.size"

func newScenSizeHook(tr *sched.Tracer, max int) *scen {
	s := newScen(tr, max)
	q := &sizeHookQueue{}
	s.tp = pool.NewThreadPoolWithQueue(q)
	q.tp = s.tp
	return s
}

type task struct {
	s     *scen
	id    int
	spin  int          // microseconds of sleeping
	child int          // number of child tasks to submit
	onRun func(id int) // optional
}

func (t *task) Run(tid uint64) error {
	s := t.s
	if atomic.AddInt32(&s.started[t.id], 1) > 1 {
		atomic.AddInt32(&s.dup, 1)
	}
	s.beginAt[t.id] = s.tr.Stamp()
	if t.onRun != nil {
		t.onRun(t.id)
	}
	s.mu.Lock()
	ch := s.block[t.id]
	s.mu.Unlock()
	if ch != nil {
		<-ch
	}
	if t.spin > 0 {
		time.Sleep(time.Duration(t.spin) * time.Microsecond)
	}
	for i := 0; i < t.child; i++ {
		s.add(0, 0)
	}
	s.endAt[t.id] = s.tr.Stamp()
	atomic.AddInt32(&s.ended[t.id], 1)
	return nil
}
func (t *task) HandleError(e error) {}

// add submits a new task and returns its id.
func (s *scen) add(spin, child int) int {
	id := int(atomic.AddInt32(&s.nextID, 1)) - 1
	if id >= len(s.started) {
		panic("task table too small")
	}
	s.tp.AddTask(&task{s: s, id: id, spin: spin, child: child})
	s.addRet[id] = s.tr.Stamp()
	return id
}

func (s *scen) addTask(t *task) int {
	id := int(atomic.AddInt32(&s.nextID, 1)) - 1
	t.s, t.id = s, id
	s.tp.AddTask(t)
	s.addRet[id] = s.tr.Stamp()
	return id
}

func (s *scen) n() int { return int(atomic.LoadInt32(&s.nextID)) }

func (s *scen) allEnded() bool {
	n := s.n()
	for i := 0; i < n; i++ {
		if atomic.LoadInt32(&s.ended[i]) == 0 {
			return false
		}
	}
	return n == s.n()
}

func (s *scen) allStarted() bool {
	n := s.n()
	for i := 0; i < n; i++ {
		if atomic.LoadInt32(&s.started[i]) == 0 {
			return false
		}
	}
	return n == s.n()
}

// awaitOrStuck polls (bounded) until cond holds or the pool is in the stuck
// state. Returns "done", "stuck" or "inconclusive".
func (s *scen) awaitOrStuck(cond func() bool, maxPolls int) (string, *sched.PoolView) {
	for i := 0; i < maxPolls; i++ {
		if cond() {
			return "done", nil
		}
		if i > 3 {
			if st, v := sched.PoolStuck(s.tr, s.tp); st {
				// confirm: the condition is still false after the stuck state was established
				if !cond() {
					return "stuck", v
				}
			}
		}
		if i < 50 {
			time.Sleep(50 * time.Microsecond)
		} else {
			time.Sleep(time.Millisecond)
		}
	}
	return "inconclusive", nil
}

// call runs a pool call that is specified to return (SetWorkerCount with
// wait, WaitAll, JoinAll). If it does not return within the stop-waiting bound
// the verdict is taken from a logical witness where there is one:
// SetWorkerCount(n, true) can never return once fewer than n workers are alive
// (nobody else creates workers). Otherwise the case is inconclusive. Returns
// false if the scenario must be abandoned.
func (s *scen) call(c *core.Ctx, stream string, idx int, desc, name string, want int, fn func()) bool {
	done := make(chan struct{})
	go func() { defer close(done); fn() }()
	for i := 0; i < 10000; i++ {
		select {
		case <-done:
			return true
		default:
		}
		if i > 2000 && i%500 == 0 && name == "setworkercount-wait" {
			v := sched.ViewPool(s.tr.Snapshot(), s.tp)
			if len(v.LiveWorkers) < want {
				time.Sleep(20 * time.Millisecond)
				v2 := sched.ViewPool(s.tr.Snapshot(), s.tp)
				select {
				case <-done:
					return true
				default:
				}
				if len(v2.LiveWorkers) < want && len(v2.LiveWorkers) == len(v.LiveWorkers) {
					c.Violation("setworkercount-wait-never-returns", fmt.Sprintf("SetWorkerCount(%d, true) cannot return: only %d worker(s) are alive and no call creates more", want, len(v2.LiveWorkers)), stream, idx,
						map[string]interface{}{"case": desc, "trace": traceTail(s.tr, s.tp, 60)})
					s.tp.SetWorkerCount(want, false) // outside help so that the spinning call ends
					<-done
					return false
				}
			}
		}
		time.Sleep(time.Millisecond)
	}
	c.Inconclusive(name+" did not return within the stop-waiting bound", stream, idx, map[string]interface{}{"case": desc, "trace": traceTail(s.tr, s.tp, 40)})
	return false
}

func traceTail(tr *sched.Tracer, pool interface{}, n int) []string {
	evs := tr.Snapshot()
	var out []string
	for _, e := range evs {
		if len(e.Args) > 0 && e.Args[0] == pool {
			extra := ""
			if len(e.Args) > 1 {
				switch a := e.Args[1].(type) {
				case uint64, string, int:
					extra = fmt.Sprint(" ", a)
				case *task:
					extra = fmt.Sprint(" task", a.id)
				}
			}
			out = append(out, fmt.Sprintf("%d g%d %s%s", e.Seq, e.G, e.Point, extra))
		} else if len(e.Point) > 2 && e.Point[:2] == "h." {
			out = append(out, fmt.Sprintf("%d g%d %s %v", e.Seq, e.G, e.Point, e.Args))
		}
	}
	if len(out) > n {
		out = out[len(out)-n:]
	}
	return out
}

func onlyPool(p string) bool { return len(p) > 5 && p[:5] == "pool." }

// ---- directed gate scenarios ------------------------------------------------

var workerHold = []string{"pool.worker.loop", "pool.get.empty", "pool.idle.beforewait", "pool.get.popped", "pool.get.kill"}
var otherUntil = []string{"pool.add.pushed", "pool.add.signalled", "pool.broadcast"}

type gateCase struct {
	template string
	hold     string
	until    string
	workers  int
}

func gateCases() []gateCase {
	var r []gateCase
	for _, tpl := range []string{"submit", "submit-after-burst", "resize-down", "resize-down-wait", "joinall", "waitall", "resize-zero"} {
		for _, h := range workerHold {
			for _, u := range otherUntil {
				for _, w := range []int{1, 2, 3} {
					if w == 1 && (tpl == "resize-down" || tpl == "resize-down-wait") {
						continue // a pool with zero workers owes nothing
					}
					r = append(r, gateCase{tpl, h, u, w})
				}
			}
		}
	}
	// hold a worker until the partner call has RETURNED: infeasible on a correct
	// pool for the hold points at which the worker owns a task (the call must
	// wait for it; the gate is then opened by force), an early return otherwise
	for _, tpl := range []string{"waitall", "joinall", "resize-down-wait"} {
		for _, h := range workerHold {
			for _, w := range []int{1, 2, 3} {
				if w == 1 && tpl == "resize-down-wait" {
					continue
				}
				r = append(r, gateCase{tpl, h, "h.call.returned", w})
			}
		}
	}
	// the idle task held between its look at the kill requests and its wait
	// (inside its locks): a correct pool makes the partner wait for the lock
	// (pair infeasible, forced release)
	for _, tpl := range []string{"resize-zero", "resize-down-noadd", "submit"} {
		for _, u := range []string{"pool.broadcast", "pool.add.signalled", "h.call.returned"} {
			for _, w := range []int{1, 2, 3} {
				if (w == 1 && tpl == "resize-down-noadd") || (tpl == "submit") != (u == "pool.add.signalled") {
					continue
				}
				r = append(r, gateCase{tpl, idleSizePoint, u, w})
			}
		}
	}
	return r
}

func runGate(c *core.Ctx, idx int, gc gateCase) {
	stream := "gate"
	tr := sched.NewTracer()
	s := newScen(tr, 64)
	if gc.hold == idleSizePoint {
		s = newScenSizeHook(tr, 64)
	}
	tr.Filter = func(p string, a []interface{}) bool { return len(a) > 0 && a[0] == s.tp }
	tr.Install() // after Filter is set: stragglers of an earlier scenario may call in at any time
	defer sched.Uninstall()
	desc := fmt.Sprintf("%s hold=%s until=%s workers=%d", gc.template, gc.hold, gc.until, gc.workers)
	c.Begin(0, stream, idx, desc)
	defer c.End(0)
	s.tp.SetWorkerCount(gc.workers, false)
	// warm-up task so that a worker is on its way back into the idle state
	// when the gate is armed
	g := sched.NewGate(gc.hold, gc.until)
	armed := make(chan struct{})
	warm := &task{onRun: func(int) { tr.AddGate(g); close(armed) }}
	if gc.hold == idleSizePoint {
		// the hold point lies inside the condition's lock: the signalling half
		// of this very AddTask can find the lock taken by the held worker, so
		// the call must not run on the goroutine that opens the gate by force
		go s.addTask(warm)
	} else {
		s.addTask(warm)
	}
	<-armed
	// wait until the gate holds a worker, or the workers are all parked (the
	// hold point was not passed: infeasible for this template)
	holding := false
	for i := 0; i < 4000; i++ {
		if g.Holding() {
			holding = true
			break
		}
		if i > 20 {
			if st, _ := sched.PoolStuck(tr, s.tp); st {
				break
			}
		}
		time.Sleep(50 * time.Microsecond)
	}
	callDone := make(chan struct{})
	final := gc.workers
	var callStamp, retStamp int64
	nAtCall := 0
	go func() {
		defer close(callDone)
		defer func() {
			retStamp = tr.Stamp()
			tr.Record("h.call.returned", s.tp, gc.template)
		}()
		switch gc.template {
		case "submit":
			s.add(0, 0)
		case "submit-after-burst":
			for i := 0; i < 5; i++ {
				s.add(0, 0)
			}
		case "resize-down":
			final = gc.workers - 1
			s.add(0, 0)
			s.tp.SetWorkerCount(final, false)
		case "resize-down-noadd":
			final = gc.workers - 1
			s.tp.SetWorkerCount(final, false)
		case "resize-zero":
			// no task is owed afterwards, but the count has to converge to 0
			// without outside help even if a worker is in its idle window
			final = 0
			s.tp.SetWorkerCount(0, false)
		case "resize-down-wait":
			final = gc.workers - 1
			s.add(0, 0)
			s.tp.SetWorkerCount(final, true)
		case "joinall":
			final = 0
			s.add(0, 0)
			nAtCall, callStamp = s.n(), tr.Stamp()
			s.tp.JoinAll()
		case "waitall":
			s.add(0, 0)
			nAtCall, callStamp = s.n(), tr.Stamp()
			s.tp.WaitAll()
		}
	}()
	// the partner call may itself block on the held worker (e.g. WaitAll needs
	// all workers idle): if the gate is still holding after the partner passed
	// no until-point and is blocked, release it (pair infeasible).
	for i := 0; i < 2500; i++ {
		done := false
		select {
		case <-callDone:
			done = true
		default:
		}
		if done || (g.WasHeld() && !g.Holding()) {
			break
		}
		time.Sleep(50 * time.Microsecond)
	}
	feasible := g.WasHeld() && g.Released != 0
	_ = holding
	// opens the gate if it still holds a worker (pair infeasible in this
	// template) and disarms it otherwise
	g.Release()
	select {
	case <-callDone:
	case <-time.After(20 * time.Second):
		// the harness call itself does not return: with joinall/resize-down-wait this
		// would be a violation only with a stuck witness; those calls re-broadcast,
		// so treat as inconclusive
		c.Inconclusive("pool call did not return within the stop-waiting bound", stream, idx, map[string]interface{}{"case": desc, "trace": traceTail(tr, s.tp, 40)})
		return
	}
	tr.ClearGates()
	// WaitAll / JoinAll must not return while a task added before the call is
	// queued or running
	for i := 0; i < nAtCall; i++ {
		if s.addRet[i] != 0 && s.addRet[i] < callStamp && (atomic.LoadInt32(&s.ended[i]) == 0 || s.endAt[i] > retStamp) {
			c.Violation(gc.template+"-early", fmt.Sprintf("%s returned (stamp %d) while task %d, added before the call (stamp %d < %d), had not ended (end stamp %d)", gc.template, retStamp, i, s.addRet[i], callStamp, s.endAt[i]), stream, idx,
				map[string]interface{}{"case": desc, "trace": traceTail(tr, s.tp, 40)})
			break
		}
	}
	if feasible {
		c.Event("gate.feasible", 1)
		c.NontrivialKey("gate|" + desc)
	} else {
		c.Event("gate.infeasible", 1)
	}
	// from here on: NO further pool call until the verdict
	want := final
	if gc.template == "resize-down" && final == 0 {
		// with zero workers requested queued tasks may legitimately stay queued
		want = 0
	}
	res, v := "done", (*sched.PoolView)(nil)
	if want > 0 || gc.template == "joinall" || gc.template == "resize-down-wait" {
		res, v = s.awaitOrStuck(func() bool { return s.allEnded() }, 3000)
	}
	key := fmt.Sprintf("stuck:%s->%s", gc.hold, gc.until)
	detail := map[string]interface{}{"case": desc, "trace": traceTail(tr, s.tp, 60)}
	switch res {
	case "stuck":
		detail["live_workers"] = len(v.LiveWorkers)
		c.Violation(key, fmt.Sprintf("lost wake-up: %d task(s) queued/unstarted, %d live worker(s) all parked in Cond.Wait with no notify after their wait began, no pool call outstanding", s.n()-countStarted(s), len(v.LiveWorkers)), stream, idx, detail)
	case "inconclusive":
		c.Inconclusive("tasks neither finished nor pool stuck", stream, idx, detail)
	}
	checkExactlyOnce(c, s, stream, idx, desc, res == "done")
	// worker-count convergence (only meaningful when nothing is stuck already)
	if res == "done" {
		switch gc.template {
		case "resize-down", "resize-down-wait", "joinall", "resize-zero", "resize-down-noadd":
			r2, v2 := s.awaitOrStuck(func() bool { return s.tp.WorkerCount() == final }, 3000)
			if gc.template != "resize-down" && gc.template != "resize-zero" && gc.template != "resize-down-noadd" && s.tp.WorkerCount() != final {
				c.Violation("count-after-return:"+gc.template, fmt.Sprintf("%s returned with %d workers, requested %d", gc.template, s.tp.WorkerCount(), final), stream, idx, detail)
			} else if r2 == "stuck" {
				detail["live_workers"] = len(v2.LiveWorkers)
				c.Violation("stuck-count:"+gc.hold+"->"+gc.until, fmt.Sprintf("worker count does not converge: %d live workers parked with no pending wake, requested %d", len(v2.LiveWorkers), final), stream, idx, detail)
			} else if r2 == "inconclusive" {
				c.Inconclusive("worker count neither converged nor stuck", stream, idx, detail)
			}
		}
	}
	c.Nontrivial(sched.Signature(tr.Snapshot(), onlyPool))
	c.Event("interleaving", 1)
	countEvents(c, tr)
	// clean up (outside help is allowed now)
	s.tp.JoinAll()
}

func countStarted(s *scen) int {
	k := 0
	for i := 0; i < s.n(); i++ {
		if atomic.LoadInt32(&s.started[i]) > 0 {
			k++
		}
	}
	return k
}

func countEvents(c *core.Ctx, tr *sched.Tracer) {
	for k, v := range tr.Counts() {
		c.Event(k, v)
	}
}

func checkExactlyOnce(c *core.Ctx, s *scen, stream string, idx int, desc string, complete bool) {
	if atomic.LoadInt32(&s.dup) > 0 {
		c.Violation("task-ran-twice", "a task was started more than once", stream, idx, map[string]interface{}{"case": desc})
	}
	if complete {
		for i := 0; i < s.n(); i++ {
			if atomic.LoadInt32(&s.started[i]) != 1 || atomic.LoadInt32(&s.ended[i]) != 1 {
				c.Violation("task-count", fmt.Sprintf("task %d started %d times, ended %d times", i, s.started[i], s.ended[i]), stream, idx, map[string]interface{}{"case": desc})
				return
			}
		}
	}
}

// ---- noise scenarios ---------------------------------------------------------

func runNoise(c *core.Ctx, slot, idx int) {
	stream := "noise"
	r := c.Rng(stream, idx)
	tr := sched.NewTracer()
	tr.Keep = true
	s := newScen(tr, 4096)
	// NOTE: hook handler is process wide; noise scenarios therefore run one at
	// a time per process (parallelism comes from driver batches).
	tr.Filter = func(p string, a []interface{}) bool { return len(a) > 0 && a[0] == s.tp }
	tr.Install()
	defer sched.Uninstall()
	workers := 1 + r.Intn(4)
	if r.Chance(1, 4) {
		workers = 1 + r.Intn(16)
	}
	tr.SetNoise(r.U64(), uint64(r.OneOf(0, 64, 256, 600)))
	nops := r.Range(2, 10)
	desc := fmt.Sprintf("workers=%d ops=", workers)
	c.Begin(slot, stream, idx, desc)
	defer c.End(slot)
	s.tp.SetWorkerCount(workers, false)
	cur := workers
	helped := false // a pool call that re-broadcasts was made after the last submission
	type waitRec struct {
		kind        string
		call, ret   int64
		tasksAtCall int
	}
	var waits []waitRec
	for op := 0; op < nops; op++ {
		switch k := r.Intn(10); {
		case k < 3: // burst
			n := r.Range(1, 40)
			desc += fmt.Sprintf("burst%d ", n)
			for i := 0; i < n; i++ {
				s.add(r.OneOf(0, 0, 0, 20), r.OneOf(0, 0, 0, 2))
			}
			helped = false
		case k < 6: // single submissions separated by idle periods
			n := r.Range(1, 4)
			desc += fmt.Sprintf("single%d ", n)
			for i := 0; i < n; i++ {
				s.add(r.OneOf(0, 0, 5, 50), 0)
				// idle period: wait (without any pool call) until everything
				// submitted so far ended, or the pool is stuck
				res, v := s.awaitOrStuck(s.allEnded, 3000)
				if res == "stuck" {
					reportStuck(c, s, stream, idx, desc, v, "single submission")
					s.tp.JoinAll()
					return
				}
				if res == "inconclusive" {
					c.Inconclusive("tasks neither finished nor pool stuck", stream, idx, map[string]interface{}{"case": desc})
					s.tp.JoinAll()
					return
				}
			}
			helped = false
		case k < 7: // concurrent submitters
			g := r.Range(2, 4)
			n := r.Range(1, 15)
			desc += fmt.Sprintf("conc%dx%d ", g, n)
			var wg sync.WaitGroup
			for j := 0; j < g; j++ {
				wg.Add(1)
				go func() {
					defer wg.Done()
					for i := 0; i < n; i++ {
						s.add(0, 0)
					}
				}()
			}
			wg.Wait()
			helped = false
		case k < 8: // WaitAll
			desc += "waitall "
			n := s.n()
			call := tr.Stamp()
			if !s.call(c, stream, idx, desc, "waitall", 0, s.tp.WaitAll) {
				return
			}
			ret := tr.Stamp()
			waits = append(waits, waitRec{"waitall", call, ret, n})
			helped = true
		case k < 9 && r.Chance(1, 2): // concurrent resizers asking for the same count
			n := r.Range(1, 6)
			g := r.Range(2, 3)
			desc += fmt.Sprintf("concresize%dx%d ", g, n)
			var wg sync.WaitGroup
			okAll := int32(1)
			for j := 0; j < g; j++ {
				wait := r.Bool()
				wg.Add(1)
				go func() {
					defer wg.Done()
					if !wait {
						s.tp.SetWorkerCount(n, false)
					} else if !s.call(c, stream, idx, desc, "setworkercount-wait", n, func() { s.tp.SetWorkerCount(n, true) }) {
						atomic.StoreInt32(&okAll, 0)
					}
				}()
			}
			wg.Wait()
			if atomic.LoadInt32(&okAll) == 0 {
				s.tp.JoinAll()
				return
			}
			cur = n
			helped = true
		default: // resize
			n := r.Range(1, 6)
			if r.Chance(1, 5) {
				n = r.Range(1, 16)
			}
			w := r.Bool()
			desc += fmt.Sprintf("resize%d/%v ", n, w)
			if !w {
				s.tp.SetWorkerCount(n, false)
			} else if !s.call(c, stream, idx, desc, "setworkercount-wait", n, func() { s.tp.SetWorkerCount(n, true) }) {
				s.tp.JoinAll()
				return
			}
			if w && s.tp.WorkerCount() != n {
				// single resizer, so nobody else changes the count
				c.Violation("count-after-return:setworkercount", fmt.Sprintf("SetWorkerCount(%d,true) returned with %d workers", n, s.tp.WorkerCount()), stream, idx, map[string]interface{}{"case": desc})
			}
			cur = n
			helped = true
		}
	}
	_ = helped
	c.Begin(slot, stream, idx, desc)
	// verdict phase: no pool call until all tasks ended or the pool is stuck
	res, v := s.awaitOrStuck(s.allEnded, 4000)
	switch res {
	case "stuck":
		reportStuck(c, s, stream, idx, desc, v, "end of scenario")
	case "inconclusive":
		c.Inconclusive("tasks neither finished nor pool stuck", stream, idx, map[string]interface{}{"case": desc, "trace": traceTail(tr, s.tp, 40)})
	}
	// WaitAll oracle: tasks whose AddTask returned before the call must have
	// ended before the return
	for _, w := range waits {
		for i := 0; i < w.tasksAtCall; i++ {
			if s.addRet[i] != 0 && s.addRet[i] < w.call {
				if atomic.LoadInt32(&s.ended[i]) == 0 || s.endAt[i] > w.ret {
					c.Violation("waitall-early", fmt.Sprintf("WaitAll returned (stamp %d) while task %d, added at stamp %d before the call (%d), had not ended (end stamp %d)", w.ret, i, s.addRet[i], w.call, s.endAt[i]), stream, idx, map[string]interface{}{"case": desc})
					break
				}
			}
		}
	}
	if res == "done" {
		// convergence of the worker count without outside help
		r2, v2 := s.awaitOrStuck(func() bool { return s.tp.WorkerCount() == cur }, 4000)
		if r2 == "stuck" {
			c.Violation("stuck-count:noise", fmt.Sprintf("worker count does not converge: %d live workers parked with no pending wake, requested %d", len(v2.LiveWorkers), cur), stream, idx, map[string]interface{}{"case": desc, "trace": traceTail(tr, s.tp, 60)})
		} else if r2 == "inconclusive" {
			c.Inconclusive("worker count neither converged nor stuck", stream, idx, map[string]interface{}{"case": desc, "count": s.tp.WorkerCount(), "want": cur, "trace": traceTail(tr, s.tp, 40)})
		}
	}
	// JoinAll oracle
	nBefore := s.n()
	if !s.call(c, stream, idx, desc, "joinall", 0, s.tp.JoinAll) {
		return
	}
	jret := tr.Stamp()
	if wc := s.tp.WorkerCount(); wc != 0 {
		c.Violation("joinall-workers-left", fmt.Sprintf("JoinAll returned with %d workers", wc), stream, idx, map[string]interface{}{"case": desc})
	}
	for i := 0; i < nBefore; i++ {
		if atomic.LoadInt32(&s.ended[i]) != 1 || s.endAt[i] > jret {
			c.Violation("joinall-unfinished", fmt.Sprintf("JoinAll returned while task %d had not ended", i), stream, idx, map[string]interface{}{"case": desc})
			break
		}
	}
	checkExactlyOnce(c, s, stream, idx, desc, true)
	c.Nontrivial(sched.Signature(tr.Snapshot(), onlyPool))
	c.Event("interleaving", 1)
	c.Event("tasks", int64(s.n()))
	countEvents(c, tr)
	if idx%97 == 0 {
		c.Sample("noise", map[string]interface{}{"scenario": desc, "tasks": s.n(), "trace_tail": traceTail(tr, s.tp, 12)})
	}
}

func reportStuck(c *core.Ctx, s *scen, stream string, idx int, desc string, v *sched.PoolView, where string) {
	// classify by the last two pool events before the parked worker's wait
	c.Violation("stuck:noise", fmt.Sprintf("lost wake-up (%s): %d of %d tasks unstarted, %d live worker(s) all parked in Cond.Wait with no notify after their wait began, no pool call outstanding", where, s.n()-countStarted(s), s.n(), len(v.LiveWorkers)), stream, idx,
		map[string]interface{}{"case": desc, "trace": traceTail(s.tr, s.tp, 60)})
}

// ---- dependency scenarios ------------------------------------------------------
//
// "every task added is started ... without any further call being needed" must
// also hold while other workers are busy: a task that waits (inside its Run)
// for a task submitted right after it can only finish if an idle worker is
// woken for the second one. Each round submits such a pair back to back.

func runDep(c *core.Ctx, idx int) {
	stream := "dep"
	r := c.Rng(stream, idx)
	tr := sched.NewTracer()
	s := newScen(tr, 4096)
	tr.Filter = func(p string, a []interface{}) bool { return len(a) > 0 && a[0] == s.tp }
	tr.SetNoise(r.U64(), uint64(r.OneOf(0, 0, 100, 400)))
	tr.Install()
	defer sched.Uninstall()
	workers := r.Range(2, 6)
	rounds := r.Range(3, 25)
	width := r.Range(1, workers-1) // tasks that wait at the same time (< workers)
	desc := fmt.Sprintf("workers=%d rounds=%d waiting-tasks-per-round=%d", workers, rounds, width)
	c.Begin(0, stream, idx, desc)
	defer c.End(0)
	s.tp.SetWorkerCount(workers, false)
	var blockedG sync.Map // goroutine id -> true while a waiting task is blocked on it
	for rd := 0; rd < rounds; rd++ {
		started := make(chan struct{})
		var once sync.Once
		base := s.n()
		for w := 0; w < width; w++ {
			s.addTask(&task{onRun: func(int) {
				g := sched.GoID()
				blockedG.Store(g, true)
				<-started
				blockedG.Delete(g)
			}})
		}
		target := s.addTask(&task{onRun: func(int) { once.Do(func() { close(started) }) }})
		// no pool call from here until the round is over or the pool is stuck
		res := "inconclusive"
		for i := 0; i < 4000; i++ {
			if s.allEnded() {
				res = "done"
				break
			}
			if i > 3 && atomic.LoadInt32(&s.started[target]) == 0 && depStuck(s, &blockedG) {
				if atomic.LoadInt32(&s.started[target]) == 0 {
					res = "stuck"
					break
				}
			}
			if i < 50 {
				time.Sleep(50 * time.Microsecond)
			} else {
				time.Sleep(time.Millisecond)
			}
		}
		if res == "stuck" {
			c.Violation("stuck:queued-task-with-idle-worker", fmt.Sprintf("task %d is queued and is never started: %d worker(s) wait inside tasks for it, every other worker is parked in Cond.Wait, no AddTask in flight, no pool call outstanding", target, width), stream, idx,
				map[string]interface{}{"case": desc, "round": rd, "first_task_of_round": base, "trace": traceTail(tr, s.tp, 40)})
			once.Do(func() { close(started) })
			s.tp.JoinAll()
			return
		}
		if res == "inconclusive" {
			c.Inconclusive("round neither finished nor stuck", stream, idx, map[string]interface{}{"case": desc, "round": rd})
			once.Do(func() { close(started) })
			s.tp.JoinAll()
			return
		}
	}
	s.tp.JoinAll()
	checkExactlyOnce(c, s, stream, idx, desc, true)
	c.Nontrivial(sched.Signature(tr.Snapshot(), onlyPool))
	c.Event("interleaving", 1)
	c.Event("dep.rounds", int64(rounds))
	countEvents(c, tr)
	if idx%41 == 0 {
		c.Sample("dep", desc)
	}
}

// depStuck: like sched.PoolStuck, but workers whose goroutine is blocked inside
// a waiting harness task (channel receive) are accepted next to parked ones; at
// least one worker must be parked idle.
func depStuck(s *scen, blockedG *sync.Map) bool {
	seq0 := s.tr.Now()
	evs := s.tr.Snapshot()
	v := sched.ViewPool(evs, s.tp)
	if len(v.LiveWorkers) == 0 || v.Pushed != v.Signalled || s.tp.WorkerCount() != len(v.LiveWorkers) {
		return false
	}
	st := sched.GoStates()
	idle := 0
	for g := range v.LiveWorkers {
		p := v.LastPoint[g]
		if _, blocked := blockedG.Load(g); blocked {
			if p != "pool.get.popped" || st[g] != "chan receive" {
				return false
			}
			continue
		}
		if (p != "pool.idle.locked" && p != "pool.idle.beforewait") || st[g] != "sync.Cond.Wait" {
			return false
		}
		idle++
	}
	return idle > 0 && s.tr.Now() == seq0
}

// ---- Clear() in the middle of a history -------------------------------------------
//
// DefaultTaskQueue.Clear drops the pending tasks; tasks added afterwards are
// owed like any other. The harness calls Clear only while no worker can touch
// the queue (every worker is blocked inside a task).
func runClear(c *core.Ctx, idx int) {
	stream := "clear"
	r := c.Rng(stream, idx)
	tr := sched.NewTracer()
	q := &pool.DefaultTaskQueue{}
	s := newScen(tr, 512)
	s.tp = pool.NewThreadPoolWithQueue(q)
	tr.Filter = func(p string, a []interface{}) bool { return len(a) > 0 && a[0] == s.tp }
	tr.Install()
	defer sched.Uninstall()
	workers := r.Range(1, 3)
	rounds := r.Range(1, 4)
	desc := fmt.Sprintf("workers=%d rounds=%d", workers, rounds)
	c.Begin(0, stream, idx, desc)
	defer c.End(0)
	s.tp.SetWorkerCount(workers, false)
	dropped := map[int]bool{}
	for rd := 0; rd < rounds; rd++ {
		// some tasks that finish, then one blocker per worker, then tasks that stay queued
		pre := r.Range(0, 4)
		for i := 0; i < pre; i++ {
			s.add(0, 0)
		}
		release := make(chan struct{})
		var inside int32
		for w := 0; w < workers; w++ {
			s.addTask(&task{onRun: func(int) { atomic.AddInt32(&inside, 1); <-release }})
		}
		nq := r.Range(1, 6)
		var queued []int
		for i := 0; i < nq; i++ {
			queued = append(queued, s.add(0, 0))
		}
		// wait (no pool call) until every worker sits in a blocker
		ok := false
		for i := 0; i < 40000; i++ {
			if int(atomic.LoadInt32(&inside)) == workers {
				ok = true
				break
			}
			time.Sleep(50 * time.Microsecond)
		}
		if !ok {
			c.Inconclusive("blockers did not all start", stream, idx, map[string]interface{}{"case": desc})
			close(release)
			s.tp.JoinAll()
			return
		}
		q.Clear()
		for _, id := range queued {
			dropped[id] = true
		}
		desc += fmt.Sprintf(" [pre=%d queued-then-cleared=%d", pre, nq)
		na := r.Range(1, 6)
		for i := 0; i < na; i++ {
			s.add(0, 0)
		}
		desc += fmt.Sprintf(" added-after-clear=%d]", na)
		close(release)
		res, v := s.awaitOrStuck(func() bool {
			for i := 0; i < s.n(); i++ {
				if !dropped[i] && atomic.LoadInt32(&s.ended[i]) == 0 {
					return false
				}
			}
			return true
		}, 3000)
		if res == "stuck" {
			reportStuck(c, s, stream, idx, desc, v, "after Clear")
			s.tp.JoinAll()
			return
		}
		if res == "inconclusive" {
			c.Inconclusive("tasks added after Clear neither finished nor pool stuck", stream, idx, map[string]interface{}{"case": desc, "trace": traceTail(tr, s.tp, 40)})
			s.tp.JoinAll()
			return
		}
	}
	s.tp.JoinAll()
	for i := 0; i < s.n(); i++ {
		st, en := atomic.LoadInt32(&s.started[i]), atomic.LoadInt32(&s.ended[i])
		if dropped[i] {
			if st != 0 {
				c.Violation("clear:dropped-task-ran", fmt.Sprintf("task %d was pending when Clear was called and ran afterwards", i), stream, idx, map[string]interface{}{"case": desc})
				break
			}
			continue
		}
		if st != 1 || en != 1 {
			c.Violation("clear:task-after-clear-lost", fmt.Sprintf("task %d (not pending at any Clear) started %d times, ended %d times", i, st, en), stream, idx, map[string]interface{}{"case": desc, "trace": traceTail(tr, s.tp, 40)})
			break
		}
	}
	if q.Size() != 0 {
		c.Violation("clear:size", fmt.Sprintf("queue reports size %d after everything ran", q.Size()), stream, idx, map[string]interface{}{"case": desc})
	}
	c.Nontrivial(sched.Signature(tr.Snapshot(), onlyPool))
	c.Event("clear.scenarios", 1)
	countEvents(c, tr)
}

// Run is the check.
func Run(c *core.Ctx) {
	c.Note("rule", "directed gates: 7 templates (submit, burst, resize down (wait/no wait), JoinAll, WaitAll, resize to zero) x 5 worker hold points x 3 partner points x {1,2,3} workers, plus the idle task held inside its locks between its look at the kill requests and its wait (observed through the Size() call of a wrapped default queue) against resize / submit, each holding one worker at the hold point until the partner call passed its point (infeasible pairs are released and counted); clear: DefaultTaskQueue.Clear called while every worker is blocked inside a task, in the middle of a history of pops (tasks added afterwards are owed, cleared ones must not run); dep: rounds of task pairs where the first waits inside Run for the start of the second (2..6 workers) decided by a stuck predicate that accepts workers blocked inside waiting tasks; noise: seeded random scenarios (1..16 workers, bursts, single submissions separated by idle periods with no pool call, concurrent submitters, WaitAll, resizes with/without wait, tasks that sleep or submit children) with random yields/sleeps at lock-free hook points; monitors: exactly-once table per task id, stuck-state predicate over the hook trace + scheduler state (Cond.Wait) for lost wake-ups and non-converging worker counts, stamp order for WaitAll/JoinAll/SetWorkerCount returns; non-trivial/distinct = distinct interleaving signatures (hash of the (goroutine role, hook point) sequence) plus feasible gate cases")
	gcs := gateCases()
	for i, gc := range gcs {
		if !c.Take("gate", i) {
			continue
		}
		runGate(c, i, gc)
		if i%37 == 0 {
			c.Sample("gate", fmt.Sprintf("%+v", gc))
		}
	}
	for i := 0; i < c.Pick(240, 6000); i++ {
		if c.Take("clear", i) {
			runClear(c, i)
		}
	}
	nd := c.Pick(1500, 20000)
	if c.Race {
		nd = c.Pick(400, 4000)
	}
	for i := 0; i < nd; i++ {
		if c.Violations() >= 60 && !c.Replay() {
			c.Inconclusive("remaining cases of the stream skipped after 60 violations in this process", "dep", i, nil)
			break
		}
		if !c.Take("dep", i) {
			continue
		}
		runDep(c, i)
	}
	n := c.Pick(6000, 120000)
	if c.Race {
		n = c.Pick(1500, 20000)
	} else if runtime.GOMAXPROCS(0) <= 2 {
		// variant p2: the pool's own polling loops (WaitAll, JoinAll,
		// SetWorkerCount sleeping 5 ns per round) compete with the workers for
		// two processors; a scenario costs seconds instead of milliseconds
		n = c.Pick(1200, 20000)
	}
	for i := 0; i < n; i++ {
		if c.Violations() >= 60 && !c.Replay() {
			c.Inconclusive("remaining cases of the stream skipped after 60 violations in this process", "noise", i, nil)
			break
		}
		if !c.Take("noise", i) {
			continue
		}
		runNoise(c, 0, i)
	}
}
