// Package c09 holds the runtime monitors for property C09 (see DESIGN.md section 4).
package c09

import "verif/harness/core"

func init() { core.Register("C09", Run) }

// Run is the check.
func Run(c *core.Ctx) {
}
