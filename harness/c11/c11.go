// Package c11 monitors property C11: concurrent sink invocations are isolated
// and every failure is reported for its own event (DESIGN.md section 4, C11).
//
// One ECAL program with four sinks (sa: c11.a, sall: c11.*, sb: c11.b, sfan:
// c11.fan) is loaded into a fresh interpreter per scenario. Every sink body
// copies event.state.id into locals (plain and `let`), calls a shared global
// pure function, loops, re-checks the locals, echoes everything through the Go
// function c11.rec and then raises (type T<id>, detail id, data [id, sink]) or
// not as the event payload dictates. The oracle is a per-invocation
// expectation table keyed by the event id (unique per scenario); it is written from the
// property statement only and shares no logic with /repo.
package c11

import (
	"fmt"
	"math"
	"reflect"
	"runtime"
	"sort"
	"strconv"
	"strings"
	"sync"
	"sync/atomic"
	"time"

	"github.com/krotik/ecal/engine"
	"github.com/krotik/ecal/parser"
	"github.com/krotik/ecal/stdlib"
	"github.com/krotik/ecal/util"
	"github.com/krotik/ecal/verifhook"

	"verif/harness/c11kit"
	"verif/harness/core"
	"verif/harness/sched"
)

func init() { core.Register("C11", Run) }

const (
	nSinks = 4
	nFan   = 64

	kA   = 0
	kB   = 1
	kFan = 2
)

var sinkNames = [nSinks]string{"sa", "sall", "sb", "sfan"}
var sinkPrio = [nSinks]int{1, 5, 9, 0}
var sinkKind = [nSinks]string{"c11.a", "c11.*", "c11.b", "c11.fan"}
var kindNames = [3]string{"c11.a", "c11.b", "c11.fan"}
var kindSegs = [3][]string{{"c11", "a"}, {"c11", "b"}, {"c11", "fan"}}

// kindRules is the reference trigger table: for an event kind the sinks that
// match it, in priority order (all priorities differ, so the order is defined).
var kindRules = [3][]int{{0, 1}, {1, 2}, {3, 1}}

func sinkIndex(name string) int {
	for i, n := range sinkNames {
		if n == name {
			return i
		}
	}
	return -1
}

// program returns the ECAL text; l is the loop count of the sink bodies.
func program(l int) string { return programT(l, false) }

// programT: with tally every invocation also counts itself in a global
// variable inside a mutex block - one invocation writes the scope the sinks
// were declared in while the others resolve names (c11f, c11g) in it.
func programT(l int, tally bool) string {
	var b strings.Builder
	if tally {
		// a global with the name of the sinks' own event variable: every
		// invocation must still see its own event
		b.WriteString("c11g := 0\nevent := {\"state\" : {\"id\" : -5, \"w\" : \"global\", \"pat\" : \"^$\", \"npat\" : \"^$\"}, \"name\" : \"global\", \"kind\" : \"none\"}\n")
	}
	b.WriteString("func c11h(x, y=2) {\n    return x + y\n}\n")
	b.WriteString("func c11f(x) {\n    let y := x * 2\n    return y + 1\n}\n")
	for k := 0; k < nSinks; k++ {
		fmt.Fprintf(&b, "sink %s\n    kindmatch [ %q ],\n    priority %d\n{\n", sinkNames[k], sinkKind[k], sinkPrio[k])
		if k == 3 {
			// the fan-out is unrolled: a loop body gets a fresh instance state and
			// would detach the children from the cascade of the triggering event
			for i := 0; i < nFan; i++ {
				fmt.Fprintf(&b, "    addEvent(event.state.n%d, event.state.k%d, event.state.s%d)\n", i, i, i)
			}
		}
		fmt.Fprintf(&b, `    a := event.state.id
    let b := event.state.id
    fa := c11f(a)
    s := 0
    for i in range(1, %d) {
        let q := a + i
        s := s + (q - a)
        if a != event.state.id or b != a {
            s := -1000000
        }
    }
    fb := c11f(b + s)
    w := event.state.w
    l2 := [a, b + 2]
    m2 := {"k" : a, "j" : [b]}
    c11.rec2(%d, event.state.id, [w like event.state.pat, w like event.state.npat, "{{a}}:{{b + 1}}/{{w}}", l2[1], m2.k, len(m2.j), a in [b, -1], (a > -1) and (b == a), a %% 7, a // 1, -a, c11h(a), c11h(a, b), w, event.state.pat])
    c11.rec(%d, event.state.id, a, b, fa, fb, s, event.name, event.kind)
%s    if event.state.f%d {
        raise(event.state.et, a, [b, %d])
    }
}
`, l, k, k, map[bool]string{true: "    mutex c11m {\n        c11g := c11g + 1\n    }\n", false: ""}[tally], k, k)
	}
	return b.String()
}

// evState is the expectation and the observation record of one event.
type evState struct {
	id   float64
	name string
	kind int
	fail [nSinks]bool
	et   string
	kids []*evState // fan root only

	begun [nSinks]int32 // sink.begin hook passages (atomic)
	ret   [nSinks]int32 // sink.beforereturn hook passages (atomic)
	echo  [nSinks]int32 // c11.rec calls (atomic)

	mu  sync.Mutex
	bad []string // echo mismatches
}

func (st *evState) addBad(s string) {
	st.mu.Lock()
	if len(st.bad) < 4 {
		st.bad = append(st.bad, s)
	}
	st.mu.Unlock()
}

func (st *evState) state() map[interface{}]interface{} {
	m := map[interface{}]interface{}{"id": st.id, "et": st.et,
		"w": "w" + fid(st.id), "pat": "^w" + fid(st.id) + "$", "npat": "^x" + fid(st.id) + "$"}
	for k := 0; k < nSinks; k++ {
		m[fmt.Sprintf("f%d", k)] = st.fail[k]
	}
	for i, kid := range st.kids {
		m[fmt.Sprintf("n%d", i)] = kid.name
		m[fmt.Sprintf("k%d", i)] = kindNames[kid.kind]
		m[fmt.Sprintf("s%d", i)] = kid.state()
	}
	return m
}

// scn is the monitor state of one scenario. The table is complete before the
// first event is fired and read-only afterwards; counters are atomics.
type scn struct {
	table     map[float64]*evState
	loopN     int
	failFirst bool
	hooks     bool // hook counters are available

	inside   [nSinks]int32
	overlaps [nSinks]int64
	invoc    int64
	echoes   int64
	echoes2  int64    // c11.rec2 calls
	returns  int64    // sink.beforereturn passages
	waits    int64    // AddEventAndWait calls that returned
	stacks   []string // parked goroutines of the last positive stuck evaluation (polling goroutine only)

	noiseNum  uint64
	noiseSeed uint64

	mu      sync.Mutex
	unknown []string // echoes with an id that was never issued
}

var cur atomic.Pointer[scn]

type recFunc struct{}

func (recFunc) Run(_ string, _ parser.Scope, _ map[string]interface{}, tid uint64, args []interface{}) (interface{}, error) {
	if s := cur.Load(); s != nil {
		s.rec(tid, args)
	}
	return nil, nil
}
func (recFunc) DocString() (string, error) { return "C11 echo", nil }

// rec2Func receives the values of a list of expressions of other node kinds
// (like with a pattern of the event's own, interpolation, list / map literals
// and accesses, in, and, %, //, unary minus, calls with and without a default
// parameter), all of them functions of the invocation's own event.
type rec2Func struct{}

func (rec2Func) Run(_ string, _ parser.Scope, _ map[string]interface{}, tid uint64, args []interface{}) (interface{}, error) {
	if s := cur.Load(); s != nil {
		s.rec2(tid, args)
	}
	return nil, nil
}
func (rec2Func) DocString() (string, error) { return "C11 echo of further node kinds", nil }

func (s *scn) rec2(tid uint64, args []interface{}) {
	atomic.AddInt64(&s.echoes2, 1)
	if len(args) != 3 {
		s.addUnknown(fmt.Sprintf("rec2 called with %d arguments: %v", len(args), args))
		return
	}
	kf, ok1 := args[0].(float64)
	id, ok2 := args[1].(float64)
	if !ok1 || !ok2 || kf < 0 || kf >= nSinks {
		s.addUnknown(fmt.Sprintf("rec2(%v)", args))
		return
	}
	st := s.table[id]
	if st == nil {
		s.addUnknown(fmt.Sprintf("rec2 from sink %s with event.state.id=%v which was never issued (args %v)", sinkNames[int(kf)], id, args))
		return
	}
	w := "w" + fid(id)
	want := []interface{}{true, false, fid(id) + ":" + fid(id+1) + "/" + w, id + 2, id, float64(1), true, true,
		float64(int(id) % 7), id, -id, id + 2, 2 * id, w, "^" + w + "$"}
	if !reflect.DeepEqual(args[2], want) {
		st.addBad(fmt.Sprintf("sink %s on thread %d echoed (like own pattern, like other pattern, interpolation, l[1], m.k, len, in, and, %%, //, -, h(a), h(a,b), w, pat)=%v, expected %v", sinkNames[int(kf)], tid, args[2], want))
	}
}

var setupOnce sync.Once

func setup() {
	setupOnce.Do(func() {
		stdlib.AddStdlibPkg("c11", "C11 monitor functions")
		stdlib.AddStdlibFunc("c11", "rec", recFunc{})
		stdlib.AddStdlibFunc("c11", "rec2", rec2Func{})
	})
}

func (s *scn) rec(tid uint64, args []interface{}) {
	atomic.AddInt64(&s.echoes, 1)
	if len(args) != 9 {
		s.addUnknown(fmt.Sprintf("rec called with %d arguments: %v", len(args), args))
		return
	}
	kf, ok1 := args[0].(float64)
	id, ok2 := args[1].(float64)
	if !ok1 || !ok2 || kf < 0 || kf >= nSinks {
		s.addUnknown(fmt.Sprintf("rec(%v)", args))
		return
	}
	k := int(kf)
	st := s.table[id]
	if st == nil {
		s.addUnknown(fmt.Sprintf("rec from sink %s with event.state.id=%v which was never issued (args %v)", sinkNames[k], id, args))
		return
	}
	atomic.AddInt32(&st.echo[k], 1)
	sum := float64(s.loopN * (s.loopN + 1) / 2)
	want := []interface{}{kf, id, id, id, 2*id + 1, 2*(id+sum) + 1, sum, st.name, kindNames[st.kind]}
	if !reflect.DeepEqual(args, want) {
		st.addBad(fmt.Sprintf("sink %s on thread %d echoed (k,id,a,b,f(a),f(b+s),s,name,kind)=%v, expected %v", sinkNames[k], tid, args, want))
	}
}

func (s *scn) addUnknown(x string) {
	s.mu.Lock()
	if len(s.unknown) < 8 {
		s.unknown = append(s.unknown, x)
	}
	s.mu.Unlock()
}

// count is the hook observer: per-event and per-sink atomics only.
func (s *scn) count(point string, args []interface{}) (k int, id float64, begin, ok bool) {
	switch point {
	case "sink.begin":
		begin = true
	case "sink.beforereturn":
	default:
		return
	}
	if len(args) < 2 {
		return
	}
	name, _ := args[0].(string)
	e, _ := args[1].(*engine.Event)
	k = sinkIndex(name)
	if k < 0 || e == nil {
		return
	}
	id, _ = e.State()["id"].(float64)
	if st := s.table[id]; st != nil {
		if begin {
			atomic.AddInt32(&st.begun[k], 1)
		} else {
			atomic.AddInt32(&st.ret[k], 1)
		}
	}
	if begin {
		atomic.AddInt64(&s.invoc, 1)
		if atomic.AddInt32(&s.inside[k], 1) > 1 {
			atomic.AddInt64(&s.overlaps[k], 1)
		}
	} else {
		atomic.AddInt64(&s.returns, 1)
		atomic.AddInt32(&s.inside[k], -1)
	}
	return k, id, begin, true
}

func (s *scn) progress() int64 {
	return atomic.LoadInt64(&s.invoc) + atomic.LoadInt64(&s.echoes) + atomic.LoadInt64(&s.returns) + atomic.LoadInt64(&s.waits)
}

// stuck is the witness for "an invocation never comes back because
// invocations block each other": every goroutine of this scenario that is
// inside interpreter or scope code is parked in a lock acquisition.
func (s *scn) stuck(pre map[uint64]bool) func() (bool, string) {
	return func() (bool, string) {
		ok, frame, n, stacks := c11kit.LockStuckStacks(pre)
		if !ok {
			return false, ""
		}
		s.stacks = stacks
		return true, fmt.Sprintf("%s|%d goroutines parked in a lock acquisition inside interpreter/scope code, none running", frame, n)
	}
}

// abandoned is set once a scenario had to be left with its goroutines still
// alive. Whatever they do later (a parked invocation that is released after
// all echoes into the table of the scenario that is current by then), the
// following scenarios of this process cannot be judged any more.
var abandoned atomic.Bool

func skipAfterAbandon(c *core.Ctx, stream string, idx int) bool {
	if !abandoned.Load() {
		return false
	}
	c.Inconclusive("not run: an earlier scenario of this process was abandoned with live goroutines", stream, idx, nil)
	return true
}

func (s *scn) abandon(c *core.Ctx, stream string, idx int, outcome, why string, cfg map[string]interface{}) {
	abandoned.Store(true)
	if outcome == "stuck" {
		frame := why
		if i := strings.Index(why, "|"); i >= 0 {
			frame, why = why[:i], why[i+1:]
		}
		c.Violation("stuck:invocations-blocked:"+frame, "sink invocations never return: "+why+" (innermost ecal frame "+frame+")", stream, idx,
			map[string]interface{}{"scenario": cfg, "invocations_begun": atomic.LoadInt64(&s.invoc), "returned": atomic.LoadInt64(&s.returns), "parked": s.stacks})
		return
	}
	c.Inconclusive("scenario neither finished nor reached a stuck state within the polling bound", stream, idx, cfg)
}

func mix(z uint64) uint64 {
	z = (z ^ (z >> 30)) * 0xBF58476D1CE4E5B9
	z = (z ^ (z >> 27)) * 0x94D049BB133111EB
	return z ^ (z >> 31)
}

// hook is the handler of the noise stream: counting plus a seeded perturbation
// that depends only on (seed, event id, sink, point) – no shared clock, so the
// handler adds no ordering between invocations beyond the per-sink counter.
func (s *scn) hook(point string, args []interface{}) {
	k, id, begin, ok := s.count(point, args)
	if !ok || s.noiseNum == 0 {
		return
	}
	x := s.noiseSeed ^ math.Float64bits(id)*0x9E3779B97F4A7C15 ^ uint64(k)<<3
	if begin {
		x ^= 0x5555
	}
	x = mix(x)
	if x%1024 < s.noiseNum {
		switch (x >> 10) % 4 {
		case 0, 1:
			runtime.Gosched()
		case 2:
			time.Sleep(time.Duration((x>>12)%50) * time.Microsecond)
		case 3:
			time.Sleep(time.Duration((x>>12)%200) * time.Microsecond)
		}
	}
}

// mismatch is one difference between the report of a cascade and the table.
type mismatch struct {
	cat    string // key category
	id     float64
	sink   int
	gotID  float64 // content of a foreign error (NaN if not decodable)
	gotK   int
	gotNil bool
	text   string
}

// decode extracts (type, detail, data) of a reported error and, if the content
// has the shape our sinks produce, the (event id, sink) it was raised for.
//
// The function is excluded from race instrumentation: when the code under
// test hands the error object of one invocation to the report of another
// (the very thing this check looks for), the object was published without
// synchronisation and reading it here would be flagged as a race *of the
// harness*. The verdict on such an object is the wrong-report violation.
//
//go:norace
func decode(err error) (typ, detail string, data []interface{}, cid float64, ck int, shaped bool) {
	cid, ck = math.NaN(), -1
	d, ok := err.(*util.RuntimeErrorWithDetail)
	if !ok || d == nil || d.RuntimeError == nil {
		return fmt.Sprintf("%T", err), "", nil, cid, ck, false
	}
	if d.Type != nil {
		typ = d.Type.Error()
	}
	detail = d.Detail
	l, ok := d.Data.([]interface{})
	if !ok {
		return typ, detail, []interface{}{d.Data}, cid, ck, false
	}
	for i := 0; i < len(l) && i < 4; i++ {
		data = append(data, l[i])
	}
	if len(l) == 2 {
		a, ok1 := l[0].(float64)
		b, ok2 := l[1].(float64)
		if ok1 && ok2 && typ == fmt.Sprintf("T%v", a) && detail == fmt.Sprint(a) && b >= 0 && b < nSinks && b == math.Floor(b) {
			return typ, detail, data, a, int(b), true
		}
	}
	return typ, detail, data, cid, ck, false
}

func fid(id float64) string { return strconv.FormatFloat(id, 'f', -1, 64) }

// judge compares the error report of one finished cascade (root monitor) and
// the observation counters of its member events with the expectation table.
func (s *scn) judge(rm *engine.RootMonitor, members []*evState) []mismatch {
	var res []mismatch
	byID := map[float64]*evState{}
	for _, m := range members {
		byID[m.id] = m
	}
	got := map[float64]map[string]error{}
	for _, te := range rm.AllErrors() {
		var id float64 = math.NaN()
		if te != nil && te.Event != nil {
			if v, ok := te.Event.State()["id"].(float64); ok {
				id = v
			}
		}
		if te == nil || byID[id] == nil {
			res = append(res, mismatch{cat: "report:foreign-event", id: id, sink: -1,
				text: fmt.Sprintf("the cascade's error list holds an entry for event id %v which is not an event of this cascade: %v", id, te)})
			continue
		}
		if _, dup := got[id]; dup {
			res = append(res, mismatch{cat: "report:duplicate", id: id, sink: -1,
				text: fmt.Sprintf("two error entries for event id %v in one cascade", id)})
			continue
		}
		got[id] = te.ErrorMap
	}
	for _, st := range members {
		st.mu.Lock()
		bad := append([]string{}, st.bad...)
		st.mu.Unlock()
		for _, b := range bad {
			res = append(res, mismatch{cat: "echo:local-mismatch", id: st.id, sink: -1, text: b})
		}
		em := got[st.id]
		for name := range em {
			if sinkIndex(name) < 0 {
				res = append(res, mismatch{cat: "report:unknown-rule", id: st.id, sink: -1, text: "error reported under rule name " + name})
			}
		}
		for k := 0; k < nSinks; k++ {
			begun, echo := atomic.LoadInt32(&st.begun[k]), atomic.LoadInt32(&st.echo[k])
			invoked := echo
			if s.hooks {
				invoked = begun
				if echo < begun {
					res = append(res, mismatch{cat: "invocation:body-skipped", id: st.id, sink: k,
						text: fmt.Sprintf("sink %s began %d invocation(s) for event %s but its body echoed %d time(s)", sinkNames[k], begun, fid(st.id), echo)})
				} else if echo > begun {
					res = append(res, mismatch{cat: "echo:count-mismatch", id: st.id, sink: k,
						text: fmt.Sprintf("sink %s began %d invocation(s) for event %s but echoed %d time(s)", sinkNames[k], begun, fid(st.id), echo)})
				}
			}
			expected := invoked > 0 && st.fail[k]
			e := em[sinkNames[k]]
			if e == nil {
				if expected {
					res = append(res, mismatch{cat: "report:lost-error", id: st.id, sink: k, gotNil: true, gotID: math.NaN(), gotK: -1,
						text: fmt.Sprintf("sink %s raised %s (event id %s) but the report of its cascade has no error for it", sinkNames[k], st.et, fid(st.id))})
				}
				continue
			}
			typ, detail, data, cid, ck, shaped := decode(e)
			own := shaped && cid == st.id && ck == k
			if expected && own && typ == st.et {
				continue
			}
			m := mismatch{id: st.id, sink: k, gotID: cid, gotK: ck}
			what := "did not raise"
			if expected {
				what = "raised " + st.et
			} else if invoked == 0 {
				what = "was not invoked"
			}
			switch {
			case shaped && !own && ck == k:
				m.cat = "report:foreign-error:same-sink"
			case shaped && !own:
				m.cat = "report:foreign-error:other-sink"
			case own && !expected:
				m.cat = "report:spurious-error"
			default:
				m.cat = "report:malformed-error"
			}
			m.text = fmt.Sprintf("sink %s %s for event id %s but the report for that (event, sink) is type=%q detail=%q data=%v", sinkNames[k], what, fid(st.id), typ, detail, data)
			res = append(res, m)
		}
	}
	return res
}

// report turns mismatches into violations, one per (key, scenario).
func report(c *core.Ctx, stream string, idx int, ms []mismatch, rekey func(m mismatch) string, cfg map[string]interface{}) {
	by := map[string][]mismatch{}
	var keys []string
	for _, m := range ms {
		k := m.cat
		if rekey != nil {
			if r := rekey(m); r != "" {
				k = r
			}
		}
		if _, ok := by[k]; !ok {
			keys = append(keys, k)
		}
		by[k] = append(by[k], m)
	}
	sort.Strings(keys)
	for _, k := range keys {
		l := by[k]
		var ex []string
		for i, m := range l {
			if i >= 3 {
				break
			}
			ex = append(ex, m.text)
		}
		c.Violation(k, l[0].text, stream, idx, map[string]interface{}{"scenario": cfg, "count": len(l), "examples": ex})
	}
}

type noiseCfg struct {
	workers, hosts, perHost, loopN int
	pFail                          int // x/8
	failFirst, fan, hooks          bool
	noise                          uint64
	bias                           int // 0: mixed kinds, 1: mostly a, 2: mostly b
}

func (n noiseCfg) m() map[string]interface{} {
	return map[string]interface{}{"workers": n.workers, "hosts": n.hosts, "events_per_host": n.perHost, "loop": n.loopN,
		"p_fail_8ths": n.pFail, "fail_on_first_error": n.failFirst, "fan_cascade": n.fan, "hooks": n.hooks, "noise_1024ths": n.noise, "kind_bias": n.bias}
}

func newEvent(r *core.Rand, id float64, kind int, pFail int, failFirst bool) *evState {
	st := &evState{id: id, kind: kind, name: "ev-" + kindNames[kind], et: fmt.Sprintf("T%v", id)}
	rules := kindRules[kind]
	for i, k := range rules {
		f := r.Chance(pFail, 8)
		// With fail-on-first-error only the last sink of the trigger sequence may
		// be dictated to fail in most events: what happens to the rest of a
		// sequence after a failure is C10's matter. A quarter of the events let
		// any sink fail; the oracle then only judges the invocations that began.
		if failFirst && i < len(rules)-1 && !r.Chance(1, 4) {
			f = false
		}
		st.fail[k] = f
	}
	return st
}

func fire(env *c11kit.Env, st *evState) (*engine.RootMonitor, engine.Monitor, error) {
	ev := engine.NewEvent(st.name, kindSegs[st.kind], st.state())
	rm := env.Erp.Processor.NewRootMonitor(nil, nil)
	m, err := env.Erp.Processor.AddEventAndWait(ev, rm)
	return rm, m, err
}

func members(st *evState) []*evState {
	return append([]*evState{st}, st.kids...)
}

// noiseScenario runs one random overlap workload.
func noiseScenario(c *core.Ctx, stream string, idx int) {
	if skipAfterAbandon(c, stream, idx) {
		return
	}
	r := c.Rng(stream, idx)
	n := noiseCfg{workers: r.Range(2, 16), hosts: r.Range(1, 16), perHost: c.Pick(16, 40), loopN: r.Range(2, 5),
		pFail: []int{0, 1, 4, 4, 7, 8}[r.Intn(6)], failFirst: r.Bool(), fan: r.Chance(3, 4), hooks: true,
		noise: []uint64{0, 64, 256, 512}[r.Intn(4)], bias: r.Intn(3)}
	if n.hosts == 1 {
		n.fan = true
	}
	if c.Race && idx%2 == 1 {
		// every other race-build scenario runs without any hook handler so that
		// the detector sees the code exactly as an embedding host runs it
		n.hooks, n.noise = false, 0
	}
	s := &scn{table: map[float64]*evState{}, loopN: n.loopN, failFirst: n.failFirst, hooks: n.hooks,
		noiseNum: n.noise, noiseSeed: r.U64()}
	// ids are unique within the scenario (every scenario has its own interpreter)
	next := 1000
	newID := func() float64 { next++; return float64(next) }
	pickKind := func() int {
		switch {
		case n.bias == 1 && !r.Chance(1, 8):
			return kA
		case n.bias == 2 && !r.Chance(1, 8):
			return kB
		}
		return r.Intn(2)
	}
	hostEvents := make([][]*evState, n.hosts)
	for h := range hostEvents {
		for i := 0; i < n.perHost; i++ {
			st := newEvent(r, newID(), pickKind(), n.pFail, n.failFirst)
			hostEvents[h] = append(hostEvents[h], st)
			s.table[st.id] = st
		}
	}
	var fanRoot *evState
	if n.fan {
		fanRoot = newEvent(r, newID(), kFan, n.pFail, n.failFirst)
		for i := 0; i < nFan; i++ {
			kid := newEvent(r, newID(), pickKind(), n.pFail, n.failFirst)
			fanRoot.kids = append(fanRoot.kids, kid)
			s.table[kid.id] = kid
		}
		s.table[fanRoot.id] = fanRoot
	}
	tally := c.Rng(stream+"-tally", idx).Bool()
	src := programT(n.loopN, tally)
	c.Begin(0, stream, idx, fmt.Sprintf("%v tally=%v", n.m(), tally))
	defer c.End(0)
	pre := c11kit.GoroutineSet()
	env, err := c11kit.NewEnv("c11", src, n.workers, n.failFirst)
	if err != nil {
		c.Inconclusive("program did not load: "+err.Error(), stream, idx, nil)
		return
	}
	defer env.Close()
	cur.Store(s)
	defer cur.Store(nil)
	if n.hooks {
		verifhook.Set(s.hook)
		defer verifhook.Set(nil)
	}
	env.Start()
	kick := c11kit.StartKicker(env.Erp.Processor)
	var mu sync.Mutex
	var all []mismatch
	var notAccepted int
	var wg sync.WaitGroup
	run := func(list []*evState) {
		defer wg.Done()
		for _, st := range list {
			rm, m, err := fire(env, st)
			atomic.AddInt64(&s.waits, 1)
			if m == nil || err != nil {
				mu.Lock()
				notAccepted++
				mu.Unlock()
				continue
			}
			ms := s.judge(rm, members(st))
			if len(ms) > 0 {
				mu.Lock()
				all = append(all, ms...)
				mu.Unlock()
			}
		}
	}
	for h := range hostEvents {
		wg.Add(1)
		go run(hostEvents[h])
	}
	if fanRoot != nil {
		wg.Add(1)
		go run([]*evState{fanRoot})
	}
	done := make(chan struct{})
	go func() { wg.Wait(); close(done) }()
	outcome, why := c11kit.WaitDone(done, s.progress, s.stuck(pre), time.Duration(c.Pick(30, 90))*time.Second)
	kicks := kick.Stop()
	if outcome != "done" {
		// workers are parked for good: the pool cannot be finished; the
		// goroutines of this scenario are left behind
		s.abandon(c, stream, idx, outcome, why, n.m())
		return
	}
	env.Finish()
	if tally {
		g, _, _ := env.VS.GetValue("c11g")
		if gf, _ := g.(float64); int64(gf) != atomic.LoadInt64(&s.echoes) {
			all = append(all, mismatch{cat: "tally:lost-update", text: fmt.Sprintf("the global counter incremented by every invocation inside `mutex c11m` is %v after %d invocations", g, atomic.LoadInt64(&s.echoes))})
		} else {
			c.Event("tally.agrees", 1)
		}
	}
	s.mu.Lock()
	for _, u := range s.unknown {
		all = append(all, mismatch{cat: "echo:unknown-event-id", text: u})
	}
	s.mu.Unlock()
	// evidence
	var ov int64
	for k := 0; k < nSinks; k++ {
		o := atomic.LoadInt64(&s.overlaps[k])
		ov += o
		if o > 0 {
			c.NontrivialKey(fmt.Sprintf("%s|%d|overlap in %s", stream, idx, sinkNames[k]))
		}
	}
	nFail, nOK := 0, 0
	for _, st := range s.table {
		for _, k := range kindRules[st.kind] {
			if st.fail[k] {
				nFail++
			} else {
				nOK++
			}
		}
	}
	if !n.hooks && nFail > 0 && nOK > 0 {
		c.NontrivialKey(fmt.Sprintf("%s|%d|bare", stream, idx))
	}
	c.Event("scenario."+stream, 1)
	c.Event("events.fired", int64(len(s.table)))
	c.Event("invocations.begun(hook)", atomic.LoadInt64(&s.invoc))
	c.Event("invocations.echoed(rec)", atomic.LoadInt64(&s.echoes))
	c.Event("invocations.echoed-further-node-kinds(rec2)", atomic.LoadInt64(&s.echoes2))
	c.Event("invocations.dictated-to-fail", int64(nFail))
	c.Event("overlap.same-sink(begin while another invocation of the sink is inside)", ov)
	c.Event("pool.kicks", kicks)
	if notAccepted > 0 {
		c.Inconclusive(fmt.Sprintf("%d events were not accepted by the processor", notAccepted), stream, idx, n.m())
	}
	c.AddEvals(int(atomic.LoadInt64(&s.echoes)))
	if idx < 3 {
		c.Sample(stream, map[string]interface{}{"scenario": n.m(), "events": len(s.table), "invocations": atomic.LoadInt64(&s.echoes),
			"same_sink_overlaps": ov, "dictated_failures": nFail, "mismatches": len(all)})
	}
	report(c, stream, idx, all, nil, n.m())
}

type gateCfg struct {
	target, partner int // sinks gated for X and for Y
	hold, until     string
	xFail, yFail    bool
	xKind, yKind    int
	workers         int
	failFirst       bool
	loopN           int
}

func (g gateCfg) m() map[string]interface{} {
	return map[string]interface{}{"x_sink": sinkNames[g.target], "y_sink": sinkNames[g.partner], "hold_x_at": g.hold, "until_y_passed": g.until,
		"x_fails": g.xFail, "y_fails": g.yFail, "x_kind": kindNames[g.xKind], "y_kind": kindNames[g.yKind], "workers": g.workers,
		"fail_on_first_error": g.failFirst, "loop": g.loopN}
}

var points = [2]string{"sink.begin", "sink.beforereturn"}

const nGateCfg = 3 * 2 * 2 * 2 * 2 * 2

func gateConfig(r *core.Rand, i int) gateCfg {
	var g gateCfg
	g.yFail = i%2 == 1
	i /= 2
	g.xFail = i%2 == 1
	i /= 2
	g.until = points[i%2]
	i /= 2
	g.hold = points[i%2]
	i /= 2
	same := i%2 == 0
	i /= 2
	g.target = i % 3
	kindOf := func(sink int) int {
		switch sink {
		case 0:
			return kA
		case 2:
			return kB
		}
		return r.Intn(2)
	}
	if same {
		g.partner = g.target
	} else {
		g.partner = (g.target + 1 + r.Intn(2)) % 3
	}
	g.xKind, g.yKind = kindOf(g.target), kindOf(g.partner)
	g.workers = r.Range(2, 4)
	g.failFirst = r.Bool()
	g.loopN = r.Range(2, 4)
	return g
}

func waitFor(cond func() bool, d time.Duration) bool {
	end := time.Now().Add(d)
	for i := 0; ; i++ {
		if cond() {
			return true
		}
		if time.Now().After(end) {
			return false
		}
		if i < 200 {
			runtime.Gosched()
		} else {
			time.Sleep(100 * time.Microsecond)
		}
	}
}

// gateScenario runs two events X and Y and holds X's invocation of the target
// sink at one hook point until Y's invocation of the partner sink has passed
// another. Only the gated sinks may fail, so the expected report is fixed.
func gateScenario(c *core.Ctx, stream string, idx int) {
	if skipAfterAbandon(c, stream, idx) {
		return
	}
	r := c.Rng(stream, idx)
	g := gateConfig(r, idx%nGateCfg)
	x := &evState{id: 11, kind: g.xKind, name: "ev-" + kindNames[g.xKind], et: "T11"}
	y := &evState{id: 12, kind: g.yKind, name: "ev-" + kindNames[g.yKind], et: "T12"}
	x.fail[g.target], y.fail[g.partner] = g.xFail, g.yFail
	s := &scn{table: map[float64]*evState{x.id: x, y.id: y}, loopN: g.loopN, failFirst: g.failFirst, hooks: true}
	c.Begin(0, stream, idx, fmt.Sprintf("%v", g.m()))
	defer c.End(0)
	pre := c11kit.GoroutineSet()
	env, err := c11kit.NewEnv("c11", program(g.loopN), g.workers, g.failFirst)
	if err != nil {
		c.Inconclusive("program did not load: "+err.Error(), stream, idx, nil)
		return
	}
	defer env.Close()
	cur.Store(s)
	defer cur.Store(nil)
	t := sched.NewTracer()
	t.Filter = func(p string, _ []interface{}) bool { return p == "sink.begin" || p == "sink.beforereturn" }
	t.Observer = func(ev sched.Event) { s.count(ev.Point, ev.Args) }
	is := func(sink int, id float64) func(args []interface{}) bool {
		return func(args []interface{}) bool {
			if len(args) < 2 {
				return false
			}
			n, _ := args[0].(string)
			e, _ := args[1].(*engine.Event)
			if e == nil || n != sinkNames[sink] {
				return false
			}
			v, _ := e.State()["id"].(float64)
			return v == id
		}
	}
	gate := sched.NewGate(g.hold, g.until)
	gate.Match = is(g.target, x.id)
	gate.UntilMatch = is(g.partner, y.id)
	t.AddGate(gate)
	t.Install()
	defer sched.Uninstall()
	env.Start()
	kick := c11kit.StartKicker(env.Erp.Processor)
	type res struct {
		rm  *engine.RootMonitor
		m   engine.Monitor
		err error
	}
	xdone := make(chan res, 1)
	go func() {
		rm, m, err := fire(env, x)
		xdone <- res{rm, m, err}
	}()
	var xr res
	xFinishedEarly := false
	reached := make(chan struct{})
	quit := make(chan struct{})
	go func() {
		defer close(reached)
		waitFor(func() bool {
			if gate.Holding() {
				return true
			}
			select {
			case xr = <-xdone:
				xFinishedEarly = true
				return true
			case <-quit:
				return true
			default:
				return false
			}
		}, time.Hour)
	}()
	outcome, why := c11kit.WaitDone(reached, s.progress, s.stuck(pre), time.Duration(c.Pick(30, 90))*time.Second)
	if outcome != "done" || xFinishedEarly {
		close(quit)
		gate.Release()
		kick.Stop()
		sched.Uninstall()
		if outcome != "done" {
			s.abandon(c, stream, idx, outcome, why, g.m())
			return
		}
		env.Finish()
		c.Event("gate.infeasible", 1)
		c.Inconclusive("X finished without passing its hold point", stream, idx, g.m())
		return
	}
	ydone := make(chan res, 1)
	go func() {
		rm, m, err := fire(env, y)
		ydone <- res{rm, m, err}
	}()
	var yr res
	both := make(chan struct{})
	forced := false
	go func() {
		yr = <-ydone
		if gate.Holding() {
			// Y finished without passing the until point: not a schedule of this program
			gate.Release()
			forced = true
		}
		xr = <-xdone
		close(both)
	}()
	outcome, why = c11kit.WaitDone(both, s.progress, s.stuck(pre), time.Duration(c.Pick(30, 90))*time.Second)
	c.Event("pool.kicks", kick.Stop())
	if outcome != "done" {
		gate.Release()
		sched.Uninstall()
		s.abandon(c, stream, idx, outcome, why, g.m())
		return
	}
	yrm, ym, yerr := yr.rm, yr.m, yr.err
	env.Finish()
	sched.Uninstall()
	if forced || xr.m == nil || xr.err != nil || ym == nil || yerr != nil {
		c.Event("gate.infeasible", 1)
		c.Inconclusive("gate pair infeasible or event not accepted", stream, idx, g.m())
		return
	}
	c.Event("gate.feasible", 1)
	c.Event("scenario."+stream, 1)
	c.Event("invocations.begun(hook)", atomic.LoadInt64(&s.invoc))
	c.Event("invocations.echoed(rec)", atomic.LoadInt64(&s.echoes))
	c.Event("invocations.echoed-further-node-kinds(rec2)", atomic.LoadInt64(&s.echoes2))
	c.AddEvals(int(atomic.LoadInt64(&s.echoes)))
	sig := sched.Signature(t.Snapshot(), nil)
	c.Nontrivial(core.Hash64(fmt.Sprintf("gate|%d|%x", idx%nGateCfg, sig)))
	if idx%41 == 0 {
		c.Sample(stream, map[string]interface{}{"scenario": g.m(), "trace_events": t.Len(), "signature": fmt.Sprintf("%x", sig)})
	}
	ms := append(s.judge(xr.rm, members(x)), s.judge(yrm, members(y))...)
	s.mu.Lock()
	for _, u := range s.unknown {
		ms = append(ms, mismatch{cat: "echo:unknown-event-id", text: u})
	}
	s.mu.Unlock()
	// Known deviation "the result variable of a sink is shared by its
	// invocations": under this gate (X parked after its body, Y runs the same
	// sink to its end) it predicts exactly one wrong outcome, X reporting what Y
	// produced. Anything else keeps its generic key.
	var rekey func(m mismatch) string
	if g.target == g.partner && g.hold == "sink.beforereturn" && g.until == "sink.beforereturn" && g.xFail != g.yFail && len(ms) == 1 {
		m := ms[0]
		predicted := m.id == x.id && m.sink == g.target &&
			((g.yFail && m.gotID == y.id && m.gotK == g.partner) || (!g.yFail && m.gotNil))
		if predicted {
			rekey = func(mismatch) string { return "report:wrong-outcome:shared-result-variable" }
		}
	}
	report(c, stream, idx, ms, rekey, g.m())
}

// Run is the check.
func Run(c *core.Ctx) {
	c.Note("rule", "noise stream: one random scenario per index = (2..16 workers, 1..16 host goroutines x N events with fresh ids fired through AddEventAndWait on their own root monitors, optional cascade fanning out 64 children through addEvent, failure probability in {0,1/8,1/2,7/8,1}, both settings of fail-on-first-error, kind bias, seeded perturbation at sink.begin/sink.beforereturn); gate stream: all 96 combinations of (gated sink, same/other partner sink, hold point, until point, X fails, Y fails) holding X's invocation until Y's passed its point. Every invocation is one evaluation; judged per unique event id: echoed locals/function results/event fields and the (type, detail, data) reported for exactly its (event, sink). Non-trivial = a noise scenario and sink for which the hook counters saw a second invocation of the same sink begin while another was inside (distinct per scenario and sink; race-build scenarios without hooks count once when they mix failing and succeeding invocations), or a feasible gate pair with a distinct interleaving signature. Excluded by generation: equal priorities, self-suppression, rules with several patterns, events sharing a name across kinds, global writes (C12), what follows a failing sink under fail-on-first-error (only invocations that began are judged).")
	setup()
	if c.Batch == 0 {
		src := program(3)
		if i := strings.Index(src, "sink sall"); i > 0 {
			src = src[:i] + "... (sall, sb, sfan have the same body; sfan first calls addEvent(event.state.nI, event.state.kI, event.state.sI) for I = 0..63)"
		}
		c.Sample("program", src)
	}
	nNoise := c.Pick(240, 9600)
	nGate := c.Pick(3*nGateCfg, 30*nGateCfg)
	if c.Race {
		nNoise = c.Pick(64, 1600)
		nGate = c.Pick(nGateCfg, 4*nGateCfg)
	}
	for i := 0; i < nGate; i++ {
		if c.Mine("gate", i) {
			gateScenario(c, "gate", i)
		}
	}
	for i := 0; i < nNoise; i++ {
		if c.Mine("noise", i) {
			noiseScenario(c, "noise", i)
		}
	}
}
