// Package c11 holds the runtime monitors for property C11 (see DESIGN.md section 4).
package c11

import "verif/harness/core"

func init() { core.Register("C11", Run) }

// Run is the check.
func Run(c *core.Ctx) {
}
