package c10

import (
	"fmt"
	"math"
	"runtime"
	"sort"
	"strings"
	"sync"
	"sync/atomic"
	"time"

	"github.com/anishathalye/porcupine"
	"github.com/krotik/ecal/engine"
	"github.com/krotik/ecal/engine/pool"
	"github.com/krotik/ecal/engine/pubsub"

	"verif/harness/core"
	"verif/harness/sched"
)

// The fields of engine.Task are private and tasks are only built inside
// Processor.AddEvent. The harness therefore lets a real processor build them:
// its single worker is held inside a blocker action, events are added with
// root and child monitors of the wanted priorities, the tasks are captured at
// the tq.push hook (together with the processor's own queue) and taken out of
// that queue again with Pop. They are then pushed to / popped from fresh
// engine.TaskQueue objects by harness goroutines.

type dtask struct {
	id   int
	casc int
	prio int // priority of the task's monitor (may be negative)
	task *engine.Task
}

const nCascades = 3

var directPrios = []int{-7, -1, 0, 1, 2, 5, 9}

const copiesPerPrio = 4

func makeTasks(tr *sched.Tracer) ([]*dtask, string) {
	proc := engine.NewProcessor(1)
	proc.ThreadPool().TooManyThreshold = math.MaxInt32
	started := make(chan struct{}, 1)
	release := make(chan struct{})
	nop := func(p engine.Processor, m engine.Monitor, e *engine.Event, tid uint64) error { return nil }
	proc.AddRule(&engine.Rule{Name: "block", KindMatch: []string{"c10.block"}, ScopeMatch: []string{},
		Action: func(p engine.Processor, m engine.Monitor, e *engine.Event, tid uint64) error {
			started <- struct{}{}
			<-release
			return nil
		}})
	proc.AddRule(&engine.Rule{Name: "task", KindMatch: []string{"c10.task"}, ScopeMatch: []string{}, Action: nop})
	tr.Reset()
	tr.Filter = quietFilter
	tr.SetNoise(0, 0)
	proc.Start()
	proc.AddEvent(engine.NewEvent("c10.block", []string{"c10", "block"}, nil), nil)
	nudged := make(chan struct{})
	go func() { proc.ThreadPool().WaitAll(); close(nudged) }()
	<-started
	var all []*dtask
	byName := map[string]*dtask{}
	add := func(casc, prio int, m engine.Monitor) {
		d := &dtask{id: len(all), casc: casc, prio: prio}
		all = append(all, d)
		name := fmt.Sprintf("t%d", d.id)
		byName[name] = d
		proc.AddEvent(engine.NewEvent(name, []string{"c10", "task"}, nil), m)
	}
	for k := 0; k < nCascades; k++ {
		rm := proc.NewRootMonitor(nil, nil)
		add(k, 0, rm)
		for _, p := range directPrios {
			for i := 0; i < copiesPerPrio; i++ {
				add(k, p, rm.NewChildMonitor(p))
			}
		}
	}
	var ptq *engine.TaskQueue
	problem := ""
	for _, ev := range tr.Snapshot() {
		if ev.Point != "tq.push" || len(ev.Args) < 5 {
			continue
		}
		e, ok := ev.Args[4].(*engine.Event)
		if !ok {
			problem = "tq.push hook: unexpected argument types"
			break
		}
		d := byName[e.Name()]
		if d == nil {
			continue
		}
		d.task, _ = ev.Args[3].(*engine.Task)
		ptq, _ = ev.Args[0].(*engine.TaskQueue)
		if p, _ := ev.Args[2].(int); p != d.prio {
			problem = "tq.push hook reports a different monitor priority than requested"
		}
	}
	if ptq != nil {
		for ptq.Pop() != nil {
		}
	}
	close(release)
	<-nudged
	proc.ThreadPool().WaitAll()
	proc.Finish()
	tr.Reset()
	for _, d := range all {
		if d.task == nil && problem == "" {
			problem = "not every task was captured at the tq.push hook"
		}
	}
	return all, problem
}

type dop struct {
	push *dtask // nil = Pop
}

func (o dop) sig() string {
	if o.push == nil {
		return "-"
	}
	return fmt.Sprintf("+%d.%d", o.push.casc, o.push.prio)
}

type pushIn struct{ id int }
type popIn struct{}

// the sequential specification handed to porcupine; the state is one queue
// (task ids in model order) per cascade
func queueModel(tasks []*dtask) porcupine.Model {
	prio := func(id int) int { return clampPrio(tasks[id].prio) }
	return porcupine.Model{
		Init: func() interface{} { return make([][]int, nCascades) },
		Step: func(state, input, output interface{}) (bool, interface{}) {
			st := state.([][]int)
			ns := make([][]int, len(st))
			copy(ns, st)
			switch in := input.(type) {
			case pushIn:
				c := tasks[in.id].casc
				ns[c] = qInsert(st[c], in.id, prio)
				return true, ns
			case popIn:
				got := output.(int)
				if got < 0 {
					for _, q := range st {
						if len(q) > 0 {
							return false, st
						}
					}
					return true, st
				}
				c := tasks[got].casc
				q, ok := qTakeHead(st[c], got)
				ns[c] = q
				return ok, ns
			}
			return false, st
		},
		Equal: func(a, b interface{}) bool {
			x, y := a.([][]int), b.([][]int)
			for i := range x {
				if len(x[i]) != len(y[i]) {
					return false
				}
				for j := range x[i] {
					if x[i][j] != y[i][j] {
						return false
					}
				}
			}
			return true
		},
		DescribeOperation: func(in, out interface{}) string {
			if p, ok := in.(pushIn); ok {
				return fmt.Sprintf("Push(t%d c%d p%d)", p.id, tasks[p.id].casc, tasks[p.id].prio)
			}
			if out.(int) < 0 {
				return "Pop()->nil"
			}
			return fmt.Sprintf("Pop()->t%d", out.(int))
		},
	}
}

// slowLock is installed as the tracer's filter during direct histories: at
// the tq.push / tq.pop hook points (inside the queue's lock) the calling
// goroutine sometimes yields, so that other goroutines take their call stamp
// and then wait for the lock. A slow critical section is a legal execution;
// it makes many operations overlap and lets the lock order differ from the
// call order. Nothing is recorded.
func slowLock(seed uint64) func(point string, args []interface{}) bool {
	var n uint64
	return func(point string, args []interface{}) bool {
		if point == "tq.push" || point == "tq.pop" {
			x := (atomic.AddUint64(&n, 1) + seed) * 0x9E3779B97F4A7C15
			x ^= x >> 29
			for k := x % 8; k >= 5; k-- { // 0..3 yields, mostly none
				runtime.Gosched()
			}
		}
		return false
	}
}

// directCase runs one generated history on a fresh TaskQueue and checks it.
func directCase(c *core.Ctx, tr *sched.Tracer, tasks []*dtask, idx int) {
	const stream = "queue-direct"
	r := c.Rng(stream, idx)
	tr.Filter = slowLock(r.U64())
	ncasc := r.Range(1, nCascades)
	g := r.Range(2, 6)
	total := r.Range(12, 52)
	if r.Chance(1, 8) {
		g = 1 // a sequential history: the model decides every step
	}
	// candidate tasks: a random subset restricted to ncasc cascades and to a
	// random subset of priorities (few priorities => many ties)
	allowed := map[int]bool{}
	np := r.Range(1, len(directPrios))
	for _, i := range r.Perm(len(directPrios))[:np] {
		allowed[directPrios[i]] = true
	}
	var cand []*dtask
	for _, i := range r.Perm(len(tasks)) {
		t := tasks[i]
		if t.casc < ncasc && allowed[t.prio] {
			cand = append(cand, t)
		}
	}
	prefill := r.Intn(8)
	scripts := make([][]dop, g)
	var pre []dop
	next, popNum := 0, r.Range(5, 11) // popNum/16 of the concurrent operations are pops
	for i := 0; i < total; i++ {
		var op dop
		if next < len(cand) && (i < prefill || !r.Chance(popNum, 16)) {
			op.push = cand[next]
			next++
		}
		if i < prefill {
			pre = append(pre, op)
		} else {
			w := r.Intn(g)
			scripts[w] = append(scripts[w], op)
		}
	}
	var sig strings.Builder
	fmt.Fprintf(&sig, "%d|", g)
	for _, op := range pre {
		sig.WriteString(op.sig())
	}
	for _, s := range scripts {
		sig.WriteString("/")
		for _, op := range s {
			sig.WriteString(op.sig())
		}
	}
	drain := r.Chance(1, 2)
	yields := make([]uint64, g)
	for i := range yields {
		yields[i] = r.U64()
	}

	var clock int64
	tq := engine.NewTaskQueue(pubsub.NewEventPump())
	var mu sync.Mutex
	var hist []porcupine.Operation
	byTask := map[*engine.Task]*dtask{}
	for _, t := range tasks {
		byTask[t.task] = t
	}
	bad := ""
	do := func(client int, op dop, local *[]porcupine.Operation) {
		if op.push != nil {
			call := atomic.AddInt64(&clock, 1)
			tq.Push(op.push.task)
			ret := atomic.AddInt64(&clock, 1)
			*local = append(*local, porcupine.Operation{ClientId: client, Input: pushIn{op.push.id}, Call: call, Output: 0, Return: ret})
			return
		}
		call := atomic.AddInt64(&clock, 1)
		var res pool.Task = tq.Pop()
		ret := atomic.AddInt64(&clock, 1)
		out := -1
		if res != nil {
			t, ok := res.(*engine.Task)
			d := byTask[t]
			if !ok || d == nil {
				mu.Lock()
				bad = fmt.Sprintf("Pop returned an object that was never pushed: %v", res)
				mu.Unlock()
				return
			}
			out = d.id
		}
		*local = append(*local, porcupine.Operation{ClientId: client, Input: popIn{}, Call: call, Output: out, Return: ret})
	}
	for _, op := range pre {
		do(0, op, &hist)
	}
	var wg sync.WaitGroup
	var ready, goFlag int32
	locals := make([][]porcupine.Operation, g)
	for w := 0; w < g; w++ {
		wg.Add(1)
		go func(w int) {
			defer wg.Done()
			atomic.AddInt32(&ready, 1)
			for atomic.LoadInt32(&goFlag) == 0 {
				runtime.Gosched()
			}
			y := yields[w]
			for _, op := range scripts[w] {
				if y&3 == 0 {
					runtime.Gosched()
				}
				y = y>>2 | y<<62
				do(w, op, &locals[w])
			}
		}(w)
	}
	for atomic.LoadInt32(&ready) < int32(g) {
		runtime.Gosched()
	}
	atomic.StoreInt32(&goFlag, 1)
	wg.Wait()
	for _, l := range locals {
		hist = append(hist, l...)
	}
	if drain {
		for len(hist) < 60 {
			n := len(hist)
			do(0, dop{}, &hist)
			if len(hist) == n || hist[len(hist)-1].Output.(int) < 0 {
				break
			}
		}
	}
	// describe + statistics
	sort.Slice(hist, func(i, j int) bool { return hist[i].Call < hist[j].Call })
	model := queueModel(tasks)
	var lines []string
	overlaps, pops, pushes, empties := 0, 0, 0, 0
	priosSeen := map[int]bool{}
	for i, o := range hist {
		lines = append(lines, fmt.Sprintf("g%d [%d,%d] %s", o.ClientId, o.Call, o.Return, model.DescribeOperation(o.Input, o.Output)))
		for j := i + 1; j < len(hist) && hist[j].Call < o.Return; j++ {
			overlaps++
		}
		if p, ok := o.Input.(pushIn); ok {
			pushes++
			priosSeen[tasks[p.id].casc*100+clampPrio(tasks[p.id].prio)] = true
		} else if o.Output.(int) >= 0 {
			pops++
		} else {
			empties++
		}
	}
	c.Event("direct.push", int64(pushes))
	c.Event("direct.pop", int64(pops))
	c.Event("direct.pop-empty", int64(empties))
	c.Event("direct.overlapping-operation-pairs", int64(overlaps))
	detail := map[string]interface{}{"goroutines": g, "cascades": ncasc, "history": lines}
	if bad != "" {
		c.Violation("queue:foreign-task", bad, stream, idx, detail)
		return
	}
	switch porcupine.CheckOperationsTimeout(model, hist, 20*time.Second) {
	case porcupine.Ok:
		c.Event("direct.histories-linearizable", 1)
	case porcupine.Illegal:
		c.Violation("queue:not-linearizable", fmt.Sprintf("Push/Pop history of %d operations on %d goroutines has no linearization in which every Pop returns the head of its cascade's (priority, arrival) queue", len(hist), g), stream, idx, detail)
	default:
		c.Inconclusive("porcupine: no answer within the time limit", stream, idx, detail)
		return
	}
	if pops >= 2 && len(priosSeen) >= 2 {
		c.NontrivialKey(stream + "|" + sig.String())
	}
	c.Sample(stream, map[string]interface{}{"goroutines": g, "cascades": ncasc, "operations": len(hist), "overlapping_pairs": overlaps, "first_operations": lines[:min(6, len(lines))]})
}
