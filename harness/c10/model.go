package c10

import (
	"container/heap"
	"fmt"
	"sort"
)

// ---------------------------------------------------------------------------
// Reference model of the task queue (written from the property statement):
// one queue per cascade, ordered by (priority number, arrival); a negative
// priority counts as 0 ("0 is the highest"). A dequeue may serve any cascade
// but must return the head of that cascade's queue; it may report "empty"
// only if every cascade is empty.
// ---------------------------------------------------------------------------

func clampPrio(p int) int {
	if p < 0 {
		return 0
	}
	return p
}

// qInsert returns a new queue with id inserted behind every entry whose
// priority number is <= its own (prio gives the clamped priority of an id).
func qInsert(q []int, id int, prio func(int) int) []int {
	pos := len(q)
	for i, x := range q {
		if prio(x) > prio(id) {
			pos = i
			break
		}
	}
	n := make([]int, 0, len(q)+1)
	n = append(n, q[:pos]...)
	n = append(n, id)
	return append(n, q[pos:]...)
}

// qTakeHead returns the queue without its head if the head is id.
func qTakeHead(q []int, id int) ([]int, bool) {
	if len(q) == 0 || q[0] != id {
		return q, false
	}
	return q[1:], true
}

// ---------------------------------------------------------------------------
// Reference for RootMonitor.HighestPriority(): the minimum priority over the
// monitors that were activated by a triggering event and have not finished.
// ---------------------------------------------------------------------------

type hpEvent struct {
	seq     int64
	kind    byte // 'a' activated, 'f' finished
	prio    int
	skipped bool // finish of a monitor that was skipped (never counted)
	mon     uint64
}

func (e hpEvent) String() string {
	switch {
	case e.kind == 'a':
		return fmt.Sprintf("activate(%d)", e.prio)
	case e.skipped:
		return fmt.Sprintf("skip+finish(%d)", e.prio)
	}
	return fmt.Sprintf("finish(%d)", e.prio)
}

// hpTruth returns the reference value after every prefix of evs
// (result[i] = value after the first i events).
func hpTruth(evs []hpEvent) []int {
	active := map[int]int{}
	res := make([]int, 0, len(evs)+1)
	cur := func() int {
		m, found := -1, false
		for p, n := range active {
			if n > 0 && (!found || p < m) {
				m, found = p, true
			}
		}
		return m
	}
	res = append(res, cur())
	for _, e := range evs {
		if e.kind == 'a' {
			active[e.prio]++
		} else if !e.skipped {
			active[e.prio]--
		}
		res = append(res, cur())
	}
	return res
}

// maxAlive returns the largest number of distinct priorities alive at once.
func maxAlive(evs []hpEvent) int {
	active := map[int]int{}
	best := 0
	for _, e := range evs {
		if e.kind == 'a' {
			active[e.prio]++
		} else if !e.skipped {
			active[e.prio]--
			if active[e.prio] == 0 {
				delete(active, e.prio)
			}
		}
		if len(active) > best {
			best = len(active)
		}
	}
	return best
}

// Known deviations of the bookkeeping behind HighestPriority() (DESIGN.md
// section 7, candidates 6 and 7), modelled as switches of a second model that
// mimics a counter map plus a binary heap of priorities:
//
//	devSkip: finishing a skipped monitor decrements the counter of its
//	         priority although it was never counted;
//	devHeap: removing a priority splices the heap slice and repairs only the
//	         hole position, which can leave a non-minimal element on top.
type intHeap []int

func (h intHeap) Len() int            { return len(h) }
func (h intHeap) Less(i, j int) bool  { return h[i] < h[j] }
func (h intHeap) Swap(i, j int)       { h[i], h[j] = h[j], h[i] }
func (h *intHeap) Push(x interface{}) { *h = append(*h, x.(int)) }
func (h *intHeap) Pop() interface{} {
	o := *h
	x := o[len(o)-1]
	*h = o[:len(o)-1]
	return x
}

func hpDeviant(evs []hpEvent, devSkip, devHeap bool) []int {
	counts := map[int]int{}
	h := &intHeap{}
	res := make([]int, 0, len(evs)+1)
	cur := func() int {
		if len(*h) > 0 {
			return (*h)[0]
		}
		return -1
	}
	res = append(res, cur())
	for _, e := range evs {
		switch {
		case e.kind == 'a':
			v, ok := counts[e.prio]
			if !ok {
				heap.Push(h, e.prio)
			}
			counts[e.prio] = v + 1
		case e.skipped && !devSkip:
		default:
			counts[e.prio]--
			if counts[e.prio] == 0 {
				delete(counts, e.prio)
				for i, x := range *h {
					if x != e.prio {
						continue
					}
					if !devHeap {
						heap.Remove(h, i)
					} else if i+1 < len(*h) {
						*h = append((*h)[:i], (*h)[i+1:]...)
						heap.Fix(h, i)
					} else {
						*h = (*h)[:i]
					}
					break
				}
			}
		}
		res = append(res, cur())
	}
	return res
}

// window returns the index range [lo,hi] of reference states a sample with
// the given call/return stamps may have observed: from the state after the
// last event before the call to the state after the last event before the
// return.
func window(evs []hpEvent, call, ret int64) (int, int) {
	lo := sort.Search(len(evs), func(i int) bool { return evs[i].seq > call })
	hi := sort.Search(len(evs), func(i int) bool { return evs[i].seq > ret })
	return lo, hi
}

func inWindow(states []int, lo, hi, v int) bool {
	for i := lo; i <= hi && i < len(states); i++ {
		if states[i] == v {
			return true
		}
	}
	return false
}
