package c10

import (
	"errors"
	"fmt"
	"math"
	"runtime"
	"sort"
	"strings"
	"sync"
	"sync/atomic"

	"github.com/krotik/ecal/engine"

	"verif/harness/core"
	"verif/harness/sched"
)

type actRec struct {
	rule       *rule
	ev         string
	tid        uint64
	begin, end int64
}

type hpSample struct {
	casc      int
	call, ret int64
	val       int
	where     string
}

type result struct {
	sc      *scenario
	trace   []sched.Event
	acts    []actRec
	samples []hpSample
	rms     []*engine.RootMonitor
	reports []map[string]map[string]string // per cascade: event name -> rule name -> error text
	problem string                         // harness-level problem (no verdict)
}

type runner struct {
	tr  *sched.Tracer
	mu  sync.Mutex
	res *result
	idx map[*engine.RootMonitor]int
}

func (rn *runner) sample(rm *engine.RootMonitor, where string) {
	rn.mu.Lock()
	ci, ok := rn.idx[rm]
	rn.mu.Unlock()
	if !ok {
		return
	}
	call := rn.tr.Stamp()
	v := rm.HighestPriority()
	ret := rn.tr.Stamp()
	rn.mu.Lock()
	rn.res.samples = append(rn.res.samples, hpSample{ci, call, ret, v, where})
	rn.mu.Unlock()
}

func (rn *runner) addChildren(p engine.Processor, m engine.Monitor, r *rule) {
	for _, ch := range r.children {
		cm := m.NewChildMonitor(ch.prio)
		p.AddEvent(engine.NewEvent(ch.name, ch.kind, nil), cm)
		rn.sample(m.RootMonitor(), "after-add:"+ch.name)
	}
}

func (rn *runner) action(r *rule) engine.RuleAction {
	return func(p engine.Processor, m engine.Monitor, e *engine.Event, tid uint64) error {
		b := rn.tr.Stamp()
		rn.sample(m.RootMonitor(), "begin:"+r.name)
		rn.addChildren(p, m, r)
		for i := 0; i < r.yields; i++ {
			runtime.Gosched()
			if rn.res.sc.workers > 1 {
				rn.sample(m.RootMonitor(), "mid:"+r.name)
			}
		}
		en := rn.tr.Stamp()
		rn.mu.Lock()
		rn.res.acts = append(rn.res.acts, actRec{r, e.Name(), tid, b, en})
		rn.mu.Unlock()
		if r.fail {
			return errors.New("fail:" + r.name)
		}
		return nil
	}
}

func quietFilter(point string, args []interface{}) bool { return point != "pool.broadcast" }

// scenarioFilter drops the (very frequent) broadcast events from the trace
// and, when slow is set, sometimes yields at the hook points inside the root
// monitor's lock: a slow critical section is a legal execution and makes
// concurrent HighestPriority() calls overlap with bookkeeping updates.
func scenarioFilter(seed uint64, slow bool) func(point string, args []interface{}) bool {
	var n uint64
	return func(point string, args []interface{}) bool {
		if point == "pool.broadcast" {
			return false
		}
		if slow && (point == "mon.activated.locked" || point == "mon.finish.locked") {
			x := (atomic.AddUint64(&n, 1) + seed) * 0x9E3779B97F4A7C15
			if (x>>31)%3 == 0 {
				runtime.Gosched()
			}
		}
		return true
	}
}

// runScenario executes a scenario on a fresh processor and returns what the
// monitors saw. The pool is brought to quiescence with WaitAll (which keeps
// re-broadcasting, so a lost wake-up of the pool - property C09 - cannot hang
// this check).
func runScenario(tr *sched.Tracer, sc *scenario, seed uint64) *result {
	res := &result{sc: sc}
	rn := &runner{tr: tr, res: res, idx: map[*engine.RootMonitor]int{}}
	proc := engine.NewProcessor(sc.workers)
	proc.ThreadPool().TooManyThreshold = math.MaxInt32
	proc.SetFailOnFirstErrorInTriggerSequence(sc.failFirst)
	for _, n := range sc.nodes {
		if n.virtual {
			continue
		}
		for _, r := range n.rules {
			if err := proc.AddRule(&engine.Rule{Name: r.name, KindMatch: []string{n.name}, ScopeMatch: []string{},
				Priority: r.prio, Action: rn.action(r)}); err != nil {
				res.problem = "AddRule: " + err.Error()
				return res
			}
		}
	}
	started := make(chan struct{}, sc.workers)
	release := make(chan struct{})
	if sc.blocked {
		proc.AddRule(&engine.Rule{Name: "block", KindMatch: []string{"c10.block"}, ScopeMatch: []string{},
			Action: func(p engine.Processor, m engine.Monitor, e *engine.Event, tid uint64) error {
				started <- struct{}{}
				<-release
				return nil
			}})
	}
	tr.Reset()
	tr.Filter = scenarioFilter(seed, sc.workers > 1 && sc.noise > 0)
	tr.SetNoise(seed, uint64(sc.noise))
	proc.Start()
	var nudged chan struct{}
	if sc.blocked {
		for i := 0; i < sc.workers; i++ {
			proc.AddEvent(engine.NewEvent("c10.block", []string{"c10", "block"}, nil), nil)
		}
		nudged = make(chan struct{})
		go func() { proc.ThreadPool().WaitAll(); close(nudged) }()
		for i := 0; i < sc.workers; i++ {
			<-started
		}
	}
	for i := range sc.roots {
		rm := proc.NewRootMonitor(nil, nil)
		res.rms = append(res.rms, rm)
		rn.idx[rm] = i
	}
	startCascade := func(i int) {
		root, rm := sc.roots[i], res.rms[i]
		if root.virtual {
			rn.sample(rm, "host-before")
			rn.addChildren(proc, rm, root.rules[0])
		} else {
			proc.AddEvent(engine.NewEvent(root.name, root.kind, nil), rm)
			rn.sample(rm, "host-after-root")
		}
	}
	// with several workers a host goroutine keeps sampling concurrently with
	// the bookkeeping updates (bounded number of samples)
	var stopSampler int32
	samplerDone := make(chan struct{})
	if sc.workers > 1 {
		go func() {
			defer close(samplerDone)
			for n := 0; n < 120 && atomic.LoadInt32(&stopSampler) == 0; n++ {
				rn.sample(res.rms[n%len(res.rms)], "host-sampler")
				runtime.Gosched()
			}
		}()
	} else {
		close(samplerDone)
	}
	if sc.parHosts {
		var wg sync.WaitGroup
		for i := range sc.roots {
			wg.Add(1)
			go func(i int) { defer wg.Done(); startCascade(i) }(i)
		}
		wg.Wait()
	} else {
		for i := range sc.roots {
			startCascade(i)
		}
	}
	if sc.blocked {
		close(release)
		<-nudged
	}
	proc.ThreadPool().WaitAll()
	atomic.StoreInt32(&stopSampler, 1)
	<-samplerDone
	tr.SetNoise(0, 0)
	for i, rm := range res.rms {
		rn.sample(rm, "quiescent")
		rep := map[string]map[string]string{}
		_, msg, panicked := core.Guard(func() {
			for _, te := range rm.AllErrors() {
				if te == nil {
					rep["<nil>"] = map[string]string{}
					continue
				}
				m := map[string]string{}
				for k, v := range te.ErrorMap {
					m[k] = v.Error()
				}
				name := te.Event.Name()
				if old, dup := rep[name]; dup {
					for k, v := range old {
						m[k+"(dup)"] = v
					}
				}
				rep[name] = m
			}
		})
		if panicked {
			res.problem = fmt.Sprintf("AllErrors of cascade %d panicked: %s", i, firstLine(msg))
		}
		res.reports = append(res.reports, rep)
	}
	proc.Finish()
	res.trace = tr.Snapshot()
	tr.Reset()
	return res
}

func firstLine(s string) string {
	if i := strings.IndexByte(s, '\n'); i >= 0 {
		return s[:i]
	}
	return s
}

// ---------------------------------------------------------------------------
// oracles
// ---------------------------------------------------------------------------

type reporter struct {
	c      *core.Ctx
	stream string
	idx    int
	text   string
	seen   map[string]bool
}

func (rp *reporter) violation(key, what string, detail map[string]interface{}) {
	if rp.seen[key] {
		return
	}
	rp.seen[key] = true
	if detail == nil {
		detail = map[string]interface{}{}
	}
	detail["scenario"] = rp.text
	rp.c.Violation(key, what, rp.stream, rp.idx, detail)
}

// oracle 1: the rules of one event run one after another, on one thread, in
// non-decreasing priority number, each at most once.
func oracleRuleOrder(rp *reporter, res *result) (byEvent map[string][]actRec) {
	byEvent = map[string][]actRec{}
	for _, a := range res.acts {
		byEvent[a.ev] = append(byEvent[a.ev], a)
	}
	for ev, as := range byEvent {
		sort.Slice(as, func(i, j int) bool { return as[i].begin < as[j].begin })
		byEvent[ev] = as
		seen := map[string]bool{}
		for i, a := range as {
			if a.rule.owner.name != ev {
				rp.violation("order:foreign-rule", fmt.Sprintf("rule %s ran for event %s it does not match", a.rule.name, ev), nil)
			}
			if seen[a.rule.name] {
				rp.violation("order:rule-twice", fmt.Sprintf("rule %s ran twice for event %s", a.rule.name, ev), nil)
			}
			seen[a.rule.name] = true
			if i == 0 {
				continue
			}
			p := as[i-1]
			if p.end > a.begin {
				rp.violation("order:overlap", fmt.Sprintf("actions %s [%d,%d] and %s [%d,%d] of event %s overlap", p.rule.name, p.begin, p.end, a.rule.name, a.begin, a.end, ev), nil)
			}
			if p.tid != a.tid {
				rp.violation("order:thread", fmt.Sprintf("actions of event %s ran on thread ids %d and %d", ev, p.tid, a.tid), nil)
			}
			if p.rule.prio > a.rule.prio {
				rp.violation("order:priority", fmt.Sprintf("event %s: rule %s (priority %d) ran before rule %s (priority %d)", ev, p.rule.name, p.rule.prio, a.rule.name, a.rule.prio),
					map[string]interface{}{"executed": actNames(as)})
			}
		}
		if len(as) >= 2 {
			rp.c.Event("events-with-several-rules", 1)
		}
	}
	return byEvent
}

func actNames(as []actRec) []string {
	var r []string
	for _, a := range as {
		r = append(r, fmt.Sprintf("%s:p%d", a.rule.name, a.rule.prio))
	}
	return r
}

// oracle 2b: replay of the tq.push / tq.pop trace (recorded under the queue's
// lock) against the queue model; with one worker the order in which events
// start running equals the dequeue order.
func oracleDequeue(rp *reporter, res *result, byEvent map[string][]actRec) (choices int) {
	type tinfo struct {
		id   int
		name string
		prio int
	}
	tasks := map[interface{}]*tinfo{}
	var infos []*tinfo
	prio := func(id int) int { return clampPrio(infos[id].prio) }
	queues := map[uint64][]int{}
	var popOrder []string
	for _, ev := range res.trace {
		if ev.Point != "tq.push" && ev.Point != "tq.pop" {
			continue
		}
		if len(ev.Args) < 5 {
			res.problem = "hook " + ev.Point + " has unexpected arguments"
			return
		}
		root, ok1 := ev.Args[1].(uint64)
		pr, ok2 := ev.Args[2].(int)
		e, ok3 := ev.Args[4].(*engine.Event)
		if !ok1 || !ok2 || !ok3 {
			res.problem = "hook " + ev.Point + " has unexpected argument types"
			return
		}
		task := ev.Args[3]
		if ev.Point == "tq.push" {
			rp.c.Event("tq.push", 1)
			if _, dup := tasks[task]; dup {
				rp.violation("dequeue:pushed-twice", "task of event "+e.Name()+" was pushed twice", nil)
				continue
			}
			ti := &tinfo{len(infos), e.Name(), pr}
			infos = append(infos, ti)
			tasks[task] = ti
			queues[root] = qInsert(queues[root], ti.id, prio)
			continue
		}
		rp.c.Event("tq.pop", 1)
		ti, known := tasks[task]
		if !known {
			rp.violation("dequeue:unknown-task", "a task was dequeued that was never queued: "+e.Name(), nil)
			continue
		}
		q := queues[root]
		if len(q) >= 2 {
			choices++
			if prio(q[0]) != prio(q[len(q)-1]) {
				rp.c.Event("tq.pop-with-priority-choice", 1)
			} else {
				rp.c.Event("tq.pop-with-fifo-choice", 1)
			}
		}
		if !strings.HasPrefix(ti.name, "c10.block") {
			popOrder = append(popOrder, ti.name)
		}
		nq, ok := qTakeHead(q, ti.id)
		if ok {
			queues[root] = nq
			continue
		}
		var content []string
		for _, id := range q {
			content = append(content, fmt.Sprintf("%s@%d", infos[id].name, infos[id].prio))
		}
		rp.violation("dequeue:not-head", fmt.Sprintf("cascade %d: %s@%d was taken while the queue (in model order) was %v", root, ti.name, ti.prio, content),
			map[string]interface{}{"queue": content, "taken": ti.name, "at_seq": ev.Seq})
		var rest []int
		for _, id := range q {
			if id != ti.id {
				rest = append(rest, id)
			}
		}
		queues[root] = rest
	}
	if res.sc.workers == 1 {
		type fb struct {
			name  string
			begin int64
		}
		var firsts []fb
		for ev, as := range byEvent {
			firsts = append(firsts, fb{ev, as[0].begin})
		}
		sort.Slice(firsts, func(i, j int) bool { return firsts[i].begin < firsts[j].begin })
		var beginOrder []string
		for _, f := range firsts {
			beginOrder = append(beginOrder, f.name)
		}
		if strings.Join(beginOrder, " ") != strings.Join(popOrder, " ") {
			rp.violation("dequeue:begin-order", "one worker: the order in which events started running differs from the dequeue order",
				map[string]interface{}{"dequeued": popOrder, "started": beginOrder})
		}
	}
	return choices
}

// extractHP builds, per cascade, the sequence of bookkeeping events of the
// root monitor (recorded under the root monitor's own lock).
func extractHP(res *result) ([][]hpEvent, string) {
	idx := map[*engine.RootMonitor]int{}
	for i, rm := range res.rms {
		idx[rm] = i
	}
	out := make([][]hpEvent, len(res.rms))
	skipped := map[uint64]bool{}
	for _, ev := range res.trace {
		switch ev.Point {
		case "mon.skipped", "mon.activated.locked", "mon.finish.locked":
		default:
			continue
		}
		if len(ev.Args) < 2 {
			return nil, "hook " + ev.Point + " has unexpected arguments"
		}
		rm, ok := ev.Args[0].(*engine.RootMonitor)
		if !ok {
			return nil, "hook " + ev.Point + ": first argument is not the root monitor"
		}
		ci, mine := idx[rm]
		switch ev.Point {
		case "mon.skipped":
			m, ok := ev.Args[1].(engine.Monitor)
			if !ok {
				return nil, "hook mon.skipped: second argument is not a monitor"
			}
			skipped[m.ID()] = true
		case "mon.activated.locked":
			p, ok := ev.Args[1].(int)
			if !ok {
				return nil, "hook mon.activated.locked: no priority"
			}
			if mine {
				out[ci] = append(out[ci], hpEvent{seq: ev.Seq, kind: 'a', prio: p})
			}
		case "mon.finish.locked":
			if len(ev.Args) < 4 {
				return nil, "hook mon.finish.locked has unexpected arguments"
			}
			m, ok := ev.Args[1].(engine.Monitor)
			p, ok2 := ev.Args[3].(int)
			if !ok || !ok2 {
				return nil, "hook mon.finish.locked: unexpected argument types"
			}
			if mine {
				out[ci] = append(out[ci], hpEvent{seq: ev.Seq, kind: 'f', prio: p, skipped: skipped[m.ID()] || !m.IsActivated(), mon: m.ID()})
			}
		}
	}
	// The activation hook reports the number the bookkeeping counted under, not
	// the monitor. The reference has to count under the monitor's own priority
	// number (Monitor.Priority(), reported with the finish): an activation is
	// attributed to the first later finish of an activated monitor that reports
	// the same number; a finish that finds none takes the oldest activation left
	// over and gives it the monitor's number. On a tree whose bookkeeping counts
	// under the monitor's number nothing is ever re-labelled.
	for ci := range out {
		e := out[ci]
		used := make([]bool, len(e))
		for j := range e {
			if e[j].kind != 'f' || e[j].skipped {
				continue
			}
			pick := -1
			for i := 0; i < j; i++ {
				if e[i].kind == 'a' && !used[i] && e[i].prio == e[j].prio {
					pick = i
					break
				}
			}
			for i := 0; i < j && pick < 0; i++ {
				if e[i].kind == 'a' && !used[i] {
					pick = i
				}
			}
			if pick >= 0 {
				used[pick] = true
				e[pick].prio = e[j].prio
			}
		}
	}
	return out, ""
}

// oracle 3: every HighestPriority() sample equals the reference state at some
// point of its call window.
func oracleHighestPriority(rp *reporter, res *result) (informative int) {
	evs, problem := extractHP(res)
	if problem != "" {
		res.problem = problem
		return
	}
	type models struct{ truth, skip, heap, both []int }
	ms := make([]models, len(evs))
	for i, e := range evs {
		ms[i] = models{hpTruth(e), hpDeviant(e, true, false), hpDeviant(e, false, true), hpDeviant(e, true, true)}
		clean := hpDeviant(e, false, false)
		for k := range clean {
			if clean[k] != ms[i].truth[k] {
				res.problem = "harness: heap model without deviations disagrees with the reference"
				return
			}
		}
		if n := maxAlive(e); n >= 6 {
			rp.c.Event("cascades-with-6+-priorities-alive", 1)
		}
		for _, x := range e {
			if x.skipped {
				rp.c.Event("mon.skipped+finished", 1)
			}
		}
		rp.c.Event("mon.activated", int64(len(e))/2)
	}
	// A deviation is blamed only if the deviant model explains every sample of
	// the cascade (not just the refuting one); otherwise the case is an unknown
	// difference.
	type fit struct {
		truth, skip, heap, both bool
		first                   *hpSample
	}
	fits := make([]fit, len(evs))
	for i := range fits {
		fits[i] = fit{truth: true, skip: true, heap: true, both: true}
	}
	for k := range res.samples {
		s := &res.samples[k]
		e, m, f := evs[s.casc], ms[s.casc], &fits[s.casc]
		lo, hi := window(e, s.call, s.ret)
		rp.c.Event("hp.samples", 1)
		if hi > lo {
			rp.c.Event("hp.samples-concurrent-with-updates", 1)
		}
		if m.truth[lo] > 0 || hi > lo {
			informative++
		}
		if !inWindow(m.truth, lo, hi, s.val) {
			f.truth = false
			if f.first == nil {
				f.first = s
			}
		}
		f.skip = f.skip && inWindow(m.skip, lo, hi, s.val)
		f.heap = f.heap && inWindow(m.heap, lo, hi, s.val)
		f.both = f.both && inWindow(m.both, lo, hi, s.val)
	}
	for ci, f := range fits {
		if f.truth {
			continue
		}
		s, e, m := f.first, evs[ci], ms[ci]
		lo, hi := window(e, s.call, s.ret)
		var want []int
		for i := lo; i <= hi; i++ {
			want = append(want, m.truth[i])
		}
		var hist []string
		for i := 0; i < hi && i < len(e); i++ {
			hist = append(hist, e[i].String())
		}
		detail := map[string]interface{}{"sample": s.val, "expected_one_of": want, "where": s.where,
			"bookkeeping_events_before_sample": hist, "cascade": s.casc}
		what := fmt.Sprintf("HighestPriority() = %d at %s, reference %v after %s", s.val, s.where, want, strings.Join(hist, " "))
		switch {
		case f.skip && f.heap:
			// either known deviation alone explains the whole cascade: do not
			// blame one of them (after one is repaired its key must stay silent)
			rp.violation("hp:known-deviation-ambiguous", what+" (every sample of the cascade is explained by either known deviation alone: skipped monitor decrements / heap removal)", detail)
		case f.skip:
			rp.violation("hp:skipped-child-decrements", what+" (all samples of the cascade are explained by: finishing a skipped monitor decrements the counter of its priority)", detail)
		case f.heap:
			rp.violation("hp:heap-broken-after-remove", what+" (all samples of the cascade are explained by: removal from the priority heap leaves a non-minimal element on top)", detail)
		case f.both:
			rp.violation("hp:skipped-child-decrements", what+" (explained only by both known deviations together)", detail)
			rp.violation("hp:heap-broken-after-remove", what+" (explained only by both known deviations together)", detail)
		default:
			rp.violation("hp:diff", what, detail)
		}
	}
	return informative
}

// oracle 4: fail-on-first-error and the error report.
func oracleFailFirst(rp *reporter, res *result, byEvent map[string][]actRec) {
	sc := res.sc
	skippedNames := map[string]bool{}
	for _, ev := range res.trace {
		if ev.Point == "mon.skipped" && len(ev.Args) >= 3 {
			if e, ok := ev.Args[2].(*engine.Event); ok {
				skippedNames[e.Name()] = true
			}
		}
	}
	executed := map[*rule]bool{}
	for _, a := range res.acts {
		executed[a.rule] = true
	}
	expect := make([]map[string]map[string]string, len(sc.roots))
	for i := range expect {
		expect[i] = map[string]map[string]string{}
	}
	cascOf := func(n *node) int {
		for n.parent != nil {
			n = n.parent.owner
		}
		for i, r := range sc.roots {
			if r == n {
				return i
			}
		}
		return 0
	}
	for _, n := range sc.nodes {
		added := n.parent == nil || executed[n.parent] || n.parent.owner.virtual
		as := byEvent[n.name]
		if n.virtual {
			continue
		}
		if !added {
			if len(as) > 0 {
				rp.violation("order:ghost-event", "actions ran for event "+n.name+" that was never added", nil)
			}
			continue
		}
		if len(n.rules) == 0 {
			if skippedNames[n.name] {
				rp.c.Event("skipped-children", 1)
			}
			continue
		}
		if len(as) == 0 {
			if n.parent != nil && n.parent.fail {
				rp.violation("fof:child-of-failing-rule-not-processed", fmt.Sprintf("event %s added by the failing rule %s was never processed", n.name, n.parent.name), nil)
			} else {
				rp.violation("casc:event-not-processed", fmt.Sprintf("event %s was added but none of its rules ran before quiescence", n.name), nil)
			}
			continue
		}
		if n.parent != nil && n.parent.fail {
			rp.c.Event("children-of-failing-rule-processed", 1)
		}
		firstFail := -1
		for i, a := range as {
			if a.rule.fail {
				firstFail = i
				break
			}
		}
		want := map[string]string{}
		if !sc.failFirst {
			if len(as) != len(n.rules) {
				rp.violation("fof:not-all-rules-ran", fmt.Sprintf("fail-on-first-error off: event %s has %d triggered rules, %d ran", n.name, len(n.rules), len(as)),
					map[string]interface{}{"executed": actNames(as)})
			}
			for _, r := range n.rules {
				if r.fail {
					want[r.name] = "fail:" + r.name
				}
			}
		} else {
			switch {
			case firstFail >= 0 && len(as) > firstFail+1:
				rp.violation("fof:ran-after-failure", fmt.Sprintf("fail-on-first-error on: event %s: rule %s ran after rule %s had failed", n.name, as[firstFail+1].rule.name, as[firstFail].rule.name),
					map[string]interface{}{"executed": actNames(as)})
			case firstFail < 0 && len(as) != len(n.rules):
				rp.violation("fof:stopped-without-failure", fmt.Sprintf("event %s: %d of %d rules ran although none failed", n.name, len(as), len(n.rules)),
					map[string]interface{}{"executed": actNames(as)})
			}
			if firstFail >= 0 {
				rp.c.Event("trigger-sequences-cut-by-failure", 1)
				want[as[firstFail].rule.name] = "fail:" + as[firstFail].rule.name
				last := as[len(as)-1].rule.prio
				for _, r := range n.rules {
					if !executed[r] && r.prio < last {
						rp.violation("fof:not-a-sorted-prefix", fmt.Sprintf("event %s: rule %s (priority %d) did not run although rule with priority %d did", n.name, r.name, r.prio, last),
							map[string]interface{}{"executed": actNames(as)})
					}
				}
			}
		}
		if len(want) > 0 {
			expect[cascOf(n)][n.name] = want
		}
	}
	for i := range sc.roots {
		if i >= len(res.reports) {
			break
		}
		got, want := res.reports[i], expect[i]
		if fmt.Sprint(got) != fmt.Sprint(want) {
			rp.violation("fof:report", fmt.Sprintf("cascade %d: error report differs (fail-on-first-error=%v)", i, sc.failFirst),
				map[string]interface{}{"reported": got, "expected": want})
		}
		if len(want) > 0 {
			rp.c.Event("error-reports-compared-nonempty", 1)
		}
	}
}

// judge runs all oracles on a result.
func judge(c *core.Ctx, stream string, idx int, res *result) {
	text := res.sc.String()
	rp := &reporter{c: c, stream: stream, idx: idx, text: text, seen: map[string]bool{}}
	if res.problem != "" {
		c.Inconclusive(res.problem, stream, idx, map[string]interface{}{"scenario": text})
		return
	}
	byEvent := oracleRuleOrder(rp, res)
	choices := oracleDequeue(rp, res, byEvent)
	informative := oracleHighestPriority(rp, res)
	oracleFailFirst(rp, res, byEvent)
	if res.problem != "" {
		c.Inconclusive(res.problem, stream, idx, map[string]interface{}{"scenario": text})
		return
	}
	c.Event("actions", int64(len(res.acts)))
	multi, fails := false, false
	for _, as := range byEvent {
		if len(as) >= 2 {
			multi = true
		}
		for _, a := range as {
			if a.rule.fail {
				fails = true
			}
		}
	}
	if choices > 0 || multi || informative > 0 || fails {
		c.NontrivialKey(stream + "|" + text)
	}
	c.Sample(stream, map[string]interface{}{"scenario": text, "actions": len(res.acts), "hp_samples": len(res.samples),
		"dequeues_with_choice": choices})
}
