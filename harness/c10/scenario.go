package c10

import (
	"fmt"
	"strings"

	"verif/harness/core"
)

// A scenario is data: a forest of event nodes. Every node has its own event
// kind (so a rule belongs to exactly one event instance and every executed
// action can be attributed by the event name alone); a node without rules is
// a non-triggering event (its monitor is skipped by the engine).

type node struct {
	id      int
	name    string // event name == kind joined with '.'
	kind    []string
	prio    int     // priority of the monitor the event is added with (root event: 0)
	rules   []*rule // empty: non-triggering (skipped) event
	virtual bool    // root only: no event; the host adds rules[0].children to the root monitor itself
	parent  *rule
}

type rule struct {
	name     string
	prio     int
	fail     bool
	yields   int
	children []*node
	owner    *node
}

type scenario struct {
	workers   int
	failFirst bool
	blocked   bool // the host adds everything while every worker is held inside a blocker action
	parHosts  bool // cascades are started from separate host goroutines
	noise     int  // perturbation probability x/1024 at lock-free hook points
	roots     []*node
	nodes     []*node
}

func (sc *scenario) newNode(prio int, triggering bool) *node {
	id := len(sc.nodes)
	tag := "e"
	if !triggering {
		tag = "s"
	}
	n := &node{id: id, prio: prio}
	n.kind = []string{"c10", fmt.Sprintf("%s%d", tag, id)}
	n.name = strings.Join(n.kind, ".")
	sc.nodes = append(sc.nodes, n)
	return n
}

func (sc *scenario) addRule(n *node, prio int, fail bool) *rule {
	// the letter makes the lexical order of rule names independent of the
	// order in which the rules are added and of their priorities
	k := len(n.rules)
	letter := 'a' + rune((n.id*7+k*11+k*k*3+5)%26)
	r := &rule{name: fmt.Sprintf("r%c%dn%d", letter, n.id, k), prio: prio, fail: fail, owner: n}
	n.rules = append(n.rules, r)
	return r
}

func (sc *scenario) addChild(r *rule, prio int, triggering bool) *node {
	n := sc.newNode(prio, triggering)
	n.parent = r
	r.children = append(r.children, n)
	return n
}

func (n *node) describe(b *strings.Builder) {
	if n.virtual {
		b.WriteString("host")
	} else {
		fmt.Fprintf(b, "%s@%d", n.kind[1], n.prio)
	}
	if len(n.rules) == 0 {
		return
	}
	b.WriteString("[")
	for i, r := range n.rules {
		if i > 0 {
			b.WriteString(" ")
		}
		if !n.virtual {
			fmt.Fprintf(b, "%s:p%d", r.name, r.prio)
			if r.fail {
				b.WriteString("!")
			}
		}
		if len(r.children) > 0 {
			b.WriteString("(")
			for j, ch := range r.children {
				if j > 0 {
					b.WriteString(",")
				}
				ch.describe(b)
			}
			b.WriteString(")")
		}
	}
	b.WriteString("]")
}

// String renders the scenario: eN@P = triggering event N added with monitor
// priority P, sN@P = non-triggering event, rNni:pQ = rule with priority Q
// ('!' = returns an error) followed by the events its action adds.
func (sc *scenario) String() string {
	var b strings.Builder
	fmt.Fprintf(&b, "workers=%d failOnFirst=%v blocked=%v parHosts=%v noise=%d :", sc.workers, sc.failFirst, sc.blocked, sc.parHosts, sc.noise)
	for _, r := range sc.roots {
		b.WriteString(" ")
		r.describe(&b)
	}
	return b.String()
}

var rulePrios = []int{0, 1, 2, 5, 9}
var childPriosNarrow = []int{0, 1, 2, 5, 9}
var childPriosWide = []int{0, 1, 2, 3, 5, 6, 7, 9, 11}

// Priority assignments outside the everyday range ("all priority assignments
// to rules and to child monitors"): rule priorities whose differences do not
// fit into an int, negative monitor priorities (the queue counts them as 0,
// the bookkeeping behind HighestPriority keeps the number).
const maxInt = int(^uint(0) >> 1)

var rulePriosExtreme = []int{-maxInt - 1 + 3, -(maxInt/2 + 10), -3, 0, 7, maxInt/2 + 10, maxInt - 1}
var childPriosNegative = []int{-7, -2, -1, 0, 1, 5}

type genParams struct {
	maxNodes    int
	maxDepth    int
	maxRules    int
	maxChildren int
	childPrios  []int
	rulePrios   []int // nil: rulePrios
	skipNum     int // x/16: a child is a non-triggering event
	failNum     int // x/16: a rule fails
}

// genTree fills a node with rules and descendants.
func (sc *scenario) genTree(r *core.Rand, n *node, depth int, gp genParams) {
	nr := 1
	switch x := r.Intn(8); {
	case x < 3:
		nr = 1
	case x < 5:
		nr = 2
	case x < 7:
		nr = r.Range(2, 4)
	default:
		nr = r.Range(3, gp.maxRules)
	}
	if nr > gp.maxRules {
		nr = gp.maxRules
	}
	equalPrio := r.Chance(1, 6)
	rulePrios := rulePrios
	if gp.rulePrios != nil {
		rulePrios = gp.rulePrios
	}
	ep := rulePrios[r.Intn(len(rulePrios))]
	for i := 0; i < nr; i++ {
		p := rulePrios[r.Intn(len(rulePrios))]
		if equalPrio {
			p = ep
		}
		sc.addRule(n, p, r.Chance(gp.failNum, 16))
	}
	for _, ru := range n.rules {
		ru.yields = r.Intn(3)
		if sc.workers > 1 {
			ru.yields = r.Intn(6)
		}
		if depth >= gp.maxDepth {
			continue
		}
		nc := r.Intn(gp.maxChildren + 1)
		for j := 0; j < nc && len(sc.nodes) < gp.maxNodes; j++ {
			p := gp.childPrios[r.Intn(len(gp.childPrios))]
			if j > 0 && r.Chance(1, 4) {
				p = ru.children[j-1].prio // equal priorities: skipped next to active
			}
			trig := !r.Chance(gp.skipNum, 16)
			ch := sc.addChild(ru, p, trig)
			if trig {
				sc.genTree(r, ch, depth+1, gp)
			}
		}
	}
}

// genRandom builds a general random scenario.
func genRandom(r *core.Rand, quick bool) *scenario {
	sc := &scenario{}
	sc.workers = []int{1, 1, 2, 3, 4, 6, 8}[r.Intn(7)]
	sc.failFirst = r.Bool()
	nc := []int{1, 1, 2, 3}[r.Intn(4)]
	gp := genParams{maxNodes: 14 + r.Intn(30), maxDepth: r.Range(1, 4), maxRules: 8, maxChildren: 4,
		childPrios: childPriosNarrow, skipNum: r.Range(0, 6), failNum: r.Range(0, 5)}
	if r.Bool() {
		gp.childPrios = childPriosWide
	}
	switch r.Intn(6) {
	case 0:
		gp.rulePrios = rulePriosExtreme
	case 1:
		gp.childPrios = childPriosNegative
	}
	if sc.workers > 1 {
		sc.noise = []int{0, 60, 200, 400}[r.Intn(4)]
		sc.parHosts = nc > 1 && r.Bool()
	}
	for k := 0; k < nc; k++ {
		root := sc.newNode(0, true)
		sc.roots = append(sc.roots, root)
		lim := gp
		lim.maxNodes = len(sc.nodes) + gp.maxNodes/nc
		sc.genTree(r, root, 0, lim)
	}
	return sc
}

// genHeap builds a scenario that keeps many distinct priorities alive at
// once while finishes happen in an order different from the priority order
// (late, more urgent grandchildren; several workers).
func genHeap(r *core.Rand) *scenario {
	sc := &scenario{}
	sc.workers = []int{1, 1, 1, 2, 4}[r.Intn(5)]
	sc.blocked = r.Chance(3, 4)
	if sc.workers > 1 {
		sc.noise = []int{0, 100, 300}[r.Intn(3)]
	}
	root := sc.newNode(0, true)
	sc.roots = append(sc.roots, root)
	if r.Chance(3, 4) {
		root.virtual = true
	} else {
		sc.blocked = false
	}
	top := sc.addRule(root, 0, false)
	perm := r.Perm(12)
	k := r.Range(5, 9)
	shift := 0
	if r.Chance(1, 4) {
		shift = -r.Range(2, 6) // some of the priorities alive are negative numbers
	}
	for i := 0; i < k; i++ {
		p := perm[i] + shift
		trig := !r.Chance(1, 6)
		ch := sc.addChild(top, p, trig)
		if i > 0 && r.Chance(1, 8) {
			ch.prio = top.children[i-1].prio
		}
		if !trig {
			continue
		}
		ru := sc.addRule(ch, rulePrios[r.Intn(len(rulePrios))], false)
		if r.Chance(1, 2) {
			ng := r.Range(1, 3)
			for j := 0; j < ng; j++ {
				gt := !r.Chance(1, 6)
				g := sc.addChild(ru, r.Intn(13)+shift, gt)
				if gt {
					sc.addRule(g, 0, false)
				}
			}
		}
	}
	return sc
}

var enumPrios = []int{0, 1, 2, 5, 9}

// enumCount returns the number of assignments of (priority, active|skipped)
// to k children.
func enumCount(k int) int {
	n := 1
	for i := 0; i < k; i++ {
		n *= 2 * len(enumPrios)
	}
	return n
}

// genEnum decodes assignment number x for k children (k <= 4). shape 0: the
// host adds the children to a root monitor while the single worker is held;
// shape 1: the action of a root rule adds them.
func genEnum(k, x, shape int) *scenario {
	sc := &scenario{workers: 1}
	root := sc.newNode(0, true)
	sc.roots = append(sc.roots, root)
	if shape == 0 {
		root.virtual = true
		sc.blocked = true
	}
	top := sc.addRule(root, 0, false)
	for i := 0; i < k; i++ {
		d := x % (2 * len(enumPrios))
		x /= 2 * len(enumPrios)
		ch := sc.addChild(top, enumPrios[d%len(enumPrios)], d < len(enumPrios))
		if d < len(enumPrios) {
			sc.addRule(ch, 0, false)
		}
	}
	return sc
}

// genFailRank: one event with n rules, the one at sorted rank `rank` fails
// (and adds an active and a skipped child); pattern selects the priorities:
// 0 distinct, 1 pairs of equal priorities, 2 all equal, 3 a second failing
// rule at a later rank.
func genFailRank(n, rank, pattern int, failFirst bool, workers int, r *core.Rand) *scenario {
	sc := &scenario{workers: workers, failFirst: failFirst}
	if workers > 1 {
		sc.noise = 150
	}
	root := sc.newNode(0, true)
	sc.roots = append(sc.roots, root)
	prios := make([]int, n)
	for i := range prios {
		switch pattern {
		case 1:
			prios[i] = []int{0, 1, 2, 5, 9}[(i/2)%5] + 10*(i/10)
		case 2:
			prios[i] = 5
		default:
			prios[i] = []int{0, 1, 2, 5, 9, 12, 15, 19}[i]
		}
	}
	// register the rules in a shuffled order so that the engine has to sort
	order := r.Perm(n)
	byRank := make([]*rule, n)
	for _, i := range order {
		byRank[i] = sc.addRule(root, prios[i], false)
	}
	fr := byRank[rank]
	fr.fail = true
	a := sc.addChild(fr, enumPrios[r.Intn(5)], true)
	sc.addRule(a, 0, r.Chance(1, 3))
	sc.addChild(fr, a.prio, false)
	if pattern == 3 && rank+1 < n {
		byRank[r.Range(rank+1, n-1)].fail = true
	}
	if rank > 0 {
		b := sc.addChild(byRank[0], enumPrios[r.Intn(5)], true)
		sc.addRule(b, 1, false)
	}
	return sc
}
