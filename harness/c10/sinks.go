package c10

import (
	"fmt"
	"math"
	"strings"

	"github.com/krotik/ecal/engine"
	"github.com/krotik/ecal/interpreter"
	"github.com/krotik/ecal/parser"
	"github.com/krotik/ecal/scope"
	"github.com/krotik/ecal/util"

	"verif/harness/core"
	"verif/harness/sched"
)

// The same scenarios through the language: every rule becomes an ECAL sink
// (priority attribute, addEvent() for the children - the built-in always
// uses child priority 0 -, raise() for a failure). Actions are observed at
// the sink.begin / sink.beforereturn hooks. The provider's processor is used
// as it comes: fail-on-first-error is NOT set by the harness when the
// scenario wants it on (interpreter/provider.go must have enabled it).

func sinkSource(sc *scenario) string {
	var b strings.Builder
	for _, n := range sc.nodes {
		for _, r := range n.rules {
			fmt.Fprintf(&b, "sink %s\n    kindmatch [ %q ],\n    priority %d\n    {\n        x := 1\n", r.name, n.name, r.prio)
			for _, ch := range r.children {
				fmt.Fprintf(&b, "        addEvent(%q, %q, {})\n", ch.name, ch.name)
			}
			if r.fail {
				fmt.Fprintf(&b, "        raise(%q, \"c10\")\n", "fail:"+r.name)
			}
			b.WriteString("    }\n")
		}
	}
	return b.String()
}

func genSinkScenario(r *core.Rand) *scenario {
	sc := &scenario{}
	sc.workers = []int{1, 1, 2, 4}[r.Intn(4)]
	sc.failFirst = r.Chance(2, 3)
	gp := genParams{maxNodes: 6 + r.Intn(10), maxDepth: r.Range(1, 3), maxRules: 6, maxChildren: 3,
		childPrios: []int{0}, skipNum: r.Range(0, 5), failNum: r.Range(2, 7)}
	if sc.workers > 1 {
		sc.noise = []int{0, 100, 300}[r.Intn(3)]
	}
	root := sc.newNode(0, true)
	sc.roots = append(sc.roots, root)
	sc.genTree(r, root, 0, gp)
	return sc
}

func runSinkScenario(tr *sched.Tracer, sc *scenario, seed uint64) (*result, string) {
	res := &result{sc: sc}
	src := sinkSource(sc)
	erp := interpreter.NewECALRuntimeProvider("c10", nil, util.NewMemoryLogger(10))
	defer func() { go erp.Cron.Stop() }() // a synchronous Stop can deadlock (krotik/common)
	proc := erp.Processor
	proc.ThreadPool().TooManyThreshold = math.MaxInt32
	if seed&1 == 1 {
		// what the command line interpreter does before every (re)load of a
		// program: the sink default must survive it
		proc.Finish()
		if err := proc.Reset(); err != nil {
			res.problem = "Reset of a stopped processor failed: " + err.Error()
			return res, src
		}
	}
	if !sc.failFirst {
		proc.SetFailOnFirstErrorInTriggerSequence(false)
	}
	ast, err := parser.ParseWithRuntime("c10", src, erp)
	if err == nil {
		err = ast.Runtime.Validate()
	}
	if err == nil {
		_, err = ast.Runtime.Eval(scope.NewScope(scope.GlobalScope), make(map[string]interface{}), erp.NewThreadID())
	}
	if err != nil {
		res.problem = "sink declarations were not accepted: " + err.Error()
		return res, src
	}
	rules := map[string]*rule{}
	for _, n := range sc.nodes {
		for _, r := range n.rules {
			rules[r.name] = r
		}
	}
	tr.Reset()
	tr.Filter = quietFilter
	tr.SetNoise(seed, uint64(sc.noise))
	proc.ThreadPool().SetWorkerCount(sc.workers, false)
	rm := proc.NewRootMonitor(nil, nil)
	res.rms = append(res.rms, rm)
	root := sc.roots[0]
	proc.AddEvent(engine.NewEvent(root.name, root.kind, nil), rm)
	proc.ThreadPool().WaitAll()
	tr.SetNoise(0, 0)
	call := tr.Stamp()
	v := rm.HighestPriority()
	res.samples = append(res.samples, hpSample{0, call, tr.Stamp(), v, "quiescent"})
	rep := map[string]map[string]string{}
	_, msg, panicked := core.Guard(func() {
		for _, te := range rm.AllErrors() {
			m := map[string]string{}
			for k, v := range te.ErrorMap {
				txt := v.Error()
				if strings.Contains(txt, "fail:"+k+" ") {
					txt = "fail:" + k
				}
				m[k] = txt
			}
			rep[te.Event.Name()] = m
		}
	})
	if panicked {
		res.problem = "AllErrors panicked: " + firstLine(msg)
	}
	res.reports = append(res.reports, rep)
	proc.Finish()
	res.trace = tr.Snapshot()
	tr.Reset()
	// actions from the sink hooks
	type key struct {
		rule string
		ev   *engine.Event
	}
	open := map[key]int64{}
	for _, ev := range res.trace {
		if ev.Point != "sink.begin" && ev.Point != "sink.beforereturn" {
			continue
		}
		if len(ev.Args) < 3 {
			res.problem = "sink hooks have unexpected arguments"
			break
		}
		name, ok1 := ev.Args[0].(string)
		e, ok2 := ev.Args[1].(*engine.Event)
		tid, ok3 := ev.Args[2].(uint64)
		r := rules[name]
		if !ok1 || !ok2 || !ok3 || r == nil {
			res.problem = "sink hooks have unexpected argument types"
			break
		}
		k := key{name, e}
		if ev.Point == "sink.begin" {
			open[k] = ev.Seq
			continue
		}
		res.acts = append(res.acts, actRec{r, e.Name(), tid, open[k], ev.Seq})
	}
	return res, src
}
