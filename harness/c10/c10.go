// Package c10 holds the runtime monitors for property C10: priorities order
// execution; the first failing rule ends a trigger sequence (DESIGN.md
// section 4).
//
// Files: model.go (reference models: per-cascade priority queue, highest-
// priority reference with the known deviations as switches), scenario.go
// (cascade scenarios as data + generators), engine.go (executor on a real
// processor and the four oracles), direct.go (Push/Pop histories on the
// exported TaskQueue checked with porcupine), sinks.go (the same through ECAL
// sinks).
package c10

import (
	"fmt"
	"os"
	"time"

	"verif/harness/core"
	"verif/harness/sched"
)

func init() { core.Register("C10", Run) }

const ruleText = "streams: queue-direct = seeded Push/Pop scripts (<=60 operations, 1-6 goroutines, 1-3 cascades, monitor priorities from {-7,-1,0,1,2,5,9}, real *engine.Task values captured from a processor) on a fresh engine.TaskQueue, history checked by porcupine against a per-cascade (priority, arrival) queue model; " +
	"hp-enum-host / hp-enum-rule = every assignment of (priority from {0,1,2,5,9}) x (triggering | non-triggering) to k<=4 child events, added by the host to a root monitor while the worker is held / added by a root rule (quick tier: k<=3 complete, k=4 every 9th); " +
	"hp-heap = 5-9 children with distinct priorities from 0..11 plus late grandchildren (>=6 priorities alive, finishes out of priority order), 1-4 workers; " +
	"fail-rank = one event with n=1..8 rules, failing rule at every sorted rank x {flag on, off} x 4 priority patterns (distinct, pairs of equals, all equal, second failure later) x workers {1,3}; " +
	"cascade = seeded random forests (<=44 events, depth<=4, <=8 rules per event with priorities from {0,1,2,5,9}, <=4 children per rule with monitor priorities from {0,1,2,5,9} or {0,1,2,3,5,6,7,9,11}, skipped children next to active ones at equal priority, failing rules, both flag settings, 1-3 cascades, workers 1..8, hook noise); " +
	"sinks = the same forests as ECAL sinks (priority attribute, addEvent, raise) on the provider's own processor. " +
	"Every event has its own kind and every rule one kind pattern (no state/scope matching, no suppression: C01 owns those). " +
	"A case is non-trivial iff an ordering decision was observed: a dequeue from a cascade queue holding >=2 tasks, an event with >=2 rules, a highest-priority sample taken while a priority >0 was the expected answer or concurrently with bookkeeping updates, a failing rule, or (queue-direct) >=2 successful pops with >=2 distinct (cascade, priority) classes; distinct = distinct scenario text / script."

// Run is the check.
func Run(c *core.Ctx) {
	c.Note("rule", ruleText)
	tr := sched.NewTracer()
	tr.Install()
	defer sched.Uninstall()

	t0 := time.Now()
	lap := func(name string) {
		if os.Getenv("VH_C10_TIMING") != "" {
			fmt.Fprintf(os.Stderr, "timing %s %.2fs\n", name, time.Since(t0).Seconds())
		}
		t0 = time.Now()
	}
	engineCase := func(stream string, idx int, sc *scenario) {
		text := sc.String()
		c.Begin(0, stream, idx, text)
		res := runScenario(tr, sc, c.Seed*1000003+uint64(idx))
		judge(c, stream, idx, res)
		c.End(0)
	}

	// 2a: direct histories on the exported queue
	{
		const stream = "queue-direct"
		n := c.Pick(9000, 60000)
		var tasks []*dtask
		for i := 0; i < n; i++ {
			if !c.Take(stream, i) {
				continue
			}
			if tasks == nil {
				c.Begin(0, stream, i, "capturing tasks from a processor with a held worker")
				var problem string
				tasks, problem = makeTasks(tr)
				c.End(0)
				if problem != "" {
					c.Inconclusive("queue-direct: "+problem, stream, i, nil)
					break
				}
			}
			c.Begin(0, stream, i, "direct history")
			directCase(c, tr, tasks, i)
			c.End(0)
		}
	}

	lap("queue-direct")
	// 3: exhaustive small assignments
	for shape, stream := range []string{"hp-enum-host", "hp-enum-rule"} {
		idx := 0
		for k := 1; k <= 4; k++ {
			for x := 0; x < enumCount(k); x++ {
				idx++
				if k == 4 && c.Quick() && x%9 != shape {
					continue
				}
				if !c.Take(stream, idx) {
					continue
				}
				engineCase(stream, idx, genEnum(k, x, shape))
			}
		}
	}

	lap("hp-enum")
	{
		const stream = "hp-heap"
		n := c.Pick(3600, 24000)
		for i := 0; i < n; i++ {
			if c.Take(stream, i) {
				engineCase(stream, i, genHeap(c.Rng(stream, i)))
			}
		}
	}

	lap("hp-heap")
	// 4: failing rule at every rank
	{
		const stream = "fail-rank"
		idx := 0
		reps := c.Pick(1, 6)
		for rep := 0; rep < reps; rep++ {
			for n := 1; n <= 8; n++ {
				for rank := 0; rank < n; rank++ {
					for pattern := 0; pattern < 4; pattern++ {
						for _, ff := range []bool{true, false} {
							for _, w := range []int{1, 3} {
								idx++
								if c.Take(stream, idx) {
									engineCase(stream, idx, genFailRank(n, rank, pattern, ff, w, c.Rng(stream, idx)))
								}
							}
						}
					}
				}
			}
		}
	}

	lap("fail-rank")
	{
		const stream = "cascade"
		n := c.Pick(5400, 40000)
		for i := 0; i < n; i++ {
			if c.Take(stream, i) {
				engineCase(stream, i, genRandom(c.Rng(stream, i), c.Quick()))
			}
		}
	}

	lap("cascade")
	{
		const stream = "sinks"
		n := c.Pick(1800, 10000)
		for i := 0; i < n; i++ {
			if !c.Take(stream, i) {
				continue
			}
			sc := genSinkScenario(c.Rng(stream, i))
			c.Begin(0, stream, i, sc.String())
			res, src := runSinkScenario(tr, sc, c.Seed*7919+uint64(i))
			if res.problem != "" {
				c.Inconclusive(res.problem, stream, i, map[string]interface{}{"source": src})
			} else {
				judge(c, stream, i, res)
				if i < 48 {
					c.Sample("sinks-source", map[string]interface{}{"source": src, "flag_set_by_harness": fmt.Sprint(!sc.failFirst)})
				}
			}
			c.End(0)
		}
	}
	lap("sinks")
}
