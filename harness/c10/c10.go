// Package c10 holds the runtime monitors for property C10 (see DESIGN.md section 4).
package c10

import "verif/harness/core"

func init() { core.Register("C10", Run) }

// Run is the check.
func Run(c *core.Ctx) {
}
