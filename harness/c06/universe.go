package c06

import (
	"math"
	"strconv"
)

// val is one member of the hostile value universe: the ECAL source text that
// produces it, the equivalent Go value (for the Go API), and - when a
// built-in would read it as a number (a float64 or a string that
// strconv.ParseFloat accepts) - that number, so that blocking built-ins can
// be kept on small arguments.
type val struct {
	tag  string
	src  string
	mk   func() interface{}
	kind string
}

func (v val) num() (float64, bool) {
	switch x := v.mk().(type) {
	case float64:
		return x, true
	case string:
		f, err := strconv.ParseFloat(x, 64)
		return f, err == nil
	}
	return 0, false
}

func fv(f float64) func() interface{}       { return func() interface{} { return f } }
func sv(s string) func() interface{}        { return func() interface{} { return s } }
func anyv(x interface{}) func() interface{} { return func() interface{} { return x } }

// universe: null, bool, 0, -0, +-1, a fraction, a negative index, huge and
// near-overflow numbers, empty / numeric-looking / plain strings, empty and
// nested lists and maps, a function. The preamble defines f.
var universe = []val{
	{"null", "null", anyv(nil), "null"},
	{"true", "true", anyv(true), "bool"},
	{"zero", "0", fv(0), "num"},
	{"negzero", "-0", fv(math.Copysign(0, -1)), "num"},
	{"one", "1", fv(1), "num"},
	{"minus1", "-1", fv(-1), "num"},
	{"half", "0.5", fv(0.5), "num"},
	{"minus5", "-5", fv(-5), "num"},
	{"e18", "1e+18", fv(1e18), "num"},
	{"e308", "1e+308", fv(1e308), "num"},
	{"empty", `""`, sv(""), "str"},
	{"numstr", `"5"`, sv("5"), "str"},
	{"str", `"a"`, sv("a"), "str"},
	{"elist", "[]", func() interface{} { return []interface{}{} }, "list"},
	{"nlist", `[1, [2, "x"]]`, func() interface{} {
		return []interface{}{1.0, []interface{}{2.0, "x"}}
	}, "list"},
	{"emap", "{}", func() interface{} { return map[interface{}]interface{}{} }, "map"},
	{"nmap", `{"a" : 1, "b" : [1], 2 : {"c" : null}}`, func() interface{} {
		return map[interface{}]interface{}{"a": 1.0, "b": []interface{}{1.0}, 2.0: map[interface{}]interface{}{"c": nil}}
	}, "map"},
	{"func", "f", func() interface{} { return recFunc{} }, "func"},
}

// Statements of a preamble end in ";\n": a newline alone does not end a
// statement when the next line starts with an infix operator (`-5`, `+1`).
const preamble = "func f(x) {\n return x\n};\n"

// vecCount is the number of vectors of length <= n over a universe of size u.
func vecCount(u, n int) int {
	t, p := 0, 1
	for k := 0; k <= n; k++ {
		t += p
		p *= u
	}
	return t
}

// vecAt decodes index i (0-based over all vectors of length 0,1,2,...) into a
// vector of universe indices.
func vecAt(u, i int) []int {
	n, p := 0, 1
	for i >= p {
		i -= p
		p *= u
		n++
	}
	v := make([]int, n)
	for k := n - 1; k >= 0; k-- {
		v[k] = i % u
		i /= u
	}
	return v
}
