package c06

import (
	"fmt"
	"strings"
	"sync"
	"sync/atomic"
	"time"

	"github.com/krotik/ecal/engine"
	"github.com/krotik/ecal/engine/pool"
	"github.com/krotik/ecal/interpreter"
	"github.com/krotik/ecal/parser"
	"github.com/krotik/ecal/scope"
	"github.com/krotik/ecal/stdlib"
	"github.com/krotik/ecal/util"

	"verif/harness/core"
)

// ---------------------------------------------------------------------------
// rec: the marker function hx.rec(...) (a Go function registered once with
// stdlib.AddStdlibFunc). It appends the printed arguments to the recorder of
// the case that is currently running. Sinks call it from pool workers, hence
// the mutex.
// ---------------------------------------------------------------------------

type recorder struct {
	mu    sync.Mutex
	calls []string
}

var curRec atomic.Value // *recorder

type recFunc struct{}

func (recFunc) Run(instanceID string, vs parser.Scope, is map[string]interface{}, tid uint64, args []interface{}) (interface{}, error) {
	r, _ := curRec.Load().(*recorder)
	if r != nil {
		r.mu.Lock()
		r.calls = append(r.calls, fmt.Sprint(args...))
		r.mu.Unlock()
	}
	return nil, nil
}

func (recFunc) DocString() (string, error) { return "harness marker", nil }

var regOnce sync.Once

func register() {
	regOnce.Do(func() {
		stdlib.AddStdlibPkg("hx", "harness functions")
		stdlib.AddStdlibFunc("hx", "rec", recFunc{})
	})
}

func newRecorder() *recorder {
	r := &recorder{}
	curRec.Store(r)
	return r
}

func (r *recorder) snapshot() []string {
	r.mu.Lock()
	defer r.mu.Unlock()
	return append([]string(nil), r.calls...)
}

func (r *recorder) count(s string) int {
	n := 0
	for _, c := range r.snapshot() {
		if c == s {
			n++
		}
	}
	return n
}

// ---------------------------------------------------------------------------
// nudger: AddEventAndWait can be left waiting by the pool's lost wake-up
// (a C09 matter, not a C06 one). While the harness goroutine is inside a
// blocking engine call for more than a few milliseconds, a helper calls
// ThreadPool.WaitAll(), whose only effect is to Broadcast until the pool is
// idle. It never decides anything.
// ---------------------------------------------------------------------------

type nudgeState struct {
	tp  *pool.ThreadPool
	seq uint64
}

var nudgeCur atomic.Value // *nudgeState
var nudgeSeq uint64
var nudgeOnce sync.Once
var nudges int64

func nudgeBegin(tp *pool.ThreadPool) {
	nudgeOnce.Do(func() {
		nudgeCur.Store((*nudgeState)(nil))
		go func() {
			var last uint64
			for {
				time.Sleep(4 * time.Millisecond)
				st, _ := nudgeCur.Load().(*nudgeState)
				if st == nil {
					last = 0
					continue
				}
				if st.seq != last {
					last = st.seq // seen for the first time: give it one more period
					continue
				}
				atomic.AddInt64(&nudges, 1)
				st.tp.WaitAll()
			}
		}()
	})
	nudgeCur.Store(&nudgeState{tp, atomic.AddUint64(&nudgeSeq, 1)})
}

func nudgeEnd() { nudgeCur.Store((*nudgeState)(nil)) }

// ---------------------------------------------------------------------------
// env: one runtime provider + processor + global scope, used for one program.
// ---------------------------------------------------------------------------

type env struct {
	erp     *interpreter.ECALRuntimeProvider
	proc    engine.Processor
	vs      parser.Scope
	workers int
	rec     *recorder
}

var importFiles = map[string]string{
	"lib":  "a := 1\nfunc g(x) {\n return x\n}\n",
	"bad":  "a := 1 +",
	"fail": "b := 1 / null",
	"":     "c := 3",
}

func newEnv(workers int) *env {
	register()
	erp := interpreter.NewECALRuntimeProvider("c06", &util.MemoryImportLocator{Files: importFiles}, util.NewNullLogger())
	if workers != erp.Processor.Workers() {
		erp.Processor = engine.NewProcessor(workers)
		erp.Processor.SetFailOnFirstErrorInTriggerSequence(true)
	}
	e := &env{erp: erp, proc: erp.Processor, vs: scope.NewScope(scope.GlobalScope), workers: workers, rec: newRecorder()}
	return e
}

// bind puts the whole value universe into the global scope as u0..uN.
func (e *env) bind() {
	for i, v := range universe {
		e.vs.SetValue(fmt.Sprintf("u%d", i), v.mk())
	}
}

func (e *env) close() {
	// never synchronously: Cron.Stop of krotik/common can deadlock with the cron
	// goroutine's tick (a dependency matter outside every property)
	go e.erp.Cron.Stop()
	if !e.proc.Stopped() {
		nudgeBegin(e.proc.ThreadPool())
		e.proc.Finish()
		nudgeEnd()
	}
}

// quiesce waits until the pool is idle (events added by a sink body during
// the pre-flight are processed asynchronously).
func (e *env) quiesce() {
	if !e.proc.Stopped() {
		nudgeBegin(e.proc.ThreadPool())
		e.proc.ThreadPool().WaitAll()
		nudgeEnd()
	}
}

type outcome struct {
	val      interface{}
	err      error
	stage    string // parse | validate | eval | ok
	panicked bool
	key, msg string
}

func (o outcome) failedAtEval() bool { return !o.panicked && o.err != nil && o.stage == "eval" }

// eval parses, validates and evaluates a program on the calling goroutine.
func (e *env) eval(src string) outcome {
	var o outcome
	var ast *parser.ASTNode
	o.stage = "parse"
	o.key, o.msg, o.panicked = core.Guard(func() {
		ast, o.err = parser.ParseWithRuntime("c06", src, e.erp)
	})
	if o.panicked || o.err != nil {
		return o
	}
	if ast == nil || ast.Runtime == nil {
		o.err = fmt.Errorf("harness: parse returned neither tree nor error")
		return o
	}
	o.stage = "validate"
	o.key, o.msg, o.panicked = core.Guard(func() {
		o.err = ast.Runtime.Validate()
	})
	if o.panicked || o.err != nil {
		return o
	}
	o.stage = "eval"
	nudgeBegin(e.proc.ThreadPool())
	o.key, o.msg, o.panicked = core.Guard(func() {
		o.val, o.err = ast.Runtime.Eval(e.vs, make(map[string]interface{}), e.erp.NewThreadID())
	})
	nudgeEnd()
	if !o.panicked && o.err == nil {
		o.stage = "ok"
	}
	return o
}

// protocolError tells whether an error is one of the interpreter's control
// signals (return outside a function, iterator protocol). Whether try/except
// sees those is C04's business, so the try oracle skips them.
func protocolError(err error) bool {
	if err == nil {
		return false
	}
	if strings.Contains(fmt.Sprintf("%T", err), "returnValue") {
		return true
	}
	var t error
	switch x := err.(type) {
	case *util.RuntimeError:
		t = x.Type
	case *util.RuntimeErrorWithDetail:
		if x.RuntimeError != nil {
			t = x.Type
		}
	}
	return t == util.ErrIsIterator || t == util.ErrEndOfIteration || t == util.ErrContinueIteration || t == util.ErrReturn
}

// errType gives a coarse, stable class of an error (for finding keys): the
// interpreter's own error type if it is one, "user-raised" for types made up
// by raise(), else the Go type.
func errType(err error) string {
	var t error
	switch x := err.(type) {
	case *util.RuntimeError:
		t = x.Type
	case *util.RuntimeErrorWithDetail:
		if x.RuntimeError == nil {
			return "<nil runtime error>"
		}
		t = x.Type
	default:
		return fmt.Sprintf("%T", err)
	}
	for _, k := range []error{util.ErrRuntimeError, util.ErrUnknownConstruct, util.ErrInvalidConstruct, util.ErrInvalidState,
		util.ErrVarAccess, util.ErrNotANumber, util.ErrNotABoolean, util.ErrNotAList, util.ErrNotAMap, util.ErrNotAListOrMap,
		util.ErrSink, util.ErrReturn, util.ErrIsIterator, util.ErrEndOfIteration, util.ErrContinueIteration} {
		if t == k {
			return k.Error()
		}
	}
	if t == nil {
		return "<nil type>"
	}
	return "user-raised"
}

// fireResult is what one event did.
type fireResult struct {
	panicked  bool
	key, msg  string
	where     string // preflight | addevent
	skipped   bool
	addErr    error
	ruleErrs  map[string]string // rule name -> error text (all monitors of the cascade)
	workersOK bool
	workers   int
}

// fire processes one event. First the exact work a pool worker would do
// (Activate, ProcessEvent, SetErrors/Finish) is executed on the calling
// goroutine under Guard: a panic there is what would kill the process on a
// worker, and it is reported with the frame as key without losing the batch.
// Only when that was clean the event goes through the real pool.
func (e *env) fire(ev *engine.Event) fireResult {
	var fr fireResult
	fr.where = "preflight"
	fr.key, fr.msg, fr.panicked = core.Guard(func() {
		rm := e.proc.NewRootMonitor(nil, nil)
		if !e.proc.IsTriggering(engine.NewEvent("pf-"+ev.Name(), ev.Kind(), ev.State())) {
			return
		}
		rm.Activate(ev)
		errs := e.proc.ProcessEvent(e.erp.NewThreadID(), ev, rm)
		if len(errs) > 0 {
			rm.SetErrors(&engine.TaskError{ErrorMap: errs, Event: ev, Monitor: rm})
		}
		rm.Finish()
	})
	if fr.panicked {
		return fr
	}
	e.quiesce()
	fr.where = "addevent"
	if e.proc.Stopped() {
		e.proc.Start()
	}
	var m engine.Monitor
	nudgeBegin(e.proc.ThreadPool())
	fr.key, fr.msg, fr.panicked = core.Guard(func() {
		m, fr.addErr = e.proc.AddEventAndWait(ev, nil)
	})
	nudgeEnd()
	if fr.panicked {
		return fr
	}
	fr.ruleErrs = map[string]string{}
	if m == nil {
		fr.skipped = true
	} else if rm, ok := m.(*engine.RootMonitor); ok {
		for _, te := range rm.AllErrors() {
			for k, v := range te.ErrorMap {
				fr.ruleErrs[k] = v.Error()
			}
		}
	}
	fr.workers = e.proc.ThreadPool().WorkerCount()
	fr.workersOK = fr.workers == e.workers
	return fr
}
