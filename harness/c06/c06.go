// Package c06 holds the runtime monitors for property C06 (see DESIGN.md section 4).
package c06

import "verif/harness/core"

func init() { core.Register("C06", Run) }

// Run is the check.
func Run(c *core.Ctx) {
}
