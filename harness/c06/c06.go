// Package c06 holds the runtime monitors for property C06 (see DESIGN.md
// section 4): no ECAL program, sink attribute or event can crash the host.
//
// Every case is a piece of hostile ECAL source (or a sink declaration, or an
// event) executed against the real interpreter and engine of /repo. The
// oracles are written from the property statement only:
//
//   - no panic reaches the harness (core.Guard around Parse, Validate, Eval,
//     and around the work a pool worker does for an event);
//   - the child process survives (progress slot before every case; the driver
//     turns a death into a verdict naming the case);
//   - the pool did not lose a worker;
//   - an error raised by X inside `try { X } except e { hx.rec(e.type) }` is
//     seen by the except clause: hx.rec is called once, no error comes back;
//   - a failing sink fails only its own invocation: its error is filed under
//     its own name and a second, harmless event is processed afterwards.
//
// Everything runs on one harness goroutine per child process: the parser of
// /repo is not re-entrant (a C13 matter), so cases are not run in parallel
// inside a process; the driver runs 16 processes side by side.
package c06

import (
	"fmt"
	"os"
	"runtime/debug"
	"sort"
	"strings"
	"sync/atomic"

	"github.com/krotik/ecal/engine"

	"verif/harness/core"
)

func init() { core.Register("C06", Run) }

type harness struct {
	c *core.Ctx
}

func trunc(s string, n int) string {
	if len(s) > n {
		return s[:n] + "..."
	}
	return s
}

func (h *harness) violation(key, what, stream string, idx int, src string, extra map[string]interface{}) {
	d := map[string]interface{}{"source": src}
	for k, v := range extra {
		d[k] = v
	}
	h.c.Violation(key, what, stream, idx, d)
}

func (h *harness) account(class string, o outcome) {
	switch {
	case o.panicked:
		h.c.Event(class+".panic", 1)
	case o.err != nil:
		h.c.Event(class+"."+o.stage+"-error", 1)
	default:
		h.c.Event(class+".value", 1)
	}
}

// checkX runs the piece of code x (after the preamble pre) bare, then - if it
// failed with an ordinary error during evaluation - inside try/except, and
// optionally as the body of a sink.
func (h *harness) checkX(stream string, idx int, pre, x string, withSink bool, workers int) {
	c := h.c
	c.Begin(0, stream, idx, pre+x)
	defer c.End(0)

	e := newEnv(1)
	o := e.eval(pre + x)
	e.close()
	h.account("bare", o)
	if o.panicked {
		h.violation(o.key, "panic reached the host during "+o.stage+": "+firstLine(o.msg), stream, idx, x,
			map[string]interface{}{"preamble": pre, "panic": trunc(o.msg, 1500)})
		return
	}
	if idx%977 == 3 {
		c.Sample(stream, map[string]interface{}{"source": x, "value": trunc(fmt.Sprint(o.val), 80), "error": fmt.Sprint(o.err)})
	}
	if o.failedAtEval() {
		c.Nontrivial(core.Hash64("fail|" + pre + x))
		if !protocolError(o.err) {
			h.tryOracle(stream, idx, pre, x, o)
		} else {
			c.Event("try.skipped-control-signal", 1)
		}
	}
	if withSink && (o.stage == "eval" || o.stage == "ok") {
		h.sinkOracle(stream, idx, pre, x, workers)
	}
}

func firstLine(s string) string {
	if i := strings.Index(s, "\n"); i >= 0 {
		return s[:i]
	}
	return s
}

func (h *harness) tryOracle(stream string, idx int, pre, x string, bare outcome) {
	c := h.c
	e := newEnv(1)
	src := pre + "try {\n" + x + "\n} except e {\n hx.rec(\"c06caught:\", e.type)\n}\n"
	o := e.eval(src)
	all := e.rec.snapshot()
	e.close()
	var calls []string
	for _, s := range all {
		if strings.HasPrefix(s, "c06caught:") {
			calls = append(calls, s)
		}
	}
	switch {
	case o.panicked:
		c.Event("try.panic", 1)
		h.violation(o.key, "panic reached the host while an except clause was handling the error of X: "+firstLine(o.msg), stream, idx, x,
			map[string]interface{}{"wrapped": src, "bare_error": bare.err.Error(), "panic": trunc(o.msg, 1500)})
	case o.err != nil:
		c.Event("try.missed", 1)
		h.violation("try-miss:"+errType(o.err), "an error raised inside try was not handled by the catch-all except clause", stream, idx, x,
			map[string]interface{}{"wrapped": src, "bare_error": bare.err.Error(), "wrapped_error": o.err.Error(), "stage": o.stage})
	case len(calls) != 1:
		c.Event("try.wrong-handler-count", 1)
		h.violation("try-handler-count", fmt.Sprintf("X fails when evaluated bare but the except clause around it ran %d times", len(calls)), stream, idx, x,
			map[string]interface{}{"wrapped": src, "bare_error": bare.err.Error(), "rec_calls": all})
	default:
		c.Event("try.caught", 1)
	}
}

const sinkS2 = "sink s2\n kindmatch [\"c06.y\"]\n{\n hx.rec(\"s2\")\n}\n"

// sinkS0 is a harmless sink on the same kind as the sink under test; it runs
// first (priority 0 before 10), so a failure of s1 must not be filed under s0
// and must not undo s0's run.
const sinkS0 = "sink s0\n kindmatch [\"c06.x\"]\n priority 0\n{\n hx.rec(\"s0\")\n}\n"

// sinkOracle declares a sink whose body is x, sends it an event and then
// sends a second event to a harmless sink.
func (h *harness) sinkOracle(stream string, idx int, pre, x string, workers int) {
	c := h.c
	e := newEnv(workers)
	defer e.close()
	src := pre + sinkS2 + sinkS0 + "sink s1\n kindmatch [\"c06.x\"]\n priority 10\n{\n" + x + "\n}\n"
	o := e.eval(src)
	if o.panicked {
		c.Event("sink.decl.panic", 1)
		h.violation(o.key, "panic while declaring a sink: "+firstLine(o.msg), stream, idx, src, map[string]interface{}{"panic": trunc(o.msg, 1500)})
		return
	}
	if o.err != nil {
		c.Event("sink.decl.error", 1)
		return
	}
	h.fireBoth(stream, idx, src, e,
		engine.NewEvent("e1", []string{"c06", "x"}, map[interface{}]interface{}{"k": 1.0}), true)
}

// fireBoth sends ev to the processor of e and afterwards the harmless event
// e2 (kind c06.y, handled by sink s2), and applies the event oracles.
// mustTrigger: the harness knows that a sink named s1 matches ev.
func (h *harness) fireBoth(stream string, idx int, src string, e *env, ev *engine.Event, mustTrigger bool) {
	c := h.c
	detail := func(fr fireResult) map[string]interface{} {
		return map[string]interface{}{"event": ev.String(), "workers": e.workers, "where": fr.where, "panic": trunc(fr.msg, 1500)}
	}
	s0before := e.rec.count("s0")
	fr := e.fire(ev)
	if !fr.panicked && !fr.skipped && strings.Contains(src, sinkS0) {
		if n := e.rec.count("s0") - s0before; n != 2 { // pre-flight + pool
			h.violation("neighbour-sink-lost", fmt.Sprintf("the harmless sink s0 on the same event ran %d times instead of once per processing", n), stream, idx, src,
				map[string]interface{}{"event": ev.String(), "errors": fr.ruleErrs})
		}
	}
	if fr.panicked {
		c.Event("event.panic."+fr.where, 1)
		what := "panic inside the work a pool worker does for an event (no recover there: the process dies): "
		if fr.where == "addevent" {
			what = "panic reached the host from AddEventAndWait: "
		}
		h.violation(fr.key, what+firstLine(fr.msg), stream, idx, src, detail(fr))
		return
	}
	c.Event(fmt.Sprintf("event.processed.w%d", e.workers), 1)
	if fr.skipped {
		c.Event("event.skipped", 1)
		if mustTrigger {
			c.Inconclusive("event for sink s1 was skipped by the engine (matching is C01's business)", stream, idx, map[string]interface{}{"source": src, "event": ev.String()})
		}
	}
	var wrong []string
	for k := range fr.ruleErrs {
		if k != "s1" {
			wrong = append(wrong, k)
		}
	}
	if len(wrong) > 0 {
		sort.Strings(wrong)
		h.violation("sink-error-misfiled", "the error of sink s1 was filed under another sink: "+strings.Join(wrong, ","), stream, idx, src,
			map[string]interface{}{"event": ev.String(), "errors": fr.ruleErrs})
	}
	if len(fr.ruleErrs) > 0 {
		c.Event("sink.failed", 1)
		c.Nontrivial(core.Hash64("sinkfail|" + src))
	} else if !fr.skipped {
		c.Event("sink.ok", 1)
	}
	if !fr.workersOK {
		h.violation("worker-lost", fmt.Sprintf("the pool has %d workers after the event, %d were configured", fr.workers, e.workers), stream, idx, src, detail(fr))
		return
	}
	// a sink may have started an independent cascade (addEvent with a scope):
	// AddEventAndWait does not wait for that one
	e.quiesce()
	before := e.rec.count("s2")
	fr2 := e.fire(engine.NewEvent("e2", []string{"c06", "y"}, map[interface{}]interface{}{}))
	after := e.rec.count("s2")
	switch {
	case fr2.panicked:
		h.violation(fr2.key, "panic while processing the harmless second event: "+firstLine(fr2.msg), stream, idx, src, detail(fr2))
	case fr2.skipped || after-before != 2 || len(fr2.ruleErrs) > 0:
		// the sink body runs once in the pre-flight and once on the pool
		h.violation("second-event-lost", "after a (failing) sink invocation a second harmless event was not processed normally", stream, idx, src,
			map[string]interface{}{"first_event": ev.String(), "skipped": fr2.skipped, "s2_runs": after - before, "errors": fr2.ruleErrs, "add_error": fmt.Sprint(fr2.addErr)})
	case !fr2.workersOK:
		h.violation("worker-lost", fmt.Sprintf("the pool has %d workers after the second event, %d were configured", fr2.workers, e.workers), stream, idx, src, detail(fr2))
	default:
		c.Event("second-event.ok", 1)
	}
}

// Run is the check.
func Run(c *core.Ctx) {
	h := &harness{c}
	// A runaway recursion inside ecal ends in a fatal stack overflow either way;
	// 64 MB instead of Go's 1 GB default only makes that death quick and cheap.
	// No generated program nests deeper than a few dozen frames.
	debug.SetMaxStack(64 << 20)
	c.Note("rule", "hostile inputs against Parse/Validate/Eval, sink registration and event processing of the real code: "+
		"(a) all 19 binary and 3 prefix operators x operand pairs over an 18-value universe {null,true,0,-0,1,-1,0.5,-5,1e18,1e308,\"\",\"5\",\"a\",[],nested list,{},nested map,function} as literals and as variables, statement templates (if/for/func/raise/try/import/mutex/destructuring/new) with 1-3 holes over the universe, seeded random expressions of depth<=4; "+
		"(b) every entry of interpreter.InbuildFuncMap plus log/error/debug x all argument vectors of length 0..3 (exhaustive) and random vectors of length 4, bare, inside try/except and as a sink body (sleep/setPulseTrigger/setCronTrigger: numeric first arguments mapped to <=1000 microseconds / a never-firing cron spec); "+
		"(c) sink attributes kindmatch/scopematch/statematch/priority/suppresses with every universe value (plain, list-wrapped, map-wrapped), duplicates, missing attributes, then events; "+
		"(d) statematch value x event state value over the universe squared, events sent by addEvent, addEventAndWait and by engine.NewEvent+Processor.AddEventAndWait, on 1 and 4 workers; "+
		"(d2) failing sink bodies (raise with 0..3 universe arguments, operator errors, return/break/continue, imports, paths into the event) whose errors come back through addEventAndWait/addEvent; (e) access paths: 7 containers x read/write forms x 26 index values (universe + fractional/negative/huge/string indices); "+
		"(h) every place of the grammar that evaluates a sub-expression (loop guards on the first and on a later iteration, iterators, parameter defaults, map keys, except/otherwise/finally bodies, sink attributes, ... 70 forms) x 43 expressions that fail when evaluated or yield an odd value, complete product; "+
		"(f) three programs that build a list / map / event state containing itself and then print or match it (a fatal stack overflow there is the death of the child, classified by the driver). "+
		"Non-trivial = distinct source texts whose real execution took a failure path (error value returned, error caught by except, sink invocation failed) or that went through the pool. "+
		"Excluded: user-written non-termination, interpolation edge cases (C14), whether except sees return/break/iterator signals (C04).")
	names := builtinNames()
	c.Note("builtins", strings.Join(names, ","))
	// VH_C06_STREAMS=name,name restricts the run to some stream families (a
	// debugging aid; no registered command sets it)
	filter := os.Getenv("VH_C06_STREAMS")
	run := func(name string, f func()) {
		if filter == "" || strings.Contains(","+filter+",", ","+name+",") {
			f()
		}
	}
	run("cyclic", h.streamCyclic)
	run("binops", h.streamBinops)
	run("unary", h.streamUnary)
	run("templates", h.streamTemplates)
	run("ctx", h.streamCtx)
	run("paths", h.streamPaths)
	run("sinkattrs", h.streamSinkAttrs)
	run("statematch", h.streamStateMatch)
	run("sinkfail", h.streamSinkFail)
	run("builtins", func() { h.streamBuiltins(names) })
	run("random", h.streamRandom)
	if n := atomic.LoadInt64(&nudges); n > 0 {
		c.Event("harness.nudges", n)
	}
}
