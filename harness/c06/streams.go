package c06

import (
	"fmt"
	"sort"
	"strings"

	"github.com/krotik/ecal/engine"
	"github.com/krotik/ecal/interpreter"

	"verif/harness/core"
)

var binops = []string{"*", "/", "//", "%", "+", "-", ">=", ">", "<=", "<", "==", "!=",
	"and", "or", "like", "hasprefix", "hassuffix", "in", "notin"}

var unops = []string{"-", "+", "not "}

// (a) binary operators x universe x universe, operands as literals (also as
// a sink body) and as variables.
func (h *harness) streamBinops() {
	c := h.c
	U := len(universe)
	n := len(binops) * U * U
	for i := 0; i < n; i++ {
		op, a, b := binops[i/(U*U)], universe[(i/U)%U], universe[i%U]
		if c.Take("binop-lit", i) {
			h.checkX("binop-lit", i, preamble, fmt.Sprintf("%s %s %s", a.src, op, b.src), true, 1)
		}
		if c.Take("binop-var", i) {
			h.checkX("binop-var", i, preamble+fmt.Sprintf("a := %s;\nb := %s;\n", a.src, b.src), fmt.Sprintf("a %s b", op), false, 1)
		}
	}
}

func (h *harness) streamUnary() {
	c := h.c
	U := len(universe)
	n := len(unops) * U * 3
	for i := 0; i < n; i++ {
		if !c.Take("unary", i) {
			continue
		}
		op, v, form := unops[i/(U*3)], universe[(i/3)%U], i%3
		switch form {
		case 0:
			h.checkX("unary", i, preamble, op+v.src, true, 1)
		case 1:
			h.checkX("unary", i, preamble, op+"("+v.src+")", false, 1)
		default:
			h.checkX("unary", i, preamble+"a := "+v.src+";\n", op+"a", false, 1)
		}
	}
}

type template struct {
	name  string
	text  string // $1 $2 $3 are holes filled with universe literals
	holes int
}

var templates = []template{
	{"if", "if $1 {\n 1\n} elif $2 {\n 2\n} else {\n 3\n}", 2},
	{"for-in", "for x in $1 {\n break\n}", 1},
	{"for-in-all", "for x in $1 {\n hx.rec(x)\n}", 1},
	{"for-destructure", "for [a, b] in $1 {\n hx.rec(a)\n}", 1},
	{"for-destructure3", "for [a, b, c] in [$1, $2] {\n hx.rec(a)\n}", 2},
	{"for-range", "for x in range($1, $2, $3) {\n break\n}", 3},
	{"for-range2", "for x in range($1, $2) {\n break\n}", 2},
	{"for-range1", "for x in range($1) {\n break\n}", 1},
	{"for-guard", "for $1 {\n break\n}", 1},
	{"func-default", "func g(a, b=$1) {\n return [a, b]\n}\ng($2)", 2},
	{"func-noargs", "func g(a, b) {\n return a + b\n}\ng()", 0},
	{"func-toomany", "func g(a) {\n return a\n}\ng($1, $2, 3)", 2},
	{"func-value", "g := func (a) {\n return a[$1]\n}\ng($2)", 2},
	{"func-return-op", "func g(a) {\n return a + $1\n}\ng($2)", 2},
	{"call-nonfunc", "x := $1\nx($2)", 2},
	{"call-member", "x := $1\nx.a($2)", 2},
	{"call-index", "x := $1\nx[$2]($1)", 2},
	{"call-call", "f($1)($2)", 2},
	{"destructure", "[a, b] := $1", 1},
	{"destructure-mixed", "[a, b] := [$1, $2]\na + b", 2},
	{"let", "let x := $1\nx := $2\nx", 2},
	{"raise", "raise($1, $2, $3)", 3},
	{"raise0", "raise()", 0},
	{"try-bare-except", "try {\n raise($1, $2)\n} except {\n hx.rec(\"c\")\n}", 2},
	{"try-bare-except0", "try {\n raise()\n} except {\n hx.rec(\"c\")\n}", 0},
	{"try-typed", "try {\n raise($1, $2)\n} except \"a\", \"5\" as e {\n hx.rec(e.type)\n} except e {\n hx.rec(e.detail)\n}", 2},
	{"try-typed-noas", "try {\n raise($1)\n} except \"a\" {\n hx.rec(\"a\")\n} except \"\" {\n hx.rec(\"e\")\n} except {\n hx.rec(\"c\")\n}", 1},
	{"try-finally", "try {\n 1 + $1\n} except e {\n $2 + 1\n} otherwise {\n not $1\n} finally {\n hx.rec(\"f\")\n}", 2},
	{"try-error-fields", "try {\n raise($1, $2, $3)\n} except e {\n hx.rec(e.type, e.detail, e.data, e.error, e.line, e.pos, e.source, e.trace)\n}", 3},
	{"try-op-error-fields", "try {\n $1 + $2\n} except e {\n hx.rec(e.type, e.detail, e.data, e.error, e.trace)\n}", 2},
	{"return-top", "return $1", 1},
	{"break-top", "break", 0},
	{"continue-top", "continue", 0},
	{"map-literal", "{$1 : $2}", 2},
	{"map-literal-read", "x := {$1 : 1}\nx[$1]", 1},
	{"list-literal", "[$1, $2]", 2},
	{"map-nokvp", "{$1}", 1},
	{"map-nokvp2", "{$1, $2}", 2},
	{"map-not-key", "{not $1 : $2}", 2},
	{"map-kvp3", "{$1 : $2 : $3}", 3},
	{"list-kvp", "[$1 : $2]", 2},
	{"kvp-bare", "$1 : $2", 2},
	{"kvp-arg", "f($1 : $2)", 2},
	{"preset-outside", "x := (b=$1)", 1},
	{"list-of-lists-in", "$1 in [$2, [$2]]", 2},
	{"new-super", "o := new({\"init\" : func (x) {\n this.a := x\n}, \"super\" : $1}, $2)\no.a", 2},
	{"new-super-list", "o := new({\"super\" : [$1, {\"init\" : $2}]}, 1)\no", 2},
	{"new-init-value", "o := new({\"init\" : $1})\no.init", 1},
	{"this-outside", "this.a := $1", 1},
	{"import-path", "import $1 as x\nx", 1},
	{"import-lib", "import \"lib\" as x\nx.g($1) + x.a", 1},
	{"import-bad", "import \"bad\" as x", 0},
	{"import-as-index", "l := [1, [2]]\nimport \"lib\" as l[$1]\nl", 1},
	{"import-as-member", "l := $1\nimport \"lib\" as l.a.b\nl", 1},
	{"import-fail", "import \"fail\" as x", 0},
	{"mutex", "mutex m {\n $1 + $2\n}", 2},
	{"mutex-nested", "mutex m {\n mutex m {\n  $1 + 1\n }\n}", 1},
	{"assign-literal", "$1 := 1", 1},
	{"assign-list-literal", "[$1, a] := [1, 2]", 1},
	{"assign-call", "f($1) := 1", 1},
	{"sink-in-func", "func g() {\n sink s9\n kindmatch [\"q\"]\n {\n }\n}\ng()\ng()", 0},
	{"concat-ops", "concat($1, $2) + len($1)", 2},
	{"len-cmp", "len($1) > $2", 2},
	{"nested-call", "type(add($1, del($2, 0)))", 2},
	{"math", "math.sqrt($1) + math.Pi", 1},
	{"math-unknown", "math.nothing($1)", 1},
	{"math-args", "math.pow($1, $2, $3)", 3},
	{"unknown-func", "nosuchfunction($1)", 1},
	{"unknown-var-op", "nosuchvar + $1", 1},
	{"deep-parens", "((((($1))))) * (((($2))))", 2},
	{"not-chain", "not not $1", 1},
	{"neg-chain", "- - $1", 1},
	{"cmp-chain", "$1 < $2 < $3", 3},
	{"in-chain", "$1 in $2 in $3", 3},
	{"like-pattern", "$1 like \"[\" + $2", 2},
	{"doc-index", "q := {}\ndoc(q[$1])", 1},
	{"doc-index-defined", "q := {\"a\" : f, 1 : len}\ndoc(q[$1])", 1},
	{"doc-call", "doc(f($1))", 1},
	{"doc-member", "doc(nosuch.a.b) + doc(math.sqrt) + doc(math.nosuch) + doc(len)", 0},
	{"doc-math-index", "doc(math[$1])", 1},
	{"doc-nested", "doc(doc($1))", 1},
	{"timestamp-loc", "timestamp($1, \"Europe/Nowhere\")", 1},
	{"dumpenv-after", "x := $1\ndumpenv()", 1},
}

func fill(text string, vals []val) string {
	for i, v := range vals {
		text = strings.ReplaceAll(text, fmt.Sprintf("$%d", i+1), v.src)
	}
	return text
}

func (h *harness) streamTemplates() {
	c := h.c
	U := len(universe)
	for _, t := range templates {
		stream := "tpl-" + t.name
		n := 1
		for k := 0; k < t.holes; k++ {
			n *= U
		}
		for i := 0; i < n; i++ {
			if !c.Take(stream, i) {
				continue
			}
			vals := make([]val, t.holes)
			r := i
			for k := t.holes - 1; k >= 0; k-- {
				vals[k] = universe[r%U]
				r /= U
			}
			h.checkX(stream, i, preamble, fill(t.text, vals), false, 1)
		}
	}
}

// (e) access paths.
const pathPreamble = preamble + "l := [1, [2, 3], {\"a\" : 4}];\n" +
	"m := {\"a\" : [1, 2], \"b\" : {\"c\" : 5}, 1 : \"one\"};\n" +
	"s := \"str\";\nn := 5;\nz := null;\n"

var pathContainers = []string{"l", "m", "s", "n", "z", "f", "q"}

func pathIndices() []string {
	var r []string
	for _, v := range universe {
		r = append(r, v.src)
	}
	return append(r, "2", "3", "1.5", "-1", `"0"`, `"b"`, `"a.b"`, `"c"`)
}

func pathForms(cn string, idx []string) []string {
	var r []string
	for _, i := range idx {
		r = append(r, fmt.Sprintf("%s[%s]", cn, i))
		r = append(r, fmt.Sprintf("%s[%s] := 9\n%s", cn, i, cn))
		r = append(r, fmt.Sprintf("%s.a[%s]", cn, i))
		r = append(r, fmt.Sprintf("%s.a[%s] := 9", cn, i))
		r = append(r, fmt.Sprintf("%s[%s].a", cn, i))
		r = append(r, fmt.Sprintf("%s[%s].a := 9", cn, i))
		r = append(r, fmt.Sprintf("x := %s\n%s[x]", i, cn))
		for _, j := range idx {
			r = append(r, fmt.Sprintf("%s[%s][%s]", cn, i, j))
			r = append(r, fmt.Sprintf("%s[%s][%s] := 9", cn, i, j))
		}
	}
	r = append(r, cn+".a", cn+".b.c", cn+".a.b.c.d", cn+".a := 9", cn+".b.c := 9", cn+".x.y := 9", cn+" := "+cn, cn+"."+cn)
	return r
}

func (h *harness) streamPaths() {
	c := h.c
	idx := pathIndices()
	for _, cn := range pathContainers {
		stream := "path-" + cn
		for i, x := range pathForms(cn, idx) {
			if c.Take(stream, i) {
				h.checkX(stream, i, pathPreamble, x, false, 1)
			}
		}
	}
}

// (b) built-ins.
func builtinNames() []string {
	var r []string
	for k := range interpreter.InbuildFuncMap {
		r = append(r, k)
	}
	r = append(r, "log", "error", "debug")
	sort.Strings(r)
	return r
}

// safeArg keeps the built-ins that block or spawn on small arguments.
func safeArg(fn string, pos int, v val) val {
	if pos != 0 {
		return v
	}
	x, isnum := v.num()
	switch fn {
	case "sleep":
		if isnum && (x > 1000 || x < -1000) {
			return val{tag: "safe100", src: "100", mk: fv(100), kind: "num"}
		}
	case "setPulseTrigger":
		if isnum {
			if v.kind == "str" {
				return val{tag: "safe1000s", src: `"1000"`, mk: sv("1000"), kind: "str"}
			}
			if x > 1000 {
				return val{tag: "safe1000", src: "1000", mk: fv(1000), kind: "num"}
			}
			return val{tag: "safe500", src: "500", mk: fv(500), kind: "num"}
		}
	case "setCronTrigger":
		if v.tag == "str" {
			return val{tag: "cron", src: `"0 0 0 1 1 *"`, mk: sv("0 0 0 1 1 *"), kind: "str"}
		}
	}
	return v
}

func callSource(fn string, vec []int) string {
	args := make([]string, len(vec))
	for k, ui := range vec {
		args[k] = safeArg(fn, k, universe[ui]).src
	}
	return fn + "(" + strings.Join(args, ", ") + ")"
}

func (h *harness) streamBuiltins(names []string) {
	c := h.c
	U := len(universe)
	n3 := vecCount(U, 3)
	n4 := c.Pick(120, 4000)
	for _, fn := range names {
		stream := "builtin-" + fn
		for i := 0; i < n3; i++ {
			if c.Take(stream, i) {
				vec := vecAt(U, i)
				// the sink context costs a pool start/stop: quick does it for all
				// vectors of length <= 2 and every 8th of length 3
				withSink := len(vec) <= 2 || !c.Quick() || i%8 == 0
				h.checkX(stream, i, preamble, callSource(fn, vec), withSink, 1)
			}
		}
		stream = "builtin4-" + fn
		for i := 0; i < n4; i++ {
			if !c.Take(stream, i) {
				continue
			}
			r := c.Rng(stream, i)
			vec := []int{r.Intn(U), r.Intn(U), r.Intn(U), r.Intn(U)}
			if r.Chance(1, 8) {
				vec = append(vec, r.Intn(U))
			}
			h.checkX(stream, i, preamble, callSource(fn, vec), i%4 == 0, 1+3*(i%2))
		}
	}
}

// (c) sink attributes.
var sinkAttrs = []string{"kindmatch", "scopematch", "statematch", "priority", "suppresses"}

func sinkDecl(attrs string) string {
	return "sink s1\n" + attrs + "{\n hx.rec(\"s1\")\n}\n"
}

type sinkCase struct {
	decl string
	kind string // kind of the extra event aimed at a universe-derived kindmatch ("" = none)
}

func sinkAttrCases() []sinkCase {
	var r []sinkCase
	for _, a := range sinkAttrs {
		for _, v := range universe {
			for form := 0; form < 3; form++ {
				lit := v.src
				switch form {
				case 1:
					lit = "[" + v.src + "]"
				case 2:
					if a == "statematch" {
						lit = "{\"k\" : " + v.src + "}"
					} else {
						lit = "{" + v.src + " : 1}"
					}
				}
				if a == "kindmatch" {
					r = append(r, sinkCase{sinkDecl(" kindmatch " + lit + "\n"), fmt.Sprint(v.mk())})
				} else {
					r = append(r, sinkCase{sinkDecl(" kindmatch [\"c06.x\"]\n " + a + " " + lit + "\n"), ""})
				}
			}
			if a == "statematch" {
				r = append(r, sinkCase{sinkDecl(" kindmatch [\"c06.x\"]\n statematch {" + v.src + " : " + v.src + "}\n"), ""})
			}
		}
	}
	km := " kindmatch [\"c06.x\"]\n"
	for _, d := range []string{
		// duplicates
		sinkDecl(km) + sinkDecl(km),
		sinkDecl(km + km),
		sinkDecl(km + " priority 1\n priority 2\n"),
		sinkDecl(km + " statematch {\"k\" : 1}\n statematch {\"k\" : 2}\n"),
		sinkDecl(" kindmatch [\"c06.x\", \"c06.x\", \"c06.*\", \"*.x\", \"*.*\"]\n"),
		sinkDecl(km + " suppresses [\"s1\"]\n"),
		sinkDecl(km + " suppresses [\"s1\", \"s2\", \"s2\"]\n"),
		// missing pieces
		"sink s1\n{\n hx.rec(\"s1\")\n}\n",
		"sink s1\n" + km,
		"sink s1\n",
		"sink\n" + km + "{\n}\n",
		"sink s1\n kindmatch []\n{\n}\n",
		"sink s1\n kindmatch [\"\"]\n{\n}\n",
		"sink s1\n kindmatch [\".\", \"..\", \"c06.\", \".x\"]\n{\n}\n",
		"sink s1\n kindmatch\n{\n}\n",
		"sink s1\n priority\n{\n}\n",
		"sink s1\n" + km + " scopematch []\n{\n}\n",
		"sink s1\n" + km + " scopematch [\"\", \".\", \"a..b\"]\n{\n}\n",
		"sink s1\n" + km + "{\n}\n{\n}\n",
		"sink s1\n" + km + " foo [1]\n{\n}\n",
		"sink 1\n" + km + "{\n}\n",
		"sink \"s1\"\n" + km + "{\n}\n",
		"sink s1\n" + km + " priority 1e+308\n{\n hx.rec(\"s1\")\n}\n",
		"sink s1\n" + km + " priority -1e+308\n{\n hx.rec(\"s1\")\n}\n",
		"sink s1\n" + km + " priority 0.5\n{\n hx.rec(\"s1\")\n}\n",
		"sink s1\n" + km + " priority 1 / 0\n{\n hx.rec(\"s1\")\n}\n",
		"sink s1\n" + km + " priority math.naN()\n{\n hx.rec(\"s1\")\n}\n",
		"sink s1\n kindmatch [1 / 0]\n{\n}\n",
		"sink s1\n" + km + " statematch {\"k\" : nosuch}\n{\n hx.rec(\"s1\")\n}\n",
		"sink s1\n" + km + " statematch {\"k\" : 1, \"l\" : \"a\", \"m\" : null}\n{\n hx.rec(\"s1\")\n}\n",
		// failing bodies of several kinds
		"sink s1\n" + km + "{\n return 1\n}\n",
		"sink s1\n" + km + "{\n break\n}\n",
		"sink s1\n" + km + "{\n raise(\"a\", \"b\", [1])\n}\n",
		"sink s1\n" + km + "{\n event.state.k.l := 1\n}\n",
		"sink s1\n" + km + "{\n event := 1\n event.a\n}\n",
		"sink s1\n" + km + "{\n sink s3\n kindmatch [\"z\"]\n {\n }\n}\n",
		"sink s1\n" + km + "{\n addEvent(\"x\", \"c06.y\", {})\n}\n",
		"sink s1\n" + km + "{\n addEvent(\"x\", \"c06.y\", {}, {\"\" : 5})\n}\n",
	} {
		r = append(r, sinkCase{d, ""})
	}
	return r
}

func (h *harness) streamSinkAttrs() {
	c := h.c
	cases := sinkAttrCases()
	for i, sc := range cases {
		for w := 0; w < 2; w++ {
			idx := i*2 + w
			if !c.Take("sinkattr", idx) {
				continue
			}
			workers := 1 + 3*w
			c.Begin(0, "sinkattr", idx, sc.decl)
			h.sinkAttrCase(idx, sc, workers)
			c.End(0)
		}
	}
}

func (h *harness) sinkAttrCase(idx int, sc sinkCase, workers int) {
	c := h.c
	const stream = "sinkattr"
	// the declaration alone, with the try oracle
	e := newEnv(workers)
	o := e.eval(preamble + sc.decl)
	e.close()
	h.account("sinkdecl", o)
	if o.panicked {
		h.violation(o.key, "panic while declaring a sink: "+firstLine(o.msg), stream, idx, sc.decl, map[string]interface{}{"panic": trunc(o.msg, 1500)})
		return
	}
	if o.failedAtEval() {
		c.Nontrivial(core.Hash64("fail|" + sc.decl))
		if !protocolError(o.err) {
			h.tryOracle(stream, idx, preamble, strings.TrimRight(sc.decl, "\n"), o)
		}
		return
	}
	if o.err != nil {
		return
	}
	// declaration accepted: send events
	e = newEnv(workers)
	defer e.close()
	src := preamble + sinkS2 + sc.decl
	if o = e.eval(src); o.panicked || o.err != nil {
		c.Inconclusive("sink declaration accepted alone but not after sink s2", stream, idx, map[string]interface{}{"source": src, "error": fmt.Sprint(o.err), "panic": o.msg})
		return
	}
	kinds := [][]string{{"c06", "x"}}
	if sc.kind != "" {
		kinds = append(kinds, strings.Split(sc.kind, "."))
	}
	for ki, kind := range kinds {
		for si, st := range []map[interface{}]interface{}{{"k": 1.0}, {}, {"k": "a", "l": nil}} {
			ev := engine.NewEvent(fmt.Sprintf("e1-%d-%d", ki, si), kind, st)
			h.fireBoth(stream, idx, src, e, ev, false)
		}
	}
	// degenerate events through the Go API: no kind, empty segments, kinds that
	// are too short / too long, no state map at all
	for ki, kind := range [][]string{nil, {}, {""}, {"c06"}, {"c06", "x", "y"}, {"c06", ""}, {"*", "*"}} {
		h.fireBoth(stream, idx, src, e, engine.NewEvent(fmt.Sprintf("e3-%d", ki), kind, nil), false)
	}
	h.fireBoth(stream, idx, src, e, engine.NewEvent("", []string{"c06", "x"}, nil), false)
}

// (d) statematch value x event state value, three ways of sending the event.
func (h *harness) streamStateMatch() {
	c := h.c
	U := len(universe)
	const stream = "statematch"
	senders := []string{"go", "addEventAndWait", "addEvent"}
	n := U * U * len(senders) * 2 * 2
	for i := 0; i < n; i++ {
		if !c.Take(stream, i) {
			continue
		}
		r := i
		workers := 1 + 3*(r%2)
		r /= 2
		keyed := r%2 == 1 // the universe value is used as state key instead of state value
		r /= 2
		sender := senders[r%len(senders)]
		r /= len(senders)
		sm, st := universe[r/U], universe[r%U]
		h.stateMatchCase(stream, i, sm, st, keyed, sender, workers)
	}
}

func (h *harness) stateMatchCase(stream string, idx int, sm, st val, keyed bool, sender string, workers int) {
	c := h.c
	decl := "sink s1\n kindmatch [\"c06.x\"]\n statematch {\"k\" : " + sm.src + "}\n{\n hx.rec(\"s1\")\n}\n"
	stateSrc := "{\"k\" : " + st.src + ", \"other\" : 1}"
	mkState := func() map[interface{}]interface{} { return map[interface{}]interface{}{"k": st.mk(), "other": 1.0} }
	if keyed {
		stateSrc = "{" + st.src + " : " + sm.src + ", \"k\" : 1}"
		mkState = func() map[interface{}]interface{} { return map[interface{}]interface{}{"k": 1.0} }
	}
	src := preamble + sinkS2 + decl
	text := src + "# event via " + sender + ": " + stateSrc
	c.Begin(0, stream, idx, text)
	defer c.End(0)

	e := newEnv(workers)
	defer e.close()
	o := e.eval(src)
	h.account("smdecl", o)
	if o.panicked {
		h.violation(o.key, "panic while declaring a sink with a statematch value: "+firstLine(o.msg), stream, idx, decl, map[string]interface{}{"panic": trunc(o.msg, 1500)})
		return
	}
	if o.err != nil {
		c.Nontrivial(core.Hash64("fail|" + decl))
		return
	}
	if sender == "go" {
		if keyed {
			// state keys of arbitrary kind can only be built through a map literal
			// when they are hashable Go values; build them here directly
			k := st.mk()
			if _, _, p := core.Guard(func() { _ = map[interface{}]interface{}{k: 1} }); p {
				c.Event("statematch.unhashable-go-key-skipped", 1)
				return
			}
			state := map[interface{}]interface{}{k: sm.mk(), "k": 1.0}
			h.fireBoth(stream, idx, text, e, engine.NewEvent("e1", []string{"c06", "x"}, state), false)
			return
		}
		h.fireBoth(stream, idx, text, e, engine.NewEvent("e1", []string{"c06", "x"}, mkState()), false)
		return
	}
	// through the ECAL built-in
	var pf func() map[interface{}]interface{}
	if !keyed || st.kind != "list" && st.kind != "map" {
		pf = func() map[interface{}]interface{} {
			state := mkState()
			if keyed {
				state[st.mk()] = sm.mk()
			}
			return state
		}
	}
	h.sendViaBuiltin(stream, idx, text, e, sender+"(\"e1\", \"c06.x\", "+stateSrc+")", pf)
}

// sendViaBuiltin sends an event of kind c06.x by evaluating ECAL source (a
// call of addEvent / addEventAndWait). Before that, the work a pool worker
// will do for the event is executed on this goroutine (pfState builds the
// same state through the Go API), so that a panic there is reported with its
// frame instead of killing the batch.
func (h *harness) sendViaBuiltin(stream string, idx int, text string, e *env, call string, pfState func() map[interface{}]interface{}) {
	c := h.c
	workers := e.workers
	s0before, s0want := e.rec.count("s0"), 1
	if pfState != nil {
		s0want = 2
		pfKey, pfMsg, pfPanicked := core.Guard(func() {
			ev := engine.NewEvent("pf", []string{"c06", "x"}, pfState())
			rm := e.proc.NewRootMonitor(nil, nil)
			rm.Activate(ev)
			errs := e.proc.ProcessEvent(e.erp.NewThreadID(), ev, rm)
			if len(errs) > 0 {
				rm.SetErrors(&engine.TaskError{ErrorMap: errs, Event: ev, Monitor: rm})
			}
			rm.Finish()
		})
		if pfPanicked {
			c.Event("event.panic.preflight", 1)
			h.violation(pfKey, "panic inside the work a pool worker does for an event (no recover there: the process dies): "+firstLine(pfMsg), stream, idx, text,
				map[string]interface{}{"workers": workers, "panic": trunc(pfMsg, 1500)})
			return
		}
		e.quiesce()
	}
	o := e.eval(call)
	h.account("send", o)
	if o.panicked {
		h.violation(o.key, "panic reached the host from the event built-in: "+firstLine(o.msg), stream, idx, text, map[string]interface{}{"call": call, "panic": trunc(o.msg, 1500)})
		return
	}
	if o.err != nil {
		c.Nontrivial(core.Hash64("fail|" + text))
	} else {
		c.Event(fmt.Sprintf("event.processed.w%d", workers), 1)
		c.Nontrivial(core.Hash64("sent|" + text))
	}
	if !e.proc.Stopped() {
		e.quiesce() // before sampling the worker count
		if n := e.proc.ThreadPool().WorkerCount(); n != workers {
			h.violation("worker-lost", fmt.Sprintf("the pool has %d workers after the event, %d were configured", n, workers), stream, idx, text, nil)
			return
		}
	}
	if o.err == nil && strings.Contains(text, sinkS0) {
		if n := e.rec.count("s0") - s0before; n != s0want {
			h.violation("neighbour-sink-lost", fmt.Sprintf("the harmless sink s0 on the same event ran %d times, expected %d", n, s0want), stream, idx, text, nil)
		}
		// errors reported back by addEventAndWait must be filed under the failing sink
		if v, ok, _ := e.vs.GetValue("res"); ok {
			if l, ok := v.([]interface{}); ok {
				for _, it := range l {
					m, _ := it.(map[interface{}]interface{})
					em, _ := m["errors"].(map[interface{}]interface{})
					for k := range em {
						if k != "s1" {
							h.violation("sink-error-misfiled", fmt.Sprintf("addEventAndWait reported the error of sink s1 under %v", k), stream, idx, text, nil)
						}
					}
					if len(em) > 0 {
						c.Event("sink.failed.reported-to-ecal", 1)
					}
				}
			}
		}
	}
	before := e.rec.count("s2")
	fr2 := e.fire(engine.NewEvent("e2", []string{"c06", "y"}, map[interface{}]interface{}{}))
	after := e.rec.count("s2")
	switch {
	case fr2.panicked:
		h.violation(fr2.key, "panic while processing the harmless second event: "+firstLine(fr2.msg), stream, idx, text, map[string]interface{}{"panic": trunc(fr2.msg, 1500)})
	case fr2.skipped || after-before != 2 || len(fr2.ruleErrs) > 0 || !fr2.workersOK:
		h.violation("second-event-lost", "after an event with a hostile state or a failing sink a second harmless event was not processed normally", stream, idx, text,
			map[string]interface{}{"skipped": fr2.skipped, "s2_runs": after - before, "errors": fr2.ruleErrs, "workers": fr2.workers})
	default:
		c.Event("second-event.ok", 1)
	}
}

// failing sink bodies whose errors travel back through addEventAndWait (which
// turns them into ECAL error objects) and through addEvent.
var failBodies = []template{
	{"raise0", "raise()", 0},
	{"raise1", "raise($1)", 1},
	{"raise2", "raise($1, $2)", 2},
	{"raise3", "raise(\"a\", $1, $2)", 2},
	{"op", "1 + $1", 1},
	{"return", "return $1", 1},
	{"break", "break", 0},
	{"continue", "continue", 0},
	{"unknown", "nosuch($1)", 1},
	{"import", "import $1 as x", 1},
	{"path", "event.state[$1][$2]", 2},
	{"write-event", "event.state.k := $1\nevent[$1] := 1", 1},
	{"nested-try", "try {\n raise($1)\n} finally {\n hx.rec(\"f\")\n}", 1},
	{"ok", "hx.rec(event.name, $1)", 1},
}

func (h *harness) streamSinkFail() {
	c := h.c
	U := len(universe)
	for _, t := range failBodies {
		stream := "sinkfail-" + t.name
		n := 2
		for k := 0; k < t.holes; k++ {
			n *= U
		}
		for i := 0; i < n; i++ {
			if !c.Take(stream, i) {
				continue
			}
			sender := []string{"addEventAndWait", "addEvent"}[i%2]
			vals := make([]val, t.holes)
			r := i / 2
			for k := t.holes - 1; k >= 0; k-- {
				vals[k] = universe[r%U]
				r /= U
			}
			body := fill(t.text, vals)
			workers := 1 + 3*((i/2)%2)
			src := preamble + sinkS2 + sinkS0 + "sink s1\n kindmatch [\"c06.x\"]\n priority 10\n{\n" + body + "\n}\n"
			call := "res := " + sender + "(\"e1\", \"c06.x\", {\"k\" : 1});\nhx.rec(\"c06res:\", res)"
			text := src + call
			c.Begin(0, stream, i, text)
			e := newEnv(workers)
			o := e.eval(src)
			switch {
			case o.panicked:
				h.violation(o.key, "panic while declaring a sink: "+firstLine(o.msg), stream, i, src, map[string]interface{}{"panic": trunc(o.msg, 1500)})
			case o.err != nil:
				c.Event("sink.decl.error", 1)
			default:
				h.sendViaBuiltin(stream, i, text, e, call, func() map[interface{}]interface{} { return map[interface{}]interface{}{"k": 1.0} })
			}
			e.close()
			c.End(0)
		}
	}
}

// Values that contain themselves. Nothing recursive is written by the user,
// but every place of the interpreter and engine that prints or walks a value
// recurses without end; the resulting stack overflow is a runtime fatal error
// which no recover can stop, so these few cases rely on the driver's
// classification of the child's death (they come first in a batch and each
// costs one restart of its batch while the defect exists).
var cyclicCases = []struct{ name, src string }{
	{"type-of-self-containing-map", "a := {};\na.x := a;\ntype(a)"},
	{"operand-error-of-self-containing-list", "a := [1];\na[0] := a;\n1 + a"},
	{"event-state-containing-itself", sinkS2 + "sink s1\n kindmatch [\"c06.x\"]\n statematch {\"x\" : 1}\n{\n hx.rec(\"s1\")\n}\n" +
		"s := {\"k\" : 1};\ns.x := s;\naddEventAndWait(\"e1\", \"c06.x\", s)"},
}

func (h *harness) streamCyclic() {
	c := h.c
	for i, cc := range cyclicCases {
		if !c.Take("cyclic", i) {
			continue
		}
		c.Begin(0, "cyclic", i, cc.src)
		e := newEnv(1)
		o := e.eval(preamble + cc.src)
		e.close()
		c.End(0)
		h.account("cyclic", o)
		if o.panicked {
			h.violation(o.key, "panic reached the host for a value that contains itself: "+firstLine(o.msg), "cyclic", i, cc.src, map[string]interface{}{"panic": trunc(o.msg, 1500)})
		} else {
			c.NontrivialKey("cyclic|" + cc.name)
		}
	}
}

// (a) seeded random expressions.
type rgen struct {
	r     *core.Rand
	avoid string // variable that must not be mentioned (no self-containing values outside the cyclic stream)
}

func (g *rgen) variable() string {
	for {
		if v := []string{"a", "b", "c"}[g.r.Intn(3)]; v != g.avoid {
			return v
		}
	}
}

var rcalls = []string{"len", "type", "concat", "add", "del", "f", "math.sqrt", "math.floor", "timestamp", "new", "doc", "range", "raise", "math.pow"}

func (g *rgen) leaf() string {
	if g.r.Chance(1, 4) {
		if g.r.Chance(1, 4) {
			return "nosuch"
		}
		return g.variable()
	}
	return universe[g.r.Intn(len(universe))].src
}

func (g *rgen) expr(d int) string {
	if d <= 0 || g.r.Chance(1, 5) {
		return g.leaf()
	}
	switch g.r.Intn(10) {
	case 0, 1, 2, 3:
		return g.expr(d-1) + " " + binops[g.r.Intn(len(binops))] + " " + g.expr(d-1)
	case 4:
		return unops[g.r.Intn(len(unops))] + g.expr(d-1)
	case 5:
		return "(" + g.expr(d-1) + ")"
	case 6:
		n := g.r.Intn(4)
		parts := make([]string, n)
		for i := range parts {
			parts[i] = g.expr(d - 1)
		}
		return "[" + strings.Join(parts, ", ") + "]"
	case 7:
		return "{" + g.expr(d-1) + " : " + g.expr(d-1) + "}"
	case 8:
		v := g.variable()
		if g.r.Bool() {
			return v + "[" + g.expr(d-1) + "]"
		}
		return v + "[" + g.expr(d-1) + "][" + g.expr(d-1) + "]"
	default:
		fn := rcalls[g.r.Intn(len(rcalls))]
		n := g.r.Intn(4)
		parts := make([]string, n)
		for i := range parts {
			parts[i] = g.expr(d - 1)
		}
		return fn + "(" + strings.Join(parts, ", ") + ")"
	}
}

func (h *harness) streamRandom() {
	c := h.c
	n := c.Pick(16000, 400000)
	const stream = "rand-expr"
	for i := 0; i < n; i++ {
		if !c.Take(stream, i) {
			continue
		}
		r := c.Rng(stream, i)
		g := &rgen{r: r}
		pre := preamble
		for _, v := range []string{"a", "b", "c"} {
			pre += v + " := " + universe[r.Intn(len(universe))].src + ";\n"
		}
		var x string
		switch r.Intn(6) {
		case 0:
			// the stored value never mentions a: a value containing itself is
			// the business of the cyclic stream only
			idx := g.expr(2)
			g.avoid = "a"
			x = "a[" + idx + "] := " + g.expr(2) + "\na"
			g.avoid = ""
		case 1:
			x = "if " + g.expr(3) + " {\n " + g.expr(2) + "\n} else {\n " + g.expr(2) + "\n}"
		default:
			x = g.expr(r.Range(2, 4))
		}
		h.checkX(stream, i, pre, x, i%8 == 0, 1+3*(i%2))
	}
}
