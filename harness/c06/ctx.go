package c06

import "strings"

// (h) every place of the grammar that evaluates a sub-expression, crossed with
// expressions whose own evaluation fails (or yields an odd value). The random
// and template streams put literals into these places; a literal never fails,
// so the error path of the construct around it (loop guards, iterators,
// parameter defaults, map keys, except / otherwise / finally blocks, ...) was
// only reached by accident. The product is enumerated completely.

var ctxForms = []struct{ name, text string }{
	{"stmt", "$E"},
	{"assign", "x := $E\nx"},
	{"let", "let x := $E"},
	{"assign-index", "x := [1, 2]\nx[$E] := 1"},
	{"assign-index-value", "x := [1, 2]\nx[0] := $E"},
	{"assign-member-value", "x := {}\nx.a := $E"},
	{"destructure", "[p, q] := $E"},
	{"if", "if $E {\n hx.rec(1)\n}"},
	{"elif", "if false {\n 1\n} elif $E {\n hx.rec(2)\n} else {\n 3\n}"},
	{"if-body", "if true {\n $E\n}"},
	{"else-body", "if false {\n 1\n} else {\n $E\n}"},
	{"loop-guard", "for $E {\n break\n}"},
	{"loop-guard-later", "func gd(n) {\n if n > 1 {\n  return $E\n }\n return true\n}\nn := 0\nfor gd(n) {\n n := n + 1\n if n > 5 {\n  break\n }\n}"},
	{"loop-guard-and", "n := 0\nfor n < 3 and $E {\n n := n + 1\n}"},
	{"loop-guard-body", "n := 0\nfor n < 3 {\n n := n + 1\n $E\n}"},
	{"loop-in", "for v in $E {\n hx.rec(v)\n}"},
	{"loop-in-destructure", "for [p, q] in $E {\n hx.rec(p)\n}"},
	{"loop-in-body", "for v in [1, 2] {\n $E\n}"},
	{"loop-in-body-after-continue", "for v in [1, 2, 3] {\n if v == 1 {\n  continue\n }\n $E\n}"},
	{"loop-range-arg", "for v in range($E) {\n break\n}"},
	{"return", "func g() {\n return $E\n}\ng()"},
	{"func-body", "func g() {\n $E\n return 1\n}\ng()"},
	{"func-default", "func g(a=$E) {\n return a\n}\ng()"},
	{"func-default-unused", "func g(a=$E) {\n return a\n}\ng(1)"},
	{"call-arg", "f($E)"},
	{"call-arg2", "concat([1], $E)"},
	{"callee", "($E)(1)"},
	{"method-arg", "o := {\"m\" : func (a) {\n return a\n}}\no.m($E)"},
	{"list-item", "[1, $E, 2]"},
	{"map-key", "{$E : 1}"},
	{"map-value", "{1 : $E}"},
	{"index", "x := [1, 2]\nx[$E]"},
	{"index-of", "($E)[0]"},
	{"member-of", "x := $E\nx.a"},
	{"not", "not $E"},
	{"neg", "-$E"},
	{"and-left", "$E and true"},
	{"and-right", "true and $E"},
	{"or-right", "false or $E"},
	{"plus-left", "$E + 1"},
	{"plus-right", "1 + $E"},
	{"cmp", "$E < 1"},
	{"eq", "$E == $E"},
	{"in-left", "$E in [1]"},
	{"in-right", "1 in $E"},
	{"notin-right", "1 notin $E"},
	{"like-left", "$E like \"a\""},
	{"like-right", "\"a\" like $E"},
	{"hasprefix", "\"a\" hasprefix $E"},
	{"interpolation", "\"v: {{$E}}\""},
	{"mutex-body", "mutex m {\n $E\n}"},
	{"try-body-finally", "try {\n $E\n} finally {\n hx.rec(\"fin\")\n}"},
	{"except-body", "try {\n raise(\"a\")\n} except e {\n $E\n}"},
	{"except-body-finally", "try {\n raise(\"a\")\n} except e {\n $E\n} finally {\n hx.rec(\"fin\")\n}"},
	{"otherwise-body", "try {\n 1\n} except e {\n 2\n} otherwise {\n $E\n}"},
	{"finally-body", "try {\n 1\n} finally {\n $E\n}"},
	{"finally-body-after-error", "try {\n raise(\"a\")\n} finally {\n $E\n}"},
	{"except-type", "try {\n raise(\"a\")\n} except $E {\n 1\n}"},
	{"raise-arg1", "raise($E)"},
	{"raise-arg2", "raise(\"a\", $E)"},
	{"raise-arg3", "raise(\"a\", \"b\", $E)"},
	{"new-arg", "new($E)"},
	{"new-init-arg", "new({\"init\" : func (a) {\n this.a := a\n}}, $E)"},
	{"init-body", "new({\"init\" : func () {\n $E\n}})"},
	{"len", "len($E)"},
	{"doc", "doc($E)"},
	{"type", "type($E)"},
	{"import-path", "import $E as q"},
	{"sink-kindmatch", "sink s7\n kindmatch $E\n{\n}"},
	{"sink-priority", "sink s7\n kindmatch [\"a\"]\n priority $E\n{\n}"},
	{"sink-statematch", "sink s7\n kindmatch [\"a\"]\n statematch $E\n{\n}"},
	{"sink-suppresses", "sink s7\n kindmatch [\"a\"]\n suppresses $E\n{\n}"},
	{"nested-func-loop", "func g() {\n for v in [1] {\n  try {\n   return $E\n  } finally {\n   hx.rec(\"fin\")\n  }\n }\n}\ng()"},
}

var ctxExprs = []string{
	"1 + \"a\"",
	"nosuch()",
	"nosuchvar.a",
	"nosuchvar",
	"[1][5]",
	"[1][\"a\"]",
	"raise(\"x\")",
	"raise(\"x\", \"d\", [1])",
	"1 / 0",
	"1 // 0",
	"1 % 0",
	"null.a",
	"{}[1][2]",
	"\"a\" > 1",
	"f()()",
	"-\"a\"",
	"not \"a\"",
	"1 like \"[\"",
	"math.nosuch(1)",
	"len()",
	"len(1)",
	"[1][null]",
	"true and 1",
	"1 in 1",
	"f(1)(2)",
	"\"{{1 +}}\"",
	"\"{{nosuch()}}\"",
	"new(1)",
	"(b=1)",
	"1 : 2",
	"break",
	"continue",
	"return 1",
	// odd values that do not fail by themselves
	"null",
	"f",
	"[]",
	"{}",
	"\"\"",
	"math.sqrt(-1)",
	"1 / math.sqrt(-1)",
	"range(1, 3)",
	"[[1, 2], [3]]",
	"{\"a\" : null}",
}

func (h *harness) streamCtx() {
	c := h.c
	const stream = "ctx"
	i := -1
	for _, f := range ctxForms {
		for _, e := range ctxExprs {
			i++
			if !c.Take(stream, i) {
				continue
			}
			x := strings.ReplaceAll(f.text, "$E", e)
			c.Event("ctx.form."+f.name, 1)
			h.checkX(stream, i, preamble, x, i%3 == 0, 1+3*(i%2))
		}
	}
}
