// Package c04 holds the runtime monitor for property C04: control flow and
// try/except/otherwise/finally follow the reference semantics (DESIGN.md
// section 4). Generated programs (gen.go, over the AST of ast.go) are run by the
// real interpreter of /repo and by an independent big-step reference
// interpreter (ref.go); the ordered marker trace, the final value and the error
// (type/detail/data, also as seen through `except ... as e`) are compared.
package c04

import (
	"fmt"
	"sort"
	"strconv"
	"strings"
	"sync"
	"sync/atomic"
	"time"

	"github.com/krotik/common/datautil"
	"github.com/krotik/ecal/engine/pool"
	"github.com/krotik/ecal/interpreter"
	"github.com/krotik/ecal/parser"
	"github.com/krotik/ecal/scope"
	"github.com/krotik/ecal/stdlib"
	"github.com/krotik/ecal/util"

	"verif/harness/core"
)

func init() { core.Register("C04", Run) }

// ---------------------------------------------------------------------------
// the marker function c04.rec(id, args...) - registered once with
// stdlib.AddStdlibFunc; the evaluation's thread id selects the recorder
// ---------------------------------------------------------------------------

type recorder struct {
	trace   [][]string
	calls   int
	steps   int
	runaway bool
}

// logical bounds on non-termination (never wall-clock): marker calls and AST
// node visits of one evaluation. The largest generated program needs far less.
const maxMarkerCalls = 20000
const maxNodeVisits = 200000

var maxStepsSeen int64

type runaway struct{}

var recorders sync.Map // tid -> *recorder
var nextTid uint64 = 1000

type recFunc struct{}

func (recFunc) Run(instanceID string, vs parser.Scope, is map[string]interface{}, tid uint64, args []interface{}) (interface{}, error) {
	v, ok := recorders.Load(tid)
	if !ok {
		panic("c04: marker call from an unknown evaluation")
	}
	r := v.(*recorder)
	r.calls++
	if r.calls > maxMarkerCalls {
		// logical bound on non-termination: every generated block starts with a marker
		r.runaway = true
		panic(runaway{})
	}
	ent := make([]string, 0, len(args)+3)
	for i, a := range args {
		if i > 0 {
			if m, isMap := a.(map[interface{}]interface{}); isMap {
				if _, has := m["error"]; has {
					// the error object bound by `except ... as e`
					ent = append(ent, "err", canon(m["type"]), canon(m["detail"]), canon(m["data"]))
					continue
				}
			}
		}
		ent = append(ent, canon(a))
	}
	r.trace = append(r.trace, ent)
	return nil, nil
}

func (recFunc) DocString() (string, error) { return "records a marker of the C04 harness", nil }

// stepGuard is attached as the provider's debugger only to count visited AST
// nodes (util.ECALDebugger is the documented observation interface); it never
// suspends, never returns an error and panics with runaway{} when the bound
// is exceeded (a panic cannot be swallowed by an except clause of the program).
type stepGuard struct{}

func (stepGuard) VisitState(node *parser.ASTNode, vs parser.Scope, tid uint64) util.TraceableRuntimeError {
	if v, ok := recorders.Load(tid); ok {
		r := v.(*recorder)
		r.steps++
		if r.steps > maxNodeVisits {
			r.runaway = true
			panic(runaway{})
		}
	}
	return nil
}
func (stepGuard) VisitStepInState(node *parser.ASTNode, vs parser.Scope, tid uint64) util.TraceableRuntimeError {
	return nil
}
func (stepGuard) VisitStepOutState(node *parser.ASTNode, vs parser.Scope, tid uint64, soErr error) util.TraceableRuntimeError {
	return nil
}
func (stepGuard) HandleInput(input string) (interface{}, error)                          { return nil, nil }
func (stepGuard) StopThreads(d time.Duration) bool                                       { return false }
func (stepGuard) BreakOnStart(flag bool)                                                 {}
func (stepGuard) BreakOnError(flag bool)                                                 {}
func (stepGuard) SetLockingState(m map[string]uint64, l *datautil.RingBuffer)            {}
func (stepGuard) SetThreadPool(tp *pool.ThreadPool)                                      {}
func (stepGuard) RecordThreadFinished(tid uint64)                                        {}
func (stepGuard) SetBreakPoint(source string, line int)                                  {}
func (stepGuard) DisableBreakPoint(source string, line int)                              {}
func (stepGuard) RemoveBreakPoint(source string, line int)                               {}
func (stepGuard) ExtractValue(threadID uint64, varName string, destVarName string) error { return nil }
func (stepGuard) InjectValue(threadID uint64, varName string, expression string) error   { return nil }
func (stepGuard) Continue(threadID uint64, contType util.ContType)                       {}
func (stepGuard) Status() interface{}                                                    { return nil }
func (stepGuard) Describe(threadID uint64) interface{}                                   { return nil }
func (stepGuard) LockState() interface{}                                                 { return nil }

// ---------------------------------------------------------------------------
// running the real interpreter
// ---------------------------------------------------------------------------

func runReal(erp *interpreter.ECALRuntimeProvider, src string) outcome {
	rec := &recorder{}
	tid := atomic.AddUint64(&nextTid, 1)
	recorders.Store(tid, rec)
	defer recorders.Delete(tid)
	var o outcome
	key, msg, panicked := core.Guard(func() {
		ast, err := parser.ParseWithRuntime("c04", src, erp)
		if err != nil {
			o.abnormal = "parse error: " + err.Error()
			return
		}
		if err = ast.Runtime.Validate(); err != nil {
			o.abnormal = "validation error: " + err.Error()
			return
		}
		vs := scope.NewScope(scope.GlobalScope)
		v, err := ast.Runtime.Eval(vs, make(map[string]interface{}), tid)
		if err != nil {
			o.hasErr = true
			switch e := err.(type) {
			case *util.RuntimeErrorWithDetail:
				o.errType, o.errDetail, o.errData = canon(e.Type.Error()), canon(e.Detail), canon(e.Data)
			case *util.RuntimeError:
				o.errType, o.errDetail, o.errData = canon(e.Type.Error()), canon(e.Detail), canon(nil)
			default:
				o.errType, o.errDetail, o.errData = fmt.Sprintf("<%T>", err), canon(err.Error()), canon(nil)
			}
			return
		}
		o.value = canon(v)
	})
	o.trace = rec.trace
	if int64(rec.steps) > maxStepsSeen {
		maxStepsSeen = int64(rec.steps)
	}
	if rec.runaway {
		o.trace = nil
		o.abnormal = fmt.Sprintf("no termination within %d marker calls / %d AST node visits", maxMarkerCalls, maxNodeVisits)
	} else if panicked {
		o.abnormal = key + "\n" + msg
	}
	return o
}

// ---------------------------------------------------------------------------
// comparison
// ---------------------------------------------------------------------------

func eqField(ref, real string) bool { return ref == wild || ref == real }

// diffOutcome returns "" when the real outcome is one the reference allows,
// else a category and a description of the first difference.
func diffOutcome(ref, real outcome) (string, string) {
	if real.abnormal != "" {
		cat := "abnormal"
		switch {
		case strings.HasPrefix(real.abnormal, "parse error"):
			cat = "parse-error"
		case strings.HasPrefix(real.abnormal, "validation error"):
			cat = "validation-error"
		case strings.HasPrefix(real.abnormal, "no termination"):
			cat = "nontermination"
		case strings.HasPrefix(real.abnormal, "panic:"):
			cat = "panic"
		}
		return cat, real.abnormal
	}
	n := len(ref.trace)
	if len(real.trace) < n {
		n = len(real.trace)
	}
	for i := 0; i < n; i++ {
		a, b := ref.trace[i], real.trace[i]
		same := len(a) == len(b)
		for k := 0; same && k < len(a); k++ {
			same = eqField(a[k], b[k])
		}
		if !same {
			cat := "trace-order"
			if a[0] == b[0] {
				cat = "marker-values"
			}
			return cat, fmt.Sprintf("marker call %d: reference rec(%s), real rec(%s)", i, strings.Join(a, ", "), strings.Join(b, ", "))
		}
	}
	if len(ref.trace) != len(real.trace) {
		if len(real.trace) > n {
			return "trace-extra", fmt.Sprintf("real run continues with rec(%s) after the reference trace ended (%d calls)", strings.Join(real.trace[n], ", "), n)
		}
		return "trace-missing", fmt.Sprintf("real run ends after %d marker calls, reference continues with rec(%s)", n, strings.Join(ref.trace[n], ", "))
	}
	if ref.hasErr != real.hasErr {
		if real.hasErr {
			return "unexpected-error", fmt.Sprintf("Eval returned error type=%s detail=%s, reference completes normally with value %s", real.errType, real.errDetail, ref.value)
		}
		return "missing-error", fmt.Sprintf("Eval returned value %s, reference ends with error type=%s detail=%s data=%s", real.value, ref.errType, ref.errDetail, ref.errData)
	}
	if ref.hasErr {
		if !eqField(ref.errType, real.errType) || !eqField(ref.errDetail, real.errDetail) || !eqField(ref.errData, real.errData) {
			return "error-fields", fmt.Sprintf("Eval error type=%s detail=%s data=%s, reference type=%s detail=%s data=%s",
				real.errType, real.errDetail, real.errData, ref.errType, ref.errDetail, ref.errData)
		}
		return "", ""
	}
	if !eqField(ref.value, real.value) {
		return "final-value", fmt.Sprintf("Eval returned %s, reference %s", real.value, ref.value)
	}
	return "", ""
}

// verdict of one program
type verdict struct {
	ok       bool
	devs     []string // known deviations that explain the real outcome (sorted)
	category string   // for an unexplained difference
	first    string   // description of the first difference from the true reference
	real     outcome
	ref      outcome
	devRef   *outcome
}

func (v verdict) sig() string {
	if v.ok {
		return "ok"
	}
	if len(v.devs) > 0 {
		return "dev:" + strings.Join(v.devs, ",")
	}
	if v.real.abnormal != "" {
		// parse error / panic / non-termination: shrinking stays within the class
		return "diff:" + v.category
	}
	return "diff"
}

func judge(erp *interpreter.ECALRuntimeProvider, p *prog, evOut map[string]int) verdict {
	src := p.source()
	real := runReal(erp, src)
	ref, _, events := runRef(p, nil)
	if evOut != nil {
		for k, n := range events {
			evOut[k] += n
		}
	}
	v := verdict{real: real, ref: ref}
	cat, first := diffOutcome(ref, real)
	if cat == "" {
		v.ok = true
		return v
	}
	v.category, v.first = cat, first
	if real.abnormal != "" {
		return v
	}
	// explain by known deviations: smallest subset of switches under which the
	// reference reproduces the real outcome exactly
	n := len(allDevs)
	masks := make([]int, 0, 1<<n)
	for m := 1; m < 1<<n; m++ {
		masks = append(masks, m)
	}
	sort.SliceStable(masks, func(i, j int) bool { return popcount(masks[i]) < popcount(masks[j]) })
	for _, m := range masks {
		dev := map[string]bool{}
		for i, d := range allDevs {
			if m&(1<<i) != 0 {
				dev[d] = true
			}
		}
		dref, fired, _ := runRef(p, dev)
		if len(fired) != len(dev) {
			continue // a switch that did not influence the run: covered by a smaller subset
		}
		if c, _ := diffOutcome(dref, real); c == "" {
			for d := range fired {
				v.devs = append(v.devs, d)
			}
			sort.Strings(v.devs)
			v.devRef = &dref
			return v
		}
	}
	return v
}

func popcount(m int) int {
	n := 0
	for ; m != 0; m &= m - 1 {
		n++
	}
	return n
}

// ---------------------------------------------------------------------------
// shrinking along the generator's own structure
// ---------------------------------------------------------------------------

// reductions returns all programs that are one step smaller than p.
func reductions(p *prog) []*prog {
	var out []*prog
	// addressing: the k-th block in pre-order of the clone
	var blocks func(b *[]stmt, acc *[]*[]stmt)
	blocks = func(b *[]stmt, acc *[]*[]stmt) {
		*acc = append(*acc, b)
		for _, s := range *b {
			for _, cb := range childBlocks(s) {
				blocks(cb, acc)
			}
		}
	}
	var orig []*[]stmt
	blocks(&p.body, &orig)
	for bi := range orig {
		for si := range *orig[bi] {
			// (a) delete statement si of block bi
			{
				q := p.clone()
				var bl []*[]stmt
				blocks(&q.body, &bl)
				b := bl[bi]
				*b = append(append([]stmt(nil), (*b)[:si]...), (*b)[si+1:]...)
				out = append(out, q)
			}
			s := (*orig[bi])[si]
			// (b) replace a compound statement by one of its blocks
			for ci := range childBlocks(s) {
				q := p.clone()
				var bl []*[]stmt
				blocks(&q.body, &bl)
				b := bl[bi]
				inner := *childBlocks((*b)[si])[ci]
				nb := append([]stmt(nil), (*b)[:si]...)
				nb = append(nb, inner...)
				nb = append(nb, (*b)[si+1:]...)
				*b = nb
				out = append(out, q)
			}
			// (c) drop clauses of a try / branches of an if
			switch x := s.(type) {
			case *sTry:
				for ei := range x.excepts {
					q := p.clone()
					var bl []*[]stmt
					blocks(&q.body, &bl)
					t := (*bl[bi])[si].(*sTry)
					t.excepts = append(append([]*exc(nil), t.excepts[:ei]...), t.excepts[ei+1:]...)
					out = append(out, q)
				}
				if x.hasOtherwise {
					q := p.clone()
					var bl []*[]stmt
					blocks(&q.body, &bl)
					t := (*bl[bi])[si].(*sTry)
					t.hasOtherwise, t.otherwise = false, nil
					out = append(out, q)
				}
				if x.hasFinally {
					q := p.clone()
					var bl []*[]stmt
					blocks(&q.body, &bl)
					t := (*bl[bi])[si].(*sTry)
					t.hasFinally, t.finally = false, nil
					out = append(out, q)
				}
			case *sIf:
				if x.hasElse {
					q := p.clone()
					var bl []*[]stmt
					blocks(&q.body, &bl)
					t := (*bl[bi])[si].(*sIf)
					t.hasElse, t.els = false, nil
					out = append(out, q)
				}
				if len(x.guards) > 1 {
					for gi := range x.guards {
						q := p.clone()
						var bl []*[]stmt
						blocks(&q.body, &bl)
						t := (*bl[bi])[si].(*sIf)
						t.guards = append(append([]expr(nil), t.guards[:gi]...), t.guards[gi+1:]...)
						t.blocks = append(append([][]stmt(nil), t.blocks[:gi]...), t.blocks[gi+1:]...)
						out = append(out, q)
					}
				}
			case *sMark:
				if len(x.args) > 0 {
					q := p.clone()
					var bl []*[]stmt
					blocks(&q.body, &bl)
					(*bl[bi])[si].(*sMark).args = nil
					out = append(out, q)
				}
			}
		}
	}
	return out
}

func nonEmptyBlocks(p *prog) bool {
	ok := true
	var walk func(b []stmt)
	walk = func(b []stmt) {
		if len(b) == 0 {
			ok = false
		}
		for _, s := range b {
			for _, cb := range childBlocks(s) {
				walk(*cb)
			}
		}
	}
	for _, s := range p.body {
		for _, cb := range childBlocks(s) {
			walk(*cb)
		}
	}
	return ok
}

// shrink minimises p while the verdict signature stays the same.
func shrink(erp *interpreter.ECALRuntimeProvider, p *prog, sig string, budget int) (*prog, verdict) {
	cur := p
	curV := judge(erp, cur, nil)
	for progress := true; progress && budget > 0; {
		progress = false
		for _, q := range reductions(cur) {
			if !q.valid() || !nonEmptyBlocks(q) {
				continue
			}
			budget--
			if budget <= 0 {
				break
			}
			v := judge(erp, q, nil)
			if v.sig() == sig {
				cur, curV = q, v
				progress = true
				break
			}
		}
	}
	return cur, curV
}

// ---------------------------------------------------------------------------
// the check
// ---------------------------------------------------------------------------

type runner struct {
	c        *core.Ctx
	erp      *interpreter.ECALRuntimeProvider
	events   map[string]int
	reported map[string]int // finding key -> records written by this batch
}

const maxReportsPerKey = 3

func traceText(t [][]string) string {
	parts := make([]string, len(t))
	for i, e := range t {
		parts[i] = "(" + strings.Join(e, " ") + ")"
	}
	s := strings.Join(parts, " ")
	if len(s) > 1500 {
		s = s[:1500] + " …"
	}
	return s
}

func outcomeText(o outcome) map[string]interface{} {
	m := map[string]interface{}{"trace": traceText(o.trace)}
	if o.abnormal != "" {
		a := o.abnormal
		if len(a) > 1500 {
			a = a[:1500]
		}
		m["abnormal"] = a
	} else if o.hasErr {
		m["error"] = map[string]string{"type": o.errType, "detail": o.errDetail, "data": o.errData}
	} else {
		m["value"] = o.value
	}
	return m
}

func (r *runner) one(stream string, idx int, p *prog) {
	c := r.c
	src := p.source()
	c.Begin(0, stream, idx, src)
	v := judge(r.erp, p, r.events)
	c.End(0)
	r.events["real.marker-calls"] += len(v.real.trace)
	if v.real.hasErr {
		r.events["real.eval.error"]++
	} else if v.real.abnormal == "" {
		r.events["real.eval.value"]++
	}
	// non-trivial: the reference run left at least one block abruptly or
	// dispatched a handler / otherwise / finally or iterated a loop
	if len(v.ref.trace) > 2 || v.ref.hasErr {
		c.Nontrivial(core.Hash64(src))
	}
	if idx%9973 == 11 {
		c.Sample(stream, map[string]interface{}{"source": src, "reference": outcomeText(v.ref), "real": outcomeText(v.real), "verdict": v.sig()})
	}
	if v.ok {
		r.events["verdict.agree"]++
		return
	}
	sig := v.sig()
	r.events["verdict."+sig]++
	// report budget per finding key and batch: the first few cases are shrunk and
	// written out, the rest is only counted (events)
	firstKey := "diff:" + v.category
	if len(v.devs) > 0 {
		firstKey = "dev:" + v.devs[0]
	}
	if r.reported[firstKey] >= maxReportsPerKey && !c.Replay() {
		r.events["unreported-repeat."+firstKey]++
		return
	}
	if v.category == "nontermination" && r.reported[firstKey] >= 1 && !c.Replay() {
		r.events["unreported-repeat."+firstKey]++
		return
	}
	r.reported[firstKey]++
	min, mv := p, v
	switch {
	case v.category == "nontermination":
		min, mv = shrink(r.erp, p, sig, 200) // every attempt may cost the full node budget
	case v.real.abnormal == "" || v.category == "panic":
		min, mv = shrink(r.erp, p, sig, 3000)
	}
	detail := map[string]interface{}{
		"source":           src,
		"minimal_source":   min.source(),
		"minimal_features": min.featureKey(),
		"first_difference": mv.first,
		"real":             outcomeText(mv.real),
		"reference":        outcomeText(mv.ref),
	}
	if len(v.devs) > 0 {
		detail["explained_by_deviation_switches"] = v.devs
		if mv.devRef != nil {
			detail["reference_with_deviations"] = outcomeText(*mv.devRef)
		}
		for _, d := range v.devs {
			c.Violation("dev:"+d, "known deviation "+d+": "+mv.first, stream, idx, detail)
		}
		return
	}
	key := "diff:" + mv.category
	if mv.category == "panic" {
		key = strings.SplitN(mv.real.abnormal, "\n", 2)[0]
	} else if mv.real.abnormal == "" {
		key += ":" + min.featureKey()
	}
	c.Violation(key, "real interpreter differs from the reference semantics ("+mv.category+"): "+mv.first, stream, idx, detail)
}

// Run is the check.
func Run(c *core.Ctx) {
	c.Note("rule", "programs over the harness' own AST: blocks of marker; item; marker where item is nothing, an exit "+
		"(raise A/B with data, runtime error, break/continue inside a loop, return inside a function, each also conditional on "+
		"one iteration of the innermost loop) or a construct (if/elif/else in 5-7 guard layouts, guard loop, range loop over "+
		"5 argument forms incl. negative step, equal ends and one argument, list loop incl. destructuring and empty list, map loop "+
		"as [k,v] and as one variable, function definition + call, try with 11 handler shapes (none, bare, `except e`, single "+
		"type without as, single type as e, several types with/without as, typed+bare in both orders, two typed clauses, a "+
		"runtime error type) x otherwise x finally, the first handler and the otherwise block ending in nothing / raise / "+
		"break / continue / return). Stream exh2: every program of construct nesting depth <= 2 (complete enumeration of the "+
		"choice tree). Stream exh3 (quick) / exh3w (thorough): every program of depth <= 3 over reduced menus (guard loop, list loop, "+
		"function, try with 5 (exh3) or all 11 (exh3w) handler shapes x otherwise x finally; exits raise A, break, continue, return, "+
		"conditional break/continue/return). Stream rnd3/rnd4: seeded random programs of depth 3/4 with wider menus (more range forms, comparison "+
		"operators, handler shapes, data values, two items per block, constructs inside handlers and finally). Exclusions: "+
		"guards are boolean expressions; no abrupt completion inside finally; break/continue only inside a loop of the same "+
		"function; return only inside a function; the value of a function that ends without return and the detail text of "+
		"runtime errors are not compared. Non-trivial = distinct source text whose reference run records more than the two "+
		"top-level markers or ends in an error.")
	c.Note("exhaustive", "true")
	c.Note("oracle", "ordered trace of c04.rec(id, values...) calls (Go function registered with stdlib.AddStdlibFunc; error objects "+
		"bound by except are reduced to type/detail/data), value or error (type/detail/data) of Runtime.Eval; known deviations "+
		"are switches of the reference: "+strings.Join(allDevs, ", "))

	stdlib.AddStdlibPkg("c04", "marker functions of the C04 harness")
	if err := stdlib.AddStdlibFunc("c04", "rec", recFunc{}); err != nil {
		panic(err)
	}
	// one provider for all cases of the batch; Cron.Stop can block on the cron
	// goroutine's tick (krotik/common), so it is never waited for
	erp := interpreter.NewECALRuntimeProvider("c04", nil, nil)
	defer func() { go erp.Cron.Stop() }()
	erp.Debugger = stepGuard{}
	r := &runner{c: c, erp: erp, events: map[string]int{}, reported: map[string]int{}}
	defer func() {
		for k, n := range r.events {
			c.Event(k, int64(n))
		}
		if c.Batch == 0 {
			c.Note("max_ast_node_visits_of_one_program_in_batch0", strconv.FormatInt(maxStepsSeen, 10))
		}
	}()

	// exhaustive: all programs of depth <= 2 (full menus), and all programs of
	// depth <= 3 over reduced menus (thorough: with all handler shapes)
	for _, es := range []struct {
		stream string
		mode   int
		depth  int
	}{{"exh2", mExh2, 2}, {[]string{"exh3", "exh3w"}[c.Pick(0, 1)], c.Pick(mExh3, mExh3Wide), 3}} {
		o := &odometer{}
		idx := 0
		for {
			o.pos = 0
			p := genProgram(o, es.mode, es.depth)
			if c.Take(es.stream, idx) {
				r.one(es.stream, idx, p)
			}
			idx++
			if !o.next() {
				break
			}
		}
		if c.Batch == 0 {
			c.Note("exhaustive_programs_"+es.stream, strconv.Itoa(idx))
		}
	}
	// random: depth 3 and 4
	for _, rs := range []struct {
		stream string
		depth  int
		n      int
	}{{"rnd3", 3, c.Pick(20000, 2000000)}, {"rnd4", 4, c.Pick(2000, 200000)}} {
		for i := 0; i < rs.n; i++ {
			if !c.Take(rs.stream, i) {
				continue
			}
			p := genProgram(rndChooser{c.Rng(rs.stream, i)}, mRnd, rs.depth)
			r.one(rs.stream, i, p)
		}
	}
}
