// Package c04 holds the runtime monitors for property C04 (see DESIGN.md section 4).
package c04

import "verif/harness/core"

func init() { core.Register("C04", Run) }

// Run is the check.
func Run(c *core.Ctx) {
}
