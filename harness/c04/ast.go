package c04

import (
	"fmt"
	"sort"
	"strconv"
	"strings"
)

// ---------------------------------------------------------------------------
// The generator's own AST. Nothing here comes from /repo: programs are built
// as these trees, printed to ECAL source for the real interpreter and
// interpreted directly by the reference (ref.go).
// ---------------------------------------------------------------------------

type expr interface{}

type (
	eNum      float64
	eStr      string
	eBool     bool
	eNull     struct{}
	eVar      string
	eList     []expr
	eMapEntry struct{ k, v expr }
	eMap      []eMapEntry
	eBin      struct {
		op   string // == != < > +
		l, r expr
	}
	// eRtErr is an expression whose evaluation raises a runtime error.
	eRtErr int
)

// runtime error expressions: source text and the type string of the error
var rtErrSrc = []string{`1 + "a"`, `not 5`, `1 in 2`, `nosuch()`}
var rtErrType = []string{"Operand is not a number", "Operand is not a boolean", "Operand is not a list", "Unknown construct"}

type stmt interface{}

type (
	// sMark is rec(id, args...) - the observation point.
	sMark struct {
		id   int
		args []expr
	}
	sIf struct {
		guards  []expr
		blocks  [][]stmt
		els     []stmt
		hasElse bool
	}
	// sGuardLoop prints as: cvar := 0 ; for cvar < limit { cvar := cvar + 1 ; body }
	sGuardLoop struct {
		cvar  string
		limit int
		body  []stmt
	}
	// sIterLoop: kind 0 range(rargs...), 1 list literal coll, 2 map coll via variable mvar,
	// 3 iterator expression coll that raises a runtime error
	sIterLoop struct {
		vars  []string
		kind  int
		rargs []float64
		coll  expr
		mvar  string
		body  []stmt
	}
	sBreak    struct{}
	sContinue struct{}
	sReturn   struct{ e expr }
	sRaise    struct {
		typ, detail string
		data        expr
	}
	// sExpr prints as: tmp := <e>
	sExpr struct{ e expr }
	// sFunc prints as: func name() { body } ; res := name()
	sFunc struct {
		name  string
		body  []stmt
		calls int // number of calls printed after the definition (>= 1)
	}
	sTry struct {
		body         []stmt
		excepts      []*exc
		otherwise    []stmt
		hasOtherwise bool
		finally      []stmt
		hasFinally   bool
	}
)

// exc is one except clause: `except { }` (no types, no variable),
// `except e { }` (ident), `except "A", "B" { }`, `except "A" as e { }`.
type exc struct {
	types []string
	asVar string // bound variable ("" = none); with no types this is the `except e` form
	body  []stmt
}

type prog struct {
	body []stmt
}

// ---------------------------------------------------------------------------
// printing
// ---------------------------------------------------------------------------

func fmtNum(f float64) string { return strconv.FormatFloat(f, 'f', -1, 64) }

func exprSrc(e expr) string {
	switch x := e.(type) {
	case eNum:
		return fmtNum(float64(x))
	case eStr:
		return strconv.Quote(string(x))
	case eBool:
		if x {
			return "true"
		}
		return "false"
	case eNull:
		return "null"
	case eVar:
		return string(x)
	case eList:
		parts := make([]string, len(x))
		for i, v := range x {
			parts[i] = exprSrc(v)
		}
		return "[" + strings.Join(parts, ", ") + "]"
	case eMap:
		parts := make([]string, len(x))
		for i, kv := range x {
			parts[i] = exprSrc(kv.k) + " : " + exprSrc(kv.v)
		}
		return "{" + strings.Join(parts, ", ") + "}"
	case eBin:
		return exprSrc(x.l) + " " + x.op + " " + exprSrc(x.r)
	case eRtErr:
		return rtErrSrc[int(x)]
	}
	panic(fmt.Sprintf("c04: unknown expr %T", e))
}

type printer struct {
	b   strings.Builder
	ind int
}

func (p *printer) line(s string) {
	for i := 0; i < p.ind; i++ {
		p.b.WriteString("  ")
	}
	p.b.WriteString(s)
	p.b.WriteByte('\n')
}

// cont appends to the previous line (which ends in "}\n") : "} else {"
func (p *printer) reopen(s string) {
	str := p.b.String()
	str = strings.TrimSuffix(str, "\n")
	p.b.Reset()
	p.b.WriteString(str)
	p.b.WriteString(" " + s + "\n")
}

func (p *printer) block(b []stmt) {
	p.ind++
	for _, s := range b {
		p.stmt(s)
	}
	p.ind--
	p.line("}")
}

func (p *printer) stmt(s stmt) {
	switch x := s.(type) {
	case *sMark:
		parts := []string{strconv.Itoa(x.id)}
		for _, a := range x.args {
			parts = append(parts, exprSrc(a))
		}
		p.line("c04.rec(" + strings.Join(parts, ", ") + ")")
	case *sIf:
		for i, g := range x.guards {
			if i == 0 {
				p.line("if " + exprSrc(g) + " {")
			} else {
				p.reopen("elif " + exprSrc(g) + " {")
			}
			p.block(x.blocks[i])
		}
		if x.hasElse {
			p.reopen("else {")
			p.block(x.els)
		}
	case *sGuardLoop:
		p.line(x.cvar + " := 0")
		p.line(fmt.Sprintf("for %s < %d {", x.cvar, x.limit))
		p.ind++
		p.line(x.cvar + " := " + x.cvar + " + 1")
		p.ind--
		p.block(x.body)
	case *sIterLoop:
		v := x.vars[0]
		if len(x.vars) > 1 {
			v = "[" + strings.Join(x.vars, ", ") + "]"
		}
		var it string
		switch x.kind {
		case 0:
			parts := make([]string, len(x.rargs))
			for i, a := range x.rargs {
				parts[i] = fmtNum(a)
			}
			it = "range(" + strings.Join(parts, ", ") + ")"
		case 1, 3:
			it = exprSrc(x.coll)
		case 2:
			p.line(x.mvar + " := " + exprSrc(x.coll))
			it = x.mvar
		}
		p.line("for " + v + " in " + it + " {")
		p.block(x.body)
	case *sBreak:
		p.line("break")
	case *sContinue:
		p.line("continue")
	case *sReturn:
		p.line("return " + exprSrc(x.e))
	case *sRaise:
		p.line("raise(" + strconv.Quote(x.typ) + ", " + strconv.Quote(x.detail) + ", " + exprSrc(x.data) + ")")
	case *sExpr:
		p.line("tmp := " + exprSrc(x.e))
	case *sFunc:
		p.line("func " + x.name + "() {")
		p.block(x.body)
		for i := 0; i < x.calls || i == 0; i++ {
			p.line("res := " + x.name + "()")
		}
	case *sTry:
		p.line("try {")
		p.block(x.body)
		for _, e := range x.excepts {
			h := "except"
			if len(e.types) > 0 {
				q := make([]string, len(e.types))
				for i, t := range e.types {
					q[i] = strconv.Quote(t)
				}
				h += " " + strings.Join(q, ", ")
				if e.asVar != "" {
					h += " as " + e.asVar
				}
			} else if e.asVar != "" {
				h += " " + e.asVar
			}
			p.reopen(h + " {")
			p.block(e.body)
		}
		if x.hasOtherwise {
			p.reopen("otherwise {")
			p.block(x.otherwise)
		}
		if x.hasFinally {
			p.reopen("finally {")
			p.block(x.finally)
		}
	default:
		panic(fmt.Sprintf("c04: unknown stmt %T", s))
	}
}

// source prints the program. `res` holds the value of the last function call
// and is the program's final value.
func (pr *prog) source() string {
	p := &printer{}
	p.line("res := 0")
	for _, s := range pr.body {
		p.stmt(s)
	}
	p.line("res")
	return p.b.String()
}

// ---------------------------------------------------------------------------
// structure helpers (clone, child blocks, features, validity)
// ---------------------------------------------------------------------------

func cloneBlock(b []stmt) []stmt {
	if b == nil {
		return nil
	}
	r := make([]stmt, len(b))
	for i, s := range b {
		r[i] = cloneStmt(s)
	}
	return r
}

func cloneStmt(s stmt) stmt {
	switch x := s.(type) {
	case *sMark:
		return &sMark{x.id, append([]expr(nil), x.args...)}
	case *sIf:
		n := &sIf{guards: append([]expr(nil), x.guards...), els: cloneBlock(x.els), hasElse: x.hasElse}
		for _, b := range x.blocks {
			n.blocks = append(n.blocks, cloneBlock(b))
		}
		return n
	case *sGuardLoop:
		return &sGuardLoop{x.cvar, x.limit, cloneBlock(x.body)}
	case *sIterLoop:
		return &sIterLoop{append([]string(nil), x.vars...), x.kind, append([]float64(nil), x.rargs...), x.coll, x.mvar, cloneBlock(x.body)}
	case *sBreak:
		return &sBreak{}
	case *sContinue:
		return &sContinue{}
	case *sReturn:
		return &sReturn{x.e}
	case *sRaise:
		return &sRaise{x.typ, x.detail, x.data}
	case *sExpr:
		return &sExpr{x.e}
	case *sFunc:
		return &sFunc{x.name, cloneBlock(x.body), x.calls}
	case *sTry:
		n := &sTry{body: cloneBlock(x.body), otherwise: cloneBlock(x.otherwise), hasOtherwise: x.hasOtherwise,
			finally: cloneBlock(x.finally), hasFinally: x.hasFinally}
		for _, e := range x.excepts {
			n.excepts = append(n.excepts, &exc{append([]string(nil), e.types...), e.asVar, cloneBlock(e.body)})
		}
		return n
	}
	panic(fmt.Sprintf("c04: clone of %T", s))
}

func (pr *prog) clone() *prog { return &prog{cloneBlock(pr.body)} }

// childBlocks returns pointers to all statement blocks directly below s.
func childBlocks(s stmt) []*[]stmt {
	switch x := s.(type) {
	case *sIf:
		var r []*[]stmt
		for i := range x.blocks {
			r = append(r, &x.blocks[i])
		}
		if x.hasElse {
			r = append(r, &x.els)
		}
		return r
	case *sGuardLoop:
		return []*[]stmt{&x.body}
	case *sIterLoop:
		return []*[]stmt{&x.body}
	case *sFunc:
		return []*[]stmt{&x.body}
	case *sTry:
		r := []*[]stmt{&x.body}
		for _, e := range x.excepts {
			r = append(r, &e.body)
		}
		if x.hasOtherwise {
			r = append(r, &x.otherwise)
		}
		if x.hasFinally {
			r = append(r, &x.finally)
		}
		return r
	}
	return nil
}

func excShape(e *exc) string {
	switch {
	case len(e.types) == 0 && e.asVar == "":
		return "bare"
	case len(e.types) == 0:
		return "ident"
	case len(e.types) == 1 && e.asVar == "":
		return "type"
	case len(e.types) == 1:
		return "type-as"
	case e.asVar == "":
		return "types"
	}
	return "types-as"
}

func tryShape(t *sTry) string {
	var parts []string
	for _, e := range t.excepts {
		parts = append(parts, excShape(e))
	}
	s := "try[" + strings.Join(parts, ",") + "]"
	if t.hasOtherwise {
		s += "+otherwise"
	}
	if t.hasFinally {
		s += "+finally"
	}
	return s
}

// features lists construct and exit kinds in pre-order (used for finding keys
// of shrunk programs and for the coverage counters).
func features(b []stmt, out *[]string) {
	for _, s := range b {
		switch x := s.(type) {
		case *sIf:
			*out = append(*out, "if")
		case *sGuardLoop:
			*out = append(*out, "guardloop")
		case *sIterLoop:
			*out = append(*out, []string{"rangeloop", "listloop", "maploop", "errloop"}[x.kind])
		case *sBreak:
			*out = append(*out, "break")
		case *sContinue:
			*out = append(*out, "continue")
		case *sReturn:
			*out = append(*out, "return")
		case *sRaise:
			*out = append(*out, "raise")
		case *sExpr:
			*out = append(*out, "rterr")
		case *sFunc:
			*out = append(*out, "func")
		case *sTry:
			*out = append(*out, tryShape(x))
		}
		for _, cb := range childBlocks(s) {
			features(*cb, out)
		}
	}
}

func (pr *prog) featureKey() string {
	var f []string
	features(pr.body, &f)
	if len(f) > 8 {
		f = f[:8]
	}
	if len(f) == 0 {
		return "empty"
	}
	return strings.Join(f, ">")
}

func (pr *prog) size() int {
	n := 0
	var walk func(b []stmt)
	walk = func(b []stmt) {
		for _, s := range b {
			n++
			for _, cb := range childBlocks(s) {
				walk(*cb)
			}
		}
	}
	walk(pr.body)
	return n
}

// valid checks the generator's own restrictions (those that keep a program
// inside the property statement): break/continue only inside a loop of the
// same function, return only inside a function, no abrupt statement inside a
// finally block, variables read only where they are bound.
func (pr *prog) valid() bool {
	type vctx struct {
		inLoop, inFunc, inFinally bool
		vars                      map[string]bool
	}
	ok := true
	with := func(m map[string]bool, names ...string) map[string]bool {
		n := map[string]bool{}
		for k := range m {
			n[k] = true
		}
		for _, k := range names {
			if k != "" {
				n[k] = true
			}
		}
		return n
	}
	var checkExpr func(e expr, c vctx)
	checkExpr = func(e expr, c vctx) {
		switch x := e.(type) {
		case eVar:
			if !c.vars[string(x)] {
				ok = false
			}
		case eList:
			for _, v := range x {
				checkExpr(v, c)
			}
		case eMap:
			for _, kv := range x {
				checkExpr(kv.k, c)
				checkExpr(kv.v, c)
			}
		case eBin:
			checkExpr(x.l, c)
			checkExpr(x.r, c)
		case eRtErr:
			if c.inFinally {
				ok = false
			}
		}
	}
	var walk func(b []stmt, c vctx)
	walk = func(b []stmt, c vctx) {
		for _, s := range b {
			switch x := s.(type) {
			case *sMark:
				for _, a := range x.args {
					checkExpr(a, c)
				}
			case *sIf:
				for i, g := range x.guards {
					checkExpr(g, c)
					walk(x.blocks[i], c)
				}
				if x.hasElse {
					walk(x.els, c)
				}
			case *sGuardLoop:
				c2 := c
				c2.inLoop = true
				c2.vars = with(c.vars, x.cvar)
				walk(x.body, c2)
			case *sIterLoop:
				if x.kind == 3 && c.inFinally {
					ok = false
				}
				c2 := c
				c2.inLoop = true
				c2.vars = with(c.vars, x.vars...)
				walk(x.body, c2)
			case *sBreak, *sContinue:
				if !c.inLoop || c.inFinally {
					ok = false
				}
			case *sReturn:
				if !c.inFunc || c.inFinally {
					ok = false
				}
				checkExpr(x.e, c)
			case *sRaise:
				if c.inFinally {
					ok = false
				}
				checkExpr(x.data, c)
			case *sExpr:
				checkExpr(x.e, c)
			case *sFunc:
				if c.inFinally {
					ok = false // keep finally blocks free of calls that could complete abruptly
				}
				walk(x.body, vctx{inFunc: true, vars: map[string]bool{"res": true}})
			case *sTry:
				walk(x.body, c)
				for _, e := range x.excepts {
					c2 := c
					c2.vars = with(c.vars, e.asVar)
					walk(e.body, c2)
				}
				if x.hasOtherwise {
					walk(x.otherwise, c)
				}
				if x.hasFinally {
					c2 := c
					c2.inFinally = true
					walk(x.finally, c2)
				}
			}
		}
	}
	walk(pr.body, vctx{vars: map[string]bool{"res": true}})
	return ok
}

// ---------------------------------------------------------------------------
// canonical text of values (shared by the recorder of the real run and by the
// reference; written against plain Go value types only)
// ---------------------------------------------------------------------------

const wild = "*"

type anyVal struct{} // a value the property statement does not determine

func canon(v interface{}) string {
	switch x := v.(type) {
	case nil:
		return "null"
	case anyVal:
		return wild
	case bool:
		if x {
			return "true"
		}
		return "false"
	case float64:
		return fmtNum(x)
	case int:
		return strconv.Itoa(x)
	case string:
		return strconv.Quote(x)
	case []interface{}:
		parts := make([]string, len(x))
		for i, e := range x {
			parts[i] = canon(e)
		}
		return "[" + strings.Join(parts, ",") + "]"
	case map[interface{}]interface{}:
		parts := make([]string, 0, len(x))
		for k, e := range x {
			parts = append(parts, canon(k)+":"+canon(e))
		}
		sort.Strings(parts)
		return "{" + strings.Join(parts, ",") + "}"
	}
	return fmt.Sprintf("<%T>", v)
}
