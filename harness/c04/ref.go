package c04

import (
	"fmt"
	"sort"
	"strconv"
)

// ---------------------------------------------------------------------------
// Reference semantics: a big-step interpreter over the generator's AST with
// explicit completion records, written from the property statement and the
// language reference (ecal.md). It shares no code with /repo.
//
//   if/elif/else     first branch whose guard is true
//   guard loop       while the condition holds
//   iterator loop    once per element: range(a,b,s) = a, a+s, ... up to and
//                    including b (s may be negative; a = b yields one element),
//                    list elements, map entries as [key, value] in string order
//                    of the keys
//   break/continue   act on the innermost loop;  return leaves the innermost
//                    function with its value
//   try              an Error completion of the try block is offered to the
//                    except clauses in order: the first clause that lists the
//                    error's type or lists no type handles it (its block's
//                    completion becomes the completion of the statement);
//                    otherwise runs iff the try block completed normally;
//                    finally runs exactly once on every completion kind and the
//                    pending completion continues; an unhandled error
//                    propagates unchanged
//   raise(t,d,x)     Error{t,d,x};  runtime errors carry their type string
//                    (their detail text is not part of the statement)
//
// Known deviations of the implementation are modelled as switches (devs); the
// true reference has all of them off.
// ---------------------------------------------------------------------------

type ckind int

const (
	cNormal ckind = iota
	cBreak
	cContinue
	cReturn
	cError
)

var ckindName = []string{"normal", "break", "continue", "return", "error"}

type refErr struct {
	typ, detail string
	data        interface{}
	anyDetail   bool // runtime error: detail text unspecified
	anyAll      bool // (deviant runs only) a control signal seen as an error object
}

type completion struct {
	kind ckind
	val  interface{}
	err  *refErr
}

var normal = completion{kind: cNormal}

// deviation switches (candidate findings 9-12 of DESIGN.md section 7)
const (
	devGuardLoopBreakLeaks      = "guard-loop-break-leaks-error"      // #9
	devExceptCatchesControlFlow = "catch-all-except-catches-control"  // #10
	devSingleTypeNoAsCatchesAll = "except-single-type-no-as-catchall" // #11
	devRangeEqualEndsEmpty      = "range-equal-ends-empty"            // #12
)

var allDevs = []string{devGuardLoopBreakLeaks, devExceptCatchesControlFlow, devSingleTypeNoAsCatchesAll, devRangeEqualEndsEmpty}

type outcome struct {
	trace     [][]string
	hasErr    bool
	errType   string
	errDetail string
	errData   string
	value     string
	abnormal  string // real run only: parse error / panic / runaway
}

type refInterp struct {
	dev    map[string]bool
	fired  map[string]bool
	env    map[string]interface{}
	trace  [][]string
	steps  int
	events map[string]int
}

const refStepBudget = 200000

func runRef(p *prog, dev map[string]bool) (outcome, map[string]bool, map[string]int) {
	r := &refInterp{dev: dev, fired: map[string]bool{}, env: map[string]interface{}{"res": float64(0)}, events: map[string]int{}}
	c := r.block(p.body)
	o := outcome{trace: r.trace}
	switch c.kind {
	case cNormal:
		o.value = canon(r.env["res"])
	case cError:
		o.hasErr = true
		o.errType, o.errDetail, o.errData = errFields(c.err)
	case cBreak, cContinue:
		// only reachable in deviant runs (a leaked loop signal reaches the top level)
		o.hasErr = true
		o.errType, o.errDetail, o.errData = wild, wild, wild
	default:
		panic("c04: generator bug: return completion at top level")
	}
	return o, r.fired, r.events
}

func errFields(e *refErr) (string, string, string) {
	if e.anyAll {
		return wild, wild, wild
	}
	d := canon(e.detail)
	if e.anyDetail {
		d = wild
	}
	return canon(e.typ), d, canon(e.data)
}

func (r *refInterp) tick() {
	r.steps++
	if r.steps > refStepBudget {
		panic("c04: generator bug: reference step budget exceeded")
	}
}

func (r *refInterp) expr(e expr) (interface{}, *refErr) {
	switch x := e.(type) {
	case eNum:
		return float64(x), nil
	case eStr:
		return string(x), nil
	case eBool:
		return bool(x), nil
	case eNull:
		return nil, nil
	case eVar:
		v, ok := r.env[string(x)]
		if !ok {
			panic("c04: generator bug: read of unbound variable " + string(x))
		}
		return v, nil
	case eList:
		l := make([]interface{}, len(x))
		for i, it := range x {
			v, err := r.expr(it)
			if err != nil {
				return nil, err
			}
			l[i] = v
		}
		return l, nil
	case eMap:
		m := map[interface{}]interface{}{}
		for _, kv := range x {
			k, err := r.expr(kv.k)
			if err != nil {
				return nil, err
			}
			v, err := r.expr(kv.v)
			if err != nil {
				return nil, err
			}
			m[k] = v
		}
		return m, nil
	case eBin:
		l, err := r.expr(x.l)
		if err != nil {
			return nil, err
		}
		rr, err := r.expr(x.r)
		if err != nil {
			return nil, err
		}
		a, ok1 := l.(float64)
		b, ok2 := rr.(float64)
		if !ok1 || !ok2 {
			panic("c04: generator bug: non-numeric operand in " + exprSrc(e))
		}
		switch x.op {
		case "==":
			return a == b, nil
		case "!=":
			return a != b, nil
		case "<":
			return a < b, nil
		case ">":
			return a > b, nil
		case "+":
			return a + b, nil
		}
		panic("c04: generator bug: operator " + x.op)
	case eRtErr:
		r.events["ref.exit.rterr"]++
		return nil, &refErr{typ: rtErrType[int(x)], anyDetail: true}
	}
	panic(fmt.Sprintf("c04: unknown expr %T", e))
}

func (r *refInterp) block(b []stmt) completion {
	for _, s := range b {
		if c := r.stmt(s); c.kind != cNormal {
			return c
		}
	}
	return normal
}

func keyString(k interface{}) string {
	switch x := k.(type) {
	case string:
		return x
	case float64:
		return fmtNum(x)
	}
	return canon(k)
}

// items computes the element sequence of an iterator loop.
func (r *refInterp) items(x *sIterLoop) ([]interface{}, *refErr) {
	switch x.kind {
	case 0:
		var a, b, s float64 = 0, 0, 1
		switch len(x.rargs) {
		case 1:
			b = x.rargs[0]
		case 2:
			a, b = x.rargs[0], x.rargs[1]
		case 3:
			a, b, s = x.rargs[0], x.rargs[1], x.rargs[2]
		}
		if s == 0 || (s > 0 && a > b) || (s < 0 && a < b) {
			panic("c04: generator bug: range direction")
		}
		if a == b && r.dev[devRangeEqualEndsEmpty] {
			r.fired[devRangeEqualEndsEmpty] = true
			return nil, nil
		}
		var out []interface{}
		for v := a; (s > 0 && v <= b) || (s < 0 && v >= b); v += s {
			out = append(out, v)
		}
		return out, nil
	case 1:
		v, err := r.expr(x.coll)
		if err != nil {
			return nil, err
		}
		return v.([]interface{}), nil
	case 2:
		v, err := r.expr(x.coll)
		if err != nil {
			return nil, err
		}
		m := v.(map[interface{}]interface{})
		keys := make([]interface{}, 0, len(m))
		for k := range m {
			keys = append(keys, k)
		}
		sort.Slice(keys, func(i, j int) bool { return keyString(keys[i]) < keyString(keys[j]) })
		out := make([]interface{}, len(keys))
		for i, k := range keys {
			out[i] = []interface{}{k, m[k]}
		}
		return out, nil
	case 3:
		_, err := r.expr(x.coll)
		if err == nil {
			panic("c04: generator bug: kind 3 iterator must raise")
		}
		return nil, err
	}
	panic("c04: iterator kind")
}

func (r *refInterp) stmt(s stmt) completion {
	r.tick()
	switch x := s.(type) {
	case *sMark:
		ent := []string{strconv.Itoa(x.id)}
		for _, a := range x.args {
			v, err := r.expr(a)
			if err != nil {
				panic("c04: generator bug: marker argument raises")
			}
			if e, ok := v.(*refErr); ok {
				t, d, dt := errFields(e)
				ent = append(ent, "err", t, d, dt)
			} else {
				ent = append(ent, canon(v))
			}
		}
		r.trace = append(r.trace, ent)
		return normal

	case *sIf:
		for i, g := range x.guards {
			v, err := r.expr(g)
			if err != nil {
				return completion{kind: cError, err: err}
			}
			if v.(bool) {
				r.events[fmt.Sprintf("ref.if.branch%d", i)]++
				return r.block(x.blocks[i])
			}
		}
		if x.hasElse {
			r.events["ref.if.else"]++
			return r.block(x.els)
		}
		r.events["ref.if.none"]++
		return normal

	case *sGuardLoop:
		r.env[x.cvar] = float64(0)
		n := 0
		for r.env[x.cvar].(float64) < float64(x.limit) {
			r.tick()
			n++
			r.env[x.cvar] = r.env[x.cvar].(float64) + 1
			c := r.block(x.body)
			switch c.kind {
			case cBreak:
				r.events["ref.guardloop.break"]++
				if r.dev[devGuardLoopBreakLeaks] {
					r.fired[devGuardLoopBreakLeaks] = true
					return c // the loop signal travels on
				}
				return normal
			case cContinue:
				r.events["ref.guardloop.continue"]++
			case cNormal:
			default:
				r.events["ref.guardloop.left-by-"+ckindName[c.kind]]++
				return c
			}
		}
		r.events["ref.guardloop.iterations"] += n
		return normal

	case *sIterLoop:
		name := []string{"rangeloop", "listloop", "maploop", "errloop"}[x.kind]
		if x.kind == 2 {
			v, err := r.expr(x.coll)
			if err != nil {
				return completion{kind: cError, err: err}
			}
			r.env[x.mvar] = v
		}
		its, err := r.items(x)
		if err != nil {
			return completion{kind: cError, err: err}
		}
		if len(its) == 0 {
			r.events["ref."+name+".empty"]++
		}
		for _, it := range its {
			r.tick()
			if len(x.vars) == 1 {
				r.env[x.vars[0]] = it
			} else {
				l, ok := it.([]interface{})
				if !ok || len(l) != len(x.vars) {
					panic("c04: generator bug: destructuring arity")
				}
				for i, v := range x.vars {
					r.env[v] = l[i]
				}
			}
			r.events["ref."+name+".iterations"]++
			c := r.block(x.body)
			switch c.kind {
			case cBreak:
				r.events["ref."+name+".break"]++
				return normal
			case cContinue:
				r.events["ref."+name+".continue"]++
			case cNormal:
			default:
				r.events["ref."+name+".left-by-"+ckindName[c.kind]]++
				return c
			}
		}
		return normal

	case *sBreak:
		r.events["ref.exit.break"]++
		return completion{kind: cBreak}
	case *sContinue:
		r.events["ref.exit.continue"]++
		return completion{kind: cContinue}
	case *sReturn:
		v, err := r.expr(x.e)
		if err != nil {
			return completion{kind: cError, err: err}
		}
		r.events["ref.exit.return"]++
		return completion{kind: cReturn, val: v}
	case *sRaise:
		d, err := r.expr(x.data)
		if err != nil {
			return completion{kind: cError, err: err}
		}
		r.events["ref.exit.raise"]++
		return completion{kind: cError, err: &refErr{typ: x.typ, detail: x.detail, data: d}}
	case *sExpr:
		v, err := r.expr(x.e)
		if err != nil {
			return completion{kind: cError, err: err}
		}
		r.env["tmp"] = v
		return normal

	case *sFunc:
		for call := 1; call < x.calls; call++ {
			// every call but the last: same rules, the value is overwritten by the next call
			if c := r.call(x); c.kind != cNormal {
				return c
			}
		}
		return r.call(x)

	case *sTry:
		return r.try(x)
	}
	panic(fmt.Sprintf("c04: unknown stmt %T", s))
}

// call runs the body of a function once: `res := f()`.
func (r *refInterp) call(x *sFunc) completion {
	{
		c := r.block(x.body)
		switch c.kind {
		case cReturn:
			r.events["ref.func.returned"]++
			r.env["res"] = c.val
			return normal
		case cNormal:
			// the value of a function that ends without return is not part of the statement
			r.events["ref.func.fellthrough"]++
			r.env["res"] = anyVal{}
			return normal
		case cError:
			r.events["ref.func.left-by-error"]++
			return c
		default:
			// break/continue cannot leave a function in the true reference (the generator
			// keeps them inside loops of the same function); deviant runs: the signal travels on
			if len(r.fired) == 0 {
				panic("c04: generator bug: loop signal leaves a function")
			}
			return c
		}
	}
}

func (r *refInterp) try(x *sTry) completion {
	c := r.block(x.body)
	r.events["ref.try.body-"+ckindName[c.kind]]++
	control := c.kind == cBreak || c.kind == cContinue || c.kind == cReturn
	if c.kind == cError || (control && r.dev[devExceptCatchesControlFlow]) {
		handled := false
		for _, e := range x.excepts {
			catchAll := len(e.types) == 0
			viaDev11 := false
			if !catchAll && len(e.types) == 1 && e.asVar == "" && r.dev[devSingleTypeNoAsCatchesAll] {
				catchAll = true
				viaDev11 = control || e.types[0] != c.err.typ
			}
			match := catchAll
			if !match && c.kind == cError {
				for _, t := range e.types {
					if t == c.err.typ {
						match = true
					}
				}
			}
			if !match {
				continue
			}
			if viaDev11 {
				r.fired[devSingleTypeNoAsCatchesAll] = true
			}
			if control {
				r.fired[devExceptCatchesControlFlow] = true
			}
			if e.asVar != "" {
				if control {
					r.env[e.asVar] = &refErr{anyAll: true}
				} else {
					r.env[e.asVar] = c.err
				}
			}
			r.events["ref.except.handled-by-"+excShape(e)]++
			c = r.block(e.body)
			r.events["ref.except.handler-"+ckindName[c.kind]]++
			handled = true
			break
		}
		if !handled && c.kind == cError {
			if len(x.excepts) > 0 {
				r.events["ref.except.none-matched"]++
			}
		}
	} else if c.kind == cNormal && x.hasOtherwise {
		c = r.block(x.otherwise)
		r.events["ref.otherwise-"+ckindName[c.kind]]++
	}
	if x.hasFinally {
		r.events["ref.finally.after-"+ckindName[c.kind]]++
		if fc := r.block(x.finally); fc.kind != cNormal {
			panic("c04: generator bug: abrupt completion inside finally")
		}
	}
	return c
}
