package c04

import "testing"

func TestCount(t *testing.T) {
	for _, m := range []struct{ mode, depth int }{{mExh2, 2}, {mExh3, 3}, {mExh3Wide, 3}} {
		o := &odometer{}
		n := 0
		for {
			o.pos = 0
			p := genProgram(o, m.mode, m.depth)
			if !p.valid() {
				t.Fatal("invalid program generated:\n" + p.source())
			}
			n++
			if !o.next() {
				break
			}
		}
		t.Log(m, n)
	}
}
