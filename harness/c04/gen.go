package c04

import (
	"fmt"

	"verif/harness/core"
)

// ---------------------------------------------------------------------------
// Program generator. The generator is one recursive function over a source of
// choices: an odometer over the whole choice tree (exhaustive enumeration "by
// shape") or a seeded PRNG (random programs).
// ---------------------------------------------------------------------------

type chooser interface {
	pick(n int) int
}

type rndChooser struct{ r *core.Rand }

func (c rndChooser) pick(n int) int { return c.r.Intn(n) }

// odometer enumerates all choice sequences of a finite choice tree in
// lexicographic order.
type odometer struct {
	pre   []int
	arity []int
	pos   int
}

func (o *odometer) pick(n int) int {
	if n < 1 {
		panic("c04: pick(0)")
	}
	if o.pos == len(o.pre) {
		o.pre = append(o.pre, 0)
		o.arity = append(o.arity, n)
	}
	o.arity[o.pos] = n
	v := o.pre[o.pos]
	o.pos++
	return v
}

// next advances to the following choice sequence; false when exhausted.
func (o *odometer) next() bool {
	o.pre = o.pre[:o.pos]
	o.arity = o.arity[:o.pos]
	for i := o.pos - 1; i >= 0; i-- {
		if o.pre[i]+1 < o.arity[i] {
			o.pre[i]++
			o.pre = o.pre[:i+1]
			o.arity = o.arity[:i+1]
			o.pos = 0
			return true
		}
	}
	return false
}

type gctx struct {
	depth     int // constructs that may still be nested below this block
	inLoop    bool
	inFunc    bool
	inFinally bool
	loopVars  []expr  // variables of the innermost loop (marker arguments)
	condVar   string  // numeric variable of the innermost loop ("" = none)
	condVal   float64 // a value it takes (the second element where there is one)
}

// generator modes
const (
	mRnd      = iota // random: wide menus, weighted
	mExh2            // exhaustive, the full fixed menus (used with depth 2)
	mExh3            // exhaustive, reduced menus (used with depth 3)
	mExh3Wide        // exhaustive, reduced exits/loops but all handler shapes (depth 3, thorough)
)

type gen struct {
	ch    chooser
	mode  int
	exh   bool // exhaustive mode: one item per block, the fixed menus
	lite  bool // reduced menus (mExh3, mExh3Wide)
	marks int
	names int
}

func (g *gen) name(prefix string) string {
	g.names++
	return fmt.Sprintf("%s%d", prefix, g.names)
}

func (g *gen) mark(c gctx, extra ...expr) stmt {
	g.marks++
	args := append([]expr(nil), extra...)
	args = append(args, c.loopVars...)
	return &sMark{id: g.marks, args: args}
}

// weighted choice: in exhaustive mode every option with a positive weight is
// one alternative; in random mode the weights bias the draw.
func (g *gen) weighted(w []int) int {
	if g.exh {
		var idx []int
		for i, x := range w {
			if x > 0 {
				idx = append(idx, i)
			}
		}
		return idx[g.ch.pick(len(idx))]
	}
	tot := 0
	for _, x := range w {
		tot += x
	}
	k := g.ch.pick(tot)
	for i, x := range w {
		if k < x {
			return i
		}
		k -= x
	}
	panic("unreachable")
}

func genProgram(ch chooser, mode int, depth int) *prog {
	g := &gen{ch: ch, mode: mode, exh: mode != mRnd, lite: mode == mExh3 || mode == mExh3Wide}
	return &prog{body: g.block(gctx{depth: depth})}
}

func (g *gen) block(c gctx) []stmt {
	b := []stmt{g.mark(c)}
	n := 1
	if !g.exh && g.ch.pick(4) == 0 {
		n = 2
	}
	for i := 0; i < n; i++ {
		b = append(b, g.item(c)...)
		b = append(b, g.mark(c))
	}
	return b
}

func b2i(b bool) int {
	if b {
		return 1
	}
	return 0
}

func (g *gen) item(c gctx) []stmt {
	wExit, wCons := 3, 5
	if c.inFinally {
		wExit = 0
	}
	if c.depth <= 0 {
		wCons = 0
	}
	switch g.weighted([]int{1, wExit, wCons}) {
	case 0:
		return nil
	case 1:
		return g.exit(c, false)
	}
	return g.construct(c)
}

var dataPool = []expr{
	eList{eNum(1), eStr("x")},
	eMap{{eStr("k"), eNum(2)}},
	eNum(42),
	eStr("payload"),
	eNull{},
	eList{},
	eMap{{eStr("a"), eList{eNum(1), eNull{}}}, {eNum(7), eBool(true)}},
}

func (g *gen) raise(typ string) stmt {
	var data expr
	if g.exh {
		switch typ {
		case "A":
			data = dataPool[0]
		case "B":
			data = dataPool[1]
		default:
			data = dataPool[2]
		}
	} else {
		data = dataPool[g.ch.pick(len(dataPool))]
	}
	return &sRaise{typ: typ, detail: "detail of " + typ, data: data}
}

func (g *gen) retStmt(c gctx) stmt {
	g.marks++ // keep return values distinct from each other
	if !g.exh && c.condVar != "" && g.ch.pick(3) == 0 {
		return &sReturn{e: eBin{"+", eVar(c.condVar), eNum(1000)}}
	}
	if !g.exh && g.ch.pick(4) == 0 {
		return &sReturn{e: dataPool[g.ch.pick(len(dataPool))]}
	}
	return &sReturn{e: eNum(float64(100 + g.marks))}
}

// exit produces a statement that leaves the block abruptly (possibly only on
// one iteration of the innermost loop). handler = inside an except / otherwise
// block (smaller menu).
func (g *gen) exit(c gctx, handler bool) []stmt {
	type opt func() stmt
	var opts []opt
	if handler {
		opts = append(opts, func() stmt { return g.raise("H") })
	} else if g.lite {
		opts = append(opts, func() stmt { return g.raise("A") })
	} else {
		opts = append(opts,
			func() stmt { return g.raise("A") },
			func() stmt { return g.raise("B") },
			func() stmt {
				k := 0
				if !g.exh {
					k = g.ch.pick(len(rtErrSrc))
				}
				return &sExpr{e: eRtErr(k)}
			})
		if !g.exh {
			opts = append(opts, func() stmt { return g.raise("C") })
		}
	}
	if c.inLoop {
		opts = append(opts, func() stmt { return &sBreak{} }, func() stmt { return &sContinue{} })
	}
	if c.inFunc {
		opts = append(opts, func() stmt { return g.retStmt(c) })
	}
	if c.condVar != "" && !handler {
		cond := func(inner func() stmt) opt {
			return func() stmt {
				op := "=="
				if !g.exh {
					op = []string{"==", "==", "!=", "<", ">"}[g.ch.pick(5)]
				}
				gu := eBin{op, eVar(c.condVar), eNum(c.condVal)}
				c2 := c
				c2.loopVars = nil
				return &sIf{guards: []expr{gu}, blocks: [][]stmt{{g.mark(c2), inner()}}}
			}
		}
		opts = append(opts,
			cond(func() stmt { return &sBreak{} }),
			cond(func() stmt { return &sContinue{} }))
		if !g.lite {
			opts = append(opts, cond(func() stmt { return g.raise("A") }))
		}
		if c.inFunc {
			opts = append(opts, cond(func() stmt { return g.retStmt(c) }))
		}
		if !g.exh {
			opts = append(opts, cond(func() stmt { return g.raise("B") }),
				cond(func() stmt { return &sExpr{e: eRtErr(g.ch.pick(len(rtErrSrc)))} }))
		}
	}
	return []stmt{opts[g.ch.pick(len(opts))]()}
}

type rangeSpec struct {
	args []float64
	cond float64
}

var rangesExh = []rangeSpec{
	{[]float64{1, 3}, 2},
	{[]float64{3, 1, -1}, 2},
	{[]float64{2, 2}, 2},
	{[]float64{2}, 1},
	{[]float64{1, 6, 2}, 3},
}

var rangesRnd = append(append([]rangeSpec(nil), rangesExh...),
	rangeSpec{[]float64{0}, 0},
	rangeSpec{[]float64{2, 2, -1}, 2},
	rangeSpec{[]float64{-3, -3, 2}, -3},
	rangeSpec{[]float64{0, 1, 0.5}, 0.5},
	rangeSpec{[]float64{5, 1, -2}, 3},
	rangeSpec{[]float64{-1, 1}, 0},
	rangeSpec{[]float64{1, 2, 5}, 1},
	rangeSpec{[]float64{0, -2, -1}, -1},
	rangeSpec{[]float64{3}, 1},
	rangeSpec{[]float64{1.5, 3}, 2.5},
)

func (g *gen) loopCtx(c gctx, vars []string, condVar string, condVal float64) gctx {
	c2 := c
	c2.depth = c.depth - 1
	c2.inLoop = true
	c2.loopVars = nil
	for _, v := range vars {
		c2.loopVars = append(c2.loopVars, eVar(v))
	}
	c2.condVar, c2.condVal = condVar, condVal
	return c2
}

func (g *gen) construct(c gctx) []stmt {
	// 0 if, 1 guard loop, 2 range loop, 3 list loop, 4 map loop, 5 function, 6 try
	w := []int{3, 3, 3, 2, 2, 3, 8}
	if c.inFinally {
		w[5] = 0
	}
	if g.lite {
		w[0], w[2], w[4] = 0, 0, 0
	}
	switch g.weighted(w) {
	case 0:
		return []stmt{g.ifStmt(c)}
	case 1:
		v := g.name("c")
		limit := 3
		if g.lite {
		} else if g.exh {
			if g.ch.pick(2) == 1 {
				limit = 0
			}
		} else {
			limit = g.ch.pick(5)
		}
		if limit == 0 {
			c2 := g.loopCtx(c, []string{v}, v, 2)
			c2.depth = 0
			return []stmt{&sGuardLoop{cvar: v, limit: 0, body: []stmt{g.mark(c2)}}}
		}
		return []stmt{&sGuardLoop{cvar: v, limit: limit, body: g.block(g.loopCtx(c, []string{v}, v, 2))}}
	case 2:
		pool := rangesRnd
		if g.exh {
			pool = rangesExh
		}
		rs := pool[g.ch.pick(len(pool))]
		v := g.name("i")
		return []stmt{&sIterLoop{vars: []string{v}, kind: 0, rargs: rs.args, body: g.block(g.loopCtx(c, []string{v}, v, rs.cond))}}
	case 3:
		nl := 3 + b2i(!g.exh && !c.inFinally)
		if g.lite {
			nl = 1
		}
		switch g.ch.pick(nl) {
		case 0:
			v := g.name("x")
			return []stmt{&sIterLoop{vars: []string{v}, kind: 1, coll: eList{eNum(10), eNum(20), eNum(30)},
				body: g.block(g.loopCtx(c, []string{v}, v, 20))}}
		case 1:
			a, b := g.name("a"), g.name("b")
			return []stmt{&sIterLoop{vars: []string{a, b}, kind: 1,
				coll: eList{eList{eNum(1), eStr("p")}, eList{eNum(3), eStr("q")}, eList{eNum(5), eNull{}}},
				body: g.block(g.loopCtx(c, []string{a, b}, a, 3))}}
		case 2:
			v := g.name("x")
			c2 := g.loopCtx(c, []string{v}, "", 0)
			c2.depth = 0
			return []stmt{&sIterLoop{vars: []string{v}, kind: 1, coll: eList{}, body: []stmt{g.mark(c2)}}}
		default:
			v := g.name("x")
			c2 := g.loopCtx(c, []string{v}, "", 0)
			c2.depth = 0
			return []stmt{&sIterLoop{vars: []string{v}, kind: 3, coll: eRtErr(3), body: []stmt{g.mark(c2)}}}
		}
	case 4:
		m := g.name("m")
		coll := eMap{{eStr("b"), eNum(1)}, {eStr("a"), eNum(2)}, {eNum(10), eNum(3)}, {eNum(9), eNum(4)}}
		if !g.exh && g.ch.pick(2) == 0 {
			coll = eMap{{eStr("zz"), eNum(1)}, {eStr("Z"), eNum(2)}, {eStr("a b"), eNum(3)}, {eNum(100), eNum(4)}, {eNum(11), eNum(5)}}
		}
		if g.ch.pick(2) == 0 {
			k, v := g.name("k"), g.name("v")
			// second entry in string order of the keys: "9" resp. "11"
			cv := 4.0
			if len(coll) == 5 {
				cv = 5
			}
			return []stmt{&sIterLoop{vars: []string{k, v}, kind: 2, mvar: m, coll: coll, body: g.block(g.loopCtx(c, []string{k, v}, v, cv))}}
		}
		v := g.name("kv")
		return []stmt{&sIterLoop{vars: []string{v}, kind: 2, mvar: m, coll: coll, body: g.block(g.loopCtx(c, []string{v}, "", 0))}}
	case 5:
		f := g.name("f")
		body := g.block(gctx{depth: c.depth - 1, inFunc: true})
		calls := 1
		if !g.exh && g.ch.pick(4) == 0 {
			calls = 2
		}
		return []stmt{&sFunc{name: f, body: body, calls: calls}, g.mark(gctx{}, eVar("res"))}
	}
	return []stmt{g.try(c)}
}

func (g *gen) ifStmt(c gctx) stmt {
	sub := c
	sub.depth = c.depth - 1
	leaf := func() []stmt {
		c2 := c
		c2.depth = 0
		return []stmt{g.mark(c2)}
	}
	nv := 5
	if !c.inFinally {
		nv = 6
	}
	if c.condVar != "" {
		nv++
	}
	v := g.ch.pick(nv)
	if v == 5 && c.inFinally {
		v = 6
	}
	switch v {
	case 0:
		return &sIf{guards: []expr{eBool(true)}, blocks: [][]stmt{g.block(sub)}}
	case 1:
		l := leaf()
		return &sIf{guards: []expr{eBool(false)}, blocks: [][]stmt{l}, hasElse: true, els: g.block(sub)}
	case 2:
		l1 := leaf()
		b := g.block(sub)
		l2 := leaf()
		return &sIf{guards: []expr{eBool(false), eBool(true)}, blocks: [][]stmt{l1, b}, hasElse: true, els: l2}
	case 3:
		b := g.block(sub)
		l1 := leaf()
		l2 := leaf()
		return &sIf{guards: []expr{eBool(true), eBool(true)}, blocks: [][]stmt{b, l1}, hasElse: true, els: l2}
	case 4:
		return &sIf{guards: []expr{eBool(false), eBool(false)}, blocks: [][]stmt{leaf(), leaf()}}
	case 5:
		k := 3
		if !g.exh {
			k = g.ch.pick(len(rtErrSrc))
		}
		return &sIf{guards: []expr{eRtErr(k)}, blocks: [][]stmt{leaf()}, hasElse: true, els: leaf()}
	}
	op := "=="
	if !g.exh {
		op = []string{"==", "!=", "<", ">"}[g.ch.pick(4)]
	}
	b := g.block(sub)
	return &sIf{guards: []expr{eBin{op, eVar(c.condVar), eNum(c.condVal)}}, blocks: [][]stmt{b}, hasElse: true, els: leaf()}
}

// handler shapes: each entry is a list of clauses; a clause is (types, bind?)
type clauseSpec struct {
	types []string
	bind  bool
}

var handlerShapesExh = [][]clauseSpec{
	{},                                    // no except clause
	{{nil, false}},                        // except { }
	{{nil, true}},                         // except e { }
	{{[]string{"A"}, false}},              // except "A" { }
	{{[]string{"A"}, true}},               // except "A" as e { }
	{{[]string{"B", "A"}, true}},          // except "B", "A" as e { }
	{{[]string{"A", "B"}, false}},         // except "A", "B" { }
	{{[]string{"A"}, true}, {nil, false}}, // typed, then catch-all
	{{nil, false}, {[]string{"A"}, true}}, // catch-all first
	{{[]string{"B"}, true}, {[]string{"A"}, true}},
	{{[]string{"Operand is not a number"}, true}},
}

var handlerShapesRnd = append(append([][]clauseSpec(nil), handlerShapesExh...),
	[]clauseSpec{{[]string{"B"}, false}},
	[]clauseSpec{{[]string{"A"}, false}, {[]string{"B"}, false}},
	[]clauseSpec{{[]string{"B"}, false}, {nil, true}},
	[]clauseSpec{{[]string{"C", "B", "A"}, false}, {[]string{"Unknown construct", "Operand is not a list"}, true}},
	[]clauseSpec{{[]string{"X"}, true}, {[]string{"Operand is not a boolean", "Operand is not a number"}, false}, {nil, true}},
	[]clauseSpec{{[]string{"H"}, true}},
	[]clauseSpec{{[]string{"A"}, true}, {[]string{"A"}, false}},
)

func (g *gen) try(c gctx) stmt {
	t := &sTry{}
	sub := c
	sub.depth = c.depth - 1
	t.body = g.block(sub)
	pool := handlerShapesRnd
	if g.mode == mExh3 {
		pool = handlerShapesExh[:5]
	} else if g.exh {
		pool = handlerShapesExh
	}
	shape := pool[g.ch.pick(len(pool))]
	small := func(first bool, extra ...expr) []stmt {
		// the block of an except / otherwise clause: marker, optional exit, marker
		c2 := c
		c2.depth = 0
		b := []stmt{g.mark(c2, extra...)}
		if !c.inFinally && (first || !g.exh) && !g.lite {
			if !g.exh && c.depth > 1 && g.ch.pick(4) == 0 {
				b = append(b, g.construct(sub)...)
			} else if g.ch.pick(2) == 1 {
				b = append(b, g.exit(c, true)...)
			}
		}
		return append(b, g.mark(c2))
	}
	for i, cs := range shape {
		e := &exc{types: cs.types}
		var extra []expr
		if cs.bind {
			e.asVar = g.name("e")
			extra = []expr{eVar(e.asVar)}
		}
		e.body = small(i == 0, extra...)
		t.excepts = append(t.excepts, e)
	}
	if g.ch.pick(2) == 1 {
		t.hasOtherwise = true
		t.otherwise = small(true)
	}
	if g.ch.pick(2) == 1 {
		t.hasFinally = true
		c2 := c
		c2.inFinally = true
		if g.exh || c.depth <= 1 {
			c2.depth = 0
			t.finally = []stmt{g.mark(c2)}
		} else {
			c2.depth = 1
			t.finally = g.block(c2)
		}
	}
	return t
}
