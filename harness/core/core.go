// Package core is the shared plumbing of all runtime-monitoring checks:
// case selection (batches / replay), seeded PRNG streams, result records,
// progress slots for crash attribution and the per-batch summary.
package core

import (
	"bufio"
	"encoding/binary"
	"encoding/json"
	"fmt"
	"hash/fnv"
	"os"
	"path/filepath"
	"regexp"
	"runtime/debug"
	"sort"
	"strings"
	"sync"
	"sync/atomic"
)

// CheckFunc runs one property check.
type CheckFunc func(c *Ctx)

var registry = map[string]CheckFunc{}

// Register adds a check under a property id.
func Register(id string, f CheckFunc) { registry[id] = f }

// Lookup returns a registered check.
func Lookup(id string) CheckFunc { return registry[id] }

// IDs lists the registered ids.
func IDs() []string {
	var r []string
	for k := range registry {
		r = append(r, k)
	}
	sort.Strings(r)
	return r
}

const slotSize = 8192
const maxSlots = 64

// Ctx is handed to every check.
type Ctx struct {
	Prop   string
	Tier   string
	Seed   uint64
	Batch  int
	NBatch int
	OutDir string
	Race   bool // binary was built with -race

	onlyStream string // replay: run only this case
	onlyIdx    int
	skip       map[string]bool // stream:idx cases to skip (crash culprits)

	mu           sync.Mutex
	progress     *os.File
	rec          *bufio.Writer
	recFile      *os.File
	evals        int64
	hashes       map[uint64]struct{}
	events       map[string]int64
	samples      []interface{}
	sampleSeen   map[string]int
	inconclusive int64
	violations   int64
	notes        map[string]string
}

// NewCtx creates a context writing its files into outDir.
func NewCtx(prop, tier string, seed uint64, batch, nbatch int, outDir, only string, skip []string) (*Ctx, error) {
	c := &Ctx{Prop: prop, Tier: tier, Seed: seed, Batch: batch, NBatch: nbatch, OutDir: outDir,
		Race: RaceEnabled, onlyIdx: -1, skip: map[string]bool{},
		hashes: map[uint64]struct{}{}, events: map[string]int64{}, sampleSeen: map[string]int{},
		notes: map[string]string{}}
	if only != "" {
		i := strings.LastIndex(only, ":")
		if i < 0 {
			return nil, fmt.Errorf("bad --only %q", only)
		}
		c.onlyStream = only[:i]
		fmt.Sscanf(only[i+1:], "%d", &c.onlyIdx)
	}
	for _, s := range skip {
		if s != "" {
			c.skip[s] = true
		}
	}
	if err := os.MkdirAll(outDir, 0o755); err != nil {
		return nil, err
	}
	var err error
	c.progress, err = os.OpenFile(filepath.Join(outDir, fmt.Sprintf("b%d.progress", batch)), os.O_CREATE|os.O_RDWR|os.O_TRUNC, 0o644)
	if err != nil {
		return nil, err
	}
	c.recFile, err = os.OpenFile(filepath.Join(outDir, fmt.Sprintf("b%d.jsonl", batch)), os.O_CREATE|os.O_WRONLY|os.O_TRUNC, 0o644)
	if err != nil {
		return nil, err
	}
	c.rec = bufio.NewWriter(c.recFile)
	return c, nil
}

// Quick tells whether the quick tier is running.
func (c *Ctx) Quick() bool { return c.Tier != "thorough" }

// Replay tells whether a single case is replayed.
func (c *Ctx) Replay() bool { return c.onlyIdx >= 0 }

// Pick returns q in the quick tier and t in the thorough tier.
func (c *Ctx) Pick(q, t int) int {
	if c.Quick() {
		return q
	}
	return t
}

// Mine tells (without side effects) whether case idx of stream belongs to this run.
func (c *Ctx) Mine(stream string, idx int) bool {
	if c.onlyIdx >= 0 {
		return stream == c.onlyStream && idx == c.onlyIdx
	}
	if c.NBatch > 1 && idx%c.NBatch != c.Batch {
		return false
	}
	if len(c.skip) > 0 && c.skip[fmt.Sprintf("%s:%d", stream, idx)] {
		return false
	}
	return true
}

// Take is Mine plus counting the case as an evaluation.
func (c *Ctx) Take(stream string, idx int) bool {
	if !c.Mine(stream, idx) {
		return false
	}
	atomic.AddInt64(&c.evals, 1)
	return true
}

// AddEvals counts additional executions.
func (c *Ctx) AddEvals(n int) { atomic.AddInt64(&c.evals, int64(n)) }

// Begin records in progress slot `slot` that a case is about to run. If the
// process dies, the driver reads the slots to find the culprit.
func (c *Ctx) Begin(slot int, stream string, idx int, text string) {
	if slot < 0 || slot >= maxSlots {
		slot = 0
	}
	if len(text) > slotSize-200 {
		text = text[:slotSize-200]
	}
	b, _ := json.Marshal(map[string]interface{}{"stream": stream, "idx": idx, "text": text})
	buf := make([]byte, slotSize)
	for i := range buf {
		buf[i] = ' '
	}
	if len(b) > slotSize-1 {
		b, _ = json.Marshal(map[string]interface{}{"stream": stream, "idx": idx})
	}
	copy(buf, b)
	buf[slotSize-1] = '\n'
	c.progress.WriteAt(buf, int64(slot)*slotSize)
}

// End clears a progress slot.
func (c *Ctx) End(slot int) {
	if slot < 0 || slot >= maxSlots {
		slot = 0
	}
	buf := make([]byte, slotSize)
	for i := range buf {
		buf[i] = ' '
	}
	buf[slotSize-1] = '\n'
	c.progress.WriteAt(buf, int64(slot)*slotSize)
}

// Rng returns the deterministic PRNG of a case.
func (c *Ctx) Rng(stream string, idx int) *Rand {
	h := fnv.New64a()
	h.Write([]byte(stream))
	return NewRand(c.Seed*0x9E3779B97F4A7C15 ^ h.Sum64() ^ (uint64(idx)+1)*0xBF58476D1CE4E5B9)
}

// Nontrivial records a distinct non-trivial case by hash.
func (c *Ctx) Nontrivial(h uint64) {
	c.mu.Lock()
	c.hashes[h] = struct{}{}
	c.mu.Unlock()
}

// NontrivialKey records a distinct non-trivial case by string key.
func (c *Ctx) NontrivialKey(s string) {
	h := fnv.New64a()
	h.Write([]byte(s))
	c.Nontrivial(h.Sum64())
}

// Event adds to an observed-event counter.
func (c *Ctx) Event(name string, n int64) {
	c.mu.Lock()
	c.events[name] += n
	c.mu.Unlock()
}

// Note stores a free-text note for the evidence file.
func (c *Ctx) Note(k, v string) {
	c.mu.Lock()
	c.notes[k] = v
	c.mu.Unlock()
}

// Sample keeps up to 3 samples per class.
func (c *Ctx) Sample(class string, v interface{}) {
	c.mu.Lock()
	if c.sampleSeen[class] < 3 && len(c.samples) < 40 {
		c.sampleSeen[class]++
		c.samples = append(c.samples, map[string]interface{}{"class": class, "case": v})
	}
	c.mu.Unlock()
}

// Violation reports a refuting observation. key is the finding signature
// that is matched against known_findings.json by the driver.
func (c *Ctx) Violation(key, what, stream string, idx int, detail interface{}) {
	atomic.AddInt64(&c.violations, 1)
	c.write(map[string]interface{}{"type": "violation", "key": key, "what": what,
		"stream": stream, "idx": idx, "detail": detail, "seed": c.Seed, "tier": c.Tier})
}

// Inconclusive reports a case on which no verdict was possible.
func (c *Ctx) Inconclusive(what, stream string, idx int, detail interface{}) {
	atomic.AddInt64(&c.inconclusive, 1)
	c.write(map[string]interface{}{"type": "inconclusive", "what": what,
		"stream": stream, "idx": idx, "detail": detail})
}

func (c *Ctx) write(m map[string]interface{}) {
	b, err := json.Marshal(m)
	if err != nil {
		m["detail"] = fmt.Sprint(m["detail"])
		b, _ = json.Marshal(m)
	}
	c.mu.Lock()
	c.rec.Write(b)
	c.rec.WriteByte('\n')
	c.rec.Flush()
	c.mu.Unlock()
}

// Close writes the batch summary and the hash file.
func (c *Ctx) Close() error {
	c.mu.Lock()
	defer c.mu.Unlock()
	c.rec.Flush()
	c.recFile.Close()
	hf, err := os.Create(filepath.Join(c.OutDir, fmt.Sprintf("b%d.hashes", c.Batch)))
	if err != nil {
		return err
	}
	w := bufio.NewWriter(hf)
	var b [8]byte
	for h := range c.hashes {
		binary.LittleEndian.PutUint64(b[:], h)
		w.Write(b[:])
	}
	w.Flush()
	hf.Close()
	sum := map[string]interface{}{
		"batch": c.Batch, "evaluations": c.evals, "nontrivial_in_batch": len(c.hashes),
		"events": c.events, "samples": c.samples, "inconclusive": c.inconclusive,
		"violations": c.violations, "notes": c.notes, "race": c.Race,
	}
	sb, err := json.Marshal(sum)
	if err != nil {
		return err
	}
	return os.WriteFile(filepath.Join(c.OutDir, fmt.Sprintf("b%d.summary.json", c.Batch)), sb, 0o644)
}

// Parallel runs fn for every case index in [0,total) that belongs to this
// batch, on n goroutines; slot is the goroutine's progress slot.
func (c *Ctx) Parallel(n int, stream string, total int, fn func(slot, idx int)) {
	if n < 1 {
		n = 1
	}
	var next int64 = -1
	var wg sync.WaitGroup
	for g := 0; g < n; g++ {
		wg.Add(1)
		go func(slot int) {
			defer wg.Done()
			for {
				i := int(atomic.AddInt64(&next, 1))
				if i >= total {
					return
				}
				if c.Take(stream, i) {
					fn(slot, i)
				}
			}
		}(g)
	}
	wg.Wait()
}

var ecalFrame = regexp.MustCompile(`github\.com/krotik/(ecal|common)/[^\s(]+(\([^)]*\))?[^\s(]*`)
var addrRe = regexp.MustCompile(`0x[0-9a-f]+`)
var numRe = regexp.MustCompile(`[0-9]+`)

// PanicKey derives a finding signature from a recovered panic value and the
// stack at recovery time: innermost ecal frame + normalised panic class.
func PanicKey(r interface{}, stack []byte) string {
	return "panic:" + InnermostEcalFrame(string(stack)) + ":" + PanicClass(fmt.Sprint(r))
}

// InnermostEcalFrame finds the first krotik frame in a stack dump.
func InnermostEcalFrame(stack string) string {
	for _, line := range strings.Split(stack, "\n") {
		line = strings.TrimSpace(line)
		if strings.HasPrefix(line, "github.com/krotik/") {
			if i := strings.LastIndex(line, "("); i > 0 && !strings.HasSuffix(line[:i], ")") {
				line = line[:i]
			} else if i > 0 {
				// method on pointer receiver: pkg.(*T).m(...)
				if j := strings.LastIndex(line, ")("); j > 0 {
					line = line[:j+1]
				} else {
					line = line[:i]
				}
			}
			line = strings.TrimPrefix(line, "github.com/krotik/")
			return line
		}
	}
	return "?"
}

// PanicClass normalises a panic message.
func PanicClass(msg string) string {
	msg = addrRe.ReplaceAllString(msg, "X")
	switch {
	case strings.Contains(msg, "index out of range"):
		return "index out of range"
	case strings.Contains(msg, "slice bounds out of range"):
		return "slice bounds out of range"
	case strings.Contains(msg, "nil pointer dereference"):
		return "nil pointer"
	case strings.Contains(msg, "unhashable type"):
		return "unhashable type"
	case strings.Contains(msg, "comparing uncomparable"):
		return "comparing uncomparable"
	case strings.Contains(msg, "interface conversion"):
		return "interface conversion"
	case strings.Contains(msg, "integer divide by zero"):
		return "integer divide by zero"
	case strings.Contains(msg, "concurrent map"):
		return "concurrent map"
	case strings.Contains(msg, "assignment to entry in nil map"):
		return "nil map write"
	}
	msg = numRe.ReplaceAllString(msg, "N")
	if len(msg) > 60 {
		msg = msg[:60]
	}
	return msg
}

// Guard runs f and converts a panic into (key, message, true).
func Guard(f func()) (key, msg string, panicked bool) {
	defer func() {
		if r := recover(); r != nil {
			st := debug.Stack()
			// drop the frames of the recovery machinery: start after the
			// line naming panic()
			s := string(st)
			if i := strings.Index(s, "panic("); i >= 0 {
				s = s[i:]
			}
			key = "panic:" + InnermostEcalFrame(s) + ":" + PanicClass(fmt.Sprint(r))
			msg = fmt.Sprint(r)
			if len(s) > 3000 {
				s = s[:3000]
			}
			msg += "\n" + s
			panicked = true
		}
	}()
	f()
	return
}

// Hash64 hashes a string.
func Hash64(s string) uint64 {
	h := fnv.New64a()
	h.Write([]byte(s))
	return h.Sum64()
}

// Violations returns the number of violations reported by this process so far
// (checks whose failing cases are expensive stop a stream after a cap).
func (c *Ctx) Violations() int64 { return atomic.LoadInt64(&c.violations) }
