package core

// Rand is a splitmix64 generator (deterministic, seedable per case).
type Rand struct{ s uint64 }

// NewRand creates a generator.
func NewRand(seed uint64) *Rand { return &Rand{seed} }

// U64 returns the next value.
func (r *Rand) U64() uint64 {
	r.s += 0x9E3779B97F4A7C15
	z := r.s
	z = (z ^ (z >> 30)) * 0xBF58476D1CE4E5B9
	z = (z ^ (z >> 27)) * 0x94D049BB133111EB
	return z ^ (z >> 31)
}

// Intn returns a value in [0,n).
func (r *Rand) Intn(n int) int {
	if n <= 0 {
		return 0
	}
	return int(r.U64() % uint64(n))
}

// Range returns a value in [lo,hi].
func (r *Rand) Range(lo, hi int) int { return lo + r.Intn(hi-lo+1) }

// Bool returns true with probability 1/2.
func (r *Rand) Bool() bool { return r.U64()&1 == 1 }

// Chance returns true with probability num/den.
func (r *Rand) Chance(num, den int) bool { return r.Intn(den) < num }

// Float returns a value in [0,1).
func (r *Rand) Float() float64 { return float64(r.U64()>>11) / (1 << 53) }

// Pick returns one of the strings.
func (r *Rand) Pick(s []string) string { return s[r.Intn(len(s))] }

// Perm returns a permutation of [0,n).
func (r *Rand) Perm(n int) []int {
	p := make([]int, n)
	for i := range p {
		p[i] = i
	}
	for i := n - 1; i > 0; i-- {
		j := r.Intn(i + 1)
		p[i], p[j] = p[j], p[i]
	}
	return p
}

// OneOf returns one of the given ints.
func (r *Rand) OneOf(vals ...int) int { return vals[r.Intn(len(vals))] }
