//go:build race

package core

// RaceEnabled tells whether the binary was built with -race.
const RaceEnabled = true
