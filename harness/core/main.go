package core

import (
	"flag"
	"fmt"
	"os"
	"strings"
)

// Main is the entry point of every check binary.
func Main() {
	if len(os.Args) < 2 {
		fmt.Fprintln(os.Stderr, "usage: vh <ID> [flags]; ids:", IDs())
		os.Exit(2)
	}
	id := os.Args[1]
	fs := flag.NewFlagSet("vh", flag.ExitOnError)
	tier := fs.String("tier", "quick", "quick|thorough")
	seed := fs.Uint64("seed", 1, "VERIF_SEED")
	batch := fs.Int("batch", 0, "batch number")
	nbatch := fs.Int("nbatch", 1, "number of batches")
	out := fs.String("out", "", "output directory")
	only := fs.String("only", "", "stream:idx (replay one case)")
	skip := fs.String("skip", "", "comma separated stream:idx to skip")
	fs.Parse(os.Args[2:])
	f := Lookup(id)
	if f == nil {
		fmt.Fprintln(os.Stderr, "unknown check", id, "known:", IDs())
		os.Exit(2)
	}
	if *out == "" {
		fmt.Fprintln(os.Stderr, "--out required")
		os.Exit(2)
	}
	c, err := NewCtx(id, *tier, *seed, *batch, *nbatch, *out, *only, strings.Split(*skip, ","))
	if err != nil {
		fmt.Fprintln(os.Stderr, err)
		os.Exit(2)
	}
	f(c)
	if err := c.Close(); err != nil {
		fmt.Fprintln(os.Stderr, err)
		os.Exit(2)
	}
}
