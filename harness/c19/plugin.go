package c19

import (
	"errors"
	"fmt"
	"os"
	"reflect"
	"runtime"
	"strings"
	"sync"
	"sync/atomic"
	"time"

	"github.com/krotik/ecal/interpreter"
	"github.com/krotik/ecal/parser"
	"github.com/krotik/ecal/scope"
	"github.com/krotik/ecal/stdlib"
	"github.com/krotik/ecal/util"

	"verif/harness/core"
	"verif/harness/sched"
)

// ---------------------------------------------------------------------------
// Real plugin functions: harness/c19plugin is built with -buildmode=plugin by
// the driver (same toolchain, tags and -race setting as this binary) and
// loaded through the repository's own stdlib.AddStdlibPluginFunc and
// stdlib.LoadStdlibPlugins - plugin.Open, Lookup, the util.ECALPluginFunction
// assertion and the bridge closure are the real ones. The mirrors below say
// what each exported function does (the reference the adapter result is
// compared with).
// ---------------------------------------------------------------------------

type pluginSpec struct {
	name, sym string
	mirror    func(a ...interface{}) (interface{}, error)
	viaJSON   bool
}

var pluginSpecs = []pluginSpec{
	{"count", "PlCount", func(a ...interface{}) (interface{}, error) { return len(a), nil }, false},
	{"countFloat", "PlCountFloat", func(a ...interface{}) (interface{}, error) { return float64(len(a)), nil }, true},
	{"echo", "PlEcho", func(a ...interface{}) (interface{}, error) {
		switch len(a) {
		case 0:
			return nil, nil
		case 1:
			return a[0], nil
		}
		return append([]interface{}(nil), a...), nil
	}, false},
	{"error", "PlError", func(a ...interface{}) (interface{}, error) { return "partial", errors.New("plugin failed") }, true},
	{"panicIndex", "PlPanicIndex", func(a ...interface{}) (interface{}, error) { return a[5], nil }, false},
	{"panicOdd", "PlPanicOdd", func(a ...interface{}) (interface{}, error) {
		if len(a)%2 == 1 {
			panic("odd")
		}
		return float64(len(a)), nil
	}, true},
	{"sum", "PlSum", func(a ...interface{}) (interface{}, error) {
		s := 0.0
		for i, x := range a {
			f, ok := x.(float64)
			if !ok {
				return nil, fmt.Errorf("argument %d is not a number", i+1)
			}
			s += f
		}
		return s, nil
	}, false},
}

var pluginOnce sync.Once
var pluginTs []*target
var pluginLoaded bool

// pluginTargets loads the plugin once per process and returns one target per
// exported function. Loading problems are violations: the loader has to
// return an error or register the function, never panic.
func (h *harness) pluginTargets() []*target {
	pluginOnce.Do(func() {
		c := h.c
		path := os.Getenv("VH_PLUGIN")
		if path == "" {
			return
		}
		pluginLoaded = true
		load := func(what string, wantErr bool, f func() error) {
			var err error
			key, msg, panicked := core.Guard(func() { err = f() })
			switch {
			case panicked:
				c.Violation("plugin-load:"+key, "loading a plugin function panicked ("+what+"): "+strings.SplitN(msg, "\n", 2)[0], "plugin-load", 0, map[string]interface{}{"panic": msg})
			case wantErr && err == nil:
				c.Violation("plugin-load:no-error", "the plugin loader accepted "+what, "plugin-load", 0, nil)
			case !wantErr && err != nil:
				c.Violation("plugin-load:rejected", "the plugin loader rejected "+what+": "+err.Error(), "plugin-load", 0, nil)
			default:
				c.Event("plugin.load."+map[bool]string{true: "error-as-demanded", false: "loaded"}[wantErr], 1)
			}
		}
		for _, s := range pluginSpecs {
			s := s
			if s.viaJSON {
				load("symbol "+s.sym+" (LoadStdlibPlugins)", false, func() error {
					errs := stdlib.LoadStdlibPlugins([]interface{}{map[string]interface{}{"package": "c19p", "name": s.name, "path": path, "symbol": s.sym}})
					if len(errs) > 0 {
						return errs[0]
					}
					return nil
				})
			} else {
				load("symbol "+s.sym, false, func() error { return stdlib.AddStdlibPluginFunc("c19p", s.name, path, s.sym) })
			}
			f, ok := stdlib.GetStdlibFunc("c19p." + s.name)
			if !ok {
				c.Violation("plugin-load:not-registered", "c19p."+s.name+" is not in the stdlib after loading", "plugin-load", 0, nil)
				continue
			}
			pluginTs = append(pluginTs, &target{name: "c19p." + s.name, class: "plugin-real", adapter: f, gofn: reflect.ValueOf(s.mirror), ecal: "c19p." + s.name})
		}
		load("a file that does not exist", true, func() error { return stdlib.AddStdlibPluginFunc("c19p", "nofile", path+".missing", "PlCount") })
		load("a file that is not a plugin", true, func() error { return stdlib.AddStdlibPluginFunc("c19p", "notso", os.Args[0]+".nothing", "PlCount") })
		load("a symbol that does not exist", true, func() error { return stdlib.AddStdlibPluginFunc("c19p", "nosym", path, "PlNoSuchSymbol") })
		load("a symbol that is not a function", true, func() error { return stdlib.AddStdlibPluginFunc("c19p", "notfn", path, "NotAFunction") })
		for _, n := range []string{"nofile", "notso", "nosym", "notfn"} {
			if _, ok := stdlib.GetStdlibFunc("c19p." + n); ok {
				c.Violation("plugin-load:registered-after-error", "c19p."+n+" was registered although loading failed", "plugin-load", 0, nil)
			}
		}
	})
	return pluginTs
}

// ---------------------------------------------------------------------------
// call histories: "returns the function's results" must stay true - the value
// handed to the program is the program's; and a panic inside a Go function
// must leave the function callable.
// ---------------------------------------------------------------------------

// retained is a result that was delivered earlier and equalled the reference.
type retained struct {
	stream string
	idx    int
	tg     *target
	args   []interface{}
	live   interface{} // what Run returned (the object itself)
	want   interface{}
}

const retainN = 8

// retain remembers a delivered result and re-examines the older ones: a later
// bridge call must not change what an earlier call returned.
func (h *harness) retain(r retained) {
	for _, o := range h.kept {
		if !same(o.live, o.want) {
			h.violation("result-changed-later", fmt.Sprintf("a result list delivered earlier changed after a later bridge call (%s)", r.tg.name), o.stream, o.idx, o.tg, o.args,
				map[string]interface{}{"delivered_then": show(o.want), "holds_now": show(o.live), "later_call": r.tg.name, "later_args": showArgs(r.args)})
			h.kept = nil
			break
		}
	}
	if _, isList := r.live.([]interface{}); !isList {
		return
	}
	h.c.Event("retained.list-results", 1)
	h.kept = append(h.kept, r)
	if len(h.kept) > retainN {
		h.kept = h.kept[1:]
	}
}

// watchedCall runs one adapter call on a goroutine of its own. A call that
// does not return is decided by a logical witness from one goroutine dump: the
// caller is parked in a lock acquisition made by stdlib code while no other
// goroutine is inside stdlib or plugin code (nobody holds that lock for a
// reason) and no goroutine can take a step.
func (h *harness) watchedCall(tg *target, args []interface{}) (ret interface{}, err error, key, msg string, panicked, blocked bool, witness string) {
	done := make(chan struct{})
	var gid uint64
	go func() {
		atomic.StoreUint64(&gid, sched.GoID())
		ret, err, key, msg, panicked = callAdapter(tg, args)
		close(done)
	}()
	for i := 0; ; i++ {
		select {
		case <-done:
			return
		default:
		}
		if i > 200 && i%100 == 0 {
			if g := atomic.LoadUint64(&gid); g != 0 {
				d := sched.Dump()
				gi := d[g]
				inLock := (gi.State == "sync.Mutex.Lock" || gi.State == "sync.RWMutex.Lock" || gi.State == "sync.RWMutex.RLock") &&
					strings.Contains(sched.InnermostNonRuntime(d, g), "github.com/krotik/ecal/stdlib")
				others := false
				for id, o := range d {
					if id != g && (strings.Contains(o.Stack, "github.com/krotik/ecal/stdlib.") || strings.Contains(o.Stack, "plugin/unnamed") || strings.Contains(o.Stack, "c19plugin")) {
						others = true
					}
				}
				if inLock && !others && !sched.CanStep(d, sched.GoID()) {
					return nil, nil, "", "", false, true, gi.Stack
				}
			}
		}
		if i > 40000 {
			return nil, nil, "", "", false, true, ""
		}
		if i < 100 {
			runtime.Gosched()
		} else {
			time.Sleep(100 * time.Microsecond)
		}
	}
}

// streamPluginSeq: random call sequences over the real plugin functions, the
// panicking ones included; every call is judged like any other call and must
// return.
func (h *harness) streamPluginSeq(ts []*target) {
	c := h.c
	if len(ts) == 0 {
		return
	}
	n := c.Pick(3000, 100000)
	const stream = "plugin-seq"
	for i := 0; i < n; i++ {
		if !c.Mine(stream, i) {
			continue
		}
		r := c.Rng(stream, i)
		steps := r.Range(2, 6)
		for s := 0; s < steps; s++ {
			tg := ts[r.Intn(len(ts))]
			args := make([]interface{}, r.Intn(8))
			for k := range args {
				if r.Chance(2, 3) {
					args[k] = numbers[r.Intn(len(numbers))]
				} else {
					args[k] = universe[1+r.Intn(len(universe)-1)].v
				}
			}
			c.AddEvals(1)
			o := h.judge(stream, i, tg, args)
			c.Event("pluginseq."+o, 1)
		}
	}
}

// streamConc: several goroutines call multi-result functions at the same time
// and look at what they got a little later.
func (h *harness) streamConc(ts []*target) {
	c := h.c
	var multi []*target
	for _, tg := range ts {
		if tg.gofn.IsValid() && resultCount(tg.gofn.Type()) >= 2 {
			multi = append(multi, tg)
		}
	}
	if len(multi) == 0 {
		return
	}
	n := c.Pick(400, 20000)
	const stream = "conc"
	for i := 0; i < n; i++ {
		if !c.Take(stream, i) {
			continue
		}
		r := c.Rng(stream, i)
		g := r.Range(2, 4)
		type job struct {
			tg   *target
			args []interface{}
			want interface{}
		}
		var jobs []job
		for k := 0; k < g; k++ {
			tg := multi[r.Intn(len(multi))]
			args := wellFormedArgs(r, tg.gofn.Type())
			e := expect(tg.gofn, args)
			if e.anything || e.mustError || e.goErr != nil || slowOrder(tg.name, args) {
				continue
			}
			jobs = append(jobs, job{tg, args, shape(e.results)})
		}
		if len(jobs) < 2 {
			continue
		}
		var wg sync.WaitGroup
		start := make(chan struct{})
		var bad atomic.Value
		for _, j := range jobs {
			j := j
			wg.Add(1)
			go func() {
				defer wg.Done()
				<-start
				for it := 0; it < 40; it++ {
					ret, err, _, _, panicked := callAdapter(j.tg, j.args)
					if panicked || err != nil {
						return
					}
					first := same(ret, j.want)
					runtime.Gosched()
					if first && !same(ret, j.want) {
						bad.Store(fmt.Sprintf("%s%v delivered %s and holds %s a moment later", j.tg.name, showArgs(j.args), show(j.want), show(ret)))
						return
					}
				}
			}()
		}
		close(start)
		wg.Wait()
		c.Event("conc.rounds", 1)
		if b := bad.Load(); b != nil {
			h.violation("result-changed-concurrently", "a result list changed while another thread called a bridged function: "+b.(string), stream, i, jobs[0].tg, jobs[0].args, nil)
		} else {
			c.Nontrivial(core.Hash64(fmt.Sprintf("conc|%d", i)))
		}
	}
}

// streamComputed: ONE parsed call site pkg[fn](a0) is evaluated again and
// again with another function name in fn (what a loop over function names, a
// dispatching ECAL function or a sink driven by event state does). Every
// evaluation must give what the function named THIS time gives.
func (h *harness) streamComputed(ts []*target) {
	c := h.c
	byPkg := map[string][]*target{}
	for _, tg := range ts {
		if !tg.gofn.IsValid() || h.dead[tg.name] {
			continue
		}
		t := tg.gofn.Type()
		if t.NumIn() != 1 || t.IsVariadic() || !isNumericKind(t.In(0).Kind()) {
			continue
		}
		i := strings.Index(tg.ecal, ".")
		if i < 0 {
			continue
		}
		byPkg[tg.ecal[:i]] = append(byPkg[tg.ecal[:i]], tg)
	}
	var pkgs []string
	for p, l := range byPkg {
		if len(l) >= 2 {
			pkgs = append(pkgs, p)
		}
	}
	if len(pkgs) == 0 {
		return
	}
	sortStrings(pkgs)
	erpOnce.Do(func() { sharedERP = interpreter.NewECALRuntimeProvider("c19", nil, util.NewMemoryLogger(10)) })
	erp := sharedERP
	n := c.Pick(1500, 60000)
	const stream = "computed"
	for i := 0; i < n; i++ {
		if !c.Take(stream, i) {
			continue
		}
		r := c.Rng(stream, i)
		pkg := pkgs[r.Intn(len(pkgs))]
		cands := byPkg[pkg]
		src := pkg + "[fn](a0)"
		var ast *parser.ASTNode
		var perr error
		core.Guard(func() {
			if ast, perr = parser.ParseWithRuntime("c19", src, erp); perr == nil {
				perr = ast.Runtime.Validate()
			}
		})
		if perr != nil || ast == nil {
			c.Inconclusive("computed call site does not parse: "+fmt.Sprint(perr), stream, i, nil)
			continue
		}
		rounds := r.Range(3, 7)
		for k := 0; k < rounds; k++ {
			tg := cands[r.Intn(len(cands))]
			x := numbers[r.Intn(len(numbers))]
			args := []interface{}{x}
			if slowOrder(tg.name, args) {
				continue
			}
			fn := tg.ecal[len(pkg)+1:]
			vs := scope.NewScope(scope.GlobalScope)
			vs.SetValue("fn", fn)
			vs.SetValue("a0", x)
			var val interface{}
			var err error
			key, msg, panicked := core.Guard(func() {
				val, err = ast.Runtime.Eval(vs, make(map[string]interface{}), erp.NewThreadID())
			})
			c.AddEvals(1)
			if panicked {
				h.violation(key, "panic while calling a bridged function through a computed member access", stream, i, tg, args, map[string]interface{}{"source": src, "fn": fn, "panic": msg})
				break
			}
			dret, derr, _, _, dpanicked := callAdapter(tg, args)
			if dpanicked {
				break
			}
			switch {
			case (err == nil) != (derr == nil):
				h.violation("computed-call:error-differs", fmt.Sprintf("evaluation number %d of the call site %s with fn=%q does not agree with calling %s directly (error on one side only)", k+1, src, fn, tg.name), stream, i, tg, args,
					map[string]interface{}{"source": src, "fn": fn, "round": k + 1, "ecal": fmt.Sprint(val, " / ", err), "direct": fmt.Sprint(show(dret), " / ", derr)})
				k = rounds
			case err == nil && !same(val, dret):
				h.violation("computed-call:other-function", fmt.Sprintf("evaluation number %d of the call site %s with fn=%q returns %s, the function named gives %s", k+1, src, fn, show(val), show(dret)), stream, i, tg, args,
					map[string]interface{}{"source": src, "fn": fn, "round": k + 1})
				k = rounds
			default:
				c.Event("computed.agrees", 1)
				if k > 0 {
					c.Nontrivial(core.Hash64(fmt.Sprintf("computed|%d|%d", i, k)))
				}
			}
		}
	}
}

func sortStrings(a []string) {
	for i := 1; i < len(a); i++ {
		for j := i; j > 0 && a[j] < a[j-1]; j-- {
			a[j], a[j-1] = a[j-1], a[j]
		}
	}
}
