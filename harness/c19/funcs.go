package c19

import (
	"errors"
	"fmt"
	"math"
	"time"

	"github.com/krotik/ecal/parser"
	"github.com/krotik/ecal/util"
)

// Named numeric types (a parameter of type time.Duration or os.FileMode is
// what an embedder really has).
type (
	MyInt int
	MyU8  uint8
	MyF32 float32
	MyF64 float64
)

// bridged is one Go function that is put behind stdlib.ECALFunctionAdapter.
type bridged struct {
	name  string
	fn    interface{}
	class string // identity | params | variadic | results | error | panic | plugin | math
}

// ecalFn is a function object as ECAL code could pass it.
type ecalFn struct{}

func (ecalFn) Run(instanceID string, vs parser.Scope, is map[string]interface{}, tid uint64, args []interface{}) (interface{}, error) {
	return nil, nil
}
func (ecalFn) DocString() (string, error) { return "fn", nil }
func (ecalFn) String() string             { return "ecalFn" }

type customPanic struct{ code int }

// pluginFunc is what a plugin exports (util.ECALPluginFunction).
type pluginFunc struct {
	run func(args []interface{}) (interface{}, error)
}

func (p pluginFunc) Run(args []interface{}) (interface{}, error) { return p.run(args) }
func (p pluginFunc) DocString() string                           { return "plugin" }

var _ util.ECALPluginFunction = pluginFunc{}

// pluginShape builds exactly the function value stdlib.AddStdlibPluginFunc
// wraps into an adapter.
func pluginShape(p util.ECALPluginFunction) interface{} {
	return func(a ...interface{}) (interface{}, error) {
		return p.Run(a)
	}
}

var synthetic = []bridged{
	// identity for every numeric kind and for named numeric types
	{"idInt", func(x int) int { return x }, "identity"},
	{"idInt8", func(x int8) int8 { return x }, "identity"},
	{"idInt16", func(x int16) int16 { return x }, "identity"},
	{"idInt32", func(x int32) int32 { return x }, "identity"},
	{"idInt64", func(x int64) int64 { return x }, "identity"},
	{"idUint", func(x uint) uint { return x }, "identity"},
	{"idUint8", func(x uint8) uint8 { return x }, "identity"},
	{"idUint16", func(x uint16) uint16 { return x }, "identity"},
	{"idUint32", func(x uint32) uint32 { return x }, "identity"},
	{"idUint64", func(x uint64) uint64 { return x }, "identity"},
	{"idUintptr", func(x uintptr) uintptr { return x }, "identity"},
	{"idFloat32", func(x float32) float32 { return x }, "identity"},
	{"idFloat64", func(x float64) float64 { return x }, "identity"},
	{"idMyInt", func(x MyInt) MyInt { return x }, "identity"},
	{"idMyU8", func(x MyU8) MyU8 { return x }, "identity"},
	{"idMyF32", func(x MyF32) MyF32 { return x }, "identity"},
	{"idMyF64", func(x MyF64) MyF64 { return x }, "identity"},
	{"idDuration", func(x time.Duration) time.Duration { return x }, "identity"},

	// 0..4 parameters of mixed kinds
	{"p0", func() float64 { return 42 }, "params"},
	{"p0none", func() {}, "params"},
	{"p1string", func(s string) string { return "<" + s + ">" }, "params"},
	{"p1bool", func(b bool) bool { return !b }, "params"},
	{"p1list", func(l []interface{}) int { return len(l) }, "params"},
	{"p1map", func(m map[interface{}]interface{}) int { return len(m) }, "params"},
	{"p1iface", func(x interface{}) interface{} { return x }, "params"},
	{"p1error", func(e error) string { return "error" }, "params"},
	{"p1stringer", func(s fmt.Stringer) string { return s.String() }, "params"},
	{"p1ecalfunc", func(f util.ECALFunction) string { d, _ := f.DocString(); return d }, "params"},
	{"p2", func(a int, s string) string { return fmt.Sprintf("%d|%s", a, s) }, "params"},
	{"p2iface", func(x, y interface{}) []interface{} { return []interface{}{y, x} }, "params"},
	{"p3", func(a float64, b bool, c uint8) (float64, bool, uint8) { return a * 2, !b, c + 1 }, "params"},
	{"p4", func(s string, l []interface{}, m map[interface{}]interface{}, d int16) int {
		return len(s) + len(l) + len(m) + int(d)
	}, "params"},
	{"p4num", func(a int8, b uint16, c float32, d int64) float64 {
		return float64(a) + float64(b) + float64(c) + float64(d)
	}, "params"},

	// variadic
	{"v0", func(xs ...interface{}) int { return len(xs) }, "variadic"},
	{"v1", func(s string, xs ...interface{}) string { return s + fmt.Sprint(len(xs)) }, "variadic"},
	{"vfloat", func(xs ...float64) float64 {
		t := 0.0
		for _, x := range xs {
			t += x
		}
		return t
	}, "variadic"},
	{"vint", func(a int, xs ...int) int { return a + len(xs) }, "variadic"},
	{"vstring", func(xs ...string) string { return fmt.Sprint(len(xs), xs) }, "variadic"},

	// 0..3 results, result kinds
	{"r0", func(x float64) {}, "results"},
	{"r2", func(x float64) (float64, int) { return x, 7 }, "results"},
	{"r3", func(x int) (int8, uint16, float32) { return -8, 16, 0.5 }, "results"},
	{"rUint64Max", func() uint64 { return math.MaxUint64 }, "results"},
	{"rInt64Min", func() int64 { return math.MinInt64 }, "results"},
	{"rUintptr", func() uintptr { return 4096 }, "results"},
	{"rFloat32", func() float32 { return 0.1 }, "results"},
	{"rMyInt", func() MyInt { return 7 }, "results"},
	{"rMyF32", func() MyF32 { return 0.25 }, "results"},
	{"rIfaceInt", func() interface{} { return 3 }, "results"},
	{"rIfaceUint8", func() interface{} { return uint8(200) }, "results"},
	{"rIfaceFloat32", func() interface{} { return float32(0.5) }, "results"},
	{"rIfaceFloat64", func() interface{} { return 2.5 }, "results"},
	{"rIfaceString", func() interface{} { return "s" }, "results"},
	{"rIfaceNil", func() interface{} { return nil }, "results"},
	{"rIfaceTwo", func(x interface{}) (interface{}, interface{}) { return int32(-4), "t" }, "results"},
	{"rList", func() []interface{} { return []interface{}{1.0, "a"} }, "results"},
	{"rMap", func() map[interface{}]interface{} { return map[interface{}]interface{}{"a": 1.0} }, "results"},
	{"rBoolString", func(b bool) (bool, string) { return b, fmt.Sprint(b) }, "results"},

	// (T, error)
	{"eSqrt", func(x float64) (float64, error) {
		if x < 0 {
			return 0, errors.New("negative argument")
		}
		return math.Sqrt(x), nil
	}, "error"},
	{"eNil", func() error { return nil }, "error"},
	{"eAlways", func() error { return errors.New("always fails") }, "error"},
	{"eThree", func(x int) (int, string, error) {
		if x%2 != 0 {
			return x, "odd", fmt.Errorf("odd: %d", x)
		}
		return x, "even", nil
	}, "error"},
	{"eIfaceInt", func(x float64) (interface{}, error) {
		if x < 0 {
			return nil, errors.New("negative")
		}
		return int(x), nil
	}, "error"},

	// panicking functions of several kinds
	{"pnString", func(x float64) float64 { panic("boom") }, "panic"},
	{"pnError", func(x float64) float64 { panic(errors.New("boom error")) }, "panic"},
	{"pnNilMap", func(x float64) float64 { var m map[string]int; m["a"] = 1; return x }, "panic"},
	{"pnIndex", func(x int) int { var l []int; return l[x] }, "panic"},
	{"pnNilDeref", func(x float64) float64 { var p *float64; return *p + x }, "panic"},
	{"pnCustom", func() { panic(customPanic{3}) }, "panic"},
	{"pnDivide", func(x int) int { return 10 / x }, "panic"},
	{"pnAssert", func(x interface{}) string { return x.(string) }, "panic"},
	{"pnPositive", func(x float64) float64 {
		if x > 0 {
			panic(fmt.Sprintf("positive: %v", x))
		}
		return x
	}, "panic"},

	// plugin-style functions through the shape AddStdlibPluginFunc builds
	{"plCount", pluginShape(pluginFunc{func(a []interface{}) (interface{}, error) { return len(a), nil }}), "plugin"},
	{"plCountFloat", pluginShape(pluginFunc{func(a []interface{}) (interface{}, error) { return float64(len(a)), nil }}), "plugin"},
	{"plEcho", pluginShape(pluginFunc{func(a []interface{}) (interface{}, error) {
		if len(a) == 0 {
			return nil, errors.New("need an argument")
		}
		return a[0], nil
	}}), "plugin"},
	{"plError", pluginShape(pluginFunc{func(a []interface{}) (interface{}, error) { return "partial", errors.New("plugin failed") }}), "plugin"},
	{"plPanic", pluginShape(pluginFunc{func(a []interface{}) (interface{}, error) { return a[5], nil }}), "plugin"},
	{"plSum", pluginShape(pluginFunc{func(a []interface{}) (interface{}, error) {
		t := 0.0
		for _, x := range a {
			f, ok := x.(float64)
			if !ok {
				return nil, fmt.Errorf("not a number: %v", x)
			}
			t += f
		}
		return t, nil
	}}), "plugin"},
}

// goMath: the Go functions the generated stdlib claims to expose, by the
// stdlib's own naming (Go name with a lower-case first letter). Written from
// the Go documentation, not from stdlib_gen.go; a stdlib symbol without an
// entry here is checked for totality only.
var goMath = map[string]interface{}{
	"abs": math.Abs, "acos": math.Acos, "acosh": math.Acosh, "asin": math.Asin, "asinh": math.Asinh,
	"atan": math.Atan, "atan2": math.Atan2, "atanh": math.Atanh, "cbrt": math.Cbrt, "ceil": math.Ceil,
	"copysign": math.Copysign, "cos": math.Cos, "cosh": math.Cosh, "dim": math.Dim, "erf": math.Erf,
	"erfc": math.Erfc, "erfcinv": math.Erfcinv, "erfinv": math.Erfinv, "exp": math.Exp, "exp2": math.Exp2,
	"expm1": math.Expm1, "floor": math.Floor, "frexp": math.Frexp, "gamma": math.Gamma, "hypot": math.Hypot,
	"ilogb": math.Ilogb, "inf": math.Inf, "isInf": math.IsInf, "isNaN": math.IsNaN, "j0": math.J0, "j1": math.J1,
	"jn": math.Jn, "ldexp": math.Ldexp, "lgamma": math.Lgamma, "log": math.Log, "log10": math.Log10,
	"log1p": math.Log1p, "log2": math.Log2, "logb": math.Logb, "max": math.Max, "min": math.Min, "mod": math.Mod,
	"modf": math.Modf, "naN": math.NaN, "nextafter": math.Nextafter, "nextafter32": math.Nextafter32,
	"pow": math.Pow, "pow10": math.Pow10, "remainder": math.Remainder, "round": math.Round,
	"roundToEven": math.RoundToEven, "signbit": math.Signbit, "sin": math.Sin, "sincos": math.Sincos,
	"sinh": math.Sinh, "sqrt": math.Sqrt, "tan": math.Tan, "tanh": math.Tanh, "trunc": math.Trunc,
	"y0": math.Y0, "y1": math.Y1, "yn": math.Yn,
}

// slowOrder tells whether argument vector args would send one of Go's own
// math functions into a loop of astronomic length (integer order / exponent
// parameters): not the bridge's business.
func slowOrder(name string, args []interface{}) bool {
	pos := -1
	switch name {
	case "math.jn", "math.yn", "math.pow10":
		pos = 0
	case "math.ldexp":
		pos = 1
	}
	if pos < 0 || pos >= len(args) {
		return false
	}
	f, ok := args[pos].(float64)
	return ok && !(f > -1000 && f < 1000)
}
