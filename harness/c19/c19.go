// Package c19 holds the runtime monitors for property C19 (see DESIGN.md section 4).
package c19

import "verif/harness/core"

func init() { core.Register("C19", Run) }

// Run is the check.
func Run(c *core.Ctx) {
}
