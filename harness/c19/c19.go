// Package c19 holds the runtime monitors for property C19 (see DESIGN.md
// section 4): the Go function bridge (stdlib.ECALFunctionAdapter) is total
// and converts numbers faithfully.
//
// Every case calls the real adapter of /repo around a Go function with an
// argument vector over the ECAL value universe and compares what comes back
// with a small reference written from the property statement: the Go
// function called directly (through the harness' own reflection code) with
// the numeric arguments converted by Go's own conversions.
package c19

import (
	"fmt"
	"math"
	"reflect"
	"sort"
	"strings"
	"sync"

	"github.com/krotik/ecal/interpreter"
	"github.com/krotik/ecal/parser"
	"github.com/krotik/ecal/scope"
	"github.com/krotik/ecal/stdlib"
	"github.com/krotik/ecal/util"

	"verif/harness/core"
)

func init() { core.Register("C19", Run) }

// strictAssignable: when true, a call whose every argument is assignable to
// its parameter by Go's rules (a string for an interface{} parameter, a
// second argument for a variadic parameter) must return the function's
// results. The statement only says that such calls return "results or a
// descriptive error", so by default a rejection of such a call is counted as
// an observation, not as a violation. Exact type matches and numbers for
// numeric parameters are always required to go through (the statement's
// conversion clause).
var strictAssignable = false

// ---------------------------------------------------------------------------
// value universe
// ---------------------------------------------------------------------------

type uval struct {
	tag string
	v   interface{}
}

var universe = []uval{
	{"null", nil},
	{"true", true},
	{"false", false},
	{"zero", 0.0},
	{"negzero", math.Copysign(0, -1)},
	{"one", 1.0},
	{"minus1", -1.0},
	{"half", 0.5},
	{"minus5", -5.0},
	{"n300", 300.0},
	{"e18", 1e18},
	{"e308", 1e308},
	{"empty", ""},
	{"numstr", "5"},
	{"str", "a"},
	{"elist", []interface{}{}},
	{"nlist", []interface{}{1.0, []interface{}{2.0, "x"}}},
	{"emap", map[interface{}]interface{}{}},
	{"nmap", map[interface{}]interface{}{"a": 1.0, 2.0: []interface{}{1.0}}},
	{"func", ecalFn{}},
}

// numbers for the identity functions: boundaries of every integer kind,
// fractions on both sides of them, values beyond float32, non-finite values.
var numbers = []float64{
	0, math.Copysign(0, -1), 1, -1, 0.5, -0.5, 1.5, -1.5, 1.9, -1.9, 0.1, 1.0 / 3,
	126.9, 127, 127.5, 128, -128, -128.9, -129, 255, 255.9, 256, 300,
	32767, 32767.9, 32768, -32768, -32769, 65535, 65535.5, 65536,
	2147483647, 2147483647.5, 2147483648, -2147483648, -2147483649, 4294967295, 4294967295.5, 4294967296,
	1 << 53, 1<<53 + 2, -(1 << 53), 1<<63 - 1024, 1 << 63, -(1 << 63), -(1 << 63) - 2048, 1<<64 - 2048, 1 << 64,
	1e10, 1e18, 1e19, 1e20, 16777216, 16777217, 1e38, 3.4e38, math.MaxFloat32, 3.5e38, 1e39, 1e308, -1e308,
	math.MaxFloat64, math.SmallestNonzeroFloat64, math.SmallestNonzeroFloat32, 1e-46, -1e-46,
	math.NaN(), math.Inf(1), math.Inf(-1),
}

func vecCount(u, n int) int {
	t, p := 0, 1
	for k := 0; k <= n; k++ {
		t += p
		p *= u
	}
	return t
}

func vecAt(u, i int) []int {
	n, p := 0, 1
	for i >= p {
		i -= p
		p *= u
		n++
	}
	v := make([]int, n)
	for k := n - 1; k >= 0; k-- {
		v[k] = i % u
		i /= u
	}
	return v
}

// ---------------------------------------------------------------------------
// reference bridge
// ---------------------------------------------------------------------------

var errorType = reflect.TypeOf((*error)(nil)).Elem()

func isNumericKind(k reflect.Kind) bool {
	switch k {
	case reflect.Int, reflect.Int8, reflect.Int16, reflect.Int32, reflect.Int64,
		reflect.Uint, reflect.Uint8, reflect.Uint16, reflect.Uint32, reflect.Uint64, reflect.Uintptr,
		reflect.Float32, reflect.Float64:
		return true
	}
	return false
}

// toKind converts x with Go's own conversion T(x) for the basic type of kind k
// and returns float64(T(x)); inRange tells whether Go defines the result.
func toKind(k reflect.Kind, x float64) (res float64, inRange bool) {
	t := math.Trunc(x)
	finite := !math.IsNaN(x) && !math.IsInf(x, 0)
	between := func(lo, hi float64) bool { return finite && t >= lo && t <= hi }
	const two63, two64 = 9223372036854775808.0, 18446744073709551616.0
	switch k {
	case reflect.Int8:
		return float64(int8(x)), between(math.MinInt8, math.MaxInt8)
	case reflect.Int16:
		return float64(int16(x)), between(math.MinInt16, math.MaxInt16)
	case reflect.Int32:
		return float64(int32(x)), between(math.MinInt32, math.MaxInt32)
	case reflect.Int64:
		return float64(int64(x)), finite && t >= -two63 && t < two63
	case reflect.Int:
		return float64(int(x)), finite && t >= -two63 && t < two63
	case reflect.Uint8:
		return float64(uint8(x)), between(0, math.MaxUint8)
	case reflect.Uint16:
		return float64(uint16(x)), between(0, math.MaxUint16)
	case reflect.Uint32:
		return float64(uint32(x)), between(0, math.MaxUint32)
	case reflect.Uint64:
		return float64(uint64(x)), finite && t >= 0 && t < two64
	case reflect.Uint:
		return float64(uint(x)), finite && t >= 0 && t < two64
	case reflect.Uintptr:
		return float64(uintptr(x)), finite && t >= 0 && t < two64
	case reflect.Float32:
		return float64(float32(x)), !finite || math.Abs(x) <= math.MaxFloat32
	case reflect.Float64:
		return x, true
	}
	return 0, false
}

// convertArg builds the reflect.Value of kind k / type p that carries T(x).
func convertArg(p reflect.Type, x float64) reflect.Value {
	v := reflect.New(p).Elem()
	switch p.Kind() {
	case reflect.Int8:
		v.SetInt(int64(int8(x)))
	case reflect.Int16:
		v.SetInt(int64(int16(x)))
	case reflect.Int32:
		v.SetInt(int64(int32(x)))
	case reflect.Int64:
		v.SetInt(int64(x))
	case reflect.Int:
		v.SetInt(int64(int(x)))
	case reflect.Uint8:
		v.SetUint(uint64(uint8(x)))
	case reflect.Uint16:
		v.SetUint(uint64(uint16(x)))
	case reflect.Uint32:
		v.SetUint(uint64(uint32(x)))
	case reflect.Uint64:
		v.SetUint(uint64(x))
	case reflect.Uint:
		v.SetUint(uint64(uint(x)))
	case reflect.Uintptr:
		v.SetUint(uint64(uintptr(x)))
	case reflect.Float32:
		v.SetFloat(float64(float32(x)))
	case reflect.Float64:
		v.SetFloat(x)
	}
	return v
}

type argClass int

const (
	argExact      argClass = iota // same type, or a number for a numeric parameter in range
	argAssignable                 // assignable by Go's rules (interface parameter)
	argOutOfRange                 // number for a numeric parameter, Go leaves the conversion undefined
	argNull                       // NULL
	argWrong                      // wrong kind: an error is demanded
)

type expectation struct {
	mustError    bool   // ill-formed call (arity, wrong kind) or panicking function
	anything     bool   // out-of-range conversion or NULL: any non-panicking answer
	assignable   bool   // well formed only by assignability / variadic packing
	why          string // for reports
	whyKey       string // arity | wrong-kind | go-panic
	feature      string // named-numeric | builtin-numeric | interface-param | variadic-extra | variadic-typed | exact
	results      []interface{}
	goErr        error
	goPanicked   bool
	directCalled bool
}

// expect computes what the statement demands for fn(args).
func expect(fn reflect.Value, args []interface{}) expectation {
	t := fn.Type()
	nin := t.NumIn()
	var e expectation
	e.feature = "exact"
	fixed := nin
	if t.IsVariadic() {
		fixed = nin - 1
	}
	if len(args) < fixed {
		return expectation{mustError: true, why: "too few arguments", whyKey: "arity"}
	}
	if len(args) > nin && !t.IsVariadic() {
		return expectation{mustError: true, why: "too many arguments", whyKey: "arity"}
	}
	in := make([]reflect.Value, len(args))
	for i, a := range args {
		var p reflect.Type
		if i >= fixed {
			p = t.In(nin - 1).Elem()
			if i > fixed {
				e.assignable, e.feature = true, "variadic-extra"
			} else if p.Kind() != reflect.Interface {
				e.assignable, e.feature = true, "variadic-typed"
			}
		} else {
			p = t.In(i)
		}
		switch x := a.(type) {
		case nil:
			e.anything = true
			e.why = "NULL argument"
			continue
		case float64:
			if isNumericKind(p.Kind()) {
				if _, ok := toKind(p.Kind(), x); !ok {
					e.anything = true
					e.why = "number outside the parameter type's range"
					continue
				}
				in[i] = convertArg(p, x)
				if p.PkgPath() != "" && e.feature == "exact" {
					e.feature = "named-numeric"
				} else if e.feature == "exact" {
					e.feature = "builtin-numeric"
				}
				continue
			}
		}
		at := reflect.TypeOf(a)
		switch {
		case at == p:
			in[i] = reflect.ValueOf(a)
		case at.AssignableTo(p):
			in[i] = reflect.ValueOf(a)
			e.assignable = true
			if e.feature == "exact" || e.feature == "builtin-numeric" {
				e.feature = "interface-param"
			}
		default:
			return expectation{mustError: true, why: fmt.Sprintf("argument %d of the wrong kind", i+1), whyKey: "wrong-kind"}
		}
	}
	if e.anything {
		return e
	}
	// well-formed: call the Go function directly
	e.directCalled = true
	var out []reflect.Value
	func() {
		defer func() {
			if r := recover(); r != nil {
				e.goPanicked = true
			}
		}()
		out = fn.Call(in)
	}()
	if e.goPanicked {
		e.mustError = true
		e.why = "the Go function panics"
		e.whyKey = "go-panic"
		return e
	}
	for i, v := range out {
		if i == len(out)-1 && t.Out(i) == errorType {
			if !v.IsNil() {
				e.goErr = v.Interface().(error)
			}
			break
		}
		e.results = append(e.results, normalise(v))
	}
	return e
}

// normalise delivers Go integers and floats as float64.
func normalise(v reflect.Value) interface{} {
	if v.Kind() == reflect.Interface {
		if v.IsNil() {
			return nil
		}
		v = v.Elem()
	}
	switch v.Kind() {
	case reflect.Int, reflect.Int8, reflect.Int16, reflect.Int32, reflect.Int64:
		return float64(v.Int())
	case reflect.Uint, reflect.Uint8, reflect.Uint16, reflect.Uint32, reflect.Uint64, reflect.Uintptr:
		return float64(v.Uint())
	case reflect.Float32, reflect.Float64:
		return v.Float()
	}
	return v.Interface()
}

func shape(results []interface{}) interface{} {
	if len(results) == 1 {
		return results[0]
	}
	if results == nil {
		return []interface{}{}
	}
	return results
}

// same compares two ECAL values; NaN equals NaN, -0 differs from 0.
func same(a, b interface{}) bool {
	switch x := a.(type) {
	case float64:
		y, ok := b.(float64)
		if !ok {
			return false
		}
		if math.IsNaN(x) || math.IsNaN(y) {
			return math.IsNaN(x) && math.IsNaN(y)
		}
		return math.Float64bits(x) == math.Float64bits(y)
	case []interface{}:
		y, ok := b.([]interface{})
		if !ok || len(x) != len(y) {
			return false
		}
		for i := range x {
			if !same(x[i], y[i]) {
				return false
			}
		}
		return true
	case map[interface{}]interface{}:
		y, ok := b.(map[interface{}]interface{})
		if !ok || len(x) != len(y) {
			return false
		}
		for k, v := range x {
			w, ok := y[k]
			if !ok || !same(v, w) {
				return false
			}
		}
		return true
	}
	return reflect.DeepEqual(a, b)
}

// foreignNumber finds a Go number in a result that is not a float64.
func foreignNumber(v interface{}) (string, bool) {
	if l, ok := v.([]interface{}); ok {
		for _, x := range l {
			if k, bad := foreignNumber(x); bad {
				return k, true
			}
		}
		return "", false
	}
	if v == nil {
		return "", false
	}
	if _, ok := v.(float64); ok {
		return "", false
	}
	if isNumericKind(reflect.TypeOf(v).Kind()) {
		return reflect.TypeOf(v).String(), true
	}
	return "", false
}

// ---------------------------------------------------------------------------
// the check
// ---------------------------------------------------------------------------

type target struct {
	name    string // stdlib name (math.sqrt) or synthetic name
	class   string
	adapter util.ECALFunction
	gofn    reflect.Value // zero: no reference (totality only)
	ecal    string        // how ECAL source calls it
}

type harness struct {
	c       *core.Ctx
	sampled map[string]bool
	kept    []retained // results delivered earlier (see retain)
	dead    map[string]bool // plugin functions whose calls do not return any more
}

// sample keeps one real case per (stream kind, outcome class) for the evidence.
func (h *harness) sample(kind, outcome string, tg *target, args []interface{}) {
	k := kind + ":" + outcome
	if h.sampled[k] {
		return
	}
	h.sampled[k] = true
	if h.dead[tg.name] {
		return
	}
	ret, err, _, _, _ := callAdapter(tg, args)
	h.c.Sample(k, map[string]interface{}{"function": tg.name, "args": showArgs(args), "result": show(ret), "error": fmt.Sprint(err), "outcome": outcome})
}

func show(v interface{}) string {
	s := fmt.Sprintf("%#v", v)
	if len(s) > 160 {
		s = s[:160] + "..."
	}
	return s
}

func showArgs(args []interface{}) []string {
	r := make([]string, len(args))
	for i, a := range args {
		r[i] = show(a)
	}
	return r
}

func (h *harness) violation(key, what, stream string, idx int, tg *target, args []interface{}, extra map[string]interface{}) {
	d := map[string]interface{}{"function": tg.name, "args": showArgs(args)}
	if tg.gofn.IsValid() {
		d["signature"] = tg.gofn.Type().String()
	}
	for k, v := range extra {
		d[k] = v
	}
	h.c.Violation(key, what, stream, idx, d)
}

// callAdapter runs the real bridge under Guard.
func callAdapter(tg *target, args []interface{}) (ret interface{}, err error, key, msg string, panicked bool) {
	cp := append([]interface{}(nil), args...)
	key, msg, panicked = core.Guard(func() {
		ret, err = tg.adapter.Run("c19", nil, map[string]interface{}{}, 1, cp)
	})
	return
}

// judge applies the oracles to one adapter call. It returns a short outcome
// class (for the evidence counters).
func (h *harness) judge(stream string, idx int, tg *target, args []interface{}) string {
	c := h.c
	var ret interface{}
	var err error
	var key, msg string
	var panicked bool
	if tg.class == "plugin-real" {
		// functions of the real plugin are called on a watched goroutine: a call
		// that never returns must not take the whole check with it
		if h.dead[tg.name] {
			return "skipped-after-blocked-call"
		}
		var blocked bool
		var wit string
		ret, err, key, msg, panicked, blocked, wit = h.watchedCall(tg, args)
		if blocked {
			h.dead[tg.name] = true
			if wit == "" {
				c.Inconclusive("a plugin call did not return and no witness was found", stream, idx, map[string]interface{}{"function": tg.name})
				return "blocked-no-witness"
			}
			h.violation("plugin-call-blocked", "a call of a plugin function never returns: it is parked on a lock of the bridge that nobody holds (left locked by an earlier call)", stream, idx, tg, args,
				map[string]interface{}{"goroutine": wit})
			return "blocked"
		}
	} else {
		ret, err, key, msg, panicked = callAdapter(tg, args)
	}
	if panicked {
		h.violation(key, "a panic escaped ECALFunctionAdapter.Run: "+strings.SplitN(msg, "\n", 2)[0], stream, idx, tg, args, map[string]interface{}{"panic": msg})
		return "panic"
	}
	if ret == nil && err == nil {
		// a single nil result is a result; only an absent result list is "neither"
		if !(tg.gofn.IsValid() && resultCount(tg.gofn.Type()) == 1) {
			h.violation("neither-result-nor-error", "Run returned neither results nor an error", stream, idx, tg, args, nil)
			return "neither"
		}
	}
	if err == nil {
		if k, bad := foreignNumber(ret); bad {
			cause := k
			if tg.gofn.IsValid() {
				// name the cause, not the witness: which declared result type let the number through
				cause = declaredResultOf(tg.gofn.Type(), ret, k)
			}
			h.violation("result-not-float64:"+cause, "a Go number came back from the bridge without being converted to an ECAL number (float64)", stream, idx, tg, args,
				map[string]interface{}{"result": show(ret)})
			return "foreign-number"
		}
	}
	if !tg.gofn.IsValid() {
		return "total-only"
	}
	e := expect(tg.gofn, args)
	switch {
	case e.anything:
		return "unspecified"
	case e.mustError:
		if err == nil {
			h.violation("no-error:"+e.whyKey,
				"the bridge returned a result although the statement demands an error: "+e.why, stream, idx, tg, args, map[string]interface{}{"result": show(ret)})
			return "missing-error"
		}
		c.Nontrivial(core.Hash64(fmt.Sprintf("err|%s|%d", stream, idx)))
		return "error-as-demanded"
	}
	// well-formed call
	if err != nil && e.goErr == nil {
		if e.assignable && !strictAssignable {
			c.Event("observed.rejected-"+e.feature, 1)
			return "rejected-assignable"
		}
		key := "wellformed-rejected:" + e.feature
		what := "a well-formed call was rejected by the bridge instead of reaching the Go function"
		if e.feature == "named-numeric" || e.feature == "builtin-numeric" {
			key = "numeric-arg-rejected:" + e.feature
			what = "a number passed for a numeric parameter did not arrive converted to the parameter's Go type: the bridge returned an error"
		}
		h.violation(key, what, stream, idx, tg, args, map[string]interface{}{"error": err.Error(), "expected": show(shape(e.results))})
		return "rejected"
	}
	if e.goErr != nil {
		if err == nil {
			h.violation("go-error-lost", "the Go function returned a non-nil trailing error but the bridge returned no error", stream, idx, tg, args,
				map[string]interface{}{"go_error": e.goErr.Error(), "result": show(ret)})
			return "error-lost"
		}
		if err.Error() != e.goErr.Error() && e.assignable && !strictAssignable {
			c.Event("observed.rejected-"+e.feature, 1)
			return "rejected-assignable"
		}
		if err.Error() != e.goErr.Error() {
			h.violation("go-error-changed", "the trailing Go error was not delivered as it is", stream, idx, tg, args,
				map[string]interface{}{"go_error": e.goErr.Error(), "bridge_error": err.Error()})
			return "error-changed"
		}
		c.Nontrivial(core.Hash64(fmt.Sprintf("goerr|%s|%d", stream, idx)))
		return "go-error-delivered"
	}
	want := shape(e.results)
	if !same(ret, want) {
		key := "result-differs"
		if tg.class == "identity" {
			key = "conversion-differs:" + tg.gofn.Type().In(0).Kind().String()
		}
		h.violation(key, "the result differs from calling the Go function directly with Go's own conversions", stream, idx, tg, args,
			map[string]interface{}{"result": show(ret), "expected": show(want)})
		return "differs"
	}
	c.Nontrivial(core.Hash64(fmt.Sprintf("ok|%s|%d", stream, idx)))
	h.retain(retained{stream, idx, tg, args, ret, want})
	return "result-equal"
}

// declaredResultOf names the declared type class of the result position that
// holds a Go number of dynamic type dyn.
func declaredResultOf(t reflect.Type, ret interface{}, dyn string) string {
	n := resultCount(t)
	vals := []interface{}{ret}
	if l, ok := ret.([]interface{}); ok && n != 1 {
		vals = l
	}
	for i, v := range vals {
		if v == nil || i >= n {
			continue
		}
		if _, isF := v.(float64); !isF && isNumericKind(reflect.TypeOf(v).Kind()) {
			if t.Out(i).Kind() == reflect.Interface {
				return "interface-result"
			}
			return t.Out(i).Kind().String()
		}
	}
	return dyn
}

func resultCount(t reflect.Type) int {
	n := t.NumOut()
	if n > 0 && t.Out(n-1) == errorType {
		n--
	}
	return n
}

var regOnce sync.Once

func targets() []*target {
	var ts []*target
	// every generated stdlib entry
	_, _, funcs := stdlib.GetStdlibSymbols()
	sort.Strings(funcs)
	for _, name := range funcs {
		if strings.HasPrefix(name, "c19.") {
			continue
		}
		f, ok := stdlib.GetStdlibFunc(name)
		if !ok {
			continue
		}
		tg := &target{name: name, class: "stdlib", adapter: f, ecal: name}
		if strings.HasPrefix(name, "math.") {
			if g, ok := goMath[strings.TrimPrefix(name, "math.")]; ok {
				tg.gofn = reflect.ValueOf(g)
			}
		}
		ts = append(ts, tg)
	}
	regOnce.Do(func() { stdlib.AddStdlibPkg("c19", "synthetic bridged functions") })
	for _, b := range synthetic {
		ad := stdlib.NewECALFunctionAdapter(reflect.ValueOf(b.fn), b.name)
		stdlib.AddStdlibFunc("c19", b.name, ad)
		ts = append(ts, &target{name: b.name, class: b.class, adapter: ad, gofn: reflect.ValueOf(b.fn), ecal: "c19." + b.name})
	}
	return ts
}

var wfStrings = []string{"", "a", "5", "h\u00e9llo", "1e3"}

// wellFormedArgs draws an argument vector that fits the signature: the right
// number of arguments, each of the parameter's kind (numbers from the
// boundary table for numeric parameters).
func wellFormedArgs(r *core.Rand, t reflect.Type) []interface{} {
	pick := func(p reflect.Type) interface{} {
		switch {
		case isNumericKind(p.Kind()):
			return numbers[r.Intn(len(numbers))]
		case p.Kind() == reflect.String:
			return wfStrings[r.Intn(len(wfStrings))]
		case p.Kind() == reflect.Bool:
			return r.Bool()
		case p == reflect.TypeOf([]interface{}{}):
			return [][]interface{}{{}, {1.0}, {1.0, "a", nil}, {[]interface{}{2.0}}}[r.Intn(4)]
		case p == reflect.TypeOf(map[interface{}]interface{}{}):
			return []map[interface{}]interface{}{{}, {"a": 1.0}, {1.0: "x", "l": []interface{}{}}}[r.Intn(3)]
		case p.Kind() == reflect.Interface && p.NumMethod() == 0:
			return universe[1+r.Intn(len(universe)-1)].v
		case p.Kind() == reflect.Interface && reflect.TypeOf(ecalFn{}).Implements(p):
			return ecalFn{}
		case p == errorType:
			return fmt.Errorf("an error value")
		}
		return universe[r.Intn(len(universe))].v
	}
	n := t.NumIn()
	if t.IsVariadic() {
		n--
	}
	var args []interface{}
	for i := 0; i < n; i++ {
		args = append(args, pick(t.In(i)))
	}
	if t.IsVariadic() {
		for k := r.Intn(3); k > 0; k-- {
			args = append(args, pick(t.In(n).Elem()))
		}
	}
	return args
}

func argsOf(vec []int) []interface{} {
	a := make([]interface{}, len(vec))
	for i, u := range vec {
		a[i] = universe[u].v
	}
	return a
}

// Run is the check.
func Run(c *core.Ctx) {
	h := &harness{c: c, sampled: map[string]bool{}, dead: map[string]bool{}}
	c.Note("rule", "stdlib.ECALFunctionAdapter around every generated stdlib entry (stdlib.GetStdlibSymbols; reference: the Go math function called directly) and around the synthetic Go functions of funcs.go (identity for all 13 numeric kinds and 5 named numeric types, 0..4 mixed parameters, interface{}/[]interface{}/map/string/bool/error/Stringer parameters, variadic, 0..3 results incl. interface-wrapped numbers, (T, error), 9 panicking functions, 6 plugin-style functions through the AddStdlibPluginFunc shape) x all argument vectors of length 0..3 over a 20-value universe (exhaustive) + random vectors of length 4..5; identity functions x 69 boundary numbers; the same functions called from ECAL source (c19.name(u1,u2) / math.name(...)) for all vectors of length 0..2 + random longer ones, compared with the direct adapter call. "+
		"Reference: arity and Go assignability decide whether an error is demanded; numbers for numeric parameters are converted with Go's T(x) (no verdict when Go leaves T(x) undefined or an argument is NULL); results are the direct call's results with integers/floats as float64. "+
		"Non-trivial = distinct (function, argument vector) pairs with a definite expectation that was met (result equal to the direct call, Go error delivered, error for an ill-formed call). Math order/exponent arguments beyond +-1000 for jn/yn/pow10/ldexp/inf are skipped.")
	ts := targets()
	pts := h.pluginTargets()
	if !pluginLoaded {
		c.Inconclusive("VH_PLUGIN is not set: the real plugin (harness/c19plugin) was not loaded", "plugin-load", 0, nil)
	}
	ts = append(ts, pts...)
	c.Note("functions", fmt.Sprintf("%d bridged functions (generated stdlib + synthetic + %d functions of a real Go plugin loaded by stdlib.AddStdlibPluginFunc / LoadStdlibPlugins)", len(ts), len(pts)))
	c.Note("histories", "every result list that equalled the reference is kept and compared again after each of the next 8 bridge calls (a delivered result must not change); stream plugin-seq: random call sequences over the plugin functions incl. panicking ones, every call watched (a call parked on a bridge lock nobody holds is a violation); stream computed: one parsed call site pkg[fn](a0) evaluated 3..7 times with another function name each time, compared with the direct call of the function named; stream conc: 2..4 goroutines call multi-result functions at the same time and re-read their result lists after yielding")
	U := len(universe)
	n3 := vecCount(U, 3)
	n4 := c.Pick(1500, 100000)
	nwf := c.Pick(2500, 200000)
	outcome := map[string]int64{}
	for _, tg := range ts {
		stream := "adapter-" + tg.name
		for i := 0; i < n3; i++ {
			if !c.Mine(stream, i) {
				continue
			}
			args := argsOf(vecAt(U, i))
			if slowOrder(tg.name, args) {
				continue
			}
			c.Take(stream, i)
			o := h.judge(stream, i, tg, args)
			outcome[o]++
			h.sample("adapter", o, tg, args)
		}
		stream = "adapter45-" + tg.name
		for i := 0; i < n4; i++ {
			if !c.Mine(stream, i) {
				continue
			}
			r := c.Rng(stream, i)
			vec := make([]int, 4+r.Intn(2))
			for k := range vec {
				vec[k] = r.Intn(U)
			}
			args := argsOf(vec)
			if slowOrder(tg.name, args) {
				continue
			}
			c.Take(stream, i)
			o := h.judge(stream, i, tg, args)
			outcome[o]++
			h.sample("adapter45", o, tg, args)
		}
		if tg.gofn.IsValid() {
			stream = "wellformed-" + tg.name
			for i := 0; i < nwf; i++ {
				if !c.Mine(stream, i) {
					continue
				}
				args := wellFormedArgs(c.Rng(stream, i), tg.gofn.Type())
				if slowOrder(tg.name, args) {
					continue
				}
				c.Take(stream, i)
				o := h.judge(stream, i, tg, args)
				outcome["wellformed:"+o]++
				h.sample("wellformed", o, tg, args)
			}
		}
		if tg.class == "identity" || tg.gofn.IsValid() && tg.gofn.Type().NumIn() == 1 && isNumericKind(tg.gofn.Type().In(0).Kind()) {
			stream = "numbers-" + tg.name
			for i, x := range numbers {
				args := []interface{}{x}
				if !c.Mine(stream, i) || slowOrder(tg.name, args) {
					continue
				}
				c.Take(stream, i)
				o := h.judge(stream, i, tg, args)
				outcome["numbers:"+o]++
				h.sample("numbers", o, tg, args)
			}
		}
	}
	for k, n := range outcome {
		c.Event("adapter."+k, n)
	}
	h.streamPluginSeq(pts)
	h.streamConc(ts)
	h.streamComputed(ts)
	h.throughECAL(ts)
}

// ---------------------------------------------------------------------------
// through ECAL source
// ---------------------------------------------------------------------------

var erpOnce sync.Once
var sharedERP *interpreter.ECALRuntimeProvider

func (h *harness) throughECAL(ts []*target) {
	c := h.c
	// one runtime provider for the whole run (no events are processed here)
	erpOnce.Do(func() {
		sharedERP = interpreter.NewECALRuntimeProvider("c19", &util.MemoryImportLocator{Files: map[string]string{}}, util.NewNullLogger())
	})
	erp := sharedERP
	U := len(universe)
	n2 := vecCount(U, 2)
	nr := c.Pick(200, 15000)
	outcome := map[string]int64{}
	for _, tg := range ts {
		stream := "ecal-" + tg.name
		for i := 0; i < n2+nr; i++ {
			if !c.Mine(stream, i) {
				continue
			}
			var vec []int
			if i < n2 {
				vec = vecAt(U, i)
			} else {
				r := c.Rng(stream, i)
				vec = make([]int, 3+r.Intn(2))
				for k := range vec {
					vec[k] = r.Intn(U)
				}
			}
			args := argsOf(vec)
			if slowOrder(tg.name, args) {
				continue
			}
			c.Take(stream, i)
			outcome[h.judgeECAL(erp, stream, i, tg, args)]++
		}
	}
	nwf := c.Pick(600, 40000)
	for _, tg := range ts {
		if !tg.gofn.IsValid() {
			continue
		}
		stream := "ecalwf-" + tg.name
		for i := 0; i < nwf; i++ {
			if !c.Mine(stream, i) {
				continue
			}
			args := wellFormedArgs(c.Rng(stream, i), tg.gofn.Type())
			if slowOrder(tg.name, args) {
				continue
			}
			c.Take(stream, i)
			outcome["wellformed:"+h.judgeECAL(erp, stream, i, tg, args)]++
		}
	}
	for k, n := range outcome {
		c.Event("ecal."+k, n)
	}
}

func (h *harness) judgeECAL(erp *interpreter.ECALRuntimeProvider, stream string, idx int, tg *target, args []interface{}) string {
	c := h.c
	if h.dead[tg.name] {
		return "skipped-after-blocked-call"
	}
	names := make([]string, len(args))
	vs := scope.NewScope(scope.GlobalScope)
	for i, a := range args {
		names[i] = fmt.Sprintf("a%d", i)
		vs.SetValue(names[i], a)
	}
	src := tg.ecal + "(" + strings.Join(names, ", ") + ")"
	var val interface{}
	var err error
	key, msg, panicked := core.Guard(func() {
		var ast *parser.ASTNode
		if ast, err = parser.ParseWithRuntime("c19", src, erp); err != nil {
			return
		}
		if err = ast.Runtime.Validate(); err != nil {
			return
		}
		val, err = ast.Runtime.Eval(vs, map[string]interface{}{}, 1)
	})
	if panicked {
		h.violation(key, "a panic reached the host while ECAL source called a bridged function: "+strings.SplitN(msg, "\n", 2)[0], stream, idx, tg, args, map[string]interface{}{"source": src, "panic": msg})
		return "panic"
	}
	dret, derr, _, _, dpanicked := callAdapter(tg, args)
	if dpanicked {
		return "direct-panic" // reported by the adapter streams
	}
	if derr != nil {
		re, ok := err.(*util.RuntimeError)
		if !ok {
			h.violation("ecal-error-not-runtime-error", fmt.Sprintf("the bridge's error reached ECAL as %T instead of a runtime error", err), stream, idx, tg, args,
				map[string]interface{}{"source": src, "ecal_error": fmt.Sprint(err), "direct_error": derr.Error()})
			return "not-runtime-error"
		}
		if re.Type != util.ErrRuntimeError || re.Detail != derr.Error() {
			h.violation("ecal-error-differs", "the runtime error seen by ECAL does not carry the bridge's error", stream, idx, tg, args,
				map[string]interface{}{"source": src, "ecal_error": err.Error(), "direct_error": derr.Error()})
			return "error-differs"
		}
		c.Nontrivial(core.Hash64(fmt.Sprintf("ecalerr|%s|%d", stream, idx)))
		return "error-agrees"
	}
	if err != nil {
		h.violation("ecal-error-only-through-source", "calling through ECAL source failed although the direct call succeeds", stream, idx, tg, args,
			map[string]interface{}{"source": src, "ecal_error": err.Error(), "direct_result": show(dret)})
		return "ecal-only-error"
	}
	if !same(val, dret) {
		h.violation("ecal-value-differs", "the value seen by ECAL differs from the direct call", stream, idx, tg, args,
			map[string]interface{}{"source": src, "ecal_value": show(val), "direct_result": show(dret)})
		return "value-differs"
	}
	c.Nontrivial(core.Hash64(fmt.Sprintf("ecalok|%s|%d", stream, idx)))
	return "value-agrees"
}
