package c12

import (
	"fmt"
	"sync"

	"github.com/krotik/ecal/interpreter"
	"github.com/krotik/ecal/util"

	"verif/harness/core"
)

// Stream "tids": the mutex owner is recognised by thread id only, so the ids
// that ECALRuntimeProvider.NewThreadID hands to threads that start at the same
// time (direct evaluations of an embedding host, pool workers) must be
// pairwise distinct. G goroutines leave a barrier together and draw ids.
func tidScenario(c *core.Ctx, stream string, idx int) {
	if !c.Take(stream, idx) {
		return
	}
	r := c.Rng(stream, idx)
	g := r.Range(2, 16)
	per := r.Range(200, 3000)
	erp := interpreter.NewECALRuntimeProvider("c12tid", nil, util.NewMemoryLogger(10))
	defer func() { go erp.Cron.Stop() }()
	withWorkers := r.Bool()
	ids := make([][]uint64, g)
	var wg sync.WaitGroup
	start := make(chan struct{})
	for i := 0; i < g; i++ {
		wg.Add(1)
		go func(i int) {
			defer wg.Done()
			my := make([]uint64, 0, per)
			<-start
			for k := 0; k < per; k++ {
				my = append(my, erp.NewThreadID())
			}
			ids[i] = my
		}(i)
	}
	close(start)
	if withWorkers {
		// worker creation draws ids from the same source
		erp.Processor.Start()
	}
	wg.Wait()
	if withWorkers {
		erp.Processor.Finish()
	}
	seen := map[uint64]int{}
	for _, my := range ids {
		for _, id := range my {
			seen[id]++
		}
	}
	dups := 0
	var first uint64
	for id, n := range seen {
		if n > 1 {
			if dups == 0 {
				first = id
			}
			dups++
		}
	}
	c.AddEvals(g * per)
	if dups > 0 {
		c.Violation("thread-id:duplicate", fmt.Sprintf("NewThreadID handed out %d id(s) more than once to concurrently starting threads (e.g. %d)", dups, first), stream, idx,
			map[string]interface{}{"goroutines": g, "ids_per_goroutine": per, "processor_started_meanwhile": withWorkers})
		return
	}
	c.Event("thread-ids.distinct", int64(g*per))
	c.NontrivialKey(fmt.Sprint("tids", idx, g, per, withWorkers))
}
