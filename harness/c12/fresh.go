package c12

import (
	"fmt"
	"runtime"
	"strings"
	"sync"
	"sync/atomic"
	"time"

	"github.com/krotik/ecal/interpreter"
	"github.com/krotik/ecal/parser"
	"github.com/krotik/ecal/scope"
	"github.com/krotik/ecal/stdlib"
	"github.com/krotik/ecal/util"

	"verif/harness/c11kit"
	"verif/harness/core"
	"verif/harness/sched"
)

// Stream "fresh": mutual exclusion has to hold from the very first entry into
// a name. T threads leave a barrier together and enter a block of a name
// nobody has ever entered before - again and again, with 16..32 new names per
// scenario. Inside the block a Go function counts the occupants of the name.

type freshState struct {
	threads  int32
	arrived  []int32
	open     []int32
	gate     []chan struct{}
	inside   sync.Map // name -> *int32
	overlaps int64
	first    atomic.Value // string: first overlap seen
	entries  int64
}

var curFresh atomic.Pointer[freshState]

type fFunc struct{ name string }

func (f fFunc) DocString() (string, error) { return "C12 fresh-name monitor function " + f.name, nil }

func (f fFunc) Run(_ string, _ parser.Scope, _ map[string]interface{}, tid uint64, args []interface{}) (interface{}, error) {
	st := curFresh.Load()
	if st == nil || len(args) == 0 {
		return nil, nil
	}
	switch f.name {
	case "bar":
		k := int(args[0].(float64))
		if atomic.AddInt32(&st.arrived[k], 1) == st.threads {
			atomic.StoreInt32(&st.open[k], 1)
			close(st.gate[k])
			return nil, nil
		}
		// a short spin keeps the threads that leave the barrier close together;
		// after it the thread parks (a parked waiter is visible as such to the
		// deadlock predicate and costs nothing)
		for i := 0; i < 3000 && atomic.LoadInt32(&st.open[k]) == 0; i++ {
			if i%100 == 99 {
				runtime.Gosched()
			}
		}
		if atomic.LoadInt32(&st.open[k]) == 0 {
			<-st.gate[k]
		}
	case "occ":
		name := fmt.Sprint(args[0])
		p, _ := st.inside.LoadOrStore(name, new(int32))
		n := atomic.AddInt32(p.(*int32), 1)
		atomic.AddInt64(&st.entries, 1)
		if n > 1 {
			atomic.AddInt64(&st.overlaps, 1)
			st.first.CompareAndSwap(nil, fmt.Sprintf("thread %d found %d threads inside `mutex %s`", tid, n, name))
		}
		for i := 0; i < 50; i++ {
			if i%25 == 24 {
				runtime.Gosched()
			}
		}
		atomic.AddInt32(p.(*int32), -1)
	}
	return nil, nil
}

var freshOnce sync.Once

func freshScenario(c *core.Ctx, stream string, idx int) {
	if !c.Take(stream, idx) {
		return
	}
	freshOnce.Do(func() {
		stdlib.AddStdlibPkg("vf", "C12 fresh-name monitor functions")
		stdlib.AddStdlibFunc("vf", "bar", fFunc{"bar"})
		stdlib.AddStdlibFunc("vf", "occ", fFunc{"occ"})
	})
	r := c.Rng(stream, idx)
	threads := r.OneOf(2, 2, 3, 3, 4, 6, 8)
	names := r.Range(16, 32)
	nested := r.Chance(1, 3)
	var b strings.Builder
	for k := 0; k < names; k++ {
		fmt.Fprintf(&b, "vf.bar(%d)\n", k)
		if nested {
			// the first entry of the inner name happens while the outer one is held by nobody else
			fmt.Fprintf(&b, "mutex f%d {\n    vf.occ(\"f%d\")\n    mutex f%d {\n        vf.occ(\"f%d\")\n    }\n}\n", k, k, k, k)
		} else {
			fmt.Fprintf(&b, "mutex f%d {\n    vf.occ(\"f%d\")\n}\n", k, k)
		}
	}
	src := b.String()
	c.Begin(0, stream, idx, fmt.Sprintf("threads=%d names=%d nested=%v", threads, names, nested))
	defer c.End(0)
	erp := interpreter.NewECALRuntimeProvider("c12fresh", nil, util.NewMemoryLogger(10))
	defer func() { go erp.Cron.Stop() }()
	ast, err := parser.ParseWithRuntime("c12fresh", src, erp)
	if err == nil {
		err = ast.Runtime.Validate()
	}
	if err != nil {
		c.Inconclusive("program did not load: "+err.Error(), stream, idx, nil)
		return
	}
	st := &freshState{threads: int32(threads), arrived: make([]int32, names), open: make([]int32, names), gate: make([]chan struct{}, names)}
	for k := range st.gate {
		st.gate[k] = make(chan struct{})
	}
	curFresh.Store(st)
	defer curFresh.Store(nil)
	global := scope.NewScope(scope.GlobalScope)
	var wg sync.WaitGroup
	errs := make([]error, threads)
	gids := make([]uint64, threads)
	fin := make([]int32, threads)
	for t := 0; t < threads; t++ {
		wg.Add(1)
		go func(t int) {
			defer wg.Done()
			defer atomic.StoreInt32(&fin[t], 1)
			atomic.StoreUint64(&gids[t], sched.GoID())
			vs := global.NewChild(fmt.Sprintf("thread%d", t))
			_, _, panicked := core.Guard(func() {
				_, errs[t] = ast.Runtime.Eval(vs, make(map[string]interface{}), erp.NewThreadID())
			})
			if panicked {
				errs[t] = fmt.Errorf("panic")
			}
		}(t)
	}
	done := make(chan struct{})
	go func() { wg.Wait(); close(done) }()
	// a thread that never comes back is decided by one goroutine dump: every
	// unfinished thread is parked either acquiring a `mutex` block or at the
	// barrier (which opens only when all threads arrive), at least one of them at
	// a mutex, and nothing can take a step
	deadlock := ""
	var deadlockDetail map[string]interface{}
	lastPic, confirmed := "", 0
	for i := 0; deadlock == ""; i++ {
		select {
		case <-done:
		case <-time.After(time.Duration(200+i*50) * time.Microsecond):
			if i < 40 || i%20 != 0 {
				continue
			}
			d := c11kit.Dump()
			byID := map[uint64]*c11kit.G{}
			for k := range d {
				byID[d[k].ID] = &d[k]
			}
			atMutex, ok := 0, true
			var stacks []string
			for t := 0; t < threads; t++ {
				if atomic.LoadInt32(&fin[t]) == 1 {
					continue
				}
				g := byID[atomic.LoadUint64(&gids[t])]
				switch {
				case g == nil:
					ok = false
				case g.BlockedInEcalMutex():
					atMutex++
					stacks = append(stacks, fmt.Sprintf("thread %d goroutine %d [%s]: %s", t, g.ID, g.State, strings.Join(g.Frames, " <- ")))
				case g.State == "chan receive" && g.Has("c12.fFunc.Run"):
					stacks = append(stacks, fmt.Sprintf("thread %d goroutine %d [%s] at the barrier", t, g.ID, g.State))
				default:
					ok = false
				}
			}
			pic := ""
			if ok && atMutex > 0 && !sched.CanStep(sched.Dump(), sched.GoID()) {
				pic = fmt.Sprint(stacks, atomic.LoadInt64(&st.entries))
			}
			// the same picture three times in a row (same goroutines parked at the
			// same places, no entry into any block in between): a state that lasts
			if pic == "" || pic != lastPic {
				lastPic, confirmed = pic, 0
			}
			if pic != "" {
				confirmed++
			}
			if confirmed >= 3 {
				deadlock = fmt.Sprintf("%d thread(s) parked acquiring a mutex block, the rest at the barrier or finished", atMutex)
				var arr []int32
				for k := range st.arrived {
					arr = append(arr, atomic.LoadInt32(&st.arrived[k]))
				}
				var finv []int32
				for t := range fin {
					finv = append(finv, atomic.LoadInt32(&fin[t]))
				}
				deadlockDetail = map[string]interface{}{"threads_state": stacks, "barrier_arrivals": fmt.Sprint(arr), "finished": fmt.Sprint(finv), "errors": fmt.Sprint(errs),
					"mutex_log": strings.Join(erp.MutexLog.StringSlice(), " | ")}
			}
			if i > 40000 {
				deadlock = "?"
			}
			continue
		}
		break
	}
	if deadlock != "" {
		if deadlock == "?" {
			c.Inconclusive("threads neither finished nor reached a deadlock within the polling bound", stream, idx, nil)
		} else {
			c.Violation("fresh:deadlock", "threads entering never before entered mutex names block each other for good: "+deadlock, stream, idx,
				map[string]interface{}{"threads": threads, "names": names, "nested": nested, "witness": deadlockDetail})
		}
		return // the threads of this scenario are left behind
	}
	c.AddEvals(threads)
	c.Event("fresh.first-entries-raced", int64(names))
	c.Event("fresh.entries", atomic.LoadInt64(&st.entries))
	for _, e := range errs {
		if e != nil {
			c.Violation("fresh:error", "a thread entering fresh mutex names failed: "+e.Error(), stream, idx, map[string]interface{}{"threads": threads, "names": names})
			return
		}
	}
	if n := atomic.LoadInt64(&st.overlaps); n > 0 {
		f, _ := st.first.Load().(string)
		c.Violation("exclusion:first-entry", fmt.Sprintf("two threads were inside blocks of the same, never before entered, mutex name at once (%d observation(s)): %s", n, f), stream, idx,
			map[string]interface{}{"threads": threads, "names": names, "nested": nested})
		return
	}
	c.NontrivialKey(fmt.Sprintf("fresh|%d|%d|%d|%v", idx, threads, names, nested))
}
