// Package c12 monitors property C12: mutex blocks of one name are mutually
// exclusive, re-entrant and always released (DESIGN.md section 4, C12).
//
// Generated ECAL programs call Go functions registered through
// stdlib.AddStdlibFunc: v.attempt(name) before a block, v.enter(name) as the
// first statement inside it, v.exit(name) in a `finally` around the block
// body, v.inc(counter, value) after every `c := c + 1`, v.mark(kind) before an
// abrupt exit. The functions maintain an occupancy table (owner thread id and
// depth per name) written from the property statement; nothing of /repo's
// mutex bookkeeping is consulted.
package c12

import (
	"fmt"
	"runtime"
	"sort"
	"strings"
	"sync"
	"sync/atomic"
	"time"

	"github.com/krotik/ecal/engine"
	"github.com/krotik/ecal/parser"
	"github.com/krotik/ecal/scope"
	"github.com/krotik/ecal/stdlib"
	"github.com/krotik/ecal/util"

	"verif/harness/c11kit"
	"verif/harness/core"
	"verif/harness/sched"
)

func init() { core.Register("C12", Run) }

var allNames = []string{"m1", "m2", "m3"}

func counterOf(name string) string { return "c" + name[1:] }
func rank(name string) int         { return int(name[1] - '0') }

// ---------------------------------------------------------------- monitor

type nameState struct {
	owner    uint64
	depth    int
	tainted  bool
	lastExit string // exit kind announced by the thread that last left the name completely
	abrupt   string // kind of the last complete exit that was not a normal end
	enters   int64
}

type finding struct{ key, text string }

type mon struct {
	mu         sync.Mutex
	names      map[string]*nameState
	counters   map[string]int64
	attempting map[uint64]string
	lastMark   map[uint64]string
	findings   []finding
	seenKey    map[string]bool
	overlap    map[string]bool // "m1|m2": two different names held by different threads at once
	stats      map[string]int64
	progress   int64 // atomic: every monitor call
	noiseSeed  uint64
	oneCalls   uint64
	pre        map[uint64]bool // goroutines that existed before the scenario (set before it starts)
}

func newMon(seed uint64) *mon {
	m := &mon{names: map[string]*nameState{}, counters: map[string]int64{}, attempting: map[uint64]string{},
		lastMark: map[uint64]string{}, seenKey: map[string]bool{}, overlap: map[string]bool{}, stats: map[string]int64{}, noiseSeed: seed}
	for _, n := range allNames {
		m.names[n] = &nameState{lastExit: "none"}
	}
	return m
}

func (m *mon) flag(key, text string) {
	if !m.seenKey[key] {
		m.seenKey[key] = true
		m.findings = append(m.findings, finding{key, text})
	}
}

var cur atomic.Pointer[mon]

type vFunc struct{ name string }

func (f vFunc) DocString() (string, error) { return "C12 monitor function " + f.name, nil }

func (f vFunc) Run(_ string, _ parser.Scope, _ map[string]interface{}, tid uint64, args []interface{}) (interface{}, error) {
	m := cur.Load()
	if m == nil {
		return nil, nil
	}
	atomic.AddInt64(&m.progress, 1)
	str := func(i int) string {
		if i < len(args) {
			return fmt.Sprint(args[i])
		}
		return ""
	}
	switch f.name {
	case "attempt":
		m.attempt(tid, str(0))
	case "enter":
		m.enter(tid, str(0))
	case "exit":
		m.exit(tid, str(0))
	case "inc":
		var v float64
		if len(args) > 1 {
			v, _ = args[1].(float64)
		}
		m.inc(tid, str(0), v)
	case "mark":
		m.mu.Lock()
		k := str(0)
		m.stats["mark."+k]++
		if k != "caught" {
			m.lastMark[tid] = k
		}
		m.mu.Unlock()
	case "one":
		// returns 1 after sometimes giving up the processor: widens the window
		// between the read and the write of `c := c + v.one()`
		x := mix(m.noiseSeed ^ atomic.AddUint64(&m.oneCalls, 1)*0x9E3779B97F4A7C15)
		switch x % 8 {
		case 0, 1, 2:
			runtime.Gosched()
		case 3:
			time.Sleep(time.Duration(x>>8%40) * time.Microsecond)
		}
		return float64(1), nil
	case "hold":
		return m.hold(tid, str(0), str(1)), nil
	case "await":
		return m.await(str(0)), nil
	}
	return nil, nil
}

func mix(z uint64) uint64 {
	z = (z ^ (z >> 30)) * 0xBF58476D1CE4E5B9
	z = (z ^ (z >> 27)) * 0x94D049BB133111EB
	return z ^ (z >> 31)
}

var setupOnce sync.Once

func setup() {
	setupOnce.Do(func() {
		stdlib.AddStdlibPkg("v", "C12 monitor functions")
		for _, n := range []string{"attempt", "enter", "exit", "inc", "mark", "one", "hold", "await"} {
			stdlib.AddStdlibFunc("v", n, vFunc{n})
		}
	})
}

func (m *mon) attempt(tid uint64, name string) {
	m.mu.Lock()
	defer m.mu.Unlock()
	ns := m.names[name]
	if ns == nil {
		return
	}
	m.attempting[tid] = name
	delete(m.lastMark, tid)
	m.stats["attempt"]++
	if ns.depth > 0 {
		if ns.owner == tid {
			m.stats["attempt.reentrant"]++
		} else {
			m.stats["attempt.contended(name held by another thread)"]++
		}
	}
}

func (m *mon) enter(tid uint64, name string) {
	m.mu.Lock()
	defer m.mu.Unlock()
	ns := m.names[name]
	if ns == nil {
		return
	}
	delete(m.attempting, tid)
	delete(m.lastMark, tid)
	m.stats["enter"]++
	ns.enters++
	if tid == 0 {
		m.flag("harness:thread-id-0", "a monitor function was called with thread id 0")
	}
	if ns.depth > 0 && ns.owner != tid {
		ns.tainted = true
		m.flag("exclusion:second-thread-inside", fmt.Sprintf("thread %d entered a `mutex %s` block while thread %d is inside it (depth %d)", tid, name, ns.owner, ns.depth))
	}
	if ns.depth > 0 && ns.owner == tid {
		m.stats["enter.reentrant"]++
	}
	ns.owner = tid
	ns.depth++
	for _, o := range allNames {
		if os := m.names[o]; o != name && os.depth > 0 && os.owner != tid {
			a, b := name, o
			if a > b {
				a, b = b, a
			}
			if !m.overlap[a+"|"+b] {
				m.overlap[a+"|"+b] = true
			}
			m.stats["overlap.different-names"]++
		}
	}
}

func (m *mon) exit(tid uint64, name string) {
	m.mu.Lock()
	defer m.mu.Unlock()
	ns := m.names[name]
	if ns == nil {
		return
	}
	m.stats["exit"]++
	kind := m.lastMark[tid]
	if kind == "" {
		kind = "normal"
	}
	m.stats["exit."+kind]++
	if ns.depth == 0 || ns.owner != tid {
		if !ns.tainted {
			m.flag("monitor:exit-without-enter", fmt.Sprintf("thread %d left `mutex %s` but the table has owner %d depth %d", tid, name, ns.owner, ns.depth))
		}
		return
	}
	ns.depth--
	if ns.depth == 0 {
		ns.owner = 0
		ns.lastExit = kind
		if kind != "normal" {
			ns.abrupt = kind
		}
	}
}

func (m *mon) inc(tid uint64, counter string, v float64) {
	m.mu.Lock()
	defer m.mu.Unlock()
	m.counters[counter]++
	m.stats["inc"]++
	name := "m" + strings.TrimPrefix(counter, "c")
	if ns := m.names[name]; ns != nil && (ns.depth == 0 || ns.owner != tid) && !ns.tainted {
		m.flag("monitor:inc-outside-block", fmt.Sprintf("thread %d incremented %s without being inside %s", tid, counter, name))
	}
	if int64(v) != m.counters[counter] {
		m.flag("counter:lost-update", fmt.Sprintf("after increment number %d of %s (inside `mutex %s`) thread %d read back %v", m.counters[counter], counter, name, tid, v))
		m.counters[counter] = int64(v) // resynchronise: one report per divergence
	}
}

// hold is called by a thread inside `mutex mine`; it spins (bounded number of
// short sleeps) until another thread was seen inside `other`.
func (m *mon) hold(tid uint64, mine, other string) interface{} {
	a, b := mine, other
	if a > b {
		a, b = b, a
	}
	for i := 0; i < 4000; i++ {
		m.mu.Lock()
		seen := m.overlap[a+"|"+b]
		m.mu.Unlock()
		if seen {
			return true
		}
		time.Sleep(250 * time.Microsecond)
	}
	// budget used up: decide on a state witness, not on the time that passed
	m.mu.Lock()
	var waiter uint64
	for t, n := range m.attempting {
		if n == other {
			waiter = t
		}
	}
	free := m.names[other].depth == 0
	m.mu.Unlock()
	parked := 0
	for _, g := range c11kit.Dump() {
		if !m.pre[g.ID] && g.BlockedInEcalMutex() {
			parked++
		}
	}
	m.mu.Lock()
	if waiter != 0 && free && parked > 0 {
		m.flag("independence:blocked-by-other-name", fmt.Sprintf("thread %d announced `mutex %s`, nobody is inside %s, yet it is parked in the mutex acquisition while thread %d holds %s", waiter, other, other, tid, mine))
	} else {
		m.stats["independence.undecided"]++
	}
	m.mu.Unlock()
	return false
}

// await spins (bounded) until some thread has entered name at least once.
func (m *mon) await(name string) interface{} {
	for i := 0; i < 8000; i++ {
		m.mu.Lock()
		in := m.names[name] != nil && m.names[name].enters > 0
		m.mu.Unlock()
		if in {
			return true
		}
		time.Sleep(250 * time.Microsecond)
	}
	return false
}

// ---------------------------------------------------------------- generator

type helper struct {
	level int      // called inside block number level (1-based) of the unit
	names []string // 1..2 nested names
	kind  string   // normal | return | raise
}

type unit struct {
	names      []string // block names, outermost first
	kind       string   // normal | raise | escape | return | break | continue
	exitLevel  int      // the exit statement sits inside block number exitLevel
	catchLevel int      // the handler (loop / try) encloses block number catchLevel
	iters, at  int      // loop count, iteration at which the exit fires
	noisy      bool     // use v.one() in the increments
	h          *helper
}

var exitKinds = []string{"normal", "raise", "escape", "return", "break", "continue"}

// pickName chooses a block name that cannot deadlock the program: a name the
// thread already holds (re-entrant) or one ranked above everything held.
func pickName(r *core.Rand, held []string) string {
	var cand []string
	maxHeld := 0
	for _, h := range held {
		if rank(h) > maxHeld {
			maxHeld = rank(h)
		}
	}
	for _, n := range allNames {
		if rank(n) > maxHeld {
			cand = append(cand, n)
		}
	}
	for _, h := range held {
		cand = append(cand, h) // re-entrant choices (weighted by multiplicity)
	}
	return cand[r.Intn(len(cand))]
}

func genUnit(r *core.Rand, kind string) *unit {
	u := &unit{kind: kind, iters: r.Range(1, 3), noisy: r.Bool()}
	depth := r.Range(1, 3)
	for i := 0; i < depth; i++ {
		u.names = append(u.names, pickName(r, u.names))
	}
	u.at = r.Range(1, u.iters)
	u.exitLevel = r.Range(1, depth)
	u.catchLevel = r.Range(1, u.exitLevel)
	if kind == "return" || kind == "escape" {
		u.catchLevel = 1 // the function / thread boundary is outside every block
	}
	if kind == "normal" {
		u.catchLevel = r.Range(1, depth)
		u.exitLevel = depth
	}
	if r.Chance(1, 2) {
		h := &helper{level: r.Range(1, depth), kind: []string{"normal", "return", "return"}[r.Intn(3)]}
		held := u.names[:h.level]
		h.names = []string{pickName(r, held)}
		if r.Chance(1, 3) {
			h.names = append(h.names, pickName(r, append(append([]string{}, held...), h.names[0])))
		}
		if (kind == "raise" || kind == "escape") && h.level >= u.catchLevel && r.Bool() {
			h.kind = "raise"
		}
		u.h = h
	}
	return u
}

type emitter struct {
	b      strings.Builder
	indent int
}

func (e *emitter) line(format string, a ...interface{}) {
	e.b.WriteString(strings.Repeat("    ", e.indent))
	fmt.Fprintf(&e.b, format, a...)
	e.b.WriteByte('\n')
}

func (e *emitter) inc(name string, noisy bool) {
	c := counterOf(name)
	if noisy {
		e.line("%s := %s + v.one()", c, c)
	} else {
		e.line("%s := %s + 1", c, c)
	}
	e.line("v.inc(%q, %s)", c, c)
}

func (e *emitter) open(name string) {
	e.line("v.attempt(%q)", name)
	e.line("mutex %s {", name)
	e.indent++
	e.line("v.enter(%q)", name)
	e.line("try {")
	e.indent++
}

func (e *emitter) close(name string) {
	e.indent--
	e.line("} finally {")
	e.indent++
	e.line("v.exit(%q)", name)
	e.indent--
	e.line("}")
	e.indent--
	e.line("}")
}

// emitHelper writes `func <fn>(x) {...}`: enters its names, increments, and
// leaves by its kind when x is true.
func emitHelper(e *emitter, fn string, h *helper, noisy bool) {
	e.line("func %s(x) {", fn)
	e.indent++
	for _, n := range h.names {
		e.open(n)
		e.inc(n, noisy)
	}
	switch h.kind {
	case "return":
		e.line("if x {")
		e.line("    v.mark(\"return\")")
		e.line("    return 1")
		e.line("}")
	case "raise":
		e.line("if x {")
		e.line("    v.mark(\"raise\")")
		e.line("    raise(\"C12X\", \"helper\", [1])")
		e.line("}")
	}
	for i := len(h.names) - 1; i >= 0; i-- {
		e.inc(h.names[i], false)
		e.close(h.names[i])
	}
	e.line("return 0")
	e.indent--
	e.line("}")
}

// emitUnitBody writes the statements of a unit (usable as a function body or
// inline in a sink).
func emitUnitBody(e *emitter, u *unit, helperFn string) {
	depth := len(u.names)
	looped := u.kind != "return" && u.kind != "escape" || u.iters > 1
	openHandler := func() {
		if looped {
			e.line("for i in range(1, %d) {", u.iters)
			e.indent++
		} else {
			e.line("i := 1")
		}
		if u.kind == "raise" {
			e.line("try {")
			e.indent++
		}
	}
	closeHandler := func() {
		if u.kind == "raise" {
			e.indent--
			e.line("} except {")
			e.line("    v.mark(\"caught\")")
			e.line("}")
		}
		if looped {
			e.indent--
			e.line("}")
		}
	}
	helperRaises := u.h != nil && u.h.kind == "raise"
	for lvl := 1; lvl <= depth; lvl++ {
		if lvl == u.catchLevel {
			openHandler()
		}
		e.open(u.names[lvl-1])
		e.inc(u.names[lvl-1], u.noisy)
		if u.h != nil && u.h.level == lvl {
			// the helper is called at exactly the level its names were chosen for
			if lvl >= u.catchLevel {
				e.line("hr := %s(i == %d)", helperFn, u.at)
			} else {
				e.line("hr := %s(false)", helperFn)
			}
		}
	}
	for lvl := depth; lvl >= 1; lvl-- {
		if lvl == u.exitLevel && !helperRaises {
			switch u.kind {
			case "raise", "escape":
				e.line("if i == %d {", u.at)
				e.line("    v.mark(\"raise\")")
				e.line("    raise(\"C12X\", \"unit\", [%d])", lvl)
				e.line("}")
			case "return":
				e.line("if i == %d {", u.at)
				e.line("    v.mark(\"return\")")
				e.line("    return %d", lvl)
				e.line("}")
			case "break", "continue":
				e.line("if i == %d {", u.at)
				e.line("    v.mark(%q)", u.kind)
				e.line("    %s", u.kind)
				e.line("}")
			}
		}
		e.inc(u.names[lvl-1], false)
		e.close(u.names[lvl-1])
		if lvl == u.catchLevel {
			closeHandler()
		}
	}
}

type threadProg struct {
	calls  []int // unit numbers, in order
	inline int   // unit number inlined at the end (sink threads only), -1 = none
	text   string
	escape bool
}

type program struct {
	units   []*unit
	progs   []*threadProg
	src     string
	sinkFor map[int]bool // thread programs that got a sink
}

func genProgram(r *core.Rand, nProgs int, sinkProgs map[int]bool) *program {
	p := &program{sinkFor: sinkProgs}
	nUnits := r.Range(3, 7)
	// every exit kind appears somewhere across the scenarios; the first units
	// of a program cycle through the kinds starting at a random offset
	off := r.Intn(len(exitKinds))
	for i := 0; i < nUnits; i++ {
		p.units = append(p.units, genUnit(r, exitKinds[(off+i)%len(exitKinds)]))
	}
	e := &emitter{}
	e.line("c1 := 0")
	e.line("c2 := 0")
	e.line("c3 := 0")
	for i, u := range p.units {
		if u.h != nil {
			emitHelper(e, fmt.Sprintf("h%d", i), u.h, u.noisy)
		}
		e.line("func u%d() {", i)
		e.indent++
		emitUnitBody(e, u, fmt.Sprintf("h%d", i))
		e.line("return 0")
		e.indent--
		e.line("}")
	}
	for t := 0; t < nProgs; t++ {
		tp := &threadProg{inline: -1}
		n := r.Range(1, 4)
		var esc []int
		for i := 0; i < n; i++ {
			k := r.Intn(nUnits)
			if p.units[k].kind == "escape" {
				esc = append(esc, k) // an escaping error ends the thread: such units go last
				continue
			}
			tp.calls = append(tp.calls, k)
		}
		if len(esc) > 0 {
			tp.calls = append(tp.calls, esc[0])
			tp.escape = true
		}
		var b strings.Builder
		for _, k := range tp.calls {
			fmt.Fprintf(&b, "u%d()\n", k)
		}
		tp.text = b.String()
		if sinkProgs[t] && !tp.escape && r.Chance(1, 2) {
			// blocks written directly in the sink body
			for k, u := range p.units {
				if u.kind != "return" && u.kind != "escape" {
					tp.inline = k
					break
				}
			}
		}
		p.progs = append(p.progs, tp)
		if sinkProgs[t] {
			e.line("sink s%d", t)
			e.line("    kindmatch [ \"c12.p%d\" ],", t)
			e.line("    priority 0")
			e.line("{")
			e.indent++
			for _, k := range tp.calls {
				e.line("u%d()", k)
			}
			if tp.inline >= 0 {
				emitUnitBody(e, p.units[tp.inline], fmt.Sprintf("h%d", tp.inline))
			}
			e.indent--
			e.line("}")
		}
	}
	p.src = e.b.String()
	return p
}

// ---------------------------------------------------------------- running

type thread struct {
	prog   int
	sink   bool
	gid    uint64 // goroutine id of a direct thread (atomic)
	done   int32
	err    error
	result interface{}
}

type runner struct {
	c       *core.Ctx
	stream  string
	idx     int
	env     *c11kit.Env
	m       *mon
	threads []*thread
	pre     map[uint64]bool // goroutines that existed before the scenario
	cfg     map[string]interface{}
	restart bool // the direct threads get their ids, then the processor is stopped and started again (the CLI's reload) before anybody runs
}

func goroutineSet() map[uint64]bool {
	res := map[uint64]bool{}
	for id := range sched.GoStates() {
		res[id] = true
	}
	return res
}

// stuck evaluates the stuck-state predicate on one dump: every goroutine that
// is executing interpreter code is parked in the acquisition of an ECAL mutex,
// every unfinished thread is accounted for by such a goroutine or by a queued
// task behind them, and no worker sits idle next to a queued task.
func (rn *runner) stuck() (bool, string) {
	dump := c11kit.Dump()
	inInterp := map[uint64]bool{}
	parkedWorkers, parked := 0, 0
	for i := range dump {
		g := &dump[i]
		if rn.pre[g.ID] || !g.InInterpreter() {
			continue
		}
		if !g.BlockedInEcalMutex() {
			return false, ""
		}
		inInterp[g.ID] = true
		parked++
		if g.IsPoolWorker() {
			parkedWorkers++
		}
	}
	if parked == 0 {
		return false, ""
	}
	unfinishedSinks := 0
	for _, t := range rn.threads {
		if atomic.LoadInt32(&t.done) == 1 {
			continue
		}
		if t.sink {
			unfinishedSinks++
			continue
		}
		if !inInterp[atomic.LoadUint64(&t.gid)] {
			return false, ""
		}
	}
	st := rn.env.Erp.Processor.ThreadPool().State()
	queued, _ := st["TaskQueueSize"].(int)
	idle, _ := st["IdleWorkerThreads"].([]uint64)
	if unfinishedSinks != parkedWorkers+queued {
		return false, ""
	}
	if queued > 0 && len(idle) > 0 {
		return false, ""
	}
	return true, fmt.Sprintf("%d goroutines parked in mutexRuntime.Eval -> sync.Mutex.Lock, no goroutine running interpreter code, %d tasks queued behind them", parked, queued)
}

// classify names the stuck state from the occupancy table.
func (rn *runner) classify() (string, string) {
	m := rn.m
	m.mu.Lock()
	defer m.mu.Unlock()
	var tids []uint64
	for t := range m.attempting {
		tids = append(tids, t)
	}
	sort.Slice(tids, func(i, j int) bool { return tids[i] < tids[j] })
	for _, t := range tids {
		n := m.attempting[t]
		if ns := m.names[n]; ns.depth > 0 && ns.owner == t {
			return "stuck:reentrant-acquire-blocked", fmt.Sprintf("thread %d is inside `mutex %s` (depth %d) and is parked acquiring %s again", t, n, ns.depth, n)
		}
	}
	for _, t := range tids {
		n := m.attempting[t]
		if ns := m.names[n]; ns.depth == 0 {
			kind := ns.lastExit
			if ns.abrupt != "" {
				kind = ns.abrupt // an abrupt exit before later (re-entrant, lock-free) visits is the suspect
			}
			return "stuck:not-released-after:" + kind, fmt.Sprintf("thread %d is parked acquiring `mutex %s`; nobody is inside %s; last complete exit from %s: %s, last abrupt one: %q", t, n, n, n, ns.lastExit, ns.abrupt)
		}
	}
	return "stuck:unclassified", fmt.Sprintf("waiting threads and names: %v", m.attempting)
}

// wait polls for completion or a stuck state. Returns "done", "stuck" or "timeout".
func (rn *runner) wait(done chan struct{}, bound time.Duration) (string, string) {
	end := time.Now().Add(bound)
	var lastProgress int64 = -1
	confirmations := 0
	tick := time.NewTicker(5 * time.Millisecond)
	defer tick.Stop()
	for {
		select {
		case <-done:
			return "done", ""
		case <-tick.C:
		}
		p := atomic.LoadInt64(&rn.m.progress)
		if p != lastProgress {
			lastProgress = p
			confirmations = 0
			continue
		}
		if ok, why := rn.stuck(); ok {
			confirmations++
			if confirmations >= 3 {
				return "stuck", why
			}
		} else {
			confirmations = 0
		}
		if time.Now().After(end) {
			return "timeout", ""
		}
	}
}

func (rn *runner) run(p *program, startDelay func(i int)) (outcome string) {
	c, m := rn.c, rn.m
	start := make(chan struct{})
	var directIDs []uint64
	var directIDsMu sync.Mutex
	var wg sync.WaitGroup
	// the direct threads' programs are parsed here, one after the other: parsing
	// concurrently is C13's subject, not this property's
	asts := make([]*parser.ASTNode, len(rn.threads))
	for i, t := range rn.threads {
		if !t.sink {
			ast, err := rn.env.Compile(fmt.Sprintf("thread%d", i), p.progs[t.prog].text)
			if err != nil {
				t.err = fmt.Errorf("compile: %v", err)
			}
			asts[i] = ast
		}
	}
	// a long-lived directly evaluating thread keeps the id it got before the
	// processor was stopped and started again; the workers of the restarted
	// pool must not be given that id
	earlyIDs := make([]uint64, len(rn.threads))
	if rn.restart {
		// stopped processor - ids for the direct threads - start - stop - start
		rn.env.Finish()
		for i, t := range rn.threads {
			if !t.sink {
				earlyIDs[i] = rn.env.Erp.NewThreadID()
			}
		}
		rn.env.Start()
		rn.env.Finish()
		rn.env.Start()
		c.Event("scenarios.with-processor-restart-after-thread-ids", 1)
	}
	for i, t := range rn.threads {
		wg.Add(1)
		go func(i int, t *thread) {
			defer wg.Done()
			defer atomic.StoreInt32(&t.done, 1)
			atomic.StoreUint64(&t.gid, sched.GoID())
			<-start
			if startDelay != nil {
				startDelay(i)
			}
			if t.sink {
				ev := engine.NewEvent(fmt.Sprintf("ev-p%d", t.prog), []string{"c12", fmt.Sprintf("p%d", t.prog)}, map[interface{}]interface{}{"n": float64(i)})
				rm := rn.env.Erp.Processor.NewRootMonitor(nil, nil)
				mon, err := rn.env.Erp.Processor.AddEventAndWait(ev, rm)
				if mon == nil || err != nil {
					t.err = fmt.Errorf("event not accepted: %v", err)
					return
				}
				for _, te := range rm.AllErrors() {
					for _, e := range te.ErrorMap {
						t.err = e
					}
				}
				return
			}
			ast := asts[i]
			if ast == nil {
				return
			}
			tvs := scope.NewScopeWithParent(fmt.Sprintf("thread%d", i), rn.env.VS)
			tid := earlyIDs[i]
			if tid == 0 {
				tid = rn.env.Erp.NewThreadID()
			}
			directIDsMu.Lock()
			directIDs = append(directIDs, tid)
			directIDsMu.Unlock()
			t.result, t.err = ast.Runtime.Eval(tvs, make(map[string]interface{}), tid)
		}(i, t)
	}
	done := make(chan struct{})
	go func() { wg.Wait(); close(done) }()
	kick := c11kit.StartKicker(rn.env.Erp.Processor)
	close(start)
	outcome, why := rn.wait(done, time.Duration(c.Pick(20, 60))*time.Second)
	c.Event("pool.kicks", kick.Stop())
	// the thread ids the provider hands out to concurrently starting threads
	// must be pairwise distinct (and differ from the ids of the pool workers):
	// the mutex owner is recognised by thread id only
	if outcome != "timeout" {
		directIDsMu.Lock()
		seen := map[uint64]int{}
		for _, id := range directIDs {
			seen[id]++
		}
		nids := len(directIDs)
		directIDsMu.Unlock()
		for id, n := range seen {
			if n > 1 {
				c.Violation("thread-id:duplicate", fmt.Sprintf("NewThreadID handed the id %d to %d threads that were started at the same time", id, n), rn.stream, rn.idx, map[string]interface{}{"scenario": rn.cfg})
				break
			}
		}
		c.Event("thread-ids.checked", int64(nids))
	}
	switch outcome {
	case "stuck":
		key, text := rn.classify()
		c.Violation(key, text+" ("+why+")", rn.stream, rn.idx, map[string]interface{}{"scenario": rn.cfg, "program": p.src, "threads": rn.describe(p)})
	case "timeout":
		c.Inconclusive("threads neither finished nor reached a stuck state within the polling bound", rn.stream, rn.idx, rn.cfg)
	}
	_ = m
	return outcome
}

func (rn *runner) describe(p *program) []string {
	var res []string
	for i, t := range rn.threads {
		kind := "direct Eval"
		if t.sink {
			kind = "sink"
		}
		text := strings.ReplaceAll(strings.TrimSpace(p.progs[t.prog].text), "\n", "; ")
		if t.sink && p.progs[t.prog].inline >= 0 {
			text += fmt.Sprintf("; <body of u%d inline in the sink>", p.progs[t.prog].inline)
		}
		res = append(res, fmt.Sprintf("thread %d (%s): %s", i, kind, text))
	}
	return res
}

// judgeEnd compares the final counters with the marker trace and reports what
// the occupancy monitor flagged.
func (rn *runner) judgeEnd(p *program, finished bool) {
	c, m := rn.c, rn.m
	detail := func() map[string]interface{} {
		return map[string]interface{}{"scenario": rn.cfg, "program": p.src, "threads": rn.describe(p)}
	}
	m.mu.Lock()
	defer m.mu.Unlock()
	if finished {
		for _, n := range allNames {
			cn := counterOf(n)
			v, _, _ := rn.env.VS.GetValue(cn)
			f, _ := v.(float64)
			if int64(f) != m.counters[cn] && !m.seenKey["counter:lost-update"] {
				m.flag("counter:lost-update", fmt.Sprintf("%s ends at %v although %d increments were executed inside `mutex %s`", cn, v, m.counters[cn], n))
			}
			if ns := m.names[n]; ns.depth != 0 && !ns.tainted {
				m.flag("monitor:inside-at-end", fmt.Sprintf("all threads finished but the table still has thread %d inside %s (depth %d)", ns.owner, n, ns.depth))
			}
		}
		for i, t := range rn.threads {
			tp := p.progs[t.prog]
			if t.err == nil {
				continue
			}
			typ := ""
			switch e := t.err.(type) {
			case *util.RuntimeErrorWithDetail:
				if e.Type != nil {
					typ = e.Type.Error()
				}
			case *util.RuntimeError:
				if e.Type != nil {
					typ = e.Type.Error()
				}
			}
			if !(tp.escape && typ == "C12X") {
				c.Inconclusive(fmt.Sprintf("thread %d ended with an error the program does not raise: %v", i, t.err), rn.stream, rn.idx, detail())
			}
		}
	}
	for _, f := range m.findings {
		d := detail()
		// what the interpreter itself logged about its locks (ring buffer), the
		// goroutines alive now and the thread ids used: enough to tell a failure
		// of the mutex from a disturbed observation
		if rn.env != nil && rn.env.Erp != nil && rn.env.Erp.MutexLog != nil {
			l := rn.env.Erp.MutexLog.StringSlice()
			if len(l) > 120 {
				l = l[len(l)-120:]
			}
			d["interpreter_mutex_log_tail"] = l
		}
		d["goroutines_now"] = head(sched.FullDump(), 5000)
		c.Violation(f.key, f.text, rn.stream, rn.idx, d)
	}
	for k, v := range m.stats {
		c.Event(k, v)
	}
	for k := range m.overlap {
		c.Event("overlap.pair."+k, 1)
	}
}

// randomScenario: generated program, 2..16 threads.
// stragglers returns the stack of a goroutine that is inside the ECAL
// interpreter right now ("" if there is none). Called
// between scenarios, when no thread of the harness is supposed to exist.
func stragglers() string {
	self := sched.GoID()
	for _, g := range c11kit.Dump() {
		if g.ID == self {
			continue
		}
		// (a pool worker that is on its way out after JoinAll returned executes no
		// ECAL code any more and is not counted)
		if g.Has("github.com/krotik/ecal/interpreter.") {
			fr := g.Frames
			if len(fr) > 12 {
				fr = fr[:12]
			}
			return fmt.Sprintf("goroutine %d [%s]: %s", g.ID, g.State, strings.Join(fr, " <- "))
		}
	}
	return ""
}

func randomScenario(c *core.Ctx, stream string, idx int) {
	r := c.Rng(stream, idx)
	workers := r.Range(2, 8)
	nThreads := r.Range(2, 16)
	nProgs := r.Range(1, 4)
	var threads []*thread
	sinkProgs := map[int]bool{}
	nSink := 0
	for i := 0; i < nThreads; i++ {
		t := &thread{prog: r.Intn(nProgs), sink: r.Bool()}
		if i == 0 {
			t.sink = true
		}
		if i == 1 {
			t.sink = false
		}
		if t.sink {
			sinkProgs[t.prog] = true
			nSink++
		}
		threads = append(threads, t)
	}
	p := genProgram(r, nProgs, sinkProgs)
	cfg := map[string]interface{}{"workers": workers, "threads": nThreads, "sink_threads": nSink, "thread_programs": nProgs, "units": len(p.units)}
	c.Begin(0, stream, idx, p.src)
	defer c.End(0)
	m := newMon(r.U64())
	// the monitor functions are process-wide: a thread of an EARLIER scenario
	// that is still executing interpreter code would report into this
	// scenario's tables (under a thread id that a thread of this scenario has,
	// too). Such a process judges no further scenario.
	if st := stragglers(); st != "" {
		c.Event("scenarios.not-run(stragglers-of-an-earlier-scenario)", 1)
		c.Inconclusive("not run: a goroutine of an earlier scenario is still inside the interpreter", stream, idx, map[string]interface{}{"goroutine": st})
		return
	}
	pre := goroutineSet()
	m.pre = pre
	env, err := c11kit.NewEnv("c12", p.src, workers, false)
	if err != nil {
		c.Inconclusive("generated program did not load: "+err.Error(), stream, idx, map[string]interface{}{"program": p.src})
		return
	}
	defer env.Close()
	cur.Store(m)
	env.Start()
	rn := &runner{c: c, stream: stream, idx: idx, env: env, m: m, threads: threads, pre: pre, cfg: cfg, restart: idx%4 == 3}
	cfg["restart"] = rn.restart
	jitter := r.U64()
	outcome := rn.run(p, func(i int) {
		if x := mix(jitter ^ uint64(i)); x%3 == 0 {
			time.Sleep(time.Duration(x>>8%300) * time.Microsecond)
		}
	})
	finished := outcome == "done"
	if finished {
		env.Finish()
	}
	rn.judgeEnd(p, finished)
	// evidence
	var kinds []string
	for _, u := range p.units {
		kinds = append(kinds, fmt.Sprintf("%s@%d/%d:%s", u.kind, u.exitLevel, u.catchLevel, strings.Join(u.names, ">")))
	}
	m.mu.Lock()
	contended := m.stats["attempt.contended(name held by another thread)"]
	enters := m.stats["enter"]
	m.mu.Unlock()
	c.Event("scenario."+stream, 1)
	c.Event("threads.run", int64(nThreads))
	c.AddEvals(nThreads)
	if contended > 0 {
		c.Nontrivial(core.Hash64("rand|" + p.src + fmt.Sprint(cfg)))
	}
	if idx < 2 {
		c.Sample(stream, map[string]interface{}{"scenario": cfg, "units(kind@exitLevel/catchLevel:names)": kinds, "threads": rn.describe(p),
			"enters": enters, "contended_attempts": contended, "program_head": head(p.src, 1200)})
	}
}

func head(s string, n int) string {
	if len(s) > n {
		return s[:n] + "..."
	}
	return s
}

// exitScenario is the directed form of "released on every way out": thread A
// leaves a block of `name` by one exit kind from a given nesting level while
// thread B waits (v.await) until A was inside and then enters the same name.
func exitScenario(c *core.Ctx, stream string, idx int) {
	r := c.Rng(stream, idx)
	kinds := []string{"raise", "escape", "return", "break", "continue", "normal"}
	kind := kinds[idx%len(kinds)]
	depth := idx/len(kinds)%3 + 1
	u := &unit{kind: kind, iters: 2, at: 1, noisy: false}
	first := allNames[r.Intn(len(allNames)-depth+1)]
	for i := 0; i < depth; i++ {
		if r.Chance(1, 3) && i > 0 {
			u.names = append(u.names, u.names[i-1]) // re-entrant level
		} else if i == 0 {
			u.names = append(u.names, first)
		} else {
			u.names = append(u.names, pickName(r, u.names))
		}
	}
	u.exitLevel = depth
	u.catchLevel = r.Range(1, depth)
	if kind == "return" || kind == "escape" {
		u.catchLevel = 1
		u.iters = 1
	}
	aSink, bSink := r.Bool(), r.Bool()
	e := &emitter{}
	e.line("c1 := 0")
	e.line("c2 := 0")
	e.line("c3 := 0")
	e.line("func u0() {")
	e.indent++
	emitUnitBody(e, u, "h0")
	e.line("return 0")
	e.indent--
	e.line("}")
	// B enters every name A used, innermost name first is not allowed by the
	// global order, so one block per name in rank order, not nested
	seen := map[string]bool{}
	var bNames []string
	for _, n := range u.names {
		if !seen[n] {
			seen[n] = true
			bNames = append(bNames, n)
		}
	}
	sort.Strings(bNames)
	e.line("func b0() {")
	e.indent++
	e.line("v.await(%q)", u.names[len(u.names)-1])
	for _, n := range bNames {
		e.open(n)
		e.inc(n, false)
		e.close(n)
	}
	e.line("return 0")
	e.indent--
	e.line("}")
	progs := []*threadProg{{calls: []int{0}, inline: -1, text: "u0()\n", escape: kind == "escape"}, {inline: -1, text: "b0()\n"}}
	for t, isSink := range []bool{aSink, bSink} {
		if isSink {
			e.line("sink s%d", t)
			e.line("    kindmatch [ \"c12.p%d\" ],", t)
			e.line("    priority 0")
			e.line("{")
			e.line("    %s", strings.TrimSpace(progs[t].text))
			e.line("}")
		}
	}
	p := &program{units: []*unit{u}, progs: progs, src: e.b.String()}
	cfg := map[string]interface{}{"exit_kind": kind, "depth": depth, "names": strings.Join(u.names, ">"), "catch_level": u.catchLevel,
		"a_is_sink": aSink, "b_is_sink": bSink}
	c.Begin(0, stream, idx, p.src)
	defer c.End(0)
	m := newMon(r.U64())
	pre := goroutineSet()
	m.pre = pre
	env, err := c11kit.NewEnv("c12", p.src, 2, false)
	if err != nil {
		c.Inconclusive("generated program did not load: "+err.Error(), stream, idx, map[string]interface{}{"program": p.src})
		return
	}
	defer env.Close()
	cur.Store(m)
	env.Start()
	rn := &runner{c: c, stream: stream, idx: idx, env: env, m: m, pre: pre, cfg: cfg,
		threads: []*thread{{prog: 0, sink: aSink}, {prog: 1, sink: bSink}}}
	outcome := rn.run(p, nil)
	if outcome == "done" {
		env.Finish()
	}
	rn.judgeEnd(p, outcome == "done")
	bEntered := rn.threads[1].err == nil
	c.Event("scenario."+stream, 1)
	c.Event("threads.run", 2)
	if outcome == "done" && bEntered {
		c.NontrivialKey(fmt.Sprintf("exit|%s|%d|%d|%s", kind, depth, u.catchLevel, strings.Join(u.names, ">")))
		c.Event("exit.later-entrant-got-in."+kind, 1)
	}
	if idx%17 == 0 {
		c.Sample(stream, map[string]interface{}{"scenario": cfg, "program": p.src})
	}
}

// indepScenario: A holds n1 and spins until B was seen inside n2.
func indepScenario(c *core.Ctx, stream string, idx int) {
	r := c.Rng(stream, idx)
	pairs := [][2]string{{"m1", "m2"}, {"m1", "m3"}, {"m2", "m3"}, {"m2", "m1"}, {"m3", "m1"}, {"m3", "m2"}}
	pr := pairs[idx%len(pairs)]
	aSink, bSink := idx/len(pairs)%2 == 1, idx/len(pairs)/2%2 == 1
	e := &emitter{}
	e.line("func a0() {")
	e.indent++
	e.open(pr[0])
	e.line("seen := v.hold(%q, %q)", pr[0], pr[1])
	e.close(pr[0])
	e.line("return 0")
	e.indent--
	e.line("}")
	e.line("func b0() {")
	e.indent++
	e.line("v.await(%q)", pr[0])
	e.open(pr[1])
	e.line("x := 1")
	e.close(pr[1])
	e.line("return 0")
	e.indent--
	e.line("}")
	progs := []*threadProg{{inline: -1, text: "a0()\n"}, {inline: -1, text: "b0()\n"}}
	for t, isSink := range []bool{aSink, bSink} {
		if isSink {
			e.line("sink s%d", t)
			e.line("    kindmatch [ \"c12.p%d\" ],", t)
			e.line("    priority 0")
			e.line("{")
			e.line("    %s", strings.TrimSpace(progs[t].text))
			e.line("}")
		}
	}
	p := &program{progs: progs, src: e.b.String()}
	cfg := map[string]interface{}{"a_holds": pr[0], "b_enters": pr[1], "a_is_sink": aSink, "b_is_sink": bSink}
	c.Begin(0, stream, idx, p.src)
	defer c.End(0)
	m := newMon(r.U64())
	pre := goroutineSet()
	m.pre = pre
	env, err := c11kit.NewEnv("c12", p.src, 2, false)
	if err != nil {
		c.Inconclusive("program did not load: "+err.Error(), stream, idx, map[string]interface{}{"program": p.src})
		return
	}
	defer env.Close()
	cur.Store(m)
	env.Start()
	rn := &runner{c: c, stream: stream, idx: idx, env: env, m: m, pre: pre, cfg: cfg,
		threads: []*thread{{prog: 0, sink: aSink}, {prog: 1, sink: bSink}}}
	outcome := rn.run(p, nil)
	if outcome == "done" {
		env.Finish()
	}
	rn.judgeEnd(p, outcome == "done")
	a, b := pr[0], pr[1]
	if a > b {
		a, b = b, a
	}
	m.mu.Lock()
	seen := m.overlap[a+"|"+b]
	undecided := m.stats["independence.undecided"] > 0
	m.mu.Unlock()
	c.Event("scenario."+stream, 1)
	c.Event("threads.run", 2)
	if seen {
		c.Event("independence.overlap-observed", 1)
		c.NontrivialKey(fmt.Sprintf("indep|%s|%s|%v|%v", pr[0], pr[1], aSink, bSink))
	} else if undecided {
		c.Inconclusive("no overlap of the two names was observed and no blocked entrant either", stream, idx, cfg)
	}
	if idx%13 == 0 {
		c.Sample(stream, map[string]interface{}{"scenario": cfg, "overlap_observed": seen, "program": p.src})
	}
}

// Run is the check.
func Run(c *core.Ctx) {
	c.Note("rule", "random stream: per index a generated program (3..7 units = nests of 1..3 `mutex` blocks over names {m1,m2,m3}; a new name is always ranked above every name held, a held name may be re-entered; one exit kind per unit out of {normal, raise caught outside the blocks left, raise escaping the thread, return, break, continue}, fired at a chosen iteration from nesting level exitLevel through to the handler placed outside level catchLevel; optional helper function called inside a block that enters held or higher names and leaves by normal/return/raise; counters c1..c3 incremented only inside blocks of their name, half of them as `c := c + v.one()` with a yielding Go function) run by 2..16 threads = sinks on 2..8 workers (event per thread, some with the blocks inline in the sink body) plus direct Eval goroutines with ids from NewThreadID() (every fourth scenario: the ids are drawn first, then the processor is finished and started again before anybody runs); tids stream: 2..16 goroutines leave a barrier and draw 200..3000 thread ids each from NewThreadID (half of the cases while the processor starts its workers), all ids must be distinct; fresh stream: 2..8 threads leave a barrier together and enter a block of a name nobody entered before, 16..32 new names per scenario, a Go function inside the block counts the occupants; exit stream: all 6 exit kinds x depth 1..3, thread B enters every name thread A left; indep stream: all ordered pairs of different names x sink/direct threads, A holds one name until B was seen inside the other. One evaluation = one thread program executed. Non-trivial = a random scenario (distinct program text and thread layout) in which the monitor saw at least one attempt on a name held by another thread; a distinct (exit kind, depth, catch level, names) case in which the later entrant got in; an independence case with the overlap observed. Excluded by generation: thread id 0, programs that can deadlock by themselves (names are taken in one global order), try/except between a break/continue/return and the construct that consumes it, block scopes shared between direct threads (every direct thread evaluates in its own child scope of the global scope).")
	setup()
	nExit := c.Pick(216, 1440)
	nIndep := c.Pick(72, 240)
	nRand := c.Pick(3200, 120000)
	if c.Race {
		nExit = c.Pick(36, 360)
		nIndep = c.Pick(12, 48)
		nRand = c.Pick(480, 20000)
	}
	for i := 0; i < nExit; i++ {
		if c.Mine("exit", i) {
			exitScenario(c, "exit", i)
			c.AddEvals(2)
		}
	}
	for i := 0; i < nIndep; i++ {
		if c.Mine("indep", i) {
			indepScenario(c, "indep", i)
			c.AddEvals(2)
		}
	}
	for i := 0; i < c.Pick(48, 2000); i++ {
		tidScenario(c, "tids", i)
	}
	for i := 0; i < c.Pick(480, 8000); i++ {
		freshScenario(c, "fresh", i)
	}
	for i := 0; i < nRand; i++ {
		if c.Mine("rand", i) {
			randomScenario(c, "rand", i)
		}
	}
}
