// Package c12 holds the runtime monitors for property C12 (see DESIGN.md section 4).
package c12

import "verif/harness/core"

func init() { core.Register("C12", Run) }

// Run is the check.
func Run(c *core.Ctx) {
}
