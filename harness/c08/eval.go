package c08

import (
	"fmt"
	"regexp"
	"sort"
	"strings"
	"sync"

	"github.com/krotik/common/datautil"
	"github.com/krotik/ecal/engine"
	"github.com/krotik/ecal/interpreter"
	"github.com/krotik/ecal/parser"
	"github.com/krotik/ecal/scope"
	"github.com/krotik/ecal/util"

	"verif/harness/core"
)

// Behavioural comparison: the source and its formatted form are evaluated by
// the real interpreter in identical fresh environments; result, error (type
// and detail, positions removed) and the log trace must agree.

const prelude = `a := 7
b := 3
c := 2
d := 5
e := 1
p := true
q := false
s := 0
n := 0
k := 0
i := 0
l := [1, 2, 3]
m := {"k" : 1, "j" : 2}
o := {"a" : {"b" : 1}, "b" : [4, 5]}
func x() {
    log("x")
    return 1
}
func f(u, v) {
    log("f", u, v)
    return u
}
func g(u) {
    return [u]
}
T := {"init" : func (v) {
        this.v := v
    }}
`

type evalOut struct {
	res, err string
	logs     []string
	panicked string
	budget   bool // the visit budget was exceeded (no termination within the logical bound)
}

func (e evalOut) String() string {
	if e.budget {
		return "visit budget exceeded (does not terminate within 100000 node visits)"
	}
	if e.panicked != "" {
		return "panic " + e.panicked
	}
	return fmt.Sprintf("result=%s error=%s log=%q", e.res, e.err, e.logs)
}

func renderVal(v interface{}, depth int) string {
	if depth > 6 {
		return "..."
	}
	switch x := v.(type) {
	case nil:
		return "null"
	case bool, float64, int, int64:
		return fmt.Sprint(x)
	case string:
		return normPos(fmt.Sprintf("%q", x))
	case []interface{}:
		parts := make([]string, len(x))
		for i, e := range x {
			parts[i] = renderVal(e, depth+1)
		}
		return "[" + strings.Join(parts, ",") + "]"
	case map[interface{}]interface{}:
		parts := make([]string, 0, len(x))
		for k, e := range x {
			parts = append(parts, renderVal(k, depth+1)+":"+renderVal(e, depth+1))
		}
		sort.Strings(parts)
		return "{" + strings.Join(parts, ",") + "}"
	}
	return fmt.Sprintf("<%T>", v)
}

func renderErr(err error) string {
	if err == nil {
		return ""
	}
	switch e := err.(type) {
	case *util.RuntimeErrorWithDetail:
		return normPos(fmt.Sprintf("%v|%s|%s", e.Type, e.Detail, renderVal(e.Data, 0)))
	case *util.RuntimeError:
		return normPos(fmt.Sprintf("%v|%s", e.Type, e.Detail))
	}
	return normPos(err.Error())
}

var importFiles = map[string]string{
	"foo/bar.ecal": "v := 5\nfunc ff() {\n    return 11\n}\n",
	"lib.ecal":     "w := 6\n",
}

var lineRe = regexp.MustCompile(`\(Line:? ?\d+,? Pos:? ?\d+\)`)

func normPos(s string) string { return lineRe.ReplaceAllString(s, "(pos)") }

type evalEnv struct {
	erp    *interpreter.ECALRuntimeProvider
	logger *util.MemoryLogger
	pre    *parser.ASTNode
}

// One runtime provider serves all evaluations of the process (creating one
// starts a cron goroutine whose Stop can deadlock with its tick - a defect of
// the krotik/common dependency and no matter of this property; it is stopped
// once, asynchronously). Per evaluation the provider gets a fresh event
// processor and fresh mutex tables, so sinks and mutex blocks of one program
// cannot influence the next one.
func newEvalEnv() *evalEnv {
	logger := util.NewMemoryLogger(200)
	erp := interpreter.NewECALRuntimeProvider("c08", &util.MemoryImportLocator{Files: importFiles}, logger)
	go erp.Cron.Stop()
	pre, err := parser.ParseWithRuntime("prelude", prelude, erp)
	if err != nil {
		panic("prelude does not parse: " + err.Error())
	}
	if err = pre.Runtime.Validate(); err != nil {
		panic("prelude: " + err.Error())
	}
	return &evalEnv{erp, logger, pre}
}

var sharedEnv *evalEnv

// evalProgram evaluates a program in a fresh global scope after the prelude.
func evalProgram(src string) (out evalOut) {
	if sharedEnv == nil {
		sharedEnv = newEvalEnv()
	}
	env := sharedEnv
	erp, logger := env.erp, env.logger
	proc := engine.NewProcessor(1)
	proc.SetFailOnFirstErrorInTriggerSequence(true)
	erp.Processor = proc
	erp.Mutexes = make(map[string]*sync.Mutex)
	erp.MutexeOwners = make(map[string]uint64)
	erp.MutexLog = datautil.NewRingBuffer(1024)
	dbg := &budgetDebugger{budget: 100000}
	erp.Debugger = dbg
	key, msg, pan := core.Guard(func() {
		vs := scope.NewScope(scope.GlobalScope)
		if _, err := env.pre.Runtime.Eval(vs, make(map[string]interface{}), erp.NewThreadID()); err != nil {
			panic("prelude: " + err.Error())
		}
		logger.Reset()
		dbg.visits = 0
		ast, err := parser.ParseWithRuntime("prog", src, erp)
		if err != nil {
			out.err = "parse:" + normPos(err.Error())
			return
		}
		if err = ast.Runtime.Validate(); err != nil {
			out.err = "validate:" + renderErr(err)
			return
		}
		res, err := ast.Runtime.Eval(vs, make(map[string]interface{}), erp.NewThreadID())
		out.res = renderVal(res, 0)
		out.err = renderErr(err)
	})
	for _, l := range logger.Slice() {
		out.logs = append(out.logs, normPos(l))
	}
	if pan {
		_ = msg
		out.panicked = key
	}
	out.budget = dbg.exceeded()
	return
}

func sameEval(a, b evalOut) bool {
	if a.budget || b.budget {
		return a.budget == b.budget
	}
	if a.panicked != "" || b.panicked != "" {
		return a.panicked == b.panicked
	}
	if a.res != b.res || a.err != b.err || len(a.logs) != len(b.logs) {
		return false
	}
	for i := range a.logs {
		if a.logs[i] != b.logs[i] {
			return false
		}
	}
	return true
}
