// Package c08 holds the runtime monitors for property C08: formatting
// preserves program meaning and is idempotent (see DESIGN.md section 4).
//
// For every generated source s that parser.Parse accepts (tree t1) the real
// parser.PrettyPrint and parser.Parse are run: p1 = PrettyPrint(t1) must parse,
// its tree must equal t1 under the harness' own structural walk (tree.go),
// PrettyPrint(Parse(p1)) must equal p1, a sample of s / p1 pairs is evaluated
// by the real interpreter and compared, and tool.FormatFiles is run on
// temporary directory trees of such files.
package c08

import (
	"flag"
	"io"
	"runtime"
	"strings"

	"github.com/krotik/ecal/parser"

	"verif/harness/core"
)

func init() { core.Register("C08", Run) }

type streamDef struct {
	name  string
	count func(c *core.Ctx) int
	gen   func(c *core.Ctx, idx int) gcase
}

var streams = []streamDef{
	{"op2", func(c *core.Ctx) int { return len(op2build()) }, op2gen},
	{"op3", op3count, op3gen},
	{"stmt2", stmt2count, stmt2gen},
	{"stmt3", stmt3count, stmt3gen},
	{"str", strCount, strGen},
	{"str-ctx", strCtxCount, strCtxGen},
	{"cmt1", func(c *core.Ctx) int { return len(cmt1build()) }, cmt1gen},
	{"cmt2", cmt2count, cmt2gen},
	{"cont", func(c *core.Ctx) int { return len(contBuild()) }, contGen},
	{"sink", sinkCount, sinkGen},
	{"rand", randCount, randGen},
	{"corpus", corpusCount, corpusGen},
}

func streamByName(name string) *streamDef {
	for i := range streams {
		if streams[i].name == name {
			return &streams[i]
		}
	}
	return nil
}

type checker struct {
	c        *core.Ctx
	seen     map[string]int
	keyCache map[string]string
}

const maxRecordsPerKey = 8

// Run is the check.
func Run(c *core.Ctx) {
	c.Note("rule", "sources: (op2) exhaustive depth-2 operator nesting: every operator (20 infix incl. :=, 3 prefix) as parent x every operator as child x child position x with/without source parentheses x 5 operand sets x 7 expression contexts (bare, list, if guard, call argument, map value, parameter default, return) x 3 layouts; (op3) all 5 tree shapes + the unparenthesised chain over 4 leaves for every triple of 10 representative operators, with a prefix operator on any node; (stmt2) every statement kind ("+
		"assignment, let, destructuring, calls, if/elif/else, the loop forms, break/continue/return, named/anonymous functions with defaults, try with every clause shape, mutex, import, sink, container and string statements, object templates) in every block kind (top level, if/elif/else, both loops, named/anonymous function, try/except/otherwise/finally, mutex, sink, function inside map / list / call) x 4 positions in the block x 4 layouts; (stmt3) random 2-3 level nestings of those; (str, str-ctx) every sequence of <=3 (thorough <=4) pieces of a 34-piece alphabet (quotes, backslashes, escapes, newlines, {{ }}, non-ASCII, invalid UTF-8, comment markers, braces, control characters) in the 4 literal styles \"..\" '..' r\"..\" r'..' in 14 contexts; (cmt1) 14 comment forms (#, /* */, multi-line, several on one position, glued) at every token gap of 10 template programs in 2 layouts; (cmt2) random 2-3 comments; (cont) lists with 0..6 and maps with 0..4 entries with one special element (nested list 0..6 / map 0..4, function literal, operator, call, multi-line raw string) at every position x 13 contexts x 3 layouts x trailing comma; (sink) every subset of the 5 sink attributes x 3 orders x comma/no comma x 3 bodies x 4 contexts x 3 layouts; (rand) seeded random programs of depth <=4 with random redundant parentheses, literal styles, layouts and comments; (corpus) hand-written example-style programs; (fmt) tool.FormatFiles on temp trees of such files with nested directories, other extensions, unparseable, empty and CRLF files, run twice. "+
		"A source that does not parse is outside the property and only counted. Non-trivial/distinct = distinct parse trees (node kinds, values, string kinds, nesting and comment placement) of sources that parse; every one of them went through PrettyPrint, re-Parse, own structural comparison and a second PrettyPrint. Trees are compared up to positions, comments, blank lines and the spelling of keyword tokens (keywords are case-insensitive). Evaluation sample: all pure-expression cases, and block programs when the trees are equal; every evaluation is bounded logically by a counting debugger (100000 node visits); result, error type/detail and log trace are compared; programs whose result changes when the whole source is moved (they observe their own positions) are not compared.")
	flag.CommandLine.SetOutput(io.Discard) // FormatFiles reports unparseable files there
	// The check is sequential (the parser rewrites a package-level table while
	// parsing if / for, so parses must not overlap); with one P the hand-over
	// between the lexer goroutine and the parser is a direct switch.
	runtime.GOMAXPROCS(1)
	k := &checker{c: c, seen: map[string]int{}, keyCache: map[string]string{}}
	for si := range streams {
		s := &streams[si]
		n := s.count(c)
		for i := 0; i < n; i++ {
			if !c.Take(s.name, i) {
				continue
			}
			g := s.gen(c, i)
			k.check(s.name, i, g)
			if i%9973 == 11 {
				c.Sample(s.name, g.src)
			}
		}
	}
	nf := c.Pick(64, 1600)
	for i := 0; i < nf; i++ {
		if !c.Take("fmt", i) {
			continue
		}
		k.formatCase(i)
	}
	c.End(0)
}

func trunc(s string, n int) string {
	if len(s) > n {
		return s[:n] + "..."
	}
	return s
}

// check runs the oracle on one source.
func (k *checker) check(stream string, idx int, g gcase) {
	c := k.c
	c.Begin(0, stream, idx, g.src)
	var t1 *parser.ASTNode
	var err error
	_, _, pan := core.Guard(func() { t1, err = parser.Parse("c08", g.src) })
	if pan {
		c.Event("source.parse-panic (not a C08 matter)", 1)
		return
	}
	if err != nil {
		c.Event("source.noparse", 1)
		c.Event("noparse."+stream, 1)
		return
	}
	if t1 == nil || hasNil(t1) {
		c.Event("source.tree-with-nil-node (not a C08 matter)", 1)
		return
	}
	c.Event("source.parsed", 1)
	c.Event("parsed."+stream, 1)
	c.Nontrivial(core.Hash64(renderMeta(t1)))
	p1, _, f := roundTrip(t1)
	if f == nil {
		c.Event("roundtrip.ok (p1 parses, trees equal, second print identical)", 1)
	}
	var e1, e2 *evalOut
	p1parses := f == nil || f.cat == "structure" || f.cat == "nonidempotent"
	if (g.eval == 1 && p1parses) || (g.eval == 2 && (f == nil || f.cat == "nonidempotent")) {
		a, b := evalProgram(g.src), evalProgram(p1)
		e1, e2 = &a, &b
		c.Event("eval.compared", 1)
		if a.budget && b.budget {
			c.Event("eval.both-exceed-visit-budget", 1)
		} else if sameEval(a, b) {
			c.Event("eval.equal", 1)
			if a.err == "" && a.panicked == "" {
				c.Event("eval.equal.no-error", 1)
			}
		} else if f != nil && f.cat == "structure" {
			c.Event("eval.differs (trees differ too)", 1)
		} else if positionDependent(g.src, a) {
			// the program observes its own source positions (e.g. it turns a
			// function value into text): moving it changes what it does, so
			// formatting may as well
			c.Event("eval.position-dependent-program (not comparable)", 1)
		} else {
			c.Event("eval.differs-with-equal-trees", 1)
			k.seen["behaviour"]++
			if k.seen["behaviour"] <= maxRecordsPerKey || c.Replay() {
				c.Violation("behaviour-differs-with-equal-trees", "source and formatted source evaluate differently although their trees are equal under the harness' walk", stream, idx,
					map[string]interface{}{"source": g.src, "printed": p1, "eval_source": a.String(), "eval_printed": b.String()})
			}
		}
	}
	if f != nil {
		k.report(stream, idx, g.src, t1, f, e1, e2, "")
	}
}

// positionDependent tells whether moving the source (lines and columns)
// changes what it does.
func positionDependent(src string, orig evalOut) bool {
	for _, prefix := range []string{"\n        ", "\n\n   ", "\n\n\n\n\n\n\n", " ", strings.Repeat("\n", 21) + "     ", strings.Repeat("\n", 98) + strings.Repeat(" ", 90)} {
		if !sameEval(orig, evalProgram(prefix+src)) {
			return true
		}
	}
	return false
}

var whatText = map[string]string{
	"pp-panic":      "PrettyPrint panicked on a tree that Parse returned",
	"pp-error":      "PrettyPrint returned an error for a tree that Parse returned",
	"unparseable":   "the pretty-printed text does not parse",
	"structure":     "the pretty-printed text parses to a different tree",
	"nonidempotent": "pretty printing the pretty-printed text again gives a different text",
}

func (k *checker) keyFor(t1 *parser.ASTNode, f *failure) (string, *parser.ASTNode, *failure) {
	ck := f.cat + "|" + renderMeta(t1)
	if key, ok := k.keyCache[ck]; ok && k.seen[key] > maxRecordsPerKey && !k.c.Replay() {
		return key, nil, nil
	}
	m := shrink(t1, f)
	_, _, mf := roundTrip(m)
	if mf == nil || mf.cat != f.cat || !hasSubCat(mf, subCat(f)) {
		m, mf = t1, f
	}
	key := classify(m, mf)
	if len(k.keyCache) < 200000 {
		k.keyCache[ck] = key
	}
	return key, m, mf
}

func (k *checker) report(stream string, idx int, src string, t1 *parser.ASTNode, f *failure, e1, e2 *evalOut, via string) {
	c := k.c
	key, m, mf := k.keyFor(t1, f)
	c.Event("violation."+key, 1)
	k.seen[key]++
	if (k.seen[key] > maxRecordsPerKey && !c.Replay()) || m == nil {
		return
	}
	detail := map[string]interface{}{
		"source": src, "printed": f.p1, "problem": f.msg, "tree": trunc(renderMeta(t1), 1500),
		"minimal_tree": renderMeta(m), "minimal_printed": mf.p1, "minimal_problem": mf.msg,
	}
	if f.p2 != "" {
		detail["printed_again"] = f.p2
	}
	if mf.p2 != "" {
		detail["minimal_printed_again"] = mf.p2
	}
	if mf.t2 != nil && mf.cat == "structure" {
		detail["minimal_reparsed_tree"] = render(mf.t2)
	}
	if e1 != nil && e2 != nil {
		detail["eval_source"] = e1.String()
		detail["eval_printed"] = e2.String()
	}
	what := whatText[f.cat]
	if via != "" {
		what = via + ": " + what
	}
	c.Violation(key, what, stream, idx, detail)
}
