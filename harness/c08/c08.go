// Package c08 holds the runtime monitors for property C08 (see DESIGN.md section 4).
package c08

import "verif/harness/core"

func init() { core.Register("C08", Run) }

// Run is the check.
func Run(c *core.Ctx) {
}
