package c08

import (
	"verif/harness/core"
)

// gcase is one generated source.
type gcase struct {
	src   string
	eval  int    // 0: never, 1: evaluate s and p1 whenever p1 parses, 2: evaluate only if the trees are equal
	class string // sample class
	desc  string
}

var infixOps = []string{":=", "or", "and", ">=", "<=", "!=", "==", ">", "<", "like", "in", "hasprefix", "hassuffix", "notin", "+", "-", "*", "/", "//", "%"}
var prefixOps = []string{"-", "+", "not"}

func opText(i int) (string, bool) {
	if i < len(infixOps) {
		return infixOps[i], false
	}
	return prefixOps[i-len(infixOps)], true
}

var nOps = len(infixOps) + len(prefixOps)

var operandSets = [][]string{
	{"a", "b", "c"},
	{"7", "3", "2"},
	{"true", "false", "true"},
	{`"x"`, `"xy"`, `"y"`},
	{"o.a.b", "f(1,2)", "l[0]"},
}

var exprCtx = []string{
	"$0",
	"r := [ $0 , 1 ]",
	"if $0 { k := 1 }",
	"f ( $0 , 2 )",
	"@{ \"k\" : $0 @}",
	"func ( u = $0 ) { }",
	"return $0",
}

type op2desc struct {
	p, c, pos int
	paren     bool
	set, ctx  int
	mode      int
}

var op2modes = []int{layOne, layTight, layOpNL}

var op2list []op2desc

func op2build() []op2desc {
	if op2list != nil {
		return op2list
	}
	for p := 0; p < nOps; p++ {
		_, ppre := opText(p)
		for c := 0; c < nOps; c++ {
			for pos := 0; pos < 2; pos++ {
				if ppre && pos == 1 {
					continue
				}
				for par := 0; par < 2; par++ {
					for set := range operandSets {
						for ctx := range exprCtx {
							for _, mode := range op2modes {
								op2list = append(op2list, op2desc{p, c, pos, par == 1, set, ctx, mode})
							}
						}
					}
				}
			}
		}
	}
	return op2list
}

func wrap(par bool, t []string) []string {
	if par {
		return cat("(", t, ")")
	}
	return t
}

func op2expr(d op2desc) []string {
	pt, ppre := opText(d.p)
	ct, cpre := opText(d.c)
	o := operandSets[d.set]
	switch {
	case !ppre && !cpre && d.pos == 0:
		return cat(wrap(d.paren, []string{o[0], ct, o[1]}), pt, o[2])
	case !ppre && !cpre:
		return cat(o[0], pt, wrap(d.paren, []string{o[1], ct, o[2]}))
	case !ppre && cpre && d.pos == 0:
		return cat(wrap(d.paren, []string{ct, o[0]}), pt, o[1])
	case !ppre && cpre:
		return cat(o[0], pt, wrap(d.paren, []string{ct, o[1]}))
	case ppre && !cpre:
		return cat(pt, wrap(d.paren, []string{o[0], ct, o[1]}))
	default:
		return cat(pt, wrap(d.paren, []string{ct, o[0]}))
	}
}

func op2gen(c *core.Ctx, idx int) gcase {
	d := op2build()[idx]
	toks := fields(exprCtx[d.ctx], op2expr(d))
	g := gcase{src: layout(toks, d.mode, nil, nil), class: "op2"}
	if d.mode == layOne && d.ctx <= 4 {
		g.eval = 1
	}
	return g
}

// ---------------------------------------------------------------------------
// depth 3: three operators over four leaves in every tree shape, optionally a
// prefix operator on one of the seven nodes.

var op3ops = []string{":=", "or", "and", "==", "<", "in", "+", "-", "*", "/"}

type ex struct {
	op   string
	l, r *ex
	leaf string
	pre  string
}

func lf(s string) *ex            { return &ex{leaf: s} }
func bin(o string, l, r *ex) *ex { return &ex{op: o, l: l, r: r} }

func op3tree(shape int, o1, o2, o3 string) *ex {
	a, b, c, d := lf("a"), lf("b"), lf("c"), lf("d")
	switch shape {
	case 0:
		return bin(o3, bin(o2, bin(o1, a, b), c), d)
	case 1:
		return bin(o3, bin(o1, a, bin(o2, b, c)), d)
	case 2:
		return bin(o2, bin(o1, a, b), bin(o3, c, d))
	case 3:
		return bin(o1, a, bin(o3, bin(o2, b, c), d))
	default:
		return bin(o1, a, bin(o2, b, bin(o3, c, d)))
	}
}

func exNodes(e *ex, out *[]*ex) {
	*out = append(*out, e)
	if e.l != nil {
		exNodes(e.l, out)
		exNodes(e.r, out)
	}
}

// exToks renders with explicit parentheses around every inner operator node
// so that the source has exactly the intended shape.
func exToks(e *ex, root bool) []string {
	if e.l == nil {
		if e.pre != "" {
			if root {
				return []string{e.pre, e.leaf}
			}
			return []string{"(", e.pre, e.leaf, ")"}
		}
		return []string{e.leaf}
	}
	inner := cat(exToks(e.l, false), e.op, exToks(e.r, false))
	if e.pre != "" {
		inner = cat(e.pre, "(", inner, ")")
	}
	if root {
		return inner
	}
	return cat("(", inner, ")")
}

func op3count(c *core.Ctx) int {
	n := len(op3ops) * len(op3ops) * len(op3ops) * 6
	return n * c.Pick(3, 15)
}

func op3gen(c *core.Ctx, idx int) gcase {
	per := c.Pick(3, 15)
	slot := idx % per
	t := idx / per
	shape := t % 6
	t /= 6
	o3 := op3ops[t%len(op3ops)]
	t /= len(op3ops)
	o2 := op3ops[t%len(op3ops)]
	t /= len(op3ops)
	o1 := op3ops[t%len(op3ops)]
	v := slot
	if c.Quick() && slot > 0 {
		v = 1 + c.Rng("op3", idx).Intn(14)
	}
	var toks []string
	if shape == 5 {
		// natural grouping: no parentheses, prefix operators only on leaves
		leaves := []string{"a", "b", "c", "d"}
		pre := ""
		k := -1
		if v > 0 {
			k = ((v - 1) / 2) % 4
			pre = []string{"-", "not"}[(v-1)%2]
		}
		for i, l := range leaves {
			if i == k {
				toks = append(toks, pre)
			}
			toks = append(toks, l)
			if i < 3 {
				toks = append(toks, []string{o1, o2, o3}[i])
			}
		}
	} else {
		e := op3tree(shape, o1, o2, o3)
		if v > 0 {
			var nodes []*ex
			exNodes(e, &nodes)
			nodes[(v-1)/2].pre = []string{"-", "not"}[(v-1)%2]
		}
		toks = exToks(e, true)
	}
	return gcase{src: layout(toks, layOne, nil, nil), eval: 1, class: "op3"}
}
