package c08

import (
	"strings"

	"verif/harness/core"
)

// String literals: every sequence of <= N pieces in the four literal styles.
var strPieces = []string{
	"a", " ", "Z9", `"`, `'`, `\`, `\\`, `\n`, `\t`, `\"`, `\'`,
	"\n", "{{", "}}", "{{1+2}}", "{{a}}", "\u00e9", "\u65e5\u672c", `\u00e9`, `\x41`, "\xff",
	"#", "/*", "*/", "{", "}", "$", "\t", "\r", "\x00", `\x00`, "\u2028", "`", "%",
}

var strStyles = [][2]string{{`"`, `"`}, {`'`, `'`}, {`r"`, `"`}, {`r'`, `'`}}

var strCtx = []string{
	"%s",
	"a := %s",
	"if p {\n    a := %s\n}",
	"ll := [%s, 1]",
	"mm := {%s : 1, \"k\" : %s}",
	"f(%s, 2)",
	"%s + \"z\"",
	"for i in l {\n    if p {\n        log(%s)\n    }\n}",
	"try {\n    x()\n} except %s {\n    k := 1\n}",
	"import %s as mod",
	"ll := [\n    1, 2, 3, 4,\n    %s\n]",
	"return %s",
	"func (u=%s) {\n}",
	"sink s4\n    kindmatch [%s]\n{\n    log(%s)\n}",
}

// strContent decodes content number t (all sequences by length, then
// lexicographically).
func strContent(t int) (string, int) {
	n := 0
	cnt := 1
	for t >= cnt {
		t -= cnt
		cnt *= len(strPieces)
		n++
	}
	parts := make([]string, n)
	for k := n - 1; k >= 0; k-- {
		parts[k] = strPieces[t%len(strPieces)]
		t /= len(strPieces)
	}
	return strings.Join(parts, ""), n
}

func strTotal(maxPieces int) int {
	tot, cnt := 0, 1
	for n := 0; n <= maxPieces; n++ {
		tot += cnt
		cnt *= len(strPieces)
	}
	return tot
}

func strLit(content string, style int) string {
	return strStyles[style][0] + content + strStyles[style][1]
}

func strEvalMode(content string) int {
	if strings.Count(content, "{") <= 2 {
		return 2
	}
	return 0
}

func strCount(c *core.Ctx) int { return strTotal(c.Pick(3, 4)) * len(strStyles) }

func strGen(c *core.Ctx, idx int) gcase {
	style := idx % len(strStyles)
	t := idx / len(strStyles)
	content, n := strContent(t)
	ctx := strCtx[t%len(strCtx)]
	g := gcase{src: strings.ReplaceAll(ctx, "%s", strLit(content, style)), class: "str"}
	g.eval = strEvalMode(content)
	if n >= 4 && t%4 != 0 {
		g.eval = 0
	}
	return g
}

// every context for the short contents
func strCtxCount(c *core.Ctx) int { return strTotal(2) * len(strStyles) * len(strCtx) }

func strCtxGen(c *core.Ctx, idx int) gcase {
	ctx := strCtx[idx%len(strCtx)]
	t := idx / len(strCtx)
	style := t % len(strStyles)
	content, _ := strContent(t / len(strStyles))
	return gcase{src: strings.ReplaceAll(ctx, "%s", strLit(content, style)), class: "str-ctx", eval: strEvalMode(content)}
}
