package c08

import (
	"strings"

	"verif/harness/core"
)

// Programs are generated as token lists and rendered by layout() so that the
// same program can be written in several source layouts and comments can be
// placed at any token position. Special tokens:
//
//	;      statement separator (rendered as ';' or a newline)
//	{ }    block braces (newline after / before in the multi-line layouts)
//	@{ @}  map literal braces
//
// everything else is source text of one token (string literals may contain
// spaces and newlines).

const (
	layOne   = iota // one line, ';' between statements
	layMulti        // one statement per line, 4-space indentation
	layUgly         // random spaces / tabs / blank lines / newlines after operators
	layTight        // no whitespace where the lexer does not need it
	layOpNL         // one line, but a newline after every operator, comma and opening bracket
	nLayouts
)

type cmt struct {
	text string
	glue bool // no blanks around the comment
}

var breakAfter = map[string]bool{"(": true, "[": true, ",": true, "@{": true, ":": true, "=": true, "not": true}

func init() {
	for _, o := range infixOps {
		breakAfter[o] = true
	}
}

var sinkAttrTok = map[string]bool{"kindmatch": true, "scopematch": true, "statematch": true, "priority": true, "suppresses": true}

func isWordChar(c byte) bool {
	return c == '_' || c == '"' || c == '\'' || c == '.' || c >= 0x80 ||
		(c >= '0' && c <= '9') || (c >= 'a' && c <= 'z') || (c >= 'A' && c <= 'Z')
}

func needSpace(prev, cur string) bool {
	if prev == "" || cur == "" {
		return false
	}
	a, b := prev[len(prev)-1], cur[0]
	if isWordChar(a) && isWordChar(b) {
		return true
	}
	if strings.IndexByte("><!=/:", a) >= 0 && strings.IndexByte("=/*", b) >= 0 {
		return true
	}
	return false
}

func layout(toks []string, mode int, r *core.Rand, ins map[int]cmt) string {
	var b strings.Builder
	depth := 0
	prev := ""
	boundary := false
	ind := func() string {
		if mode == layUgly && r != nil {
			switch r.Intn(4) {
			case 0:
				return strings.Repeat("\t", depth)
			case 1:
				return strings.Repeat(" ", r.Intn(9))
			case 2:
				return ""
			}
		}
		return strings.Repeat("    ", depth)
	}
	nl := func() string {
		if mode == layUgly && r != nil {
			switch r.Intn(6) {
			case 0:
				return "\n\n" + ind()
			case 1:
				return "\n\n\n" + ind()
			case 2:
				return " \n" + ind()
			case 3:
				return "\r\n" + ind()
			}
		}
		return "\n" + ind()
	}
	for i := 0; i <= len(toks); i++ {
		if cm, ok := ins[i]; ok {
			if !cm.glue && b.Len() > 0 {
				b.WriteString(" ")
			}
			b.WriteString(cm.text)
			if !cm.glue && !strings.HasSuffix(cm.text, "\n") {
				b.WriteString(" ")
			}
		}
		if i == len(toks) {
			break
		}
		t := toks[i]
		if t == ";" {
			boundary = true
			continue
		}
		if t == "}" && depth > 0 {
			depth--
		}
		text := t
		if t == "@{" {
			text = "{"
		} else if t == "@}" {
			text = "}"
		}
		sep := ""
		switch {
		case prev == "":
		case boundary && t != "}":
			switch mode {
			case layOne, layOpNL:
				sep = "; "
			case layTight:
				sep = ";"
			case layMulti:
				sep = "\n" + ind()
			default:
				if r != nil && r.Chance(1, 5) {
					sep = " ;" + nl()
				} else {
					sep = nl()
				}
			}
		case prev == "{" || t == "}":
			switch mode {
			case layOne, layOpNL:
				sep = " "
			case layTight:
				sep = ""
			case layMulti:
				sep = "\n" + ind()
			default:
				if r != nil && r.Chance(1, 4) {
					sep = " "
				} else {
					sep = nl()
				}
			}
		default:
			switch mode {
			case layOne:
				sep = " "
			case layMulti:
				sep = " "
				if sinkAttrTok[t] {
					sep = "\n" + ind() + "    "
				}
			case layTight:
				if needSpace(prev, text) {
					sep = " "
				}
			case layOpNL:
				if breakAfter[prev] {
					sep = "\n  "
				} else {
					sep = " "
				}
			default:
				sep = " "
				if r != nil {
					switch {
					case breakAfter[prev] && r.Chance(1, 4):
						sep = nl()
					case r.Chance(1, 6):
						sep = "  "
					case r.Chance(1, 8):
						sep = "\t"
					case r.Chance(1, 8) && !needSpace(prev, text):
						sep = ""
					}
				}
			}
		}
		boundary = false
		b.WriteString(sep)
		b.WriteString(text)
		if t == "{" {
			depth++
		}
		prev = t
	}
	if mode == layMulti || (mode == layUgly && r != nil && r.Bool()) {
		b.WriteString("\n") // files end with a newline
	}
	return b.String()
}

// fields splits a template into tokens; $0..$9 are replaced by the given
// literal tokens (which may contain blanks) and a placeholder whose
// replacement is a token list is spliced in.
func fields(tmpl string, subst ...interface{}) []string {
	var res []string
	for _, f := range strings.Fields(tmpl) {
		if len(f) == 2 && f[0] == '$' && f[1] >= '0' && f[1] <= '9' && int(f[1]-'0') < len(subst) {
			switch v := subst[f[1]-'0'].(type) {
			case string:
				res = append(res, v)
			case []string:
				res = append(res, v...)
			}
			continue
		}
		res = append(res, f)
	}
	return res
}

func cat(parts ...interface{}) []string {
	var res []string
	for _, p := range parts {
		switch v := p.(type) {
		case string:
			res = append(res, v)
		case []string:
			res = append(res, v...)
		}
	}
	return res
}
