package c08

import (
	"fmt"
	"regexp"
	"strings"

	"github.com/krotik/ecal/parser"

	"verif/harness/core"
)

// failure describes how the round trip of one tree failed.
type failure struct {
	cat      string // pp-panic | pp-error | unparseable | structure | nonidempotent
	p1, p2   string
	msg      string
	panicKey string
	t2       *parser.ASTNode
}

// roundTrip is the deciding observation: the real PrettyPrint and the real
// Parse are run on t1; the result is judged by the harness' own walk.
func roundTrip(t1 *parser.ASTNode) (p1 string, t2 *parser.ASTNode, f *failure) {
	var err error
	key, msg, pan := core.Guard(func() { p1, err = parser.PrettyPrint(t1) })
	if pan {
		return "", nil, &failure{cat: "pp-panic", msg: firstLine(msg), panicKey: key}
	}
	if err != nil {
		return "", nil, &failure{cat: "pp-error", msg: err.Error()}
	}
	key, msg, pan = core.Guard(func() { t2, err = parser.Parse("c08pp", p1) })
	if pan {
		return p1, nil, &failure{cat: "unparseable", p1: p1, msg: "panic in Parse: " + firstLine(msg), panicKey: key}
	}
	if err != nil {
		return p1, nil, &failure{cat: "unparseable", p1: p1, msg: err.Error()}
	}
	if hasNil(t2) {
		return p1, nil, &failure{cat: "unparseable", p1: p1, msg: "Parse returned a tree with a nil node and no error"}
	}
	if d := diffTrees(t1, t2, t1.Name); d != nil {
		return p1, t2, &failure{cat: "structure", p1: p1, msg: d.path + ": " + d.why, t2: t2}
	}
	var p2 string
	key, msg, pan = core.Guard(func() { p2, err = parser.PrettyPrint(t2) })
	if pan || err != nil {
		return p1, t2, &failure{cat: "nonidempotent", p1: p1, msg: "second PrettyPrint failed: " + firstLine(msg) + fmt.Sprint(err), t2: t2}
	}
	if p2 != p1 {
		return p1, t2, &failure{cat: "nonidempotent", p1: p1, p2: p2, msg: "PrettyPrint(Parse(p1)) != p1", t2: t2}
	}
	return p1, t2, nil
}

func firstLine(s string) string {
	if i := strings.Index(s, "\n"); i >= 0 {
		return s[:i]
	}
	return s
}

// ---------------------------------------------------------------------------
// Shrinking along the structure of the tree. Every step produces a tree the
// parser could have produced (a sub-tree that is a program of its own, an
// expression replaced by the identifier z, a comment / statement / element
// removed, a shorter string value); the predicate is always the real round
// trip failing in the same category. The result is only used to derive the
// finding key and a small witness - the verdict comes from the original case.

var notStandalone = map[string]bool{
	parser.NodeKVP: true, parser.NodePRESET: true, parser.NodePARAMS: true, parser.NodeGUARD: true,
	parser.NodeEXCEPT: true, parser.NodeOTHERWISE: true, parser.NodeFINALLY: true, parser.NodeAS: true,
	parser.NodeFUNCCALL: true, parser.NodeCOMPACCESS: true, parser.NodeKINDMATCH: true,
	parser.NodeSCOPEMATCH: true, parser.NodeSTATEMATCH: true, parser.NodePRIORITY: true,
	parser.NodeSUPPRESSES: true, parser.NodeEOF: true,
}

var exprParent = map[string]int{} // parent kind -> first child index that is an expression position (-1: all)

func init() {
	for n := range opBinding {
		exprParent[n] = -1
	}
	for _, n := range []string{parser.NodeLIST, parser.NodeFUNCCALL, parser.NodeCOMPACCESS, parser.NodeGUARD,
		parser.NodeRETURN, parser.NodeSTATEMENTS, parser.NodeKINDMATCH, parser.NodeSCOPEMATCH,
		parser.NodeSTATEMATCH, parser.NodePRIORITY, parser.NodeSUPPRESSES} {
		exprParent[n] = -1
	}
	exprParent[parser.NodePRESET] = 1
}

var exprKinds = map[string]bool{
	parser.NodeSTRING: true, parser.NodeNUMBER: true, parser.NodeIDENTIFIER: true, parser.NodeLIST: true,
	parser.NodeMAP: true, parser.NodeTRUE: true, parser.NodeFALSE: true, parser.NodeNULL: true, parser.NodeFUNC: true,
}

func init() {
	for n := range opBinding {
		if n != parser.NodeKVP && n != parser.NodePRESET {
			exprKinds[n] = true
		}
	}
}

var zLeaf *parser.ASTNode

func leafFor(old *parser.ASTNode) *parser.ASTNode {
	if zLeaf == nil {
		zLeaf, _ = parser.Parse("z", "z")
	}
	l := copyTree(zLeaf)
	if old.Token != nil {
		l.Token.Lline, l.Token.Lpos, l.Token.Pos, l.Token.PrefixNewlines = old.Token.Lline, old.Token.Lpos, old.Token.Pos, old.Token.PrefixNewlines
	}
	return l
}

func isZ(n *parser.ASTNode) bool {
	return n.Name == parser.NodeIDENTIFIER && len(n.Children) == 0 && len(n.Meta) == 0 && n.Token != nil && n.Token.Val == "z"
}

// subCats refines the failure category so that shrinking does not wander
// from one root cause to another: the parser's error kind for unparseable
// output; for non-idempotent output whether lines of the first print are
// joined by the second ("join"), blank lines are added ("grow") or lines are
// split ("split"). A case may show several; shrinking follows the first.
func subCats(f *failure) []string {
	switch f.cat {
	case "unparseable":
		ec := errClass(f.msg)
		if strings.Contains(ec, "string") {
			ec = "string-lexing"
		}
		return []string{ec}
	case "nonidempotent":
		b1, n1 := lineCounts(f.p1)
		b2, n2 := lineCounts(f.p2)
		var res []string
		if n2 < n1 {
			res = append(res, "join")
		}
		if b2 > b1 {
			res = append(res, "grow")
		}
		if n2 > n1 {
			res = append(res, "split")
		}
		if len(res) == 0 {
			res = append(res, "other")
		}
		return res
	case "pp-panic":
		return []string{f.panicKey}
	}
	return []string{""}
}

func subCat(f *failure) string { return subCats(f)[0] }

func hasSubCat(f *failure, sc string) bool {
	for _, s := range subCats(f) {
		if s == sc {
			return true
		}
	}
	return false
}

func lineCounts(s string) (blank, nonblank int) {
	for _, l := range strings.Split(s, "\n") {
		if strings.TrimSpace(l) == "" {
			blank++
		} else {
			nonblank++
		}
	}
	return
}

// shrink returns a minimal tree that still fails like orig.
func shrink(t *parser.ASTNode, orig *failure) *parser.ASTNode {
	budget := 1500
	cat := orig.cat
	sub := subCat(orig)
	fails := func(x *parser.ASTNode) bool {
		if budget <= 0 {
			return false
		}
		budget--
		_, _, f := roundTrip(x)
		return f != nil && f.cat == cat && hasSubCat(f, sub)
	}
	cur := copyTree(t)
	// shortcut: the node at the first difference, if it is a program of its own
	if orig.cat == "structure" && orig.t2 != nil {
		if d := diffTrees(cur, orig.t2, ""); d != nil && d.a != nil && !notStandalone[d.a.Name] &&
			d.a.Name != parser.NodeSTATEMENTS && d.a != cur && fails(d.a) {
			cur = d.a
		}
	}
	for changed := true; changed && budget > 0; {
		changed = false
		// (1) descend into a sub-tree that is a program of its own and fails alike
		for budget > 0 {
			var cands []*parser.ASTNode
			var collect func(n *parser.ASTNode)
			collect = func(n *parser.ASTNode) {
				for _, ch := range n.Children {
					ok := !notStandalone[ch.Name] &&
						!(ch.Name == parser.NodeSTATEMENTS && len(ch.Children) < 2) &&
						!(n.Name == parser.NodeIDENTIFIER && ch.Name == parser.NodeIDENTIFIER)
					if ok {
						cands = append(cands, ch)
					} else {
						collect(ch)
					}
				}
			}
			collect(cur)
			found := false
			for _, cand := range cands {
				if fails(cand) {
					cur = cand
					found = true
					changed = true
					break
				}
			}
			if !found {
				break
			}
		}
		// (2) local simplifications in one pre-order sweep
		try := func(mut func(cp *parser.ASTNode, at []int) bool, at []int) bool {
			cp := copyTree(cur)
			if !mut(cp, at) {
				return false
			}
			if cp.Name == parser.NodeSTATEMENTS && len(cp.Children) == 1 {
				return false // would renumber the paths; the hoisting step handles it
			}
			if fails(cp) {
				cur = cp
				return true
			}
			return false
		}
		for i := 0; budget > 0; {
			paths := listPaths(cur)
			if i >= len(paths) {
				break
			}
			at := paths[i]
			n, p, idx := nodeAt(cur, at)
			// replace by z
			if p != nil && !isZ(n) {
				first, ok := exprParent[p.Name]
				okPos := ok && (first < 0 || idx >= first)
				if p.Name == parser.NodeASSIGN {
					okPos = true
				}
				if p.Name == parser.NodeIN && idx == 0 && len(at) >= 2 {
					if gp, _, _ := nodeAt(cur, at[:len(at)-2]); gp.Name == parser.NodeLOOP {
						okPos = false // loop variable(s)
					}
				}
				if okPos && (exprKinds[n.Name] || p.Name == parser.NodeSTATEMENTS) {
					if try(func(cp *parser.ASTNode, at []int) bool {
						n, p, idx := nodeAt(cp, at)
						p.Children[idx] = leafFor(n)
						return true
					}, at) {
						changed = true
						i++
						continue
					}
				}
			}
			// remove the blank lines before the node's token
			if n.Token != nil && n.Token.PrefixNewlines > 1 {
				if try(func(cp *parser.ASTNode, at []int) bool {
					n, _, _ := nodeAt(cp, at)
					n.Token.PrefixNewlines = 1
					return true
				}, at) {
					changed = true
					continue
				}
			}
			// remove a comment
			done := false
			for mi := range n.Meta {
				mi := mi
				if try(func(cp *parser.ASTNode, at []int) bool {
					n, _, _ := nodeAt(cp, at)
					n.Meta = append(append([]parser.MetaData(nil), n.Meta[:mi]...), n.Meta[mi+1:]...)
					return true
				}, at) {
					done = true
					break
				}
			}
			if done {
				changed = true
				continue // same node again
			}
			// remove a statement / element / argument
			if n.Name == parser.NodeSTATEMENTS || n.Name == parser.NodeLIST || n.Name == parser.NodeMAP || n.Name == parser.NodeFUNCCALL {
				for ci := range n.Children {
					ci := ci
					if try(func(cp *parser.ASTNode, at []int) bool {
						n, _, _ := nodeAt(cp, at)
						n.Children = append(append([]*parser.ASTNode(nil), n.Children[:ci]...), n.Children[ci+1:]...)
						return true
					}, at) {
						done = true
						break
					}
				}
				if done {
					changed = true
					continue
				}
			}
			// shorten a string value
			if n.Name == parser.NodeSTRING && n.Token != nil && len(n.Token.Val) > 0 {
				rs := []rune(n.Token.Val)
				for ri := range rs {
					ri := ri
					if try(func(cp *parser.ASTNode, at []int) bool {
						n, _, _ := nodeAt(cp, at)
						n.Token.Val = string(rs[:ri]) + string(rs[ri+1:])
						return true
					}, at) {
						done = true
						break
					}
				}
				if done {
					changed = true
					continue
				}
			}
			i++
		}
		// a root statement list that shrank to one statement is that statement
		if cur.Name == parser.NodeSTATEMENTS && len(cur.Children) == 1 && fails(cur.Children[0]) {
			cur = cur.Children[0]
			changed = true
		}
	}
	return cur
}

func listPaths(root *parser.ASTNode) [][]int {
	var res [][]int
	var rec func(n *parser.ASTNode, at []int)
	rec = func(n *parser.ASTNode, at []int) {
		res = append(res, append([]int(nil), at...))
		for i, c := range n.Children {
			rec(c, append(at, i))
		}
	}
	rec(root, nil)
	return res
}

func nodeAt(root *parser.ASTNode, at []int) (n, parent *parser.ASTNode, idx int) {
	n = root
	for _, i := range at {
		parent, idx = n, i
		n = n.Children[i]
	}
	return
}

// ---------------------------------------------------------------------------
// Classification of a minimal failing tree into a finding key.

// opBinding is the harness' own transcription of the language's binding
// powers (used for naming the violated parenthesisation rule only, never for
// the verdict).
var opBinding = map[string]int{
	parser.NodeASSIGN: 10, parser.NodeNOT: 20, parser.NodeOR: 30, parser.NodeAND: 40,
	parser.NodeGEQ: 60, parser.NodeLEQ: 60, parser.NodeNEQ: 60, parser.NodeEQ: 60, parser.NodeGT: 60, parser.NodeLT: 60,
	parser.NodeLIKE: 60, parser.NodeIN: 60, parser.NodeHASPREFIX: 60, parser.NodeHASSUFFIX: 60, parser.NodeNOTIN: 60,
	parser.NodeKVP: 60, parser.NodePRESET: 60,
	parser.NodePLUS: 110, parser.NodeMINUS: 110,
	parser.NodeTIMES: 120, parser.NodeDIV: 120, parser.NodeDIVINT: 120, parser.NodeMODINT: 120,
}

func opClass(n *parser.ASTNode) string {
	switch opBinding[n.Name] {
	case 10:
		return "assign"
	case 20:
		return "not"
	case 30:
		return "or"
	case 40:
		return "and"
	case 60:
		return "comparison"
	case 110:
		if len(n.Children) == 1 {
			return "sign"
		}
		return "additive"
	case 120:
		return "multiplicative"
	}
	return n.Name
}

func isOp(n *parser.ASTNode) bool {
	_, ok := opBinding[n.Name]
	return ok && (len(n.Children) == 1 || len(n.Children) == 2)
}

// operand binding of a prefix operator (what it takes as operand)
func prefixOperand(n *parser.ASTNode) int {
	if n.Name == parser.NodeNOT {
		return 40
	}
	return 130
}

// parenRule names the rule that requires parentheses around child c at
// index i of operator p ("" if none does).
func parenRule(p *parser.ASTNode, i int, c *parser.ASTNode) string {
	pb, cb := opBinding[p.Name], opBinding[c.Name]
	if c.Name == parser.NodeNOT && pb > cb && p.Name != parser.NodeNOT {
		// `not` takes everything down to `and`: under any tighter operator it
		// swallows what follows unless it is parenthesised
		return "weaker-child:not"
	}
	if len(p.Children) == 1 { // prefix parent
		if len(c.Children) == 2 && cb <= prefixOperand(p) {
			return "prefix-over-weaker"
		}
		return ""
	}
	if len(c.Children) == 2 {
		if cb < pb {
			return "weaker-child:" + opClass(c)
		}
		if cb == pb && i == 1 {
			return "right-child-same-precedence"
		}
		return ""
	}
	// prefix child of an infix parent: `not` takes everything down to `and`
	if prefixOperand(c) < pb {
		return "weaker-child:" + opClass(c)
	}
	return ""
}

var posRe = regexp.MustCompile(`\(Line:\d+ Pos:\d+\)`)
var quotedRe = regexp.MustCompile(`\([^()]*\)`)

func errClass(msg string) string {
	msg = posRe.ReplaceAllString(msg, "")
	msg = strings.TrimPrefix(msg, "Parse error in c08pp: ")
	// keep the error kind, drop the token text in the first parenthesis
	if i := strings.Index(msg, "("); i > 0 {
		rest := msg[i:]
		msg = strings.TrimSpace(msg[:i])
		if strings.HasPrefix(msg, "Lexical error") {
			inner := strings.Trim(rest, "() ")
			if j := strings.Index(inner, "'"); j > 0 {
				inner = inner[:j]
			}
			if len(inner) > 50 {
				inner = inner[:50]
			}
			msg += ":" + strings.TrimSpace(inner)
		}
	}
	return strings.ReplaceAll(strings.ToLower(strings.TrimSpace(msg)), " ", "-")
}

func opSkeleton(n *parser.ASTNode) string {
	if !isOp(n) {
		return "_"
	}
	var parts []string
	for _, c := range n.Children {
		parts = append(parts, opSkeleton(c))
	}
	return n.Name + "(" + strings.Join(parts, ",") + ")"
}

// classify derives the finding key from the minimal failing tree m and its
// failure f.
func classify(m *parser.ASTNode, f *failure) string {
	mc := countMeta(m)
	large := countNodes(m) > 40 // shrinking did not get near a minimal case
	if f.cat == "pp-panic" {
		return "pp-" + f.panicKey
	}
	if f.cat == "pp-error" {
		return "pp-error:" + m.Name
	}
	if mc.pre+mc.post > 0 {
		// the comments are necessary for the failure (shrinking removes every
		// comment the failure does not depend on)
		if f.cat == "nonidempotent" {
			if large {
				return "unclassified:nonidempotent"
			}
			return fmt.Sprintf("comments-not-idempotent:%spre+%spost", fewOrMany(mc.pre), fewOrMany(mc.post))
		}
		kind, _ := firstComment(m)
		if kind == "post" {
			return "postcomment-inline-breaks-code"
		}
		if large {
			return "unclassified:" + f.cat
		}
		return "precomment-newline-breaks:" + rootCtx(m)
	}
	if large {
		// no feature of the tree can be blamed
		return "unclassified:" + f.cat
	}
	// raw string printed as interpolating string
	if f.cat == "structure" && f.t2 != nil {
		if d := diffTrees(m, f.t2, m.Name); d != nil && d.a != nil && d.b != nil &&
			d.a.Name == parser.NodeSTRING && d.b.Name == parser.NodeSTRING && d.a.Token != nil && d.b.Token != nil &&
			d.a.Token.Val == d.b.Token.Val && d.a.Token.AllowEscapes != d.b.Token.AllowEscapes {
			if !d.a.Token.AllowEscapes {
				return "rawstring-printed-quoted"
			}
			return "quotedstring-printed-raw"
		}
	}
	if f.cat == "unparseable" && countNodes(m) == 1 && m.Name == parser.NodeSTRING && m.Token != nil && strings.HasSuffix(m.Token.Val, `\`) {
		return "string-trailing-backslash-unparseable"
	}
	if f.cat == "unparseable" && m.Name == parser.NodeRETURN && len(m.Children) == 0 {
		return "trailing-bare-return-unparseable"
	}
	// a statement (keyword or block) used as operand of an infix operator: the
	// parser continues a statement when the next line starts with an infix operator
	{
		var key string
		walk(m, func(n, p *parser.ASTNode, i int) {
			if key == "" && p != nil && isOp(p) && statementKinds[n.Name] {
				key = "statement-as-operand"
			}
		})
		if key != "" {
			return key
		}
	}
	// blank lines before a token inside a statement
	if bl := firstBlankLineCtx(m); bl != "" && (f.cat == "structure" || f.cat == "unparseable") {
		return "blankline-newline-breaks:" + rootCtx(m)
	}
	// a statement that is glued to the previous line by the parser
	if f.cat == "structure" && m.Name == parser.NodeSTATEMENTS && f.t2 != nil &&
		(f.t2.Name != parser.NodeSTATEMENTS || len(f.t2.Children) < len(m.Children)) {
		for i := 1; i < len(m.Children); i++ {
			var txt string
			core.Guard(func() { txt, _ = parser.PrettyPrint(m.Children[i]) })
			if txt == "" {
				continue
			}
			switch txt[0] {
			case '-', '+':
				return "stmt-joins-previous-line:leading-sign"
			case '(':
				return "stmt-joins-previous-line:leading-paren"
			case '[':
				return "stmt-joins-previous-line:leading-bracket"
			}
		}
	}
	if f.cat == "structure" || f.cat == "unparseable" {
		// operator nesting: name the violated parenthesisation rule
		var rule string
		walk(m, func(n, p *parser.ASTNode, i int) {
			if rule == "" && p != nil && isOp(p) && isOp(n) {
				rule = parenRule(p, i, n)
			}
		})
		if rule != "" {
			return "paren:" + rule
		}
		var sk string
		walk(m, func(n, _ *parser.ASTNode, _ int) {
			if sk == "" && isOp(n) {
				for _, c := range n.Children {
					if isOp(c) {
						sk = opSkeleton(n)
					}
				}
			}
		})
		if sk != "" && onlyOperatorsAndLeaves(m) {
			return "paren:other:" + sk
		}
	}
	if f.cat == "nonidempotent" {
		if subCat(f) == "grow" {
			var key string
			walk(m, func(n, p *parser.ASTNode, i int) {
				if key == "" && p != nil && p.Name == parser.NodeSTATEMENTS && i < len(p.Children)-1 &&
					(n.Name == parser.NodeMUTEX || n.Name == parser.NodeSINK) {
					key = "nonidempotent:blank-lines-grow-after:" + n.Name
				}
			})
			if key != "" {
				return key
			}
		}
		if firstBlankLineCtx(m) != "" {
			return "nonidempotent:blank-line-before-non-statement-token"
		}
	}
	if f.cat == "unparseable" {
		return "unparseable:" + skeleton(m, 1) + ":" + errClass(f.msg)
	}
	return f.cat + ":" + skeleton(m, 2)
}

var statementKinds = map[string]bool{
	parser.NodeRETURN: true, parser.NodeBREAK: true, parser.NodeCONTINUE: true, parser.NodeSINK: true,
	parser.NodeLOOP: true, parser.NodeIF: true, parser.NodeTRY: true, parser.NodeMUTEX: true,
	parser.NodeIMPORT: true,
}

// rootCtx names the construct that is broken: the root of the minimal tree
// (operators by arity).
func rootCtx(m *parser.ASTNode) string {
	if isOp(m) {
		if len(m.Children) == 2 {
			return "infix"
		}
		return "prefix"
	}
	return m.Name
}

// firstBlankLineCtx returns the kind of the parent of the first node whose
// token is preceded by a blank line and which does not start a statement
// ("" if there is none). After shrinking such a node is necessary for the
// failure.
func firstBlankLineCtx(m *parser.ASTNode) string {
	var res string
	walk(m, func(n, p *parser.ASTNode, i int) {
		if res != "" || n.Token == nil || n.Token.PrefixNewlines <= 1 {
			return
		}
		if p == nil {
			res = "root"
			return
		}
		if p.Name == parser.NodeSTATEMENTS && !isOp(n) {
			return // a statement after a blank line is the intended use
		}
		res = p.Name
		if isOp(p) {
			res = "infix"
			if len(p.Children) == 1 {
				res = "prefix"
			}
		}
		if p.Name == parser.NodeSTATEMENTS {
			res = "operator-token"
		}
	})
	return res
}

// onlyOperatorsAndLeaves tells whether a (shrunk) tree is a pure operator
// nesting over leaves.
func onlyOperatorsAndLeaves(m *parser.ASTNode) bool {
	ok := true
	walk(m, func(n, _ *parser.ASTNode, _ int) {
		if !isOp(n) && len(n.Children) > 0 {
			ok = false
		}
	})
	return ok
}

func fewOrMany(n int) string {
	if n > 2 {
		return "many"
	}
	return fmt.Sprint(n)
}

// firstComment returns the kind of the first comment in the tree and the
// kind of the parent of the commented node.
func firstComment(m *parser.ASTNode) (kind, ctx string) {
	walk(m, func(n, p *parser.ASTNode, i int) {
		if kind != "" || len(n.Meta) == 0 {
			return
		}
		kind = "pre"
		if n.Meta[0].Type() == parser.MetaDataPostComment {
			kind = "post"
		}
		ctx = "root"
		if p != nil {
			ctx = p.Name
			if isOp(p) {
				if len(p.Children) == 2 {
					ctx = "infix"
				} else {
					ctx = "prefix"
				}
			}
		}
	})
	return
}

func posName(i, n int) string {
	if i == n-1 && i > 0 {
		return "last"
	}
	if i == 0 {
		return "first"
	}
	return "mid"
}

func skeleton(n *parser.ASTNode, depth int) string {
	if depth == 0 || len(n.Children) == 0 {
		return n.Name
	}
	var parts []string
	for _, c := range n.Children {
		parts = append(parts, skeleton(c, depth-1))
	}
	return n.Name + "(" + strings.Join(parts, ",") + ")"
}
