package c08

import (
	"fmt"

	"verif/harness/core"
)

// Lists with 0..6 and maps with 0..4 entries (the printer switches to the
// multi-line form above 4 resp. 2), one element of a special kind (nested
// container of every size, function literal, operator, call ...), in every
// context.

var contCtx = []string{
	`$0`,
	`r := $0`,
	`f ( $0 , 1 )`,
	`return $0`,
	`if p { r := $0 }`,
	`for u in $0 { log ( u ) }`,
	`r := @{ "k" : $0 @}`,
	`r := [ $0 , 2 ]`,
	`r := $0 ; k := 1`,
	`func ( u = $0 ) { }`,
	`if p { if p { f ( $0 ) } }`,
	`len ( $0 ) + 1`,
	`sink s5 kindmatch $0 { }`,
}

const nElemKinds = 9

func simpleElems(n int, isMap bool, trailing bool) []string {
	var t []string
	for i := 0; i < n; i++ {
		if i > 0 {
			t = append(t, ",")
		}
		if isMap {
			t = append(t, fmt.Sprintf(`"k%d"`, i), ":")
		}
		t = append(t, fmt.Sprint(i+1))
	}
	if trailing && n > 0 {
		t = append(t, ",")
	}
	return t
}

func elemToks(kind, m int) []string {
	switch kind {
	case 0:
		return []string{"42"}
	case 1:
		return []string{`"s t"`}
	case 2:
		return []string{"a"}
	case 3:
		return []string{"a", "+", "b"}
	case 4:
		return cat("[", simpleElems(m, false, false), "]")
	case 5:
		return cat("@{", simpleElems(m, true, false), "@}")
	case 6:
		return fields(`func ( ) { return 1 }`)
	case 7:
		return fields(`f ( 1 , 2 )`)
	default:
		return []string{"r\"raw\nline\""}
	}
}

type contDesc struct {
	isMap         bool
	n, ek, pos, m int
	ctx, mode     int
	trailing      bool
}

var contModes = []int{layOne, layMulti, layOpNL}
var contList []contDesc

func contBuild() []contDesc {
	if contList != nil {
		return contList
	}
	for outer := 0; outer < 2; outer++ {
		maxN := 6
		if outer == 1 {
			maxN = 4
		}
		for n := 0; n <= maxN; n++ {
			np := n
			if np == 0 {
				np = 1
			}
			for pos := 0; pos < np; pos++ {
				for ek := 0; ek < nElemKinds; ek++ {
					ms := 1
					if ek == 4 {
						ms = 7
					} else if ek == 5 {
						ms = 5
					}
					if n == 0 && ek > 0 {
						continue
					}
					for m := 0; m < ms; m++ {
						for ctx := range contCtx {
							for _, mode := range contModes {
								for tr := 0; tr < 2; tr++ {
									contList = append(contList, contDesc{outer == 1, n, ek, pos, m, ctx, mode, tr == 1})
								}
							}
						}
					}
				}
			}
		}
	}
	return contList
}

func contGen(c *core.Ctx, idx int) gcase {
	d := contBuild()[idx]
	var t []string
	if d.isMap {
		t = append(t, "@{")
	} else {
		t = append(t, "[")
	}
	for i := 0; i < d.n; i++ {
		if i > 0 {
			t = append(t, ",")
		}
		if d.isMap {
			t = append(t, fmt.Sprintf(`"k%d"`, i), ":")
		}
		if i == d.pos {
			t = append(t, elemToks(d.ek, d.m)...)
		} else {
			t = append(t, fmt.Sprint(i+1))
		}
	}
	if d.trailing && d.n > 0 {
		t = append(t, ",")
	}
	if d.isMap {
		t = append(t, "@}")
	} else {
		t = append(t, "]")
	}
	toks := fields(contCtx[d.ctx], t)
	return gcase{src: layout(toks, d.mode, nil, nil), class: "cont", eval: 2}
}

// ---------------------------------------------------------------------------
// Sinks with every subset of attributes.

var sinkAttrs = [][]string{
	fields(`kindmatch [ "a.b" , "c.*" ]`),
	fields(`scopematch [ "data.read" , "data.write" ]`),
	fields(`statematch @{ "k" : 1 , "l" : null , "m" : "x" @}`),
	fields(`priority 5`),
	fields(`suppresses [ "s7" , "s8" , "s9" , "s10" , "s11" ]`),
}

var sinkBodies = []string{``, `log ( event )`, `k := 1 ; if p { raise ( "E" ) } ; return true`}

var sinkCtx = []string{
	`$0`,
	`$0 ; k := 1`,
	`k := 0 ; $0 ; sink s7 kindmatch [ "x" ] { }`,
	`if p { $0 }`,
}

func sinkCount(c *core.Ctx) int { return 32 * 3 * 2 * len(sinkBodies) * len(sinkCtx) * 3 }

func sinkGen(c *core.Ctx, idx int) gcase {
	t := idx
	mode := []int{layOne, layMulti, layUgly}[t%3]
	t /= 3
	ctx := sinkCtx[t%len(sinkCtx)]
	t /= len(sinkCtx)
	body := sinkBodies[t%len(sinkBodies)]
	t /= len(sinkBodies)
	comma := t%2 == 1
	t /= 2
	order := t % 3
	t /= 3
	subset := t % 32
	var attrs [][]string
	for i := range sinkAttrs {
		if subset&(1<<uint(i)) != 0 {
			attrs = append(attrs, sinkAttrs[i])
		}
	}
	if order == 1 {
		for i, j := 0, len(attrs)-1; i < j; i, j = i+1, j-1 {
			attrs[i], attrs[j] = attrs[j], attrs[i]
		}
	} else if order == 2 && len(attrs) > 1 {
		attrs = append(attrs[1:], attrs[0])
	}
	toks := []string{"sink", "s6"}
	for i, a := range attrs {
		if comma && i > 0 {
			toks = append(toks, ",")
		}
		toks = append(toks, a...)
	}
	toks = cat(toks, "{", fields(body), "}")
	return gcase{src: layout(fields(ctx, toks), mode, c.Rng("sink", idx), nil), class: "sink", eval: 2}
}
