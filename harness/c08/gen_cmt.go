package c08

import (
	"verif/harness/core"
)

// Comments before / after every token position of template programs.
var cmtBases = []string{
	`a := 1 + 2 * ( b - c ) ; b := f ( a , "x" ) ; return [ a , b ]`,
	`if a == 1 and not q { b := 1 } elif c { d := 2 } else { e := 3 }`,
	`for [ u , v ] in m { if u { continue } ; log ( u , v ) } ; for a > 0 { a := a - 1 ; break }`,
	`func g1 ( u , v = 1 ) { let w := u + v ; return w } ; h := func ( ) { }`,
	`try { x ( ) } except "A" , "B" as ee { log ( ee ) } except { } otherwise { k := 1 } finally { k := 2 }`,
	`sink s1 kindmatch [ "a.b" , "c" ] , priority 2 , statematch @{ "k" : 1 @} { log ( event.state ) } ; mutex mm { s := s + 1 }`,
	`ll := [ 1 , 2 , 3 , 4 , 5 , 6 ] ; mm := @{ "a" : 1 , "b" : [ 1 , 2 ] , "c" : @{ "d" : null @} @} ; o.a.b := ll [ 0 ]`,
	`import "foo/bar.ecal" as foo ; k := foo.ff ( ) ; not p or - a < + b`,
	`a`,
	`f ( 1 )`,
}

var cmtTexts = []string{"c", "note: x := 1", "ünï ☃", "  padded  ", "has # hash", "a*b/c", "{ not code }", `"quoted"`}

const nCmtForms = 14

func cmtForm(form int, t, u string) cmt {
	switch form {
	case 0:
		return cmt{text: "/* " + t + " */"}
	case 1:
		return cmt{text: "# " + t + "\n"}
	case 2:
		return cmt{text: "/* " + t + "\n   " + u + " */"}
	case 3:
		return cmt{text: "\n/* " + t + " */\n"}
	case 4:
		return cmt{text: "/* " + t + " */ /* " + u + " */"}
	case 5:
		return cmt{text: "# " + t + "\n# " + u + "\n"}
	case 6:
		return cmt{text: "/* " + t + " */ # " + u + "\n"}
	case 7:
		return cmt{text: "# " + t + "\n/* " + u + " */"}
	case 8:
		return cmt{text: "/**/"}
	case 9:
		return cmt{text: "#\n"}
	case 10:
		return cmt{text: "/*" + t + "*/", glue: true}
	case 11:
		return cmt{text: "/* " + t + " */ /* " + u + " */ /* " + t + " */"}
	case 12:
		return cmt{text: "\n\n/* " + t + "\n * " + u + "\n */\n\n"}
	default:
		return cmt{text: "#" + t + "\n"}
	}
}

var cmtModes = []int{layMulti, layOne}

type cmt1desc struct{ base, mode, gap, form int }

var cmt1list []cmt1desc

func cmt1build() []cmt1desc {
	if cmt1list != nil {
		return cmt1list
	}
	for b := range cmtBases {
		n := len(fields(cmtBases[b]))
		for _, m := range cmtModes {
			for gap := 0; gap <= n; gap++ {
				for form := 0; form < nCmtForms; form++ {
					cmt1list = append(cmt1list, cmt1desc{b, m, gap, form})
				}
			}
		}
	}
	return cmt1list
}

func cmt1gen(c *core.Ctx, idx int) gcase {
	d := cmt1build()[idx]
	toks := fields(cmtBases[d.base])
	t := cmtTexts[(d.gap+d.form)%len(cmtTexts)]
	u := cmtTexts[(d.gap+2*d.form+3)%len(cmtTexts)]
	src := layout(toks, d.mode, nil, map[int]cmt{d.gap: cmtForm(d.form, t, u)})
	return gcase{src: src, class: "cmt1", eval: 2}
}

func cmt2count(c *core.Ctx) int { return c.Pick(10000, 400000) }

func cmt2gen(c *core.Ctx, idx int) gcase {
	r := c.Rng("cmt2", idx)
	toks := fields(cmtBases[r.Intn(len(cmtBases))])
	ins := map[int]cmt{}
	n := r.Range(2, 3)
	for i := 0; i < n; i++ {
		ins[r.Intn(len(toks)+1)] = cmtForm(r.Intn(nCmtForms), cmtTexts[r.Intn(len(cmtTexts))], cmtTexts[r.Intn(len(cmtTexts))])
	}
	mode := []int{layMulti, layOne, layUgly, layTight}[r.Intn(4)]
	return gcase{src: layout(toks, mode, r, ins), class: "cmt2", eval: 2}
}
