package c08

import (
	"verif/harness/core"
)

// Statement kinds (token templates; ';' separates statements, '{' '}' are
// block braces, '@{' '@}' map braces).
var stmtKinds = []string{
	`a := 1`,
	`let a := 1`,
	`let u := [ 1 , 2 ]`,
	`o.a.b := [ 1 , 2 ]`,
	`l[0] := l[1] + 1`,
	`[ u , v ] := [ 1 , 2 ]`,
	`f ( 1 , "x" )`,
	`log ( "m" , a )`,
	`o.a.b`,
	`g(1)[0]`,
	`x ( )`,
	`if a == 7 { b := 1 }`,
	`if a { b := 1 } elif c { d := 2 } elif e { s := 3 }`,
	`if q { b := 1 } else { e := 3 }`,
	`if q { b := 1 } elif p { d := 2 } else { e := 3 }`,
	`if p { }`,
	`if q { } else { }`,
	`if a == 1 or b == 3 and not q { log ( "t" ) }`,
	`for a > 5 { a := a - 1 }`,
	`for u in range ( 1 , 3 ) { s := s + u }`,
	`for [ u , v ] in m { log ( u , v ) }`,
	`for u in l { }`,
	`for true { break }`,
	`for u in l { continue ; log ( "never" ) }`,
	`for u in l { if u == 2 { break } ; log ( u ) }`,
	`break`,
	`continue`,
	`return`,
	`return a + 1`,
	`return [ 1 , 2 ]`,
	`return @{ "a" : 1 @}`,
	`func f1 ( ) { }`,
	`func g1 ( u , v = 1 , w = "x" ) { return u + v }`,
	`func g2 ( u ) { log ( u ) ; return u }`,
	`h := func ( u ) { return u }`,
	`h := func ( ) { }`,
	`try { b := 1 } except { d := 2 }`,
	`try { raise ( "E" , "d" , 1 ) } except "E" as ee { log ( ee.type ) }`,
	`try { x ( ) } except "A" , "B" as ee { } except "C" { log ( "c" ) } except ee { log ( "e" ) } otherwise { log ( "o" ) } finally { log ( "f" ) }`,
	`try { x ( ) } finally { log ( "f" ) }`,
	`try { raise ( "Z" ) } except "A" { log ( "a" ) } except "Z" , "Y" { log ( "zy" ) }`,
	`try { x ( ) } except { } otherwise { log ( "o" ) }`,
	// everything the clause grammar accepts: an error variable without `as`
	// after the types, types without commas, a comma before the block
	`try { x ( ) } except "A" ee { log ( ee ) }`,
	`try { x ( ) } except "A" , "B" ee { log ( ee ) } except "C" "D" as ee { log ( ee.type ) }`,
	`try { x ( ) } except "A" "B" { } except "C" , { log ( "c" ) }`,
	`mutex mm { s := s + 1 }`,
	`mutex mm { }`,
	`import "foo/bar.ecal" as foo`,
	`sink s1 kindmatch [ "a.b" ] , scopematch [ "x" ] , statematch @{ "k" : 1 @} , priority 2 , suppresses [ "t" ] { log ( event ) }`,
	`sink s2 kindmatch [ "a" ] { }`,
	`[ 1 , 2 , 3 ]`,
	`[ 1 , 2 , 3 , 4 , 5 ]`,
	`@{ "a" : 1 , "b" : 2 , "c" : 3 @}`,
	`@{ "a" : 1 @}`,
	`"string {{a}}"`,
	`r"raw {{a}}"`,
	`oo := @{ "f" : func ( self ) { return 1 } , "g" : 2 @}`,
	`oo := @{ "f" : func ( self ) { return 1 } , "g" : 2 , "h" : [ 1 , 2 , 3 , 4 , 5 ] @}`,
	`t1 := new ( T , 1 )`,
	`not p`,
	`- a`,
	`a + b * c`,
	`null`,
	`s := a > 1 and p or q`,
	`f ( func ( ) { return 1 } , [ 1 , 2 , 3 , 4 , 5 ] )`,
	`f ( @{ "a" : 1 , "b" : 2 , "c" : 3 @} , 1 )`,
}

// Block kinds; $0 is the hole for a statement list. Loops are bounded by
// construction (n starts at 0 in the evaluation prelude).
var blockKinds = []string{
	`$0`,
	`if p { $0 }`,
	`if q { k := 0 } elif p { $0 }`,
	`if q { k := 0 } else { $0 }`,
	`n := 0 ; for n < 2 { n := n + 1 ; $0 }`,
	`for i in l { $0 }`,
	`for [ i , k ] in m { $0 }`,
	`func f2 ( u ) { $0 } ; f2 ( 1 )`,
	`g3 := func ( ) { $0 } ; g3 ( )`,
	`try { $0 } except { k := 0 }`,
	`try { raise ( "E" ) } except "E" as ee { $0 }`,
	`try { k := 0 } except { } otherwise { $0 }`,
	`try { k := 0 } finally { $0 }`,
	`mutex mm { $0 }`,
	`sink s3 kindmatch [ "a" ] { $0 }`,
	`oo := @{ "m" : func ( ) { $0 } @} ; oo.m ( )`,
	`ll := [ func ( ) { $0 } , 1 ] ; ll[0] ( )`,
	`f ( func ( ) { $0 } , 1 )`,
	`oo := @{ "a" : 1 , "b" : 2 , "m" : func ( ) { $0 } @}`,
}

var holeForms = []string{
	`$0`,
	`$0 ; k := 5`,
	`k := 5 ; $0`,
	`k := 5 ; $0 ; k := 6`,
}

var stmtModes = []int{layOne, layMulti, layUgly, layTight}

func stmt2count(c *core.Ctx) int {
	return len(stmtKinds) * len(blockKinds) * len(holeForms) * len(stmtModes)
}

func stmt2gen(c *core.Ctx, idx int) gcase {
	t := idx
	mode := stmtModes[t%len(stmtModes)]
	t /= len(stmtModes)
	hole := holeForms[t%len(holeForms)]
	t /= len(holeForms)
	blk := blockKinds[t%len(blockKinds)]
	t /= len(blockKinds)
	st := stmtKinds[t%len(stmtKinds)]
	toks := fields(blk, fields(hole, fields(st)))
	g := gcase{src: layout(toks, mode, c.Rng("stmt2", idx), nil), class: "stmt2", eval: 2}
	return g
}

// stmt3: random nesting three blocks deep with 1-3 statements in the hole.
func stmt3count(c *core.Ctx) int { return c.Pick(6000, 200000) }

func stmt3gen(c *core.Ctx, idx int) gcase {
	r := c.Rng("stmt3", idx)
	var hole []string
	n := r.Range(1, 3)
	for i := 0; i < n; i++ {
		if i > 0 {
			hole = append(hole, ";")
		}
		st := fields(stmtKinds[r.Intn(len(stmtKinds))])
		if st[0] == "-" {
			st = append([]string{"s", ":="}, st...) // see rgen.exprStmt
		}
		hole = append(hole, st...)
	}
	toks := hole
	depth := r.Range(2, 3)
	for i := 0; i < depth; i++ {
		b := blockKinds[1+r.Intn(len(blockKinds)-1)]
		toks = fields(b, fields(holeForms[r.Intn(len(holeForms))], toks))
	}
	// the same loop counter must not be shared by nested loops: evaluation is
	// restricted to programs with at most one counting loop
	ev := 2
	cnt := 0
	for _, t := range toks {
		if t == "n" {
			cnt++
		}
	}
	if cnt > 4 {
		ev = 0
	}
	mode := stmtModes[r.Intn(len(stmtModes))]
	return gcase{src: layout(toks, mode, r, nil), class: "stmt3", eval: ev}
}
