package c08

import (
	"fmt"
	"strings"

	"github.com/krotik/ecal/parser"
)

// This file holds the harness' own structural walk over parser.ASTNode.
// parser.ASTNode.Equals is deliberately not used: it ignores AllowEscapes and
// compares comments. Equality here is "up to token positions, comments (Meta)
// and blank lines (PrefixNewlines)": node kind, child nesting and - for the
// value carrying kinds string / number / identifier - token id, value,
// raw-vs-interpolating flag and identifier flag. Keyword and symbol tokens
// carry the source spelling in Val (keywords are case-insensitive) which is
// not a value of the program; for those only the token id is compared, and
// only when both nodes have a token (the `true` guard of an `else` branch is
// constructed without one).

func valueKind(name string) bool {
	return name == parser.NodeSTRING || name == parser.NodeNUMBER || name == parser.NodeIDENTIFIER
}

// sameNode compares two nodes without their children.
func sameNode(a, b *parser.ASTNode) string {
	if a.Name != b.Name {
		return fmt.Sprintf("node kind %s vs %s", a.Name, b.Name)
	}
	if valueKind(a.Name) {
		if a.Token == nil || b.Token == nil {
			if (a.Token == nil) != (b.Token == nil) {
				return "token missing on one side"
			}
		} else {
			if a.Token.ID != b.Token.ID {
				return fmt.Sprintf("token id %v vs %v", a.Token.ID, b.Token.ID)
			}
			if a.Token.Val != b.Token.Val {
				return fmt.Sprintf("token value %q vs %q", a.Token.Val, b.Token.Val)
			}
			if a.Token.AllowEscapes != b.Token.AllowEscapes {
				return fmt.Sprintf("string kind (AllowEscapes) %v vs %v for value %q", a.Token.AllowEscapes, b.Token.AllowEscapes, a.Token.Val)
			}
			if a.Token.Identifier != b.Token.Identifier {
				return fmt.Sprintf("identifier flag %v vs %v", a.Token.Identifier, b.Token.Identifier)
			}
		}
	} else if a.Token != nil && b.Token != nil && a.Token.ID != b.Token.ID {
		return fmt.Sprintf("token id %v vs %v", a.Token.ID, b.Token.ID)
	}
	if len(a.Children) != len(b.Children) {
		return fmt.Sprintf("%s has %d vs %d children", a.Name, len(a.Children), len(b.Children))
	}
	return ""
}

type treeDiff struct {
	path string
	why  string
	a, b *parser.ASTNode
}

// diffTrees returns the first difference in pre-order, nil if equal.
func diffTrees(a, b *parser.ASTNode, path string) *treeDiff {
	if a == nil || b == nil {
		if a == b {
			return nil
		}
		return &treeDiff{path, "nil node on one side", a, b}
	}
	if why := sameNode(a, b); why != "" {
		return &treeDiff{path, why, a, b}
	}
	for i := range a.Children {
		ca := a.Children[i]
		name := "nil"
		if ca != nil {
			name = ca.Name
		}
		if d := diffTrees(ca, b.Children[i], fmt.Sprintf("%s > %s[%d]", path, name, i)); d != nil {
			return d
		}
	}
	return nil
}

// render is a canonical text of the compared part of a tree (used for
// hashing distinct cases and for reports).
func render(n *parser.ASTNode) string {
	var b strings.Builder
	renderTo(&b, n, false)
	return b.String()
}

// renderMeta additionally shows comment kinds per node.
func renderMeta(n *parser.ASTNode) string {
	var b strings.Builder
	renderTo(&b, n, true)
	return b.String()
}

func renderTo(b *strings.Builder, n *parser.ASTNode, meta bool) {
	if n == nil {
		b.WriteString("<nil>")
		return
	}
	b.WriteString(n.Name)
	if valueKind(n.Name) && n.Token != nil {
		if n.Name == parser.NodeSTRING {
			if n.Token.AllowEscapes {
				b.WriteString(":q")
			} else {
				b.WriteString(":r")
			}
		} else {
			b.WriteString(":")
		}
		fmt.Fprintf(b, "%q", n.Token.Val)
	}
	if meta {
		for _, m := range n.Meta {
			if m.Type() == parser.MetaDataPreComment {
				b.WriteString("/*")
			} else if m.Type() == parser.MetaDataPostComment {
				b.WriteString("#")
			} else {
				b.WriteString("?")
			}
		}
	}
	if len(n.Children) > 0 {
		b.WriteString("(")
		for i, c := range n.Children {
			if i > 0 {
				b.WriteString(",")
			}
			renderTo(b, c, meta)
		}
		b.WriteString(")")
	}
}

func hasNil(n *parser.ASTNode) bool {
	if n == nil {
		return true
	}
	for _, c := range n.Children {
		if hasNil(c) {
			return true
		}
	}
	return false
}

func countNodes(n *parser.ASTNode) int {
	k := 1
	for _, c := range n.Children {
		k += countNodes(c)
	}
	return k
}

// copyTree makes a deep copy. The struct value copy keeps the unexported
// binding power of the node, which the pretty printer consults.
func copyTree(n *parser.ASTNode) *parser.ASTNode {
	cp := *n
	if n.Token != nil {
		t := *n.Token
		cp.Token = &t
	}
	cp.Meta = append([]parser.MetaData(nil), n.Meta...)
	cp.Children = make([]*parser.ASTNode, len(n.Children))
	for i, c := range n.Children {
		cp.Children[i] = copyTree(c)
	}
	return &cp
}

func walk(n *parser.ASTNode, f func(n, parent *parser.ASTNode, idx int)) {
	var rec func(n, parent *parser.ASTNode, idx int)
	rec = func(n, parent *parser.ASTNode, idx int) {
		f(n, parent, idx)
		for i, c := range n.Children {
			rec(c, n, i)
		}
	}
	rec(n, nil, 0)
}

type metaCount struct{ pre, post int }

func countMeta(n *parser.ASTNode) metaCount {
	var mc metaCount
	walk(n, func(n, _ *parser.ASTNode, _ int) {
		for _, m := range n.Meta {
			if m.Type() == parser.MetaDataPreComment {
				mc.pre++
			} else if m.Type() == parser.MetaDataPostComment {
				mc.post++
			}
		}
	})
	return mc
}
