package c08

import (
	"errors"
	"time"

	"github.com/krotik/common/datautil"
	"github.com/krotik/ecal/engine/pool"
	"github.com/krotik/ecal/parser"
	"github.com/krotik/ecal/util"
)

// budgetDebugger bounds an evaluation logically (no wall clock): it counts the
// node visits the interpreter reports and answers every visit past the budget
// with an error, which makes the evaluation collapse. It never suspends.
type budgetDebugger struct {
	visits, budget int
}

var errBudget = errors.New("C08 visit budget exceeded")

func (d *budgetDebugger) exceeded() bool { return d.visits > d.budget }

func (d *budgetDebugger) VisitState(node *parser.ASTNode, vs parser.Scope, tid uint64) util.TraceableRuntimeError {
	d.visits++
	if d.visits > d.budget {
		return util.NewRuntimeError("c08", errBudget, "", node).(util.TraceableRuntimeError)
	}
	return nil
}

func (d *budgetDebugger) VisitStepInState(node *parser.ASTNode, vs parser.Scope, tid uint64) util.TraceableRuntimeError {
	return nil
}

func (d *budgetDebugger) VisitStepOutState(node *parser.ASTNode, vs parser.Scope, tid uint64, soErr error) util.TraceableRuntimeError {
	return nil
}

func (d *budgetDebugger) HandleInput(input string) (interface{}, error)                   { return nil, nil }
func (d *budgetDebugger) StopThreads(time.Duration) bool                                  { return false }
func (d *budgetDebugger) BreakOnStart(flag bool)                                          {}
func (d *budgetDebugger) BreakOnError(flag bool)                                          {}
func (d *budgetDebugger) SetLockingState(map[string]uint64, *datautil.RingBuffer)         {}
func (d *budgetDebugger) SetThreadPool(tp *pool.ThreadPool)                               {}
func (d *budgetDebugger) RecordThreadFinished(tid uint64)                                 {}
func (d *budgetDebugger) SetBreakPoint(source string, line int)                           {}
func (d *budgetDebugger) DisableBreakPoint(source string, line int)                       {}
func (d *budgetDebugger) RemoveBreakPoint(source string, line int)                        {}
func (d *budgetDebugger) ExtractValue(threadID uint64, varName string, dest string) error { return nil }
func (d *budgetDebugger) InjectValue(threadID uint64, varName string, expr string) error  { return nil }
func (d *budgetDebugger) Continue(threadID uint64, contType util.ContType)                {}
func (d *budgetDebugger) Status() interface{}                                             { return nil }
func (d *budgetDebugger) LockState() interface{}                                          { return nil }
func (d *budgetDebugger) Describe(threadID uint64) interface{}                            { return nil }
