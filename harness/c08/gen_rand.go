package c08

import (
	"fmt"
	"strings"

	"verif/harness/core"
)

// Seeded random programs: recursive generator over all statement and
// expression kinds with random redundant parentheses, random literal styles,
// random layout and random comments. Whatever parses is a test subject.

type rgen struct {
	r     *core.Rand
	loops int
	funcs int
	noEv  bool
}

var rIdents = []string{"a", "b", "c", "d", "e", "p", "q", "s", "l", "m", "o.a.b", "o.b", "l[0]", "m.k", "foo1", "X", "aB9"}
var rNums = []string{"0", "1", "2", "42", "3.14", "0.5", "1e+3", "100000", "007"}

func (g *rgen) strLit() string {
	r := g.r
	n := r.Intn(4)
	style := r.Intn(4)
	var b strings.Builder
	for i := 0; i < n; i++ {
		p := strPieces[r.Intn(len(strPieces))]
		// keep the literal well-formed for its style
		switch style {
		case 0:
			if p == `"` || p == `\` || p == `\'` || p == "\n" || p == "\xff" || p == "\x00" {
				p = `\"`
			}
		case 1:
			if p == `'` || p == `\` || p == `\'` || p == `\"` || p == "\n" || p == "\xff" || p == "\x00" {
				p = "q"
			}
		case 2:
			if p == `"` || p == `\"` {
				p = "'"
			}
		case 3:
			if p == `'` || p == `\'` {
				p = `"`
			}
		}
		if strings.Count(b.String()+p, "{") > 2 {
			p = "x"
		}
		b.WriteString(p)
	}
	return strLit(b.String(), style)
}

func (g *rgen) maybeParen(t []string) []string {
	if g.r.Chance(2, 5) {
		return cat("(", t, ")")
	}
	return t
}

func (g *rgen) expr(d int) []string {
	r := g.r
	if d <= 0 || r.Chance(1, 4) {
		switch r.Intn(8) {
		case 0, 1:
			return []string{rIdents[r.Intn(len(rIdents))]}
		case 2, 3:
			return []string{rNums[r.Intn(len(rNums))]}
		case 4:
			return []string{g.strLit()}
		case 5:
			return []string{[]string{"true", "false", "null"}[r.Intn(3)]}
		case 6:
			return []string{"x", "(", ")"}
		default:
			return cat("f", "(", g.expr(0), ",", g.expr(0), ")")
		}
	}
	switch r.Intn(12) {
	case 0, 1, 2, 3, 4:
		op := infixOps[1+r.Intn(len(infixOps)-1)]
		return cat(g.maybeParen(g.expr(d-1)), op, g.maybeParen(g.expr(d-1)))
	case 5, 6:
		op := prefixOps[r.Intn(len(prefixOps))]
		return cat(op, g.maybeParen(g.expr(d-1)))
	case 7:
		n := r.Intn(7)
		t := []string{"["}
		for i := 0; i < n; i++ {
			if i > 0 {
				t = append(t, ",")
			}
			t = append(t, g.expr(d-1)...)
		}
		return append(t, "]")
	case 8:
		n := r.Intn(5)
		t := []string{"@{"}
		for i := 0; i < n; i++ {
			if i > 0 {
				t = append(t, ",")
			}
			switch r.Intn(3) {
			case 0:
				t = append(t, fmt.Sprintf(`"k%d"`, i))
			case 1:
				t = append(t, fmt.Sprint(i))
			default:
				t = append(t, g.maybeParen(g.expr(0))...)
			}
			t = append(t, ":")
			t = append(t, g.maybeParen(g.expr(d-1))...)
		}
		return append(t, "@}")
	case 9:
		return cat("func", "(", g.params(), ")", "{", g.stmts(d-1, true), "}")
	case 10:
		return cat("len", "(", g.expr(d-1), ")")
	default:
		return cat("(", g.expr(d-1), ")")
	}
}

func (g *rgen) params() []string {
	r := g.r
	n := r.Intn(3)
	var t []string
	for i := 0; i < n; i++ {
		if i > 0 {
			t = append(t, ",")
		}
		t = append(t, fmt.Sprintf("u%d", i))
		if r.Chance(1, 3) {
			t = append(t, "=")
			t = append(t, g.maybeParen(g.expr(1))...)
		}
	}
	return t
}

// exprStmt is an expression used as a statement. A statement that starts
// with a sign or a parenthesis is glued to the previous line by the parser
// (a newline before an infix operator or a call parenthesis continues the
// statement); such sources are the business of stream stmt2 only.
func (g *rgen) exprStmt(d int) []string {
	t := g.expr(d)
	if t[0] == "-" || t[0] == "+" || t[0] == "(" {
		return cat("s", ":=", t)
	}
	return t
}

func (g *rgen) stmts(d int, inFunc bool) []string {
	n := g.r.Intn(4)
	var t []string
	for i := 0; i < n; i++ {
		if i > 0 {
			t = append(t, ";")
		}
		t = append(t, g.stmt(d, inFunc)...)
	}
	return t
}

func (g *rgen) stmt(d int, inFunc bool) []string {
	r := g.r
	if d <= 0 {
		switch r.Intn(6) {
		case 0, 1:
			return cat(rIdents[r.Intn(9)], ":=", g.expr(1))
		case 2:
			return cat("log", "(", g.expr(1), ")")
		case 3:
			return cat("let", fmt.Sprintf("w%d", r.Intn(3)), ":=", g.expr(1))
		case 4:
			if inFunc {
				return cat("return", g.expr(1))
			}
			return g.exprStmt(1)
		default:
			return g.exprStmt(2)
		}
	}
	switch r.Intn(14) {
	case 0, 1:
		return cat(rIdents[r.Intn(9)], ":=", g.expr(d))
	case 2:
		t := cat("if", g.expr(d-1), "{", g.stmts(d-1, inFunc), "}")
		for k := r.Intn(3); k > 0; k-- {
			t = cat(t, "elif", g.expr(d-1), "{", g.stmts(d-1, inFunc), "}")
		}
		if r.Bool() {
			t = cat(t, "else", "{", g.stmts(d-1, inFunc), "}")
		}
		return t
	case 3:
		g.loops++
		n := fmt.Sprintf("n%d", g.loops)
		body := g.stmts(d-1, inFunc)
		if r.Chance(1, 4) {
			body = cat(body, ";", []string{"break", "continue"}[r.Intn(2)])
		}
		return cat(n, ":=", "0", ";", "for", n, "<", "2", "{", n, ":=", n, "+", "1", ";", body, "}")
	case 4:
		v := []string{"u"}
		if r.Chance(1, 3) {
			v = []string{"[", "u", ",", "v", "]"}
		}
		return cat("for", v, "in", g.expr(d-1), "{", g.stmts(d-1, inFunc), "}")
	case 5:
		g.funcs++
		return cat("func", fmt.Sprintf("fn%d", g.funcs), "(", g.params(), ")", "{", g.stmts(d-1, true), "}")
	case 6:
		t := cat("try", "{", g.stmts(d-1, inFunc), "}")
		for k := r.Intn(3); k > 0; k-- {
			t = append(t, "except")
			nt := r.Intn(3)
			for j := 0; j < nt; j++ {
				if j > 0 {
					t = append(t, ",")
				}
				t = append(t, fmt.Sprintf(`"E%d"`, j))
			}
			switch r.Intn(3) {
			case 0:
				if nt > 0 && r.Chance(2, 3) {
					t = append(t, "as", "ee")
				} else {
					t = append(t, "ee")
				}
			}
			t = cat(t, "{", g.stmts(d-1, inFunc), "}")
		}
		if r.Chance(1, 3) {
			t = cat(t, "otherwise", "{", g.stmts(d-1, inFunc), "}")
		}
		if r.Chance(1, 3) {
			t = cat(t, "finally", "{", g.stmts(d-1, inFunc), "}")
		}
		return t
	case 7:
		return cat("mutex", "mx", "{", g.stmts(d-1, inFunc), "}")
	case 8:
		subset := r.Intn(32)
		t := []string{"sink", fmt.Sprintf("sk%d", r.Intn(100))}
		for i := range sinkAttrs {
			if subset&(1<<uint(i)) != 0 {
				if r.Bool() && len(t) > 2 {
					t = append(t, ",")
				}
				t = append(t, sinkAttrs[i]...)
			}
		}
		return cat(t, "{", g.stmts(d-1, true), "}")
	case 9:
		if inFunc {
			if r.Bool() {
				return []string{"return"}
			}
			return cat("return", g.expr(d))
		}
		return g.exprStmt(d)
	case 10:
		return cat("import", `"lib.ecal"`, "as", "lib")
	case 11:
		return cat("raise", "(", `"E1"`, ",", g.expr(1), ")")
	default:
		return g.exprStmt(d)
	}
}

func randCount(c *core.Ctx) int { return c.Pick(40000, 1000000) }

func randGen(c *core.Ctx, idx int) gcase {
	r := c.Rng("rand", idx)
	g := &rgen{r: r}
	n := r.Range(1, 4)
	d := r.Range(1, 4)
	var toks []string
	for i := 0; i < n; i++ {
		if i > 0 {
			toks = append(toks, ";")
		}
		toks = append(toks, g.stmt(d, false)...)
	}
	var ins map[int]cmt
	if r.Chance(1, 3) {
		ins = map[int]cmt{}
		for k := r.Range(1, 3); k > 0; k-- {
			ins[r.Intn(len(toks)+1)] = cmtForm(r.Intn(nCmtForms), cmtTexts[r.Intn(len(cmtTexts))], cmtTexts[r.Intn(len(cmtTexts))])
		}
	}
	mode := r.Intn(nLayouts)
	ev := 0
	if idx%4 == 0 {
		ev = 2
	}
	return gcase{src: layout(toks, mode, r, ins), class: "rand", eval: ev}
}

// ---------------------------------------------------------------------------
// A few hand written programs in the style of the project's examples.

var corpus = []string{
	`# Fibonacci
func fib(n) {
    if (n <= 1) {
        return n
    }
    return fib(n-1) + fib(n-2)
}

/* print the first few */
for a in range(2, 10, 1) {
    log("fib({{a}}) = ", fib(a))
}
`,
	`import "foo/bar.ecal" as lib

/*
 Object templates
*/
Bar := {
    "super" : [],

    /* constructor */
    "init" : func (name, owner=null) {
        this.name := name   # remember
        this.owner := owner
    },

    "greet" : func () {
        return "Hello {{this.name}}"
    }
}

b := new(Bar, 'x')
log(b.greet())
`,
	`sink mysink
    kindmatch [ "foo.*", "bar" ],
    scopematch [ "data.write" ],
    statematch { "val" : NULL },
    priority 0,
    suppresses [ "othersink" ]
    {
        log("Got event: ", event)
        if event.state.val == 1 {
            raise("MyError", "detail", [1,2,3])
        }
    }

res := addEventAndWait("request", "foo.bar.xxx", {
    "val" : 1
})
`,
	`counter := 0
mutex countlock {
    counter := counter + 1; counter := counter - (1 - 2)
}
try {
    raise("test 12", null, [1,2,3])
} except "test 12" as e {
    log(e.type, e.data)
} except e {
    log("other")
} otherwise {
    log("none")
} finally {
    log("done")
}
x := [ 1,2,3,
       4,5,6 ]   # six
y := { "a":1,"b":2,
  "c" : [ {"d":null} ] }
`,
	`a := 1;b := 2;c := a+b*2-(a-(b-1));If A>0 AND not (b<0 OR c==0) { Log(r"raw {{x}}",'single "q"') } ELSE { return 0 }`,
}

// constructs that the printer spreads over several lines (lists with more than
// 4, maps with more than 2 entries, function literals) followed by something
// that must stay attached to them
var tailHeads = []string{
	"f([1, 2, 3, 4, 5])", "a.foo([1, 2, 3, 4, 5])", "f({\"a\" : 1, \"b\" : 2, \"c\" : 3})", "a.b.c([1, 2, 3, 4, 5], 6)",
	"data[pick([1, 2, 3, 4, 5])]", "data[{\"a\" : 1, \"b\" : 2, \"c\" : 3}]", "d.e[f([1, 2, 3, 4, 5], 1)]",
	"f(1, [1, 2, 3, 4, 5, 6])", "f(func (p) {\n    return p\n})", "f([1, 2, 3, 4])", "f({\"a\" : 1, \"b\" : 2})", "f([[1, 2, 3, 4, 5]])",
}
var tailTails = []string{"[0]", ".k", "[0][1]", ".k.l", "(2)", "[0].k", " + 1", " == 2", ""}

func init() {
	for _, h := range tailHeads {
		for _, t := range tailTails {
			corpus = append(corpus, "x := "+h+t+"\ny := 1\n")
			corpus = append(corpus, "if "+h+t+" {\n    y := 1\n}\n")
			corpus = append(corpus, "return "+h+t+"\n")
		}
	}
}

func corpusCount(c *core.Ctx) int { return len(corpus) }

func corpusGen(c *core.Ctx, idx int) gcase {
	ev := 2
	if idx >= 2 {
		ev = 0 // event processing / undefined names: the tree comparison decides
	}
	return gcase{src: corpus[idx], class: "corpus", eval: ev}
}
