package c08

import (
	"fmt"
	"os"
	"path/filepath"
	"sort"
	"strings"

	"github.com/krotik/ecal/cli/tool"
	"github.com/krotik/ecal/parser"

	"verif/harness/core"
)

// tool.FormatFiles on a temporary tree below c.OutDir: files with the
// extension that parse must afterwards parse to the same tree (own walk) and a
// second run must leave them byte-identical; every other file (other
// extension, unparseable, empty) must be byte-identical to before; the set of
// paths must not change.

type ffile struct {
	rel     string
	content string
	isEcal  bool
}

var fmtDirs = []string{"", "sub", "sub/deeper", "sub/deeper/deepest", "with space", "dir.ecal", "ünï"}
var otherExt = []string{".eca", ".txt", ".ecal.bak", "", ".ECAL", ".ecal~", "ecal", ".ecal.orig", ".ecal "}

var fmtSourceStreams = []string{"op2", "op3", "stmt2", "stmt3", "str", "str-ctx", "cmt1", "cmt2", "cont", "sink", "rand", "corpus"}

func sampleSource(c *core.Ctx, r *core.Rand) string {
	s := streamByName(fmtSourceStreams[r.Intn(len(fmtSourceStreams))])
	n := s.count(c)
	return s.gen(c, r.Intn(n)).src
}

func readTree(dir string) (map[string]string, error) {
	res := map[string]string{}
	err := filepath.Walk(dir, func(p string, i os.FileInfo, err error) error {
		if err != nil {
			return err
		}
		rel, _ := filepath.Rel(dir, p)
		if i.IsDir() {
			res[rel+"/"] = ""
			return nil
		}
		b, err := os.ReadFile(p)
		if err != nil {
			return err
		}
		res[rel] = string(b)
		return nil
	})
	return res, err
}

func (k *checker) formatCase(idx int) {
	c := k.c
	r := c.Rng("fmt", idx)
	dir := filepath.Join(c.OutDir, fmt.Sprintf("c08fmt-%d-%d", c.Batch, idx))
	os.RemoveAll(dir)
	defer os.RemoveAll(dir)
	var files []ffile
	nf := r.Range(10, 18)
	for i := 0; i < nf; i++ {
		d := fmtDirs[r.Intn(len(fmtDirs))]
		src := sampleSource(c, r)
		if r.Chance(2, 3) {
			files = append(files, ffile{filepath.Join(d, fmt.Sprintf("f%d.ecal", i)), src, true})
		} else {
			files = append(files, ffile{filepath.Join(d, fmt.Sprintf("f%d%s", i, otherExt[r.Intn(len(otherExt))])), src, false})
		}
	}
	files = append(files,
		ffile{"broken.ecal", "if a == { ", true},
		ffile{"sub/empty.ecal", "", true},
		ffile{"sub/comment-only.ecal", "# nothing here\n", true},
		ffile{"crlf.ecal", "a := 1\r\nif a {\r\n  b := 2\r\n}\r\n", true},
		ffile{"noeol.ecal", "a := 1", true},
		// lines far beyond 64 KiB (a long string, a long one-line list) after and
		// before complete statements, large files, a very long single token
		ffile{"long/string.ecal", "a := 1\nb := \"" + strings.Repeat("x", 70000+r.Intn(5000)) + "\"\nc := 2\n", true},
		ffile{"long/list.ecal", "first := 0\nl := [" + strings.Repeat("1, ", 25000+r.Intn(3000)) + "1]\nlast := len(l)\n", true},
		ffile{"long/many.ecal", strings.Repeat("v := v + 1\n", 9000+r.Intn(2000)), true},
		ffile{"long/ident.ecal", "k := 5\n" + strings.Repeat("q", 66000) + " := k\n", true},
		ffile{"sub/deeper/notes.txt", "a   :=   1 # keep me\n", false},
	)
	for _, f := range files {
		p := filepath.Join(dir, f.rel)
		if err := os.MkdirAll(filepath.Dir(p), 0o755); err != nil {
			panic(err)
		}
		if err := os.WriteFile(p, []byte(f.content), 0o644); err != nil {
			panic(err)
		}
	}
	os.MkdirAll(filepath.Join(dir, "emptydir.ecal"), 0o755)
	before, err := readTree(dir)
	if err != nil {
		panic(err)
	}
	c.Begin(0, "fmt", idx, "FormatFiles on "+dir)
	var ferr error
	key, msg, pan := core.Guard(func() { ferr = tool.FormatFiles(dir, ".ecal") })
	if pan {
		// same key as a panic of parser.PrettyPrint in the library level check
		c.Event("violation.pp-"+key, 1)
		c.Violation("pp-"+key, "tool.FormatFiles panicked", "fmt", idx, map[string]interface{}{"panic": trunc(msg, 1500), "files": fileList(files)})
		return
	}
	if ferr != nil {
		c.Event("violation.formatfiles-error", 1)
		c.Violation("formatfiles-error", "tool.FormatFiles returned an error on a readable tree", "fmt", idx, map[string]interface{}{"error": ferr.Error()})
		return
	}
	after1, err := readTree(dir)
	if err != nil {
		panic(err)
	}
	_, _, pan = core.Guard(func() { ferr = tool.FormatFiles(dir, ".ecal") })
	if pan || ferr != nil {
		c.Event("violation.formatfiles-second-run-failed", 1)
		c.Violation("formatfiles-second-run-failed", "second tool.FormatFiles run failed", "fmt", idx, map[string]interface{}{"error": fmt.Sprint(ferr)})
		return
	}
	after2, err := readTree(dir)
	if err != nil {
		panic(err)
	}
	c.Event("format.trees", 1)
	// the set of paths
	if !sameKeys(before, after1) || !sameKeys(before, after2) {
		c.Event("violation.formatfiles-changed-file-set", 1)
		c.Violation("formatfiles-changed-file-set", "tool.FormatFiles created or removed files", "fmt", idx,
			map[string]interface{}{"before": keys(before), "after": keys(after2)})
	}
	for _, f := range files {
		orig := before[f.rel]
		c1, c2 := after1[f.rel], after2[f.rel]
		if !f.isEcal {
			c.Event("format.other-extension-file", 1)
			if c1 != orig || c2 != orig {
				c.Event("violation.formatfiles-touched-other-extension", 1)
				c.Violation("formatfiles-touched-other-extension", "tool.FormatFiles changed a file without the extension", "fmt", idx,
					map[string]interface{}{"file": f.rel, "before": orig, "after": c2})
			}
			continue
		}
		var t1 *parser.ASTNode
		var perr error
		_, _, pan := core.Guard(func() { t1, perr = parser.Parse("c08", orig) })
		if pan {
			continue
		}
		if perr != nil || t1 == nil || hasNil(t1) {
			c.Event("format.unparseable-file", 1)
			if c1 != orig || c2 != orig {
				c.Event("violation.formatfiles-rewrote-unparseable-file", 1)
				c.Violation("formatfiles-rewrote-unparseable-file", "tool.FormatFiles changed a file that does not parse", "fmt", idx,
					map[string]interface{}{"file": f.rel, "before": orig, "after": c2})
			}
			continue
		}
		c.Event("format.parseable-file", 1)
		c.AddEvals(1)
		c.Nontrivial(core.Hash64("fmt|" + renderMeta(t1)))
		// file level verdict
		fcat, fmsg := "", ""
		var t2 *parser.ASTNode
		_, _, pan = core.Guard(func() { t2, perr = parser.Parse("c08pp", c1) })
		switch {
		case pan || perr != nil || t2 == nil || hasNil(t2):
			fcat, fmsg = "unparseable", fmt.Sprint(perr)
		default:
			if d := diffTrees(t1, t2, t1.Name); d != nil {
				fcat, fmsg = "structure", d.path+": "+d.why
			} else if c2 != c1 {
				fcat, fmsg = "nonidempotent", "second FormatFiles run changed the file again"
			}
		}
		if fcat == "" {
			c.Event("format.file-ok (same tree, second run identical)", 1)
			if c1 != orig {
				c.Event("format.file-rewritten", 1)
			}
			continue
		}
		// attribute to the printer if the library level round trip fails alike
		_, _, lf := roundTrip(t1)
		if lf != nil && lf.cat == fcat {
			k.report("fmt", idx, orig, t1, lf, nil, nil, "tool.FormatFiles on "+f.rel)
			continue
		}
		c.Event("violation.formatfiles:"+fcat, 1)
		c.Violation("formatfiles:"+fcat, "tool.FormatFiles left a file that fails the round trip although parser.PrettyPrint does not: "+whatText[fcat], "fmt", idx,
			map[string]interface{}{"file": f.rel, "before": orig, "after_first_run": c1, "after_second_run": c2, "problem": fmsg})
	}
}

func fileList(files []ffile) []string {
	var r []string
	for _, f := range files {
		r = append(r, f.rel)
	}
	return r
}

func keys(m map[string]string) []string {
	var r []string
	for k := range m {
		r = append(r, k)
	}
	sort.Strings(r)
	return r
}

func sameKeys(a, b map[string]string) bool {
	return strings.Join(keys(a), "\x00") == strings.Join(keys(b), "\x00")
}
