package c16

import (
	"regexp"
	"runtime"
	"strconv"
	"strings"
	"sync"
	"sync/atomic"

	"verif/harness/core"
	"verif/harness/sched"
)

var goHead = regexp.MustCompile(`^goroutine (\d+) \[([^\],]+)`)

type goBlock struct {
	id    uint64
	state string
	text  string
}

func parseDump(dump string) []goBlock {
	var res []goBlock
	for _, b := range strings.Split(dump, "\n\n") {
		b = strings.TrimSpace(b)
		m := goHead.FindStringSubmatch(b)
		if m == nil {
			continue
		}
		id, _ := strconv.ParseUint(m[1], 10, 64)
		res = append(res, goBlock{id, m[2], b})
	}
	return res
}

const dbgFrame = "github.com/krotik/ecal/interpreter.(*ecalDebugger)."

// blockedState: waiting on a lock or a condition variable. Goroutines waiting
// on a channel, a timer or a select are not counted as blocked: those waits
// end by themselves (e.g. the parser waiting for its lexer goroutine).
func blockedState(s string) bool {
	return strings.HasPrefix(s, "sync.") || strings.HasPrefix(s, "semacquire")
}

// lockStuck evaluates the stuck-state predicate on a goroutine dump: the
// probing goroutine sits in an RWMutex acquisition called from a debugger
// method, and every other goroutine that is inside a debugger method is
// itself blocked (so nobody who could hold the lock is able to release it).
func lockStuck(dump string, probe uint64) (bool, string) {
	blocks := parseDump(dump)
	var pb *goBlock
	for i := range blocks {
		if blocks[i].id == probe {
			pb = &blocks[i]
		}
	}
	if pb == nil {
		return false, ""
	}
	if !strings.Contains(pb.text, "sync.(*RWMutex).") || !strings.Contains(pb.text, dbgFrame) {
		return false, ""
	}
	if !strings.HasPrefix(pb.state, "sync.RWMutex") && !strings.HasPrefix(pb.state, "semacquire") && !strings.HasPrefix(pb.state, "sync.Mutex") {
		return false, ""
	}
	wit := pb.text
	self := sched.GoID()
	for _, b := range blocks {
		if b.id == probe || b.id == self {
			continue
		}
		// a debugger method that holds the lock may itself be parked on another
		// lock (a scope lock during inject / extract) whose holder is outside the
		// debugger: while any goroutine can still take a step the picture is not
		// final, however long the machine keeps that goroutine off the processor
		if b.state == "running" || b.state == "runnable" || b.state == "syscall" || b.state == "IO wait" {
			return false, ""
		}
		if !strings.Contains(b.text, dbgFrame) {
			continue
		}
		if !blockedState(b.state) {
			return false, ""
		}
		wit += "\n\n" + b.text
	}
	if len(wit) > 3500 {
		wit = wit[:3500]
	}
	return true, wit
}

// callResult is the outcome of a watched call into the debugger.
type callResult struct {
	returned bool
	stuck    bool   // logical witness: the calling goroutine cannot get the debugger lock and nobody can release it
	witness  string // excerpt of the goroutine dump
	panicKey string
	panicMsg string
}

// callWatched runs f (calls into the debugger) on a goroutine of its own and
// waits (bounded) for it. A call that does not return is decided by the
// stuck-state predicate, never by the elapsed time.
func callWatched(f func()) *callResult {
	res := &callResult{}
	var fin int32
	var pg uint64
	go func() {
		atomic.StoreUint64(&pg, sched.GoID())
		res.panicKey, res.panicMsg, _ = core.Guard(f)
		atomic.StoreInt32(&fin, 1)
	}()
	stuckSeen := 0
	var pl poller
	for {
		if atomic.LoadInt32(&fin) == 1 {
			res.returned = true
			return res
		}
		if pl.i > 300 && (pl.i%50 == 0 || pl.i == 301 || pl.i == 321) {
			if id := atomic.LoadUint64(&pg); id != 0 {
				if ok, wit := lockStuck(fullDump(), id); ok {
					stuckSeen++
					if stuckSeen >= 2 { // the same picture twice: stable
						res.stuck, res.witness = true, wit
						return res
					}
				} else {
					stuckSeen = 0
				}
			}
		}
		if !pl.next() {
			return res
		}
	}
}

// probe sends `status` and a command that needs the write lock.
func probe(cs *caseState) (*callResult, interface{}, error) {
	var status interface{}
	var err error
	r := callWatched(func() {
		status, err = cs.dbg.HandleInput("status")
		if err == nil {
			_, err = cs.dbg.HandleInput("rmbreak c16probe:1")
		}
	})
	if !r.returned {
		return r, nil, nil
	}
	return r, status, err
}

// relevantDump keeps the goroutines that are inside the debugger or the probe.
func relevantDump(dump string) string {
	var b strings.Builder
	for _, g := range parseDump(dump) {
		if strings.Contains(g.text, dbgFrame) || strings.Contains(g.text, "c16.probe") || strings.Contains(g.text, "c16.prepare") {
			b.WriteString(g.text)
			b.WriteString("\n\n")
		}
	}
	s := b.String()
	if len(s) > 7000 {
		s = s[:7000]
	}
	return s
}

var dumpBufs = sync.Pool{New: func() interface{} { b := make([]byte, 64<<10); return &b }}

// fullDump returns the stacks of all goroutines (like sched.FullDump, with a
// re-used buffer: it is called once or more per case here).
func fullDump() string {
	bp := dumpBufs.Get().(*[]byte)
	defer dumpBufs.Put(bp)
	for {
		n := runtime.Stack(*bp, true)
		if n < len(*bp) {
			return string((*bp)[:n])
		}
		*bp = make([]byte, 2*len(*bp))
	}
}

// goState returns the scheduler state of one goroutine ("" if it is gone).
func goState(id uint64) string {
	dump := fullDump()
	key := "goroutine " + strconv.FormatUint(id, 10) + " ["
	i := strings.Index(dump, key)
	for i > 0 && dump[i-1] != '\n' {
		j := strings.Index(dump[i+1:], key)
		if j < 0 {
			return ""
		}
		i += 1 + j
	}
	if i < 0 {
		return ""
	}
	rest := dump[i+len(key):]
	end := strings.IndexAny(rest, ",]")
	if end < 0 {
		return ""
	}
	return rest[:end]
}
