package c16

import (
	"fmt"
	"sync"
	"sync/atomic"

	"github.com/krotik/ecal/interpreter"
	"github.com/krotik/ecal/scope"

	"verif/harness/core"
)

// runThreadStart: the state "threads running" at its very beginning. Threads
// register with the debugger on their first state visit; commands that walk
// the per-thread tables are answered at the same time. A panic out of
// HandleInput is judged here; the death of the process (fatal error:
// concurrent map ...) by the driver; data races by the race build.
func (k *checker) runThreadStart(e *env, slot int, idx int) {
	r := k.c.Rng("threadstart", idx)
	nt := r.Range(2, 12)
	record := r.Bool()
	var prog int
	for i := range states {
		if states[i].name == "finished" {
			prog = i
		}
	}
	ast := e.asts[prog]
	desc := fmt.Sprintf("threads=%d record=%v", nt, record)
	k.c.Begin(slot, "threadstart", idx, desc)
	defer k.c.End(slot)
	gvs := scope.NewScope(scope.GlobalScope)
	dbg := interpreter.NewECALDebugger(gvs)
	e.erp.Debugger = dbg
	e.cur.Store((*caseState)(nil))
	start := make(chan struct{})
	var wg sync.WaitGroup
	tids := make([]uint64, nt)
	var tpanics int32
	for t := 0; t < nt; t++ {
		tids[t] = e.erp.NewThreadID()
		wg.Add(1)
		go func(tid uint64) {
			defer wg.Done()
			vs := scope.NewScopeWithParent(fmt.Sprint("t", tid), gvs)
			<-start
			if _, _, p := core.Guard(func() { ast.Runtime.Eval(vs, make(map[string]interface{}), tid) }); p {
				atomic.AddInt32(&tpanics, 1)
			}
			if record {
				dbg.RecordThreadFinished(tid)
			}
		}(tids[t])
	}
	var stop int32
	var cmds int64
	pdone := make(chan struct{})
	go func() {
		defer close(pdone)
		<-start
		for i := 0; atomic.LoadInt32(&stop) == 0 || i < 3; i++ {
			line := "status"
			switch i % 3 {
			case 1:
				line = fmt.Sprintf("describe %d", tids[i%nt])
			case 2:
				line = "lockstate"
			}
			key, msg, panicked := core.Guard(func() { dbg.HandleInput(line) })
			atomic.AddInt64(&cmds, 1)
			if panicked {
				k.violation(key, fmt.Sprintf("%q panicked while %d threads were starting: %s", line, nt, trunc(msg, 300)), "threadstart", idx,
					map[string]interface{}{"case": desc, "line": line})
				return
			}
		}
	}()
	close(start)
	wg.Wait()
	atomic.StoreInt32(&stop, 1)
	<-pdone
	k.c.Event("threadstart.commands-answered-while-threads-start", atomic.LoadInt64(&cmds))
	k.c.Event("threadstart.threads", int64(nt))
	if n := atomic.LoadInt32(&tpanics); n > 0 {
		k.violation("threadstart:thread-panic", fmt.Sprintf("%d of %d starting threads panicked", n, nt), "threadstart", idx, map[string]interface{}{"case": desc})
	}
	k.c.NontrivialKey("threadstart|" + desc)
}
