// Package c16 monitors the debugger command interface: every text line, in
// every debugger state, yields a JSON-encodable result or an error, never a
// panic, never a debugger lock left held (DESIGN.md section 4, C16).
package c16

import (
	"encoding/json"
	"fmt"
	"regexp"
	"runtime"
	"strings"
	"sync"
	"sync/atomic"

	"verif/harness/core"
)

func init() { core.Register("C16", Run) }

// the command vocabulary (+ an unknown command and the empty command, which
// makes the first argument the command word)
var commands = []string{"breakonstart", "break", "rmbreak", "disablebreak", "cont", "describe", "status",
	"extract", "inject", "lockstate", "nosuchcmd", ""}

// argument vocabulary; {T} = id of the debugged thread, {O} = an id no thread has
var argPool = []string{
	"{T}", "{O}", "0", "-1", "9223372036854775808", "1e99", "abc",
	srcName, "nosrc", srcName + ":3", srcName + ":", ":3", srcName + ":x", "a:b:c",
	"a", "m.k.x", "1+a", "1+", "", "\xff\xfe\x00{\x1b[",
	"resume", "stepin", "stepover", "stepout", "StepOut", "true",
}

// further arguments of the random streams
var extraArgs = []string{"b", "dest", "m", "e", "p", "nosuchvar", "m.k", "\"str\"", "[1,2]", "{\"a\":1}", "1/0", "noexist()", "a+b",
	srcName + ":2", srcName + ":4", srcName + ":6", srcName + ":-1", srcName + ":99999999999999999999", "false", "Resume", "STEPIN",
	"18446744073709551615", "1", "2", "00" + "1", "+1", "0x1", "1.0", " ", " x", "a;b", "a b"}

// calls of functions that the debugged programs define (g1..g3, e1, f) and of built-ins
var progCalls = []string{"g3(1)", "g2(1)", "g1(1)", "f(1)", "e1(1)", "e1([1])", "g3(g3(1))", "len(m)", "g3(a)", "f(b)"}

func vecCount() int { return 1 + len(argPool) + len(argPool)*len(argPool) }

// vector v of the exhaustive enumeration (length <= 2)
func vecAt(v int) []string {
	p := len(argPool)
	switch {
	case v == 0:
		return nil
	case v <= p:
		return []string{argPool[v-1]}
	}
	v -= 1 + p
	return []string{argPool[v/p], argPool[v%p]}
}

func mkLine(cmd string, args []string, sep string) string {
	parts := append([]string{cmd}, args...)
	return strings.Join(parts, sep)
}

type checker struct {
	c        *core.Ctx
	recorded sync.Map
	stuck    int64 // lock-held verdicts of this process
	skipped  int64
}

// After this many lock-held verdicts in one process the defect is established
// and the remaining cases of the process are not run (every further stuck
// case leaves blocked goroutines behind and costs goroutine dumps).
const stuckLimit = 40

func (k *checker) violation(key, what, stream string, idx int, detail interface{}) {
	v, _ := k.recorded.LoadOrStore(key, new(int64))
	if atomic.AddInt64(v.(*int64), 1) > 12 {
		k.c.Event("violations_not_recorded:"+key, 1)
		return
	}
	k.c.Violation(key, what, stream, idx, detail)
}

var numRe = regexp.MustCompile(`[0-9]+`)

func jsonClass(err error) string {
	s := err.Error()
	if i := strings.LastIndex(s, "json: "); i >= 0 {
		s = s[i+6:]
	}
	s = numRe.ReplaceAllString(s, "N")
	if len(s) > 70 {
		s = s[:70]
	}
	return s
}

func cmdWord(line string) string {
	f := strings.Fields(line)
	if len(f) == 0 {
		return "<empty>"
	}
	for _, c := range commands {
		if c == f[0] {
			return c
		}
	}
	return "<unknown>"
}

func trunc(s string, n int) string {
	if len(s) > n {
		return s[:n] + "..."
	}
	return s
}

// runCase prepares the state, feeds the lines and applies the oracles after
// every line.
func (k *checker) runCase(e *env, slot int, stream string, idx int, st *stateKind, lines []string) {
	c := k.c
	if atomic.LoadInt64(&k.stuck) >= stuckLimit {
		atomic.AddInt64(&k.skipped, 1)
		return
	}
	c.Begin(slot, stream, idx, "state: "+st.name+"\n"+strings.Join(lines, "\n"))
	defer c.End(slot)
	cs, why := prepare(e, st)
	base := func() map[string]interface{} {
		return map[string]interface{}{"state": st.name, "program": st.program, "breakpoint_line": st.breakAt, "breakonstart": st.onStart}
	}
	if why != "" {
		d := base()
		d["thread_id"] = cs.tid
		if cs.dbg != nil {
			_, _, _ = core.Guard(func() { d["status_now"] = fmt.Sprint(cs.dbg.Status()) })
		}
		d["dbg.beforewait_events"] = atomic.LoadInt64(&cs.before)
		d["dbg.resumed_events"] = atomic.LoadInt64(&cs.resumed)
		cs.release(e)
		c.Inconclusive("debugger state not reached: "+why, stream, idx, d)
		return
	}
	c.Event("state."+st.name, 1)
	var history []string
	abandoned := false
	for _, raw := range lines {
		line := strings.ReplaceAll(strings.ReplaceAll(raw, "{T}", fmt.Sprint(cs.tid)), "{O}", fmt.Sprint(cs.tid+1000))
		history = append(history, line)
		word := cmdWord(line)
		detail := base()
		detail["commands"] = append([]string{}, history...)
		detail["thread_id"] = cs.tid
		var out interface{}
		var err error
		cr := callWatched(func() { out, err = cs.dbg.HandleInput(line) })
		c.Event("cmd."+word, 1)
		if cr.stuck {
			detail["witness"] = cr.witness
			atomic.AddInt64(&k.stuck, 1)
			k.violation("lock-held-before:"+word, fmt.Sprintf("HandleInput(%q) cannot acquire the debugger lock and no goroutine can release it", line), stream, idx, detail)
			abandoned = true
			break
		}
		if !cr.returned {
			detail["dump"] = relevantDump(fullDump())
			c.Inconclusive("HandleInput did not return, no stuck-lock witness", stream, idx, detail)
			abandoned = true
			break
		}
		key, msg, panicked := cr.panicKey, cr.panicMsg, cr.panicKey != ""
		if panicked {
			c.Event("outcome.panic", 1)
			detail["panic"] = trunc(msg, 1800)
			k.violation(key, fmt.Sprintf("HandleInput(%q) panicked in state %s", line, st.name), stream, idx, detail)
		} else if err != nil {
			c.Event("outcome.error", 1)
		} else {
			c.Event("outcome.result", 1)
		}
		// results may hold live references: marshal only while no debugged thread runs
		q := cs.waitQuiescent(true)
		c.Event("thread."+q, 1)
		if q == qTimeout {
			detail["dump"] = relevantDump(fullDump())
			c.Inconclusive("debugged thread reached no quiescent state after the command", stream, idx, detail)
			break
		}
		if !panicked && err == nil {
			var jerr error
			jk, jm, jp := core.Guard(func() { _, jerr = json.Marshal(out) })
			if jp {
				detail["panic"] = trunc(jm, 1800)
				k.violation("json-"+jk, fmt.Sprintf("json.Marshal of the result of %q panicked", line), stream, idx, detail)
			} else if jerr != nil {
				detail["json_error"] = jerr.Error()
				detail["result"] = trunc(fmt.Sprintf("%#v", out), 600)
				k.violation("json:"+word+":"+jsonClass(jerr), fmt.Sprintf("the result of %q in state %s is not JSON-encodable", line, st.name), stream, idx, detail)
			}
		}
		p, status, perr := probe(cs)
		switch {
		case p.panicKey != "":
			detail["panic"] = trunc(p.panicMsg, 1800)
			k.violation(p.panicKey, fmt.Sprintf("the follow-up status command after %q panicked", line), stream, idx, detail)
		case p.stuck:
			detail["witness"] = p.witness
			atomic.AddInt64(&k.stuck, 1)
			k.violation("lock-held:"+word, fmt.Sprintf("after %q the follow-up command cannot acquire the debugger lock and no goroutine can release it", line), stream, idx, detail)
		case !p.returned:
			detail["dump"] = relevantDump(fullDump())
			c.Inconclusive("follow-up status did not return, no stuck-lock witness", stream, idx, detail)
		case perr != nil:
			detail["error"] = perr.Error()
			k.violation("followup-error:"+word, fmt.Sprintf("the follow-up command after %q returned an error", line), stream, idx, detail)
		default:
			c.Event("followup.status.returned", 1)
			var jerr error
			core.Guard(func() { _, jerr = json.Marshal(status) })
			if jerr != nil {
				detail["json_error"] = jerr.Error()
				k.violation("json:status:"+jsonClass(jerr), fmt.Sprintf("the status after %q in state %s is not JSON-encodable", line, st.name), stream, idx, detail)
			}
		}
		cs.tmu.Lock()
		tp, tm := cs.tPanic, cs.tPanicMs
		cs.tPanic = ""
		cs.tmu.Unlock()
		if tp != "" {
			detail["panic"] = trunc(tm, 1800)
			k.violation("thread-"+tp, fmt.Sprintf("the debugged thread panicked after %q", line), stream, idx, detail)
		}
		if !p.returned {
			abandoned = true
			break
		}
		cs.unpause()
	}
	if abandoned {
		// a call into the debugger is still blocked: do not wait for anything
		cs.abandon()
		c.Event("case.abandoned", 1)
		return
	}
	if q := cs.release(e); q != qFinished {
		// a thread that stays parked although it is reported running ran into
		// ecal's lost wake-up (candidate finding 23, property C15)
		dump := fullDump()
		gid := atomic.LoadUint64(&cs.gid)
		cause := "unknown"
		for _, b := range parseDump(dump) {
			if b.id == gid {
				cause = b.state
				if b.state == "sync.Cond.Wait" && strings.Contains(b.text, dbgFrame) {
					cause = "parked-at-debugger-wait-site"
				}
			}
		}
		c.Event("thread.not-released:"+cause, 1)
		if cause != "parked-at-debugger-wait-site" {
			d := base()
			d["commands"] = history
			d["dump"] = relevantDump(dump)
			c.Inconclusive("the debugged thread did not end after StopThreads ("+cause+")", stream, idx, d)
		}
	} else {
		c.Event("thread.released", 1)
	}
}

func workers() int {
	n := runtime.GOMAXPROCS(0)
	if n > 4 {
		n = 4
	}
	return n
}

// randLine draws one command line.
func randLine(r *core.Rand, minArgs, maxArgs int) string {
	cmd := commands[r.Intn(len(commands))]
	if r.Chance(1, 3) {
		// the commands that act on threads deserve more weight
		cmd = []string{"cont", "describe", "extract", "inject", "status", "lockstate", "break"}[r.Intn(7)]
	}
	n := r.Range(minArgs, maxArgs)
	args := make([]string, n)
	for i := range args {
		if r.Chance(1, 3) {
			args[i] = extraArgs[r.Intn(len(extraArgs))]
		} else {
			args[i] = argPool[r.Intn(len(argPool))]
		}
	}
	if n > 0 && r.Chance(1, 2) {
		args[0] = "{T}"
		if cmd == "cont" && n > 1 && r.Chance(2, 3) {
			args[1] = []string{"resume", "stepin", "stepover", "stepout"}[r.Intn(4)]
		}
		if (cmd == "extract" || cmd == "inject") && n > 1 && r.Chance(2, 3) {
			args[1] = []string{"a", "b", "m", "p", "dest"}[r.Intn(5)]
		}
		if cmd == "inject" && n > 2 && r.Chance(1, 2) {
			// expressions that call functions of the debugged program (their
			// bodies report to the debugger while the command is being handled)
			args[2] = progCalls[r.Intn(len(progCalls))]
		}
	}
	sep := " "
	switch r.Intn(8) {
	case 0:
		sep = "\t"
	case 1:
		sep = "  "
	}
	line := mkLine(cmd, args, sep)
	if r.Chance(1, 10) {
		line = " " + line + " \r"
	}
	return line
}

// Run is the check.
func Run(c *core.Ctx) {
	c.Note("rule", fmt.Sprintf("states (%d): fresh; suspended on the first node ever evaluated with the debugger (single statement program); thread running in a heartbeat loop; suspended at top level (breakpoint, breakonstart, last line), inside 1..3 nested calls, on an error (list / map / nested containers with a function as error data); finished (with and without RecordThreadFinished, after a mutex block); after StopThreads. "+
		"enum-<state>: every command of {%s, unknown, empty} x every argument vector of length <=2 over %d values (valid tid, other tid, 0, -1, 2^63, 1e99, abc, known/unknown source, src:3, src:, :3, src:x, a:b:c, identifier, dotted path, expression, failing expression, empty, garbage bytes, resume/stepin/stepover/stepout/StepOut/true), one fresh state per line (quick tier: length 2 only for cont, describe, extract, inject and the empty command word - the other commands never read a second argument); "+
		"rand-vec: vectors of length 3..4 (also over %d further values: variables, JSON-ish expressions, odd numbers, unicode spaces), random separators; seq: random command sequences of length <=8 in one state. "+
		"Oracles after every line: no panic out of HandleInput (core.Guard), json.Marshal of the result succeeds (taken while no debugged thread runs), a follow-up `status` and a write-lock command return - a probe that does not return is decided by the stuck-state predicate (probing goroutine in RWMutex acquisition inside an ecalDebugger method while every other goroutine inside the debugger is blocked), no panic on the debugged thread. "+
		"threadstart: 2..12 threads leave a barrier and evaluate a short program (first state visit = registration with the debugger) while another goroutine keeps sending status / describe <tid> / lockstate; no panic, no process death, and (race build) no data race with a command handler as innermost frame. "+
		"non-trivial = distinct (state, command line) whose command word is in the vocabulary and which has at least one argument or whose state holds a thread",
		len(states), strings.Join(commands[:10], ","), len(argPool), len(extraArgs)))
	c.Note("exhaustive", "true")
	k := &checker{c: c}
	envs := make([]*env, workers())
	for i := range envs {
		envs[i] = newEnv()
	}
	defer func() {
		c.Event("goroutines.at-end-of-batch", int64(runtime.NumGoroutine()))
		if n := atomic.LoadInt64(&k.skipped); n > 0 {
			c.Inconclusive(fmt.Sprintf("%d cases not run after %d lock-held verdicts in this process", n, stuckLimit), "skipped", 0, nil)
		}
		if n := atomic.LoadInt64(&stopThreadsPanics); n > 0 {
			c.Event("cleanup.StopThreads-panicked(not a command, no verdict)", n)
		}
		for _, e := range envs {
			e.close()
		}
	}()
	nontriv := func(st *stateKind, line string) {
		w := cmdWord(line)
		if w != "<unknown>" && w != "<empty>" && (len(strings.Fields(line)) > 1 || st.mode != "fresh") {
			c.Nontrivial(core.Hash64(st.name + "|" + line))
		}
	}
	// exhaustive: state x command x vector (<=2). The quick tier enumerates the
	// vectors of length 2 only for the commands that read a second argument.
	nv := vecCount()
	readsSecond := map[string]bool{"cont": true, "describe": true, "extract": true, "inject": true, "": true}
	var enum [][2]int
	for ci, cmd := range commands {
		for v := 0; v < nv; v++ {
			if c.Quick() && v > len(argPool) && !readsSecond[cmd] {
				continue
			}
			enum = append(enum, [2]int{ci, v})
		}
	}
	for si := range states {
		st := &states[si]
		stream := "enum-" + st.name
		c.Parallel(len(envs), stream, len(enum), func(slot, idx int) {
			line := mkLine(commands[enum[idx][0]], vecAt(enum[idx][1]), " ")
			k.runCase(envs[slot], slot, stream, idx, st, []string{line})
			nontriv(st, line)
			if idx%1777 == 5 {
				c.Sample(stream, map[string]interface{}{"state": st.name, "line": line})
			}
		})
	}
	// inject with an expression that calls into the debugged program: every state x every call
	c.Parallel(len(envs), "inject-call", len(states)*len(progCalls), func(slot, idx int) {
		st := &states[idx/len(progCalls)]
		line := mkLine("inject", []string{"{T}", "a", progCalls[idx%len(progCalls)]}, " ")
		k.runCase(envs[slot], slot, "inject-call", idx, st, []string{line})
		nontriv(st, line)
		if idx%29 == 5 {
			c.Sample("inject-call", map[string]interface{}{"state": st.name, "line": line})
		}
	})
	// threads that start (their first state visit registers them with the
	// debugger) while status / describe / lockstate commands are answered
	c.Parallel(len(envs), "threadstart", c.Pick(600, 12000), func(slot, idx int) {
		k.runThreadStart(envs[slot], slot, idx)
	})
	// random longer vectors
	c.Parallel(len(envs), "rand-vec", c.Pick(8000, 400000), func(slot, idx int) {
		r := c.Rng("rand-vec", idx)
		st := &states[r.Intn(len(states))]
		line := randLine(r, 3, 4)
		k.runCase(envs[slot], slot, "rand-vec", idx, st, []string{line})
		nontriv(st, line)
		if idx%2999 == 5 {
			c.Sample("rand-vec", map[string]interface{}{"state": st.name, "line": line})
		}
	})
	// random command sequences
	c.Parallel(len(envs), "seq", c.Pick(4000, 200000), func(slot, idx int) {
		r := c.Rng("seq", idx)
		st := &states[r.Intn(len(states))]
		n := r.Range(2, 8)
		lines := make([]string, n)
		for i := range lines {
			lines[i] = randLine(r, 0, 4)
		}
		k.runCase(envs[slot], slot, "seq", idx, st, lines)
		c.AddEvals(n - 1)
		for _, l := range lines {
			nontriv(st, l)
		}
		if idx%1499 == 5 {
			c.Sample("seq", map[string]interface{}{"state": st.name, "lines": lines})
		}
	})
}
