// Package c16 holds the runtime monitors for property C16 (see DESIGN.md section 4).
package c16

import "verif/harness/core"

func init() { core.Register("C16", Run) }

// Run is the check.
func Run(c *core.Ctx) {
}
