package c16

import (
	"fmt"
	"runtime"
	"sync"
	"sync/atomic"
	"time"

	"github.com/krotik/ecal/interpreter"
	"github.com/krotik/ecal/parser"
	"github.com/krotik/ecal/scope"
	"github.com/krotik/ecal/util"
	"github.com/krotik/ecal/verifhook"

	"verif/harness/core"
	"verif/harness/sched"
)

// Source name of every debugged program.
const srcName = "src"

// stateKind enumerates the prepared debugger states.
type stateKind struct {
	name    string
	program string
	breakAt int    // line of the breakpoint set before the run (0 = none)
	onStart bool   // use breakonstart instead of a breakpoint
	mode    string // fresh | running | suspended | finished | stopped
	record  bool   // call RecordThreadFinished when the thread ends (as the CLI does)
	index   int
}

const progTop = `a := 1
b := a + 1
m := {"k": {"x": [a, b]}, "f": 1.5}
c := [a, b, m]
d := len(c)
e := d + 1
`

const progNested = `func g3(p) {
    a := p + 1
    return a
}
func g2(p) {
    a := g3(p + 1)
    return a
}
func g1(p) {
    a := g2(p + 1)
    return a
}
m := {"k": {"x": [1, 2]}}
r := %s(1)
s := r + 1
`

const progError = `func e1(d) {
    raise("MyErr", "some detail", d)
}
a := 5
m := {"k": {"x": [1, 2]}}
try {
    e1(%s)
} except e {
    a := 6
}
b := a
`

const progBusy = `a := 0
m := {"k": {"x": [1, 2]}}
for alive() {
    a := beat(a)
}
b := a
`

const progFinished = `a := 1
m := {"k": {"x": [1, 2]}}
mutex lk {
    a := a + 1
}
func f(p) {
    return p + 1
}
b := f(a)
`

var states = []stateKind{
	{name: "fresh", mode: "fresh"},
	{name: "running", program: progBusy, mode: "running"},
	{name: "suspended-top-breakpoint", program: progTop, breakAt: 3, mode: "suspended"},
	{name: "suspended-top-breakonstart", program: progTop, onStart: true, mode: "suspended"},
	{name: "suspended-first-node-single-statement", program: "a := 1\n", onStart: true, mode: "suspended"},
	{name: "suspended-top-lastline", program: progTop, breakAt: 6, mode: "suspended"},
	{name: "suspended-depth1", program: fmt.Sprintf(progNested, "g3"), breakAt: 2, mode: "suspended"},
	{name: "suspended-depth2", program: fmt.Sprintf(progNested, "g2"), breakAt: 2, mode: "suspended"},
	{name: "suspended-depth3", program: fmt.Sprintf(progNested, "g1"), breakAt: 2, mode: "suspended"},
	{name: "suspended-on-error", program: fmt.Sprintf(progError, "[1, 2]"), mode: "suspended"},
	{name: "suspended-on-error-mapdata", program: fmt.Sprintf(progError, `{"k": 1}`), mode: "suspended"},
	{name: "suspended-on-error-nesteddata", program: fmt.Sprintf(progError, `[{1: [m, e1]}, null, 1.5]`), mode: "suspended"},
	{name: "finished", program: progFinished, mode: "finished"},
	{name: "finished-recorded", program: progFinished, mode: "finished", record: true},
	{name: "after-stopthreads", program: progTop, breakAt: 3, mode: "stopped"},
}

// caseState is one prepared debugger with (at most) one debugged thread.
type caseState struct {
	kind *stateKind
	dbg  util.ECALDebugger
	tid  uint64

	gid     uint64 // goroutine id of the debugged thread
	started int32
	done    int32 // the thread's goroutine has ended
	before  int64 // dbg.beforewait events
	resumed int64 // dbg.resumed events

	alive    int32
	beats    int64
	pmu      sync.Mutex // guards pauseReq, paused
	pcond    *sync.Cond
	pauseReq bool
	paused   bool
	stopAt   int64 // value of `before` when StopThreads was last called
	parkedAt int64 // value of `before` for which the thread was seen parked

	tmu      sync.Mutex
	tPanic   string // panic on the debugged thread (key)
	tPanicMs string
}

// env is the per-worker context: one runtime provider, re-used, and the
// parsed programs of all states. Everything is parsed before the workers start
// and on one goroutine: parsing `for` / `if` rewrites ecal's package-level
// grammar table (candidate finding 21, property C13), so a parse concurrent
// with it would be mis-parsed or kill the process.
type env struct {
	erp  *interpreter.ECALRuntimeProvider
	cur  atomic.Value // *caseState
	asts []*parser.ASTNode
}

var envs sync.Map    // *interpreter.ECALRuntimeProvider -> *env
var byDebug sync.Map // util.ECALDebugger -> *caseState

func newEnv() *env {
	e := &env{}
	e.erp = interpreter.NewECALRuntimeProvider("c16", nil, util.NewMemoryLogger(10))
	envs.Store(e.erp, e)
	e.asts = make([]*parser.ASTNode, len(states))
	for i := range states {
		states[i].index = i
		if states[i].program == "" {
			continue
		}
		ast, err := parser.ParseWithRuntime(srcName, states[i].program, e.erp)
		if err == nil {
			err = ast.Runtime.Validate()
		}
		if err != nil {
			panic("c16: state program " + states[i].name + " rejected: " + err.Error())
		}
		e.asts[i] = ast
	}
	return e
}

func (e *env) close() {
	envs.Delete(e.erp)
	go e.erp.Cron.Stop() // never synchronously: Cron.Stop can deadlock with the cron goroutine's tick (krotik/common)
}

func stateOf(is map[string]interface{}) *caseState {
	if is == nil {
		return nil
	}
	if v, ok := envs.Load(is["erp"]); ok {
		cs, _ := v.(*env).cur.Load().(*caseState)
		return cs
	}
	return nil
}

// aliveFunc is the loop condition of the busy program.
type aliveFunc struct{}

func (aliveFunc) Run(instanceID string, vs parser.Scope, is map[string]interface{}, tid uint64, args []interface{}) (interface{}, error) {
	cs := stateOf(is)
	return cs != nil && atomic.LoadInt32(&cs.alive) == 1, nil
}
func (aliveFunc) DocString() (string, error) { return "loop condition", nil }

// beatFunc is the heartbeat of the busy program; it also is the place where
// the harness can park the thread (so that results holding live references
// are only marshalled while no debugged thread runs).
type beatFunc struct{}

func (beatFunc) Run(instanceID string, vs parser.Scope, is map[string]interface{}, tid uint64, args []interface{}) (interface{}, error) {
	cs := stateOf(is)
	if cs == nil {
		return float64(0), nil
	}
	atomic.AddInt64(&cs.beats, 1)
	cs.pmu.Lock()
	for cs.pauseReq && atomic.LoadInt32(&cs.alive) == 1 {
		cs.paused = true
		cs.pcond.Wait()
	}
	cs.paused = false
	cs.pmu.Unlock()
	v, _ := args[0].(float64)
	if v > 1e6 {
		v = 0
	}
	return v + 1, nil
}
func (beatFunc) DocString() (string, error) { return "heartbeat", nil }

func init() {
	interpreter.InbuildFuncMap["alive"] = aliveFunc{}
	interpreter.InbuildFuncMap["beat"] = beatFunc{}
	verifhook.Set(func(point string, args []interface{}) {
		switch point {
		case "dbg.beforewait", "dbg.resumed":
			if len(args) == 0 {
				return
			}
			if v, ok := byDebug.Load(args[0]); ok {
				cs := v.(*caseState)
				if point == "dbg.beforewait" {
					atomic.AddInt64(&cs.before, 1)
				} else {
					atomic.AddInt64(&cs.resumed, 1)
				}
			}
		}
	})
}

// poller bounds every wait of the harness: 300 yields, then sleeps of 100
// microseconds until at least 3000 of them were made AND at least 3 s have
// passed (so neither a loaded machine nor a stalled process ends a wait
// early). It never decides a verdict: a wait that runs into the bound makes
// the case inconclusive.
type poller struct {
	i     int
	start time.Time
}

func (p *poller) next() bool {
	p.i++
	switch {
	case p.i <= 300:
		runtime.Gosched()
		return true
	case p.i == 301:
		p.start = time.Now()
	case p.i > 3300 && time.Since(p.start) > 3*time.Second:
		return false
	}
	time.Sleep(100 * time.Microsecond)
	return true
}

// parked tells whether the thread's goroutine really waits on the condition
// variable of a debugger wait site (scheduler state from a goroutine dump).
// The dbg.beforewait hook fires a few instructions earlier; a command that
// overtakes the thread there would run into ecal's lost wake-up (candidate
// finding 23, property C15), which is not this property's business.
func (cs *caseState) parked() bool {
	b := atomic.LoadInt64(&cs.before)
	if cs.parkedAt == b {
		return true // confirmed before for this suspension
	}
	if runtime.NumGoroutine() <= dumpLimit {
		if goState(atomic.LoadUint64(&cs.gid)) != "sync.Cond.Wait" {
			return false
		}
	} else {
		// Too many goroutines for a dump per suspension (every InjectValue
		// call of ecal leaves a cron goroutine behind): give the thread time
		// for the few instructions between the hook and the wait instead. If
		// that is not enough the thread is lost to finding 23; the case then
		// ends without a verdict (event thread.not-released).
		for k := 0; k < 20; k++ {
			runtime.Gosched()
		}
		time.Sleep(50 * time.Microsecond)
	}
	cs.parkedAt = b
	return true
}

const dumpLimit = 150

// quiescence of the debugged thread
const (
	qNone      = "no-thread"
	qFinished  = "finished"
	qSuspended = "suspended"
	qPaused    = "paused-in-heartbeat"
	qTimeout   = "timeout"
)

func (cs *caseState) inWait() bool {
	// resumed is incremented after before; read it first
	r := atomic.LoadInt64(&cs.resumed)
	return atomic.LoadInt64(&cs.before) > r
}

// waitQuiescent waits (bounded) until the debugged thread has ended, is parked
// at a debugger wait site, or is parked in the heartbeat gate.
func (cs *caseState) waitQuiescent(pause bool) string {
	if atomic.LoadInt32(&cs.started) == 0 {
		return qNone
	}
	if pause {
		cs.pmu.Lock()
		cs.pauseReq = true
		cs.pmu.Unlock()
	}
	var p poller
	for {
		switch {
		case atomic.LoadInt32(&cs.done) == 1:
			return qFinished
		case cs.inWait():
			if cs.parked() && cs.inWait() {
				return qSuspended
			}
		case cs.isPaused():
			return qPaused
		}
		if !p.next() {
			return qTimeout
		}
	}
}

func (cs *caseState) isPaused() bool {
	cs.pmu.Lock()
	defer cs.pmu.Unlock()
	return cs.paused
}

// unpause lets a thread parked in the heartbeat gate go on.
func (cs *caseState) unpause() {
	cs.pmu.Lock()
	cs.pauseReq = false
	cs.pcond.Broadcast()
	cs.pmu.Unlock()
}

// stopThreads releases the suspended thread. StopThreads reads the debugger's
// thread table without the debugger lock, so it is only called while the
// thread is parked and only once per suspension (a second call would race
// with the woken thread removing its entry).
func (cs *caseState) stopThreads() {
	cs.stopAt = atomic.LoadInt64(&cs.before)
	_, _, panicked := core.Guard(func() { cs.dbg.StopThreads(0) })
	if panicked {
		atomic.AddInt64(&stopThreadsPanics, 1)
	}
}

var stopThreadsPanics int64

// prepare builds the debugger state. It returns an empty string or the
// reason why the state could not be reached.
func prepare(e *env, k *stateKind) (*caseState, string) {
	cs := &caseState{kind: k, alive: 1}
	cs.pcond = sync.NewCond(&cs.pmu)
	gvs := scope.NewScope(scope.GlobalScope)
	cs.dbg = interpreter.NewECALDebugger(gvs)
	e.erp.Debugger = cs.dbg
	e.cur.Store(cs)
	byDebug.Store(cs.dbg, cs)
	cs.tid = 1
	if k.mode == "fresh" {
		return cs, ""
	}
	cs.tid = e.erp.NewThreadID()
	ast := e.asts[k.index]
	if k.breakAt > 0 {
		cs.dbg.SetBreakPoint(srcName, k.breakAt)
	}
	if k.onStart {
		cs.dbg.BreakOnStart(true)
	}
	atomic.StoreInt32(&cs.started, 1)
	go func() {
		defer atomic.StoreInt32(&cs.done, 1) // also runs on runtime.Goexit (killed thread)
		atomic.StoreUint64(&cs.gid, sched.GoID())
		key, msg, panicked := core.Guard(func() {
			ast.Runtime.Eval(gvs, make(map[string]interface{}), cs.tid)
		})
		if panicked {
			cs.tmu.Lock()
			cs.tPanic, cs.tPanicMs = key, msg
			cs.tmu.Unlock()
		}
		if k.record {
			cs.dbg.RecordThreadFinished(cs.tid)
		}
	}()
	switch k.mode {
	case "running":
		// wait for the first heartbeats
		var p poller
		for atomic.LoadInt64(&cs.beats) < 2 {
			if atomic.LoadInt32(&cs.done) == 1 {
				return cs, "busy program ended"
			}
			if !p.next() {
				return cs, "busy program produced no heartbeat"
			}
		}
	case "suspended", "stopped":
		if q := cs.waitQuiescent(false); q != qSuspended {
			return cs, "thread did not suspend: " + q
		}
		if k.mode == "stopped" {
			cs.stopThreads()
			if q := cs.waitEnd(); q != qFinished {
				return cs, "thread did not end after StopThreads: " + q
			}
		}
	case "finished":
		if q := cs.waitEnd(); q != qFinished {
			return cs, "thread did not finish: " + q
		}
	}
	return cs, ""
}

// waitEnd waits (bounded) for the end of the thread, releasing it whenever it
// is found suspended.
func (cs *caseState) waitEnd() string {
	if atomic.LoadInt32(&cs.started) == 0 {
		return qFinished
	}
	var p poller
	for {
		if atomic.LoadInt32(&cs.done) == 1 {
			return qFinished
		}
		if cs.inWait() && atomic.LoadInt64(&cs.before) > cs.stopAt && cs.parked() {
			cs.stopThreads()
		}
		if !p.next() {
			return qTimeout
		}
	}
}

// release ends the case: the busy loop is told to stop, every suspended
// thread is released (StopThreads) and the goroutine's end is awaited.
func (cs *caseState) release(e *env) string {
	atomic.StoreInt32(&cs.alive, 0)
	cs.unpause()
	q := cs.waitEnd()
	byDebug.Delete(cs.dbg)
	return q
}

// abandon gives up a case whose debugger is blocked: the thread is told to
// stop and released once if it is parked, nothing is awaited.
func (cs *caseState) abandon() {
	atomic.StoreInt32(&cs.alive, 0)
	cs.unpause()
	if atomic.LoadInt32(&cs.started) == 1 && atomic.LoadInt32(&cs.done) == 0 && cs.inWait() && cs.parked() {
		cs.stopThreads()
	}
	byDebug.Delete(cs.dbg)
}
