package c01

// Execution of cases on the real code and comparison with the reference.

import (
	"fmt"
	"regexp"
	"sort"
	"strings"
	"sync"
	"sync/atomic"
	"time"

	"github.com/krotik/ecal/engine"

	"verif/harness/core"
)

// caseSpec is one processor case: rule set, cascade scopes, history.
type caseSpec struct {
	Rules   []ruleSpec
	Scopes  []map[string]bool
	Hist    []step
	Workers int
	Burst   bool // add all events of a run with AddEvent, then wait for the pool; else AddEventAndWait one by one
	NoNudge bool // hang candidates: no helper goroutine that could show up in the goroutine dump
}

// ---------------------------------------------------------------- describing

func descVal(v interface{}) interface{} {
	switch x := v.(type) {
	case nil:
		return nil
	case *regexp.Regexp:
		return "re:/" + x.String() + "/"
	case []interface{}:
		r := make([]interface{}, len(x))
		for i := range x {
			r[i] = descVal(x[i])
		}
		return map[string]interface{}{"list": r}
	case map[interface{}]interface{}:
		var keys []string
		for k := range x {
			keys = append(keys, fmt.Sprintf("%T(%v)", k, k))
		}
		sort.Strings(keys)
		return map[string]interface{}{"map": fmt.Sprint(x), "keys": keys}
	case string:
		return x
	default:
		return fmt.Sprintf("%T(%v)", v, v)
	}
}

func descRule(r ruleSpec) map[string]interface{} {
	m := map[string]interface{}{"name": r.Name, "kindmatch": r.Kinds, "scopematch": r.Scope}
	if r.HasState {
		st := map[string]interface{}{}
		for k, v := range r.State {
			st[k] = descVal(v)
		}
		m["statematch"] = st
	}
	if len(r.Supp) > 0 {
		m["suppresses"] = r.Supp
	}
	if r.Prio != 0 {
		m["priority"] = r.Prio
	}
	return m
}

func descRules(rs []ruleSpec) []interface{} {
	var out []interface{}
	for i, r := range rs {
		if i >= 12 && len(rs) > 16 {
			out = append(out, fmt.Sprintf("... %d more rules of the same shape, last: %v", len(rs)-i, descRule(rs[len(rs)-1])))
			break
		}
		out = append(out, descRule(r))
	}
	return out
}

func descEvent(e *eventSpec, scopes []map[string]bool) map[string]interface{} {
	st := map[string]interface{}{}
	for k, v := range e.State {
		st[fmt.Sprintf("%v", k)] = descVal(v)
	}
	m := map[string]interface{}{"name": e.Name, "kind": strings.Join(e.Kind, "."), "kind_segments": len(e.Kind), "state": st}
	if e.Child != nil {
		ch := *e.Child
		ch.Child = nil
		m["first_execution_of_rule_"+e.ChildVia+"_adds_child_event"] = map[string]interface{}{"name": ch.Name, "kind": strings.Join(ch.Kind, "."), "state": descEvent(&ch, scopes)["state"]}
	}
	if e.Scope >= 0 && e.Scope < len(scopes) {
		m["cascade_scope"] = scopes[e.Scope]
	} else {
		m["cascade_scope"] = "nil (processor default: everything allowed)"
	}
	return m
}

func caseText(cs *caseSpec) string {
	var b strings.Builder
	fmt.Fprintf(&b, "workers=%d burst=%v rules=%d:", cs.Workers, cs.Burst, len(cs.Rules))
	for i, r := range cs.Rules {
		if i >= 6 {
			fmt.Fprintf(&b, " ...")
			break
		}
		fmt.Fprintf(&b, " %v", descRule(r))
	}
	b.WriteString(" history:")
	for _, s := range cs.Hist {
		if s.Event != nil {
			fmt.Fprintf(&b, " %v", descEvent(s.Event, cs.Scopes))
		} else {
			fmt.Fprintf(&b, " [stop, add %d rules, start]", len(s.AddRules))
		}
	}
	return b.String()
}

// ---------------------------------------------------------------- reporting

var reportMu sync.Mutex
var reported = map[string]int{}

// report writes at most 20 records per key and process (the driver counts and
// de-duplicates by key anyway).
func report(c *core.Ctx, key, what, stream string, idx int, detail interface{}) {
	reportMu.Lock()
	reported[key]++
	n := reported[key]
	reportMu.Unlock()
	c.Event("violation."+key, 1)
	if n <= 20 {
		c.Violation(key, what, stream, idx, detail)
	}
}

// ---------------------------------------------------------------- real objects

func mkEngineRule(r ruleSpec, action engine.RuleAction) *engine.Rule {
	er := &engine.Rule{Name: r.Name, Desc: "", KindMatch: r.Kinds, ScopeMatch: r.Scope,
		Priority: r.Prio, SuppressionList: r.Supp, Action: action}
	if er.ScopeMatch == nil {
		er.ScopeMatch = []string{}
	}
	if r.HasState {
		er.StateMatch = r.State
		if er.StateMatch == nil {
			er.StateMatch = map[string]interface{}{}
		}
	}
	return er
}

func mkEngineEvent(e *eventSpec) *engine.Event {
	return engine.NewEvent(e.Name, e.Kind, e.State)
}

// ---------------------------------------------------------------- bare index

// runIndex checks RuleIndex.Match / IsTriggering for a rule set and events.
// beginEach: write a progress slot per event (hang candidates).
func runIndex(c *core.Ctx, stream string, idx, slot int, rules []ruleSpec, events []eventSpec, beginEach bool) (nontrivial int) {
	m := newModel()
	ri := engine.NewRuleIndex()
	key, msg, panicked := core.Guard(func() {
		for _, r := range rules {
			if err := ri.AddRule(mkEngineRule(r, nil)); err != nil {
				panic("harness: AddRule rejected a generated rule: " + err.Error())
			}
		}
	})
	if panicked {
		c.Event("index.addrule.panic", 1)
		report(c, key, "RuleIndex.AddRule panicked", stream, idx, map[string]interface{}{"rules": descRules(rules), "panic": trunc(msg, 1500)})
		return 0
	}
	for _, r := range rules {
		m.addRule(r)
	}
	for ei := range events {
		ev := &events[ei]
		if beginEach {
			c.Begin(slot, stream, idx, fmt.Sprintf("RuleIndex.Match, %d rules (first %v, last %v), event #%d %v, hang predicted by the known 64-rule defect: %v",
				len(rules), descRule(rules[0]), descRule(rules[len(rules)-1]), ei, descEvent(ev, nil), m.hangPredicted(ev.Kind, ev.State)))
		}
		ee := mkEngineEvent(ev)
		var matched []*engine.Rule
		var trig bool
		key, msg, panicked := core.Guard(func() {
			trig = ri.IsTriggering(ee)
			matched = ri.Match(ee)
		})
		c.Event("index.match.calls", 1)
		if panicked {
			c.Event("index.match.panic", 1)
			report(c, key, "RuleIndex.Match / IsTriggering panicked", stream, idx,
				map[string]interface{}{"rules": descRules(rules), "event": descEvent(ev, nil), "panic": trunc(msg, 1500)})
			continue
		}
		got := map[string]bool{}
		for _, r := range matched {
			got[r.Name] = true
		}
		if len(got) != len(matched) {
			c.Event("index.match.duplicates", 1)
		}
		want := m.matchSet(ev.Kind, ev.State, 0)
		if len(want) > 0 {
			nontrivial++
		}
		detail := func() map[string]interface{} {
			return map[string]interface{}{"rules": descRules(rules), "event": descEvent(ev, nil),
				"match": sortedNames(got), "expected_match": sortedNames(want), "is_triggering": trig}
		}
		if len(matched) > 0 && !trig {
			report(c, "diff:index-match-but-not-triggering", "RuleIndex.Match returned rules for an event that IsTriggering rejects", stream, idx, detail())
		}
		if len(want) > 0 && !trig {
			report(c, "diff:index-not-triggering", "IsTriggering is false for an event that a rule matches", stream, idx, detail())
		}
		if !sameSet(got, want) {
			if sameSet(got, m.matchSet(ev.Kind, ev.State, devMask)) {
				report(c, devNames[devMask], "RuleIndex.Match ignores state rules beyond the 64th of one kind pattern", stream, idx, detail())
			} else {
				cat := "diff:index-match-extra"
				for n := range want {
					if !got[n] {
						cat = "diff:index-match-missing"
					}
				}
				report(c, cat, "RuleIndex.Match differs from the reference matcher", stream, idx, detail())
			}
		}
	}
	if beginEach {
		c.End(slot)
	}
	return nontrivial
}

func sameSet(a, b map[string]bool) bool {
	if len(a) != len(b) {
		return false
	}
	for k := range a {
		if !b[k] {
			return false
		}
	}
	return true
}

func trunc(s string, n int) string {
	if len(s) > n {
		return s[:n]
	}
	return s
}

// ---------------------------------------------------------------- processor

type procCase struct {
	c      *core.Ctx
	stream string
	idx    int
	cs     *caseSpec
	m      *model
	all    []ruleSpec // all rules that will ever be added (initial + reconfiguration), index = counter column
	events []*eventSpec
	eev    []*engine.Event
	evIdx  map[*engine.Event]int
	counts []int32             // len(events) * len(all), atomically updated by the actions
	stray  int32               // action ran with an event that is not part of this case
	judged map[int]map[int]int // what was read when the wait returned
	// cascades
	childOf      map[int]int // parent event index -> child event index
	via          map[int]int // parent event index -> index of the rule whose action adds the child
	childAdded   []int32     // per event index: the child event was added (atomic)
	childSkipped []int32     // per event index: AddEvent returned a nil monitor for the child (atomic)
	addErr       int32
	epoch        []int // per event index: number of reconfigurations before it (the trigger cache is reset by AddRule)
}

func (pc *procCase) action(ri int) engine.RuleAction {
	return func(p engine.Processor, m engine.Monitor, e *engine.Event, tid uint64) error {
		if ei, ok := pc.evIdx[e]; ok {
			atomic.AddInt32(&pc.counts[ei*len(pc.all)+ri], 1)
			if ci, has := pc.childOf[ei]; has && pc.via[ei] == ri && atomic.CompareAndSwapInt32(&pc.childAdded[ci], 0, 1) {
				mon, err := p.AddEvent(pc.eev[ci], m.NewChildMonitor(0))
				if mon == nil {
					atomic.StoreInt32(&pc.childSkipped[ci], 1)
				}
				if err != nil {
					atomic.AddInt32(&pc.addErr, 1)
				}
			}
		} else {
			atomic.AddInt32(&pc.stray, 1)
		}
		return nil
	}
}

func (pc *procCase) readCounts(ei int) map[int]int {
	res := map[int]int{}
	for ri := range pc.all {
		if n := atomic.LoadInt32(&pc.counts[ei*len(pc.all)+ri]); n != 0 {
			res[ri] = int(n)
		}
	}
	return res
}

func (pc *procCase) names(f map[int]int) []string {
	var r []string
	for ri, n := range f {
		if n == 1 {
			r = append(r, pc.all[ri].Name)
		} else if n != 0 {
			r = append(r, fmt.Sprintf("%s x%d", pc.all[ri].Name, n))
		}
	}
	sort.Strings(r)
	return r
}

// judge compares one event's observation with the reference.
func (pc *procCase) judge(ei int, skipped bool, hasCached, cached bool, api string) {
	c := pc.c
	ev := pc.events[ei]
	scope := globalScope
	if ev.Scope >= 0 {
		scope = pc.cs.Scopes[ev.Scope]
	}
	got := pc.readCounts(ei)
	pc.judged[ei] = got
	want := pc.m.fireSet(ev, scope, 0, false, false)
	c.Event("proc.events", 1)
	if skipped {
		c.Event("proc.events.skipped", 1)
	}
	for _, n := range got {
		c.Event("proc.rule.executions", int64(n))
	}
	if len(want.fires) > 0 {
		c.Nontrivial(core.Hash64(fmt.Sprintf("%s|%d", pc.stream, pc.idx)))
		c.Event("proc.events.nonempty-fire-set", 1)
	}
	ok := sameFires(got, want.fires) && !(len(want.fires) > 0 && skipped)
	if ok {
		return
	}
	detail := map[string]interface{}{"rules_at_that_point": descRules(pc.m.rules), "event_number": ei, "event": descEvent(ev, pc.cs.Scopes),
		"history_before": pc.historyBefore(ei), "executed": pc.names(got), "expected": pc.names(want.fires),
		"monitor_nil_(skipped)": skipped, "api": api, "workers": pc.cs.Workers}
	// Cascade children are added from worker goroutines, so with a name-keyed
	// trigger cache the cached answer for a name may stem from any other event
	// of that name in the same configuration epoch. This only widens the
	// attribution to the known deviation; the case stays a violation.
	tries := [][2]bool{{hasCached, cached}}
	for j, o := range pc.events {
		if j != ei && o.Name == ev.Name && pc.epoch[j] == pc.epoch[ei] && !pc.m.kindTriggers(o.Kind) {
			tries = append(tries, [2]bool{true, false})
			break
		}
	}
	for _, try := range tries {
		for _, s := range devSubsets {
			d := pc.m.fireSet(ev, scope, s, try[0], try[1])
			if !sameFires(got, d.fires) || (len(d.fires) > 0 && skipped) || (d.skipped && !skipped) {
				continue
			}
			for sw := 1; sw <= devAll; sw <<= 1 {
				if s&sw != 0 {
					what := map[int]string{
						devCache: "event skipped although a rule matches: the trigger pre-check answered from a cache keyed by the event name",
						devMulti: "a rule with several kind patterns matching the same event was executed once per pattern",
						devMask:  "a matching state rule beyond the 64th of its kind pattern was not executed",
					}[sw]
					report(c, devNames[sw], what, pc.stream, pc.idx, detail)
				}
			}
			return
		}
	}
	cat := ""
	for ri := range want.fires {
		if got[ri] == 0 {
			cat = "diff:missing-fire"
		}
	}
	if cat == "" {
		for ri, n := range got {
			if want.fires[ri] == 0 && n > 0 {
				cat = "diff:extra-fire"
			}
		}
	}
	if cat == "" {
		for _, n := range got {
			if n > 1 {
				cat = "diff:multiple-fire"
			}
		}
	}
	if cat == "" {
		cat = "diff:skipped-but-fired"
	}
	if skipped && len(got) == 0 {
		cat = "diff:skipped"
	}
	report(c, cat, "executed rules differ from the reference fire set", pc.stream, pc.idx, detail)
}

// judgeChild judges the cascade event of parent event pi, if it was added.
// The caller made sure the pool is idle.
func (pc *procCase) judgeChild(pi int) {
	ci, ok := pc.childOf[pi]
	if !ok || atomic.LoadInt32(&pc.childAdded[ci]) == 0 {
		return
	}
	pc.c.Event("proc.events.cascade-children", 1)
	pc.judge(ci, atomic.LoadInt32(&pc.childSkipped[ci]) != 0, false, false,
		fmt.Sprintf("AddEvent with a child monitor from inside the action of rule %s running for event number %d", pc.events[pi].ChildVia, pi))
}

func (pc *procCase) historyBefore(ei int) []interface{} {
	var out []interface{}
	n := 0
	for _, s := range pc.cs.Hist {
		if s.Event != nil {
			if n >= ei {
				break
			}
			if ei-n <= 6 {
				out = append(out, descEvent(s.Event, pc.cs.Scopes))
			}
			n++
		} else if ei-n <= 6 {
			out = append(out, fmt.Sprintf("[stop, add rules %v, start]", descRules(s.AddRules)))
		}
	}
	return out
}

// nudger keeps a processor going if a wake-up of the pool gets lost (a defect
// owned by C09, irrelevant to which rules fire): while a call is pending it
// periodically makes the pool re-broadcast via its public WaitAll.
type nudger struct {
	busy int32
	stop chan struct{}
	done chan struct{}
}

func startNudger(p engine.Processor) *nudger {
	n := &nudger{stop: make(chan struct{}), done: make(chan struct{})}
	go func() {
		defer close(n.done)
		t := time.NewTicker(3 * time.Millisecond)
		defer t.Stop()
		for {
			select {
			case <-n.stop:
				return
			case <-t.C:
				if atomic.LoadInt32(&n.busy) != 0 {
					p.ThreadPool().WaitAll()
				}
			}
		}
	}()
	return n
}

func (n *nudger) halt() {
	if n != nil {
		close(n.stop)
		<-n.done
	}
}

// runProc runs one processor case. The caller has written the progress slot.
func runProc(c *core.Ctx, stream string, idx int, cs *caseSpec) {
	pc := &procCase{c: c, stream: stream, idx: idx, cs: cs, m: newModel(), evIdx: map[*engine.Event]int{}, judged: map[int]map[int]int{}}
	pc.all = append(pc.all, cs.Rules...)
	pc.childOf, pc.via = map[int]int{}, map[int]int{}
	stepEv := make([]int, len(cs.Hist)) // history step -> event index
	ep := 0
	for i := range cs.Hist {
		if e := cs.Hist[i].Event; e != nil {
			stepEv[i] = len(pc.events)
			pc.events = append(pc.events, e)
			pc.epoch = append(pc.epoch, ep)
			if e.Child != nil {
				pc.childOf[stepEv[i]] = len(pc.events)
				pc.events = append(pc.events, e.Child)
				pc.epoch = append(pc.epoch, ep)
			}
		} else {
			ep++
			pc.all = append(pc.all, cs.Hist[i].AddRules...)
		}
	}
	for pi := range pc.childOf {
		pc.via[pi] = -1
		for ri := range pc.all {
			if pc.all[ri].Name == pc.events[pi].ChildVia {
				pc.via[pi] = ri
			}
		}
	}
	pc.childAdded = make([]int32, len(pc.events)+1)
	pc.childSkipped = make([]int32, len(pc.events)+1)
	for i, e := range pc.events {
		ee := mkEngineEvent(e)
		pc.eev = append(pc.eev, ee)
		pc.evIdx[ee] = i
	}
	pc.counts = make([]int32, len(pc.events)*len(pc.all)+1)

	proc := engine.NewProcessor(cs.Workers)
	proc.ThreadPool().TooManyCallback = func() {}
	nextRule := 0
	addRules := func(rs []ruleSpec) bool {
		key, msg, panicked := core.Guard(func() {
			for _, r := range rs {
				if err := proc.AddRule(mkEngineRule(r, pc.action(nextRule))); err != nil {
					panic("harness: AddRule rejected a generated rule: " + err.Error())
				}
				nextRule++
			}
		})
		if panicked {
			c.Event("proc.addrule.panic", 1)
			report(c, key, "Processor.AddRule panicked", stream, idx, map[string]interface{}{"rules": descRules(rs), "panic": trunc(msg, 1500)})
			return false
		}
		for _, r := range rs {
			pc.m.addRule(r)
		}
		return true
	}
	if !addRules(cs.Rules) {
		return
	}
	proc.Start()
	var nd *nudger
	if !cs.NoNudge {
		nd = startNudger(proc)
	} else {
		time.Sleep(300 * time.Microsecond) // let the workers park (only lowers the chance of an inconclusive run)
	}
	setBusy := func(v int32) {
		if nd != nil {
			atomic.StoreInt32(&nd.busy, v)
		}
	}
	type obs struct {
		ei              int
		skipped         bool
		hasCached, cach bool
	}
	var pending []obs
	flush := func() {
		if len(pending) == 0 {
			return
		}
		setBusy(1)
		proc.ThreadPool().WaitAll()
		setBusy(0)
		for _, o := range pending {
			pc.judge(o.ei, o.skipped, o.hasCached, o.cach, "AddEvent + ThreadPool.WaitAll")
			pc.judgeChild(o.ei)
		}
		pending = pending[:0]
	}
	aborted := false
	for si, s := range cs.Hist {
		ei := stepEv[si]
		if s.Event == nil {
			flush()
			nd.halt()
			nd = nil
			proc.Finish()
			if !addRules(s.AddRules) {
				aborted = true
				break
			}
			proc.Start()
			if !cs.NoNudge {
				nd = startNudger(proc)
			}
			continue
		}
		ev := s.Event
		var scope *engine.RuleScope
		if ev.Scope >= 0 {
			scope = engine.NewRuleScope(cs.Scopes[ev.Scope])
		}
		cached, hasCached := pc.m.cache[ev.Name]
		if !hasCached {
			pc.m.cache[ev.Name] = pc.m.kindTriggers(ev.Kind)
		}
		rm := proc.NewRootMonitor(nil, scope)
		if cs.Burst {
			mon, err := proc.AddEvent(pc.eev[ei], rm)
			if err != nil {
				report(c, "diff:addevent-error", "AddEvent on a running processor returned an error: "+err.Error(), stream, idx, caseText(cs))
			}
			pending = append(pending, obs{ei, mon == nil, hasCached, cached})
		} else {
			setBusy(1)
			mon, err := proc.AddEventAndWait(pc.eev[ei], rm)
			setBusy(0)
			if err != nil {
				report(c, "diff:addevent-error", "AddEventAndWait on a running processor returned an error: "+err.Error(), stream, idx, caseText(cs))
			}
			pc.judge(ei, mon == nil, hasCached, cached, "AddEventAndWait")
			if _, has := pc.childOf[ei]; has {
				setBusy(1)
				proc.ThreadPool().WaitAll()
				setBusy(0)
				pc.judgeChild(ei)
			}
		}
	}
	if !aborted {
		flush()
	}
	nd.halt()
	proc.Finish()
	// nothing may run after the waits returned: compare with what was judged
	for i, was := range pc.judged {
		if now := pc.readCounts(i); !sameFires(now, was) {
			report(c, "diff:fire-after-wait", "a rule was executed for an event after the wait for that event had returned", stream, idx,
				map[string]interface{}{"case": caseText(cs), "event_number": i, "at_wait_return": pc.names(was), "after_finish": pc.names(now)})
		}
	}
	if n := atomic.LoadInt32(&pc.addErr); n != 0 {
		report(c, "diff:addevent-error", fmt.Sprintf("%d AddEvent calls from inside a rule action returned an error", n), stream, idx, caseText(cs))
	}
	if n := atomic.LoadInt32(&pc.stray); n != 0 {
		report(c, "diff:action-with-foreign-event", fmt.Sprintf("%d rule executions received an event object that was never added in this case", n), stream, idx, caseText(cs))
	}
}
