package c01

import (
	"fmt"
	"regexp"
	"sort"
	"strconv"
	"strings"
	"sync"

	"github.com/krotik/ecal/interpreter"
	"github.com/krotik/ecal/parser"
	"github.com/krotik/ecal/scope"
	"github.com/krotik/ecal/stdlib"
	"github.com/krotik/ecal/util"

	"verif/harness/core"
)

// Stream "ecal": the same random rule sets and event histories, but written
// as an ECAL program - rules are `sink` declarations (kindmatch, scopematch,
// statematch, priority, suppresses), events are sent with the built-in
// addEventAndWait(name, kind, state [, scope]) and child events with addEvent
// from inside a sink. What interpreter/rt_sink.go makes of the sink attributes
// and interpreter/func_provider.go of the arguments is part of what decides
// which rules fire. Values are restricted to what ECAL source can say: numbers
// are float64 on both sides, no regular expressions, kinds are dotted strings.

type ecalFires struct {
	mu     sync.Mutex
	fires  map[int]map[string]int // event id -> rule name -> executions
	child  map[string][]interface{}
	served map[string]bool
}

var curEcal struct {
	mu sync.Mutex
	f  *ecalFires
}

type xFunc struct{ name string }

func (f xFunc) DocString() (string, error) { return "C01 monitor function " + f.name, nil }

func (f xFunc) Run(_ string, _ parser.Scope, _ map[string]interface{}, _ uint64, args []interface{}) (interface{}, error) {
	curEcal.mu.Lock()
	st := curEcal.f
	curEcal.mu.Unlock()
	if st == nil || len(args) < 2 {
		return nil, nil
	}
	rule := fmt.Sprint(args[0])
	id, _ := args[1].(float64)
	st.mu.Lock()
	defer st.mu.Unlock()
	switch f.name {
	case "fire":
		if st.fires[int(id)] == nil {
			st.fires[int(id)] = map[string]int{}
		}
		st.fires[int(id)][rule]++
	case "child":
		k := fmt.Sprintf("%s|%d", rule, int(id))
		if ch, ok := st.child[k]; ok && !st.served[k] {
			st.served[k] = true
			return ch, nil
		}
	}
	return nil, nil
}

var ecalOnce sync.Once

func ecalNumber(v interface{}) interface{} {
	switch x := v.(type) {
	case int:
		return float64(x)
	case *regexp.Regexp:
		return "x"
	case []interface{}:
		r := make([]interface{}, len(x))
		for i := range x {
			r[i] = ecalNumber(x[i])
		}
		return r
	case map[interface{}]interface{}:
		r := map[interface{}]interface{}{}
		for k, e := range x {
			r[ecalNumber(k)] = ecalNumber(e)
		}
		return r
	}
	return v
}

func ecalLit(v interface{}) string {
	switch x := v.(type) {
	case nil:
		return "null"
	case bool:
		return strconv.FormatBool(x)
	case float64:
		return strconv.FormatFloat(x, 'f', -1, 64)
	case string:
		return strconv.Quote(x)
	case []string:
		p := make([]string, len(x))
		for i := range x {
			p[i] = strconv.Quote(x[i])
		}
		return "[" + strings.Join(p, ", ") + "]"
	case []interface{}:
		p := make([]string, len(x))
		for i := range x {
			p[i] = ecalLit(x[i])
		}
		return "[" + strings.Join(p, ", ") + "]"
	case map[interface{}]interface{}:
		var p []string
		for k, e := range x {
			p = append(p, ecalLit(k)+" : "+ecalLit(e))
		}
		sort.Strings(p)
		return "{" + strings.Join(p, ", ") + "}"
	case map[string]bool:
		var p []string
		for k, e := range x {
			p = append(p, strconv.Quote(k)+" : "+strconv.FormatBool(e))
		}
		sort.Strings(p)
		return "{" + strings.Join(p, ", ") + "}"
	}
	panic(fmt.Sprintf("c01: no ECAL literal for %T", v))
}

func kindOK(k []string) bool {
	if len(k) == 0 {
		return false
	}
	for _, s := range k {
		if s == "" || strings.Contains(s, ".") {
			return false
		}
	}
	return true
}

func ecalState(st map[interface{}]interface{}, id int) map[interface{}]interface{} {
	r := ecalNumber(st).(map[interface{}]interface{})
	r["evid"] = float64(id)
	return r
}

func runEcalCase(c *core.Ctx, stream string, idx int) {
	r := c.Rng(stream, idx)
	o := randOpts(r, r.Bool())
	o.bigLeaf = 0
	cs := randProcCase(r, o, false)
	// ---- into the ECAL domain
	for i := range cs.Rules {
		ru := &cs.Rules[i]
		for _, p := range ru.Kinds {
			if !kindOK(strings.Split(p, ".")) {
				return
			}
		}
		for k, v := range ru.State {
			ru.State[k] = ecalNumber(v)
		}
	}
	var events []*eventSpec
	childOf := map[int]int{}
	for _, s := range cs.Hist {
		e := s.Event
		if e == nil || !kindOK(e.Kind) {
			continue
		}
		e.State = ecalNumber(e.State).(map[interface{}]interface{})
		events = append(events, e)
		if e.Child != nil && kindOK(e.Child.Kind) {
			e.Child.State = ecalNumber(e.Child.State).(map[interface{}]interface{})
			childOf[len(events)-1] = len(events)
			events = append(events, e.Child)
		} else {
			e.Child = nil
		}
	}
	if len(events) == 0 {
		return
	}
	// ---- the program
	var b strings.Builder
	m := newModel()
	for _, ru := range cs.Rules {
		m.addRule(ru)
		fmt.Fprintf(&b, "sink %s\n    kindmatch %s,\n", ru.Name, ecalLit(ru.Kinds))
		if len(ru.Scope) > 0 {
			fmt.Fprintf(&b, "    scopematch %s,\n", ecalLit(ru.Scope))
		}
		if ru.HasState {
			st := map[interface{}]interface{}{}
			for k, v := range ru.State {
				st[k] = v
			}
			fmt.Fprintf(&b, "    statematch %s,\n", ecalLit(st))
		}
		if len(ru.Supp) > 0 {
			fmt.Fprintf(&b, "    suppresses %s,\n", ecalLit(ru.Supp))
		}
		fmt.Fprintf(&b, "    priority %d\n{\n    c01x.fire(%q, event.state.evid)\n    ch := c01x.child(%q, event.state.evid)\n    if ch != null {\n        addEvent(ch[0], ch[1], ch[2])\n    }\n}\n", ru.Prio, ru.Name, ru.Name)
	}
	src := b.String()
	c.Begin(0, stream, idx, src)
	defer c.End(0)
	ecalOnce.Do(func() {
		stdlib.AddStdlibPkg("c01x", "C01 monitor functions")
		stdlib.AddStdlibFunc("c01x", "fire", xFunc{"fire"})
		stdlib.AddStdlibFunc("c01x", "child", xFunc{"child"})
	})
	st := &ecalFires{fires: map[int]map[string]int{}, child: map[string][]interface{}{}, served: map[string]bool{}}
	for pi, ci := range childOf {
		ch := events[ci]
		st.child[fmt.Sprintf("%s|%d", events[pi].ChildVia, pi)] = []interface{}{ch.Name, strings.Join(ch.Kind, "."), ecalState(ch.State, ci)}
	}
	curEcal.mu.Lock()
	curEcal.f = st
	curEcal.mu.Unlock()
	defer func() {
		curEcal.mu.Lock()
		curEcal.f = nil
		curEcal.mu.Unlock()
	}()
	erp := interpreter.NewECALRuntimeProvider("c01", nil, util.NewMemoryLogger(10))
	defer func() { go erp.Cron.Stop() }()
	erp.Processor.SetFailOnFirstErrorInTriggerSequence(false)
	vs := scope.NewScope(scope.GlobalScope)
	evalSrc := func(text string) (interface{}, error, bool) {
		var res interface{}
		var err error
		key, msg, panicked := core.Guard(func() {
			var ast *parser.ASTNode
			if ast, err = parser.ParseWithRuntime("c01", text, erp); err != nil {
				return
			}
			if err = ast.Runtime.Validate(); err != nil {
				return
			}
			res, err = ast.Runtime.Eval(vs, make(map[string]interface{}), erp.NewThreadID())
		})
		if panicked {
			report(c, key, "panic while running an ECAL program of sinks and events", stream, idx, map[string]interface{}{"program": src, "statement": text, "panic": trunc(msg, 1500)})
		}
		return res, err, panicked
	}
	if _, err, panicked := evalSrc(src); err != nil || panicked {
		if err != nil {
			c.Inconclusive("generated sink program was rejected: "+err.Error(), stream, idx, map[string]interface{}{"program": src})
		}
		return
	}
	erp.Processor.ThreadPool().SetWorkerCount(cs.Workers, false)
	erp.Processor.Start()
	defer erp.Processor.Finish()
	nontrivial := false
	for i, e := range events {
		if _, isChild := func() (int, bool) {
			for _, ci := range childOf {
				if ci == i {
					return ci, true
				}
			}
			return 0, false
		}(); isChild {
			continue
		}
		call := fmt.Sprintf("addEventAndWait(%s, %s, %s", strconv.Quote(e.Name), strconv.Quote(strings.Join(e.Kind, ".")), ecalLit(ecalState(e.State, i)))
		var sc map[string]bool
		if e.Scope >= 0 {
			sc = cs.Scopes[e.Scope]
			call += ", " + ecalLit(sc)
		} else {
			sc = globalScope
		}
		call += ")"
		res, err, panicked := evalSrc(call)
		if panicked {
			return
		}
		if err != nil {
			report(c, "diff:ecal-addevent-error", "addEventAndWait returned an error: "+err.Error(), stream, idx, map[string]interface{}{"program": src, "statement": call})
			return
		}
		if l, ok := res.([]interface{}); ok && len(l) > 0 {
			report(c, "diff:ecal-sink-errors", "addEventAndWait reported sink errors although no sink fails", stream, idx, map[string]interface{}{"program": src, "statement": call, "errors": fmt.Sprint(res)})
			return
		}
		judge := func(ei int, what string) bool {
			ex := m.fireSet(events[ei], sc, 0, false, false)
			want := map[string]int{}
			for ri, n := range ex.fires {
				want[cs.Rules[ri].Name] = n
			}
			st.mu.Lock()
			got := map[string]int{}
			for k, v := range st.fires[ei] {
				got[k] = v
			}
			st.mu.Unlock()
			if fmt.Sprint(want) != fmt.Sprint(got) {
				cat := "diff:ecal-extra-fire"
				for k, v := range want {
					if got[k] < v {
						cat = "diff:ecal-missing-fire"
					}
				}
				report(c, cat, "sinks executed for an event sent from ECAL differ from the reference fire set ("+what+")", stream, idx,
					map[string]interface{}{"program": src, "statement": call, "event": descEvent(events[ei], cs.Scopes), "cascade_scope": sc, "expected": fmt.Sprint(want), "observed": fmt.Sprint(got)})
				return false
			}
			if len(want) > 0 {
				nontrivial = true
			}
			c.Event("ecal.events.judged", 1)
			return true
		}
		if !judge(i, "root event") {
			return
		}
		if ci, has := childOf[i]; has {
			// the child is added with addEvent (no wait): let the pool drain
			erp.Processor.ThreadPool().WaitAll()
			via := events[i].ChildVia
			st.mu.Lock()
			added := st.served[fmt.Sprintf("%s|%d", via, i)]
			st.mu.Unlock()
			if added {
				c.Event("ecal.child-events", 1)
				if !judge(ci, "child event added from a sink, inherits the cascade scope") {
					return
				}
			}
		}
	}
	c.Event("ecal.cases", 1)
	if nontrivial {
		c.Nontrivial(core.Hash64("ecal|" + src))
	}
}

func runEcal(c *core.Ctx) {
	n := c.Pick(1600, 60000)
	for i := 0; i < n; i++ {
		if c.Take("ecal", i) {
			runEcalCase(c, "ecal", i)
		}
	}
}
