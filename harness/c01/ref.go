package c01

// Reference model of property C01, written from the property statement only.
// Nothing here calls into github.com/krotik/ecal.

import (
	"fmt"
	"reflect"
	"regexp"
	"sort"
	"strings"
)

// ruleSpec is the harness' own description of a rule.
type ruleSpec struct {
	Name     string
	Kinds    []string               // kind patterns in dot notation
	Scope    []string               // required scope paths
	State    map[string]interface{} // required state; only meaningful if HasState
	HasState bool
	Prio     int
	Supp     []string // names of rules suppressed by this rule (never its own name)
}

// eventSpec is the harness' own description of an event plus the scope of the
// cascade (root monitor) it is added with.
type eventSpec struct {
	Name  string
	Kind  []string
	State map[interface{}]interface{}
	Scope int // index into caseSpec.Scopes; -1 = nil scope (processor default: everything allowed)
	// cascade: the first execution of rule ChildVia for this event adds Child
	// with a child monitor (the child inherits the scope of the cascade)
	Child    *eventSpec
	ChildVia string
}

// step of a history: either one event or a reconfiguration (stop, add rules, start).
type step struct {
	Event    *eventSpec
	AddRules []ruleSpec
}

// known deviations of the implementation (DESIGN.md section 7, #1, #2, #3).
const (
	devCache = 1 << iota // trigger cache keyed by the event name
	devMulti             // a rule fires once per matching pattern entry
	devMask              // state rules beyond the 64th on one kind pattern are ignored
	devAll   = devCache | devMulti | devMask
)

var devNames = map[int]string{
	devCache: "dev:trigger-cache-by-name",
	devMulti: "dev:multi-pattern-fires-twice",
	devMask:  "dev:state-rules-beyond-64-ignored",
}

// kindMatches: same number of segments, each equal or `*`.
func kindMatches(pattern string, kind []string) bool {
	segs := strings.Split(pattern, ".")
	if len(segs) != len(kind) {
		return false
	}
	for i, s := range segs {
		if s != "*" && s != kind[i] {
			return false
		}
	}
	return true
}

// stateMatches: every required key present; nil matches any value; a regular
// expression matches the string form of the value; otherwise (deep) equality.
func stateMatches(req map[string]interface{}, st map[interface{}]interface{}) bool {
	for k, want := range req {
		got, ok := st[k]
		if !ok {
			return false
		}
		if want == nil {
			continue
		}
		if re, isRe := want.(*regexp.Regexp); isRe {
			if !re.MatchString(fmt.Sprint(got)) {
				return false
			}
			continue
		}
		if !reflect.DeepEqual(want, got) {
			return false
		}
	}
	return true
}

// scopeAllows: the most specific defined prefix of the path decides; nothing
// defined on the way means not allowed.
func scopeAllows(defs map[string]bool, path string) bool {
	var segs []string
	if path != "" {
		segs = strings.Split(path, ".")
	}
	for n := len(segs); n >= 0; n-- {
		if v, ok := defs[strings.Join(segs[:n], ".")]; ok {
			return v
		}
	}
	return false
}

func scopeAllowsAll(defs map[string]bool, paths []string) bool {
	for _, p := range paths {
		if !scopeAllows(defs, p) {
			return false
		}
	}
	return true
}

var globalScope = map[string]bool{"": true}

// model is the reference state for one rule set (it grows on reconfiguration).
type model struct {
	rules []ruleSpec
	// bookkeeping only needed to express the known deviations:
	leafPos  [][]int        // per rule, per pattern entry: position among the state rules of that pattern (-1: no state)
	leafSize map[string]int // pattern -> number of state rule entries
	cache    map[string]bool
}

func newModel() *model {
	return &model{leafSize: map[string]int{}, cache: map[string]bool{}}
}

func (m *model) addRule(r ruleSpec) {
	pos := make([]int, len(r.Kinds))
	for i, p := range r.Kinds {
		pos[i] = -1
		if r.HasState {
			pos[i] = m.leafSize[p]
			m.leafSize[p]++
		}
	}
	m.rules = append(m.rules, r)
	m.leafPos = append(m.leafPos, pos)
	m.cache = map[string]bool{} // a changed rule set may change every answer
}

// matchCount returns how many pattern entries of rule i match the event
// (0 = the rule does not match). With devMask entries beyond the 64th state
// rule of their pattern do not count.
func (m *model) matchCount(i int, kind []string, st map[interface{}]interface{}, dev int) int {
	r := &m.rules[i]
	n := 0
	stateOK := -1
	for pi, p := range r.Kinds {
		if !kindMatches(p, kind) {
			continue
		}
		if r.HasState {
			if stateOK < 0 {
				stateOK = 0
				if stateMatches(r.State, st) {
					stateOK = 1
				}
			}
			if stateOK == 0 {
				return 0
			}
			if dev&devMask != 0 && m.leafPos[i][pi] >= 64 {
				continue
			}
		}
		n++
	}
	return n
}

// kindTriggers: some pattern of some rule matches the kind (state ignored).
func (m *model) kindTriggers(kind []string) bool {
	for i := range m.rules {
		for _, p := range m.rules[i].Kinds {
			if kindMatches(p, kind) {
				return true
			}
		}
	}
	return false
}

// hangPredicted tells whether the known non-terminating collection loop would
// be entered: the 64th state rule entry of a pattern with >= 64 entries matches.
func (m *model) hangPredicted(kind []string, st map[interface{}]interface{}) bool {
	for i := range m.rules {
		r := &m.rules[i]
		if !r.HasState {
			continue
		}
		for pi, p := range r.Kinds {
			if m.leafPos[i][pi] == 63 && m.leafSize[p] >= 64 && kindMatches(p, kind) && stateMatches(r.State, st) {
				return true
			}
		}
	}
	return false
}

// matchSet: names of the rules that match kind and state (bare index view).
func (m *model) matchSet(kind []string, st map[interface{}]interface{}, dev int) map[string]bool {
	res := map[string]bool{}
	for i := range m.rules {
		if m.matchCount(i, kind, st, dev) > 0 {
			res[m.rules[i].Name] = true
		}
	}
	return res
}

// expectation for one event on a processor.
type expect struct {
	fires   map[int]int // rule index -> number of executions (absent = 0)
	skipped bool        // only meaningful for deviations: the event is expected to be skipped
}

// fireSet computes the expected executions of an event. dev == 0 is the
// property; other values add known deviations. cached/hasCached is the answer
// a name-keyed trigger cache would hold for this event's name.
func (m *model) fireSet(ev *eventSpec, scope map[string]bool, dev int, hasCached, cached bool) expect {
	ex := expect{fires: map[int]int{}}
	if dev&devCache != 0 && hasCached && !cached {
		ex.skipped = true
		return ex
	}
	type cand struct{ idx, n int }
	var cands []cand
	suppressed := map[string]int{} // name -> index of one suppressor (or -2 for several)
	for i := range m.rules {
		n := m.matchCount(i, ev.Kind, ev.State, dev)
		if n == 0 || !scopeAllowsAll(scope, m.rules[i].Scope) {
			continue
		}
		cands = append(cands, cand{i, n})
		for _, s := range m.rules[i].Supp {
			if prev, ok := suppressed[s]; ok && prev != i {
				suppressed[s] = -2
			} else {
				suppressed[s] = i
			}
		}
	}
	for _, cd := range cands {
		if by, ok := suppressed[m.rules[cd.idx].Name]; ok && by != cd.idx {
			continue // named in the suppression list of ANOTHER matching in-scope rule
		}
		if dev&devMulti != 0 {
			ex.fires[cd.idx] = cd.n
		} else {
			ex.fires[cd.idx] = 1
		}
	}
	return ex
}

func sameFires(a map[int]int, b map[int]int) bool {
	for k, v := range a {
		if v != 0 && b[k] != v {
			return false
		}
	}
	for k, v := range b {
		if v != 0 && a[k] != v {
			return false
		}
	}
	return true
}

func sortedNames(m map[string]bool) []string {
	var r []string
	for k := range m {
		r = append(r, k)
	}
	sort.Strings(r)
	return r
}

func popcount(x int) int {
	n := 0
	for ; x != 0; x &= x - 1 {
		n++
	}
	return n
}

// subsets of the deviation switches ordered by size (smallest explanation first).
var devSubsets = func() []int {
	var r []int
	for s := 1; s <= devAll; s++ {
		r = append(r, s)
	}
	sort.SliceStable(r, func(i, j int) bool { return popcount(r[i]) < popcount(r[j]) })
	return r
}()
