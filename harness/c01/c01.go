// Package c01 holds the runtime monitor for property C01: exactly the
// matching, in-scope, unsuppressed rules fire once per event (DESIGN.md 4).
//
// Files: ref.go (reference matcher written from the statement, with the known
// deviations as switches), gen.go (exhaustive universes and random
// generators), exec.go (execution on engine.NewRuleIndex / engine.NewProcessor
// and the comparison).
package c01

import (
	"fmt"
	"os"
	"runtime/pprof"
	"time"

	"github.com/krotik/ecal/engine"

	"verif/harness/core"
)

func init() { core.Register("C01", Run) }

const ruleNote = "Every case builds a fresh engine.NewRuleIndex() or engine.NewProcessor(w) from a generated rule set; each rule action is a harness closure counting per (event object, rule). " +
	"Oracle: reference matcher written from the statement (kind: same number of segments, each equal or *; some pattern of the rule matches; state: every key present, nil = any, regexp on the string form, else (deep) equal; " +
	"scope: most specific defined prefix of every required path, nothing defined = not allowed; fire set = matching in-scope rules minus those named by ANOTHER such rule; each exactly once; fire set non-empty => monitor not nil; " +
	"on the bare index: Match as a set equals the reference match set, and Match non-empty or reference non-empty => IsTriggering). " +
	"Streams: ex-kind (bare index; ALL sets of <=2 rules quick / <=3 rules thorough over 24 kind-match options [12 patterns of depth<=2 over {a,b,*} + 12 duplicate/overlapping/disjoint pairs inside one rule] x statematch {none,{k:nil},{k:1}}, each against ALL 120 events = kinds of depth 0..3 over {a,b,c} x state {{},{k:1},{k:x}}; quick adds a seeded sample of the 3-rule sets); " +
	"ex-state (bare index; ALL sets of <=3 rules on kind a over 26 statematch options = none + {k,l} x {absent,nil,1,\"x\",/^x/}, each against ALL 16 event states {k,l} x {absent,nil,1,\"x\"} + 2 other kinds); " +
	"ex-cache (processor; ALL sets of <=2 rules over 6 kind-match options x statematch {none,{k:1}} x ALL histories of 1 or 2 events over names {e,f} x kinds {a.b,c.d,a.c} (thorough: + a) x state {{},{k:1}}); " +
	"ex-scope (processor; ALL sets of 2 rules [3 rules: all in thorough, seeded sample in quick] over kindmatch {a.b,a.*,c.d} x scopematch {[],[s],[s.t],[s,u]} x suppression list = any subset of the other rules, x 6 cascade scopes {nil,{s+},{s+,s.t-},{''+,s-},{''-,s.t+},{}}; event a.b); " +
	"rand-index / rand-proc (seeded: 1-12 rules with 1-3 patterns of depth 1-4 incl. wildcards at every level, duplicate patterns, empty segments; optional block of up to 50 state rules on one pattern; regexps; scope requirements; suppression lists; priorities; 1-30 events per history biased towards matching, names {e,f,g}; " +
	"event kinds with '*' segments or one dotted segment; non-string state keys; workers 1..8; AddEventAndWait one by one or a burst of AddEvent + ThreadPool.WaitAll; optional stop/AddRule/start in mid-history; every fifth event lets one matching rule add a child event through a child monitor from inside its action, the child is judged with the scope of its cascade); " +
	"unhashable-index / unhashable-proc (list and map values on both sides); mask64 (60-140 state rules on one kind pattern, events aimed at rule numbers around 64 and 128, bare index and processor, run last in their own child processes because the known defect there does not terminate). " +
	"ecal (the same random rule sets and histories written as an ECAL program: rules as sink declarations with kindmatch/scopematch/statematch/priority/suppresses, root events sent by the built-in addEventAndWait(name, kind, state[, scope map]) and child events by addEvent from inside a sink; a Go function called in every sink body records (rule, event id); values restricted to what ECAL source can say); " +
	"Not generated (statement silent): a rule naming itself in its suppression list, numerically equal values of different Go types, NaN, regular expressions against list/map/float/bool values, regular expressions that could match a string form of nil, empty scope path requirements. " +
	"Non-trivial = distinct case (rule set x history / rule set x event list) in which at least one event has a non-empty reference fire (match) set."

// unhashableSafe probes whether list values can be used at all without a panic.
func unhashableSafe() bool {
	_, _, p1 := core.Guard(func() {
		ri := engine.NewRuleIndex()
		ri.AddRule(&engine.Rule{Name: "p", KindMatch: []string{"a"}, ScopeMatch: []string{}, StateMatch: map[string]interface{}{"k": 1}})
		ri.Match(engine.NewEvent("e", []string{"a"}, map[interface{}]interface{}{"k": []interface{}{1}}))
	})
	_, _, p2 := core.Guard(func() {
		ri := engine.NewRuleIndex()
		ri.AddRule(&engine.Rule{Name: "p", KindMatch: []string{"a"}, ScopeMatch: []string{}, StateMatch: map[string]interface{}{"k": []interface{}{1}}})
		ri.Match(engine.NewEvent("e", []string{"a"}, map[interface{}]interface{}{"k": []interface{}{1}}))
	})
	return !p1 && !p2
}

// maxLeaf: largest number of state rule entries on one kind pattern.
func maxLeaf(rules []ruleSpec) int {
	cnt := map[string]int{}
	mx := 0
	for _, r := range rules {
		if !r.HasState {
			continue
		}
		for _, p := range r.Kinds {
			cnt[p]++
			if cnt[p] > mx {
				mx = cnt[p]
			}
		}
	}
	return mx
}

func allRules(cs *caseSpec) []ruleSpec {
	all := append([]ruleSpec{}, cs.Rules...)
	for _, s := range cs.Hist {
		all = append(all, s.AddRules...)
	}
	return all
}

// procCaseRun wraps runProc with the progress slot and the evidence bookkeeping.
func procCaseRun(c *core.Ctx, stream string, idx int, cs *caseSpec, sampleClass string) {
	c.Begin(0, stream, idx, caseText(cs))
	runProc(c, stream, idx, cs)
	c.End(0)
	if sampleClass != "" {
		c.Sample(sampleClass, map[string]interface{}{"stream": stream, "idx": idx, "case": trunc(caseText(cs), 1500)})
	}
}

// Run is the check.
func Run(c *core.Ctx) {
	c.Note("rule", ruleNote)
	c.Note("exhaustive", "true")
	if f := os.Getenv("VH_C01_PROF"); f != "" { // developer aid only
		if fh, err := os.Create(f); err == nil {
			pprof.StartCPUProfile(fh)
			defer pprof.StopCPUProfile()
		}
	}
	part := os.Getenv("VH_C01_PART")
	if c.Replay() {
		part = ""
	}
	if part == "" || part == "main" {
		t0 := time.Now()
		lap := func(what string) {
			if os.Getenv("VH_C01_TIMING") != "" {
				fmt.Fprintf(os.Stderr, "timing %s %.2fs\n", what, time.Since(t0).Seconds())
			}
			t0 = time.Now()
		}
		runExhaustiveIndex(c)
		lap("ex-index")
		runExhaustiveProc(c)
		lap("ex-proc")
		runRandom(c)
		lap("random")
		runConc(c)
		lap("conc")
		runEcal(c)
		lap("ecal")
	}
	if part == "" || part == "hazard" {
		runHazard(c)
	}
}

func runExhaustiveIndex(c *core.Ctx) {
	// ---- ex-kind: sets of 1, 2 (and 3) rules
	no := nRuleOptsKind()
	n1, n2, n3 := no, no*no, no*no*no
	total := n1 + n2
	if !c.Quick() {
		total += n3
	}
	mk := func(i int) []ruleSpec {
		var opts []int
		switch {
		case i < n1:
			opts = []int{i}
		case i < n1+n2:
			opts = decodeSet(i-n1, 2, no)
		default:
			opts = decodeSet(i-n1-n2, 3, no)
		}
		var rs []ruleSpec
		for k, o := range opts {
			rs = append(rs, exKindRule(o, fmt.Sprintf("r%d", k)))
		}
		return rs
	}
	for i := 0; i < total; i++ {
		if !c.Take("ex-kind", i) {
			continue
		}
		rs := mk(i)
		if runIndex(c, "ex-kind", i, 0, rs, exKindEvents, false) > 0 {
			c.Nontrivial(core.Hash64(fmt.Sprintf("ex-kind|%d", i)))
		}
		c.AddEvals(len(exKindEvents) - 1)
		if i%40009 == 77 {
			c.Sample("ex-kind", map[string]interface{}{"rules": descRules(rs), "events": "all 120 events of the universe"})
		}
	}
	if c.Quick() {
		ns := 12000
		for i := 0; i < ns; i++ {
			if !c.Take("ex-kind3-sample", i) {
				continue
			}
			j := n1 + n2 + c.Rng("ex-kind3-sample", i).Intn(n3)
			if runIndex(c, "ex-kind3-sample", i, 0, mk(j), exKindEvents, false) > 0 {
				c.Nontrivial(core.Hash64(fmt.Sprintf("ex-kind|%d", j)))
			}
			c.AddEvals(len(exKindEvents) - 1)
		}
	}
	// ---- ex-state: sets of 1..3 rules on kind a
	so := len(stateOptionsFull)
	total = so + so*so + so*so*so
	for i := 0; i < total; i++ {
		if !c.Take("ex-state", i) {
			continue
		}
		var opts []int
		switch {
		case i < so:
			opts = []int{i}
		case i < so+so*so:
			opts = decodeSet(i-so, 2, so)
		default:
			opts = decodeSet(i-so-so*so, 3, so)
		}
		var rs []ruleSpec
		for k, o := range opts {
			s := stateOptionsFull[o]
			rs = append(rs, ruleSpec{Name: fmt.Sprintf("r%d", k), Kinds: []string{"a"}, Scope: []string{}, State: s.m, HasState: s.has})
		}
		if runIndex(c, "ex-state", i, 0, rs, exStateEvents, false) > 0 {
			c.Nontrivial(core.Hash64(fmt.Sprintf("ex-state|%d", i)))
		}
		c.AddEvals(len(exStateEvents) - 1)
		if i%5003 == 4000 {
			c.Sample("ex-state", map[string]interface{}{"rules": descRules(rs), "events": "all 18 events of the universe"})
		}
	}
}

func runExhaustiveProc(c *core.Ctx) {
	cev := cacheEventsFull
	if c.Quick() {
		cev = cacheEventsQuick
	}
	total := nCacheSets() * nCacheHists(cev)
	for i := 0; i < total; i++ {
		if !c.Take("ex-cache", i) {
			continue
		}
		sc := ""
		if i%9973 == 5000 {
			sc = "ex-cache"
		}
		procCaseRun(c, "ex-cache", i, exCacheCase(i, cev), sc)
	}
	total = nScopeCases(2)
	for i := 0; i < total; i++ {
		if !c.Take("ex-scope2", i) {
			continue
		}
		sc := ""
		if i%1201 == 600 {
			sc = "ex-scope"
		}
		procCaseRun(c, "ex-scope2", i, exScopeCase(2, i), sc)
	}
	total = nScopeCases(3)
	if c.Quick() {
		ns := 6000
		for i := 0; i < ns; i++ {
			if !c.Take("ex-scope3-sample", i) {
				continue
			}
			j := c.Rng("ex-scope3-sample", i).Intn(total)
			procCaseRun(c, "ex-scope3-sample", i, exScopeCase(3, j), "")
		}
	} else {
		for i := 0; i < total; i++ {
			if !c.Take("ex-scope3", i) {
				continue
			}
			procCaseRun(c, "ex-scope3", i, exScopeCase(3, i), "")
		}
	}
}

func randOpts(r *core.Rand, unhashable bool) *genOpts {
	o := &genOpts{maxRules: 12, maxDepth: 4, unhashable: unhashable}
	if r.Chance(1, 3) {
		o.maxRules = 4
	}
	if r.Chance(1, 6) {
		o.bigLeaf = r.Range(20, 50)
	}
	return o
}

func runRandom(c *core.Ctx) {
	n := c.Pick(20000, 400000)
	for i := 0; i < n; i++ {
		if !c.Take("rand-index", i) {
			continue
		}
		r := c.Rng("rand-index", i)
		rules, evs := randIndexCase(r, randOpts(r, false))
		if maxLeaf(rules) >= 64 {
			c.Event("generator.dropped.leaf>=64", 1)
			continue
		}
		if runIndex(c, "rand-index", i, 0, rules, evs, false) > 0 {
			c.Nontrivial(core.Hash64(fmt.Sprintf("rand-index|%d", i)))
		}
		c.AddEvals(len(evs) - 1)
		if i%7001 == 13 {
			c.Sample("rand-index", map[string]interface{}{"rules": descRules(rules), "first_event": descEvent(&evs[0], nil), "events": len(evs)})
		}
	}
	n = c.Pick(5000, 120000)
	for i := 0; i < n; i++ {
		if !c.Take("rand-proc", i) {
			continue
		}
		r := c.Rng("rand-proc", i)
		cs := randProcCase(r, randOpts(r, false), true)
		if maxLeaf(allRules(cs)) >= 64 {
			c.Event("generator.dropped.leaf>=64", 1)
			continue
		}
		sc := ""
		if i%2003 == 11 {
			sc = "rand-proc"
		}
		procCaseRun(c, "rand-proc", i, cs, sc)
	}
	n = c.Pick(1500, 30000)
	for i := 0; i < n; i++ {
		if !c.Take("unhashable-index", i) {
			continue
		}
		r := c.Rng("unhashable-index", i)
		o := &genOpts{maxRules: 5, maxDepth: 2, unhashable: true, noRuleList: i%2 == 0}
		rules, evs := randIndexCase(r, o)
		if dr, de, ok := designedUnhashable(i); ok {
			rules, evs = dr, de
		}
		if runIndex(c, "unhashable-index", i, 0, rules, evs, false) > 0 {
			c.Nontrivial(core.Hash64(fmt.Sprintf("unhashable-index|%d", i)))
		}
		c.AddEvals(len(evs) - 1)
		if i%501 == 3 {
			c.Sample("unhashable-index", map[string]interface{}{"rules": descRules(rules), "first_event": descEvent(&evs[0], nil), "events": len(evs)})
		}
	}
}

// runHazard holds the cases that can take the process down or never return on
// a tree with the known defects #3 / #4; they run in their own children, last.
func runHazard(c *core.Ctx) {
	safe := unhashableSafe()
	if safe {
		c.Event("probe.unhashable.safe", 1)
	} else {
		c.Event("probe.unhashable.panics", 1)
	}
	n := c.Pick(400, 8000)
	for i := 0; i < n; i++ {
		if !safe && i >= 32 {
			// every such case kills its child process; a handful is enough to name the defect
			break
		}
		if !c.Take("unhashable-proc", i) {
			continue
		}
		r := c.Rng("unhashable-proc", i)
		o := &genOpts{maxRules: 5, maxDepth: 2, unhashable: true, noRuleList: i%2 == 0}
		cs := randProcCase(r, o, false)
		if len(cs.Hist) > 8 {
			cs.Hist = cs.Hist[:8]
		}
		if dr, de, ok := designedUnhashable(i); ok {
			cs = &caseSpec{Rules: dr, Workers: 1 + i%2}
			for k := range de {
				cs.Hist = append(cs.Hist, step{Event: &de[k]})
			}
		}
		sc := ""
		if i%97 == 5 {
			sc = "unhashable-proc"
		}
		procCaseRun(c, "unhashable-proc", i, cs, sc)
	}
	n = c.Pick(16, 64)
	for i := 0; i < n; i++ {
		if !c.Take("mask64", i) {
			continue
		}
		runMask64(c, i)
	}
}

// runMask64: one case with 60..140 state rules on one kind pattern.
func runMask64(c *core.Ctx, i int) {
	r := c.Rng("mask64", i)
	type design struct {
		proc   bool
		n      int
		events []int // value of k selecting rule number k+1
	}
	designed := map[int]design{
		0:  {false, 63, []int{0, 62, 31}},
		1:  {false, 64, []int{63}}, // hang candidate (calling goroutine)
		2:  {false, 64, []int{0, 62}},
		3:  {false, 65, []int{64}},
		4:  {false, 70, []int{64, 69, 66}},
		5:  {true, 65, []int{64}},
		6:  {true, 64, []int{0, 63}}, // hang candidate (worker)
		7:  {true, 63, []int{62, 0}},
		12: {false, 65, []int{63}}, // hang candidate, thorough only
		13: {true, 70, []int{69, 63}},
	}
	pattern := "a.b"
	d, isDesigned := designed[i]
	if !isDesigned {
		d = design{proc: r.Bool(), n: r.Range(60, 140)}
		ne := r.Range(1, 4)
		bounds := []int{62, 63, 64, 65, 126, 127, 128, 129}
		for k := 0; k < ne; k++ {
			v := r.Intn(d.n)
			if r.Bool() {
				if b := bounds[r.Intn(len(bounds))]; b < d.n {
					v = b
				}
			}
			d.events = append(d.events, v)
		}
		pattern = randPattern(r, r.Range(1, 3))
	}
	rules := bigLeafRules(r, d.n, pattern, "s")
	if !isDesigned && r.Bool() {
		rules = append(rules, ruleSpec{Name: "plain", Kinds: []string{pattern}, Scope: []string{}})
	}
	base := ruleSpec{Kinds: []string{pattern}}
	o := &genOpts{maxDepth: 3}
	var evs []eventSpec
	for _, k := range d.events {
		ev := randEvent(core.NewRand(uint64(i*1000+k)), o, []ruleSpec{base}, nil, 0)
		ev.State = map[interface{}]interface{}{"k": k, "l": "x"}
		// make the kind match the pattern exactly
		ev.Kind = nil
		for _, s := range splitPattern(pattern) {
			if s == "*" {
				s = "c"
			}
			ev.Kind = append(ev.Kind, s)
		}
		ev.Name = fmt.Sprintf("e%d", k)
		evs = append(evs, ev)
	}
	c.Sample("mask64", map[string]interface{}{"idx": i, "processor": d.proc, "state_rules_on_pattern": d.n, "pattern": pattern, "events_select_rule_number": d.events})
	if !d.proc {
		if runIndex(c, "mask64", i, 0, rules, evs, true) > 0 {
			c.Nontrivial(core.Hash64(fmt.Sprintf("mask64|%d", i)))
		}
		return
	}
	cs := &caseSpec{Rules: rules, Workers: r.Range(1, 3), NoNudge: true}
	for k := range evs {
		cs.Hist = append(cs.Hist, step{Event: &evs[k]})
	}
	m := newModel()
	for _, rl := range rules {
		m.addRule(rl)
	}
	pred := false
	for _, e := range evs {
		pred = pred || m.hangPredicted(e.Kind, e.State)
	}
	c.Begin(0, "mask64", i, fmt.Sprintf("processor, %d state rules {k:i} on pattern %s, events select rule numbers %v (+1), hang predicted by the known 64-rule defect: %v", d.n, pattern, d.events, pred))
	runProc(c, "mask64", i, cs)
	c.End(0)
}
