// Package c01 holds the runtime monitors for property C01 (see DESIGN.md section 4).
package c01

import "verif/harness/core"

func init() { core.Register("C01", Run) }

// Run is the check.
func Run(c *core.Ctx) {
}
