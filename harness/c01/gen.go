package c01

// Generators: exhaustive small universes and seeded random cases.

import (
	"fmt"
	"regexp"
	"strings"

	"verif/harness/core"
)

// ---------------------------------------------------------------- exhaustive: kinds

var segsRule = []string{"a", "b", "*"}
var segsEvent = []string{"a", "b", "c"}

// all patterns of depth 1..2 over {a,b,*}
var patterns12 = func() []string {
	var r []string
	for _, x := range segsRule {
		r = append(r, x)
	}
	for _, x := range segsRule {
		for _, y := range segsRule {
			r = append(r, x+"."+y)
		}
	}
	return r
}()

// kind-match options of one rule: every single pattern plus pairs with
// duplicate / overlapping / disjoint / different-depth patterns inside one rule.
var kindOptions = func() [][]string {
	var r [][]string
	for _, p := range patterns12 {
		r = append(r, []string{p})
	}
	r = append(r,
		[]string{"a.b", "a.b"}, []string{"a.*", "a.b"}, []string{"a.b", "a.*"}, []string{"*.*", "a.b"},
		[]string{"*.b", "a.*"}, []string{"*", "a"}, []string{"a", "a"}, []string{"*.*", "*.*"},
		[]string{"a.b", "b.a"}, []string{"a", "a.b"}, []string{"*", "*.*"}, []string{"b.*", "*.a"})
	return r
}()

type stateOpt struct {
	has bool
	m   map[string]interface{}
}

var stateOptions3 = []stateOpt{{false, nil}, {true, map[string]interface{}{"k": nil}}, {true, map[string]interface{}{"k": 1}}}

// event kinds of depth 0..3 over {a,b,c}
var eventKinds03 = func() [][]string {
	r := [][]string{{}}
	for _, x := range segsEvent {
		r = append(r, []string{x})
	}
	for _, x := range segsEvent {
		for _, y := range segsEvent {
			r = append(r, []string{x, y})
		}
	}
	for _, x := range segsEvent {
		for _, y := range segsEvent {
			for _, z := range segsEvent {
				r = append(r, []string{x, y, z})
			}
		}
	}
	return r
}()

var eventStates3 = []map[interface{}]interface{}{{}, {"k": 1}, {"k": "x"}}

var exKindEvents = func() []eventSpec {
	var r []eventSpec
	for _, k := range eventKinds03 {
		for _, s := range eventStates3 {
			r = append(r, eventSpec{Name: "e", Kind: k, State: s, Scope: -1})
		}
	}
	return r
}()

func nRuleOptsKind() int { return len(kindOptions) * len(stateOptions3) }

func exKindRule(opt int, name string) ruleSpec {
	k := kindOptions[opt%len(kindOptions)]
	s := stateOptions3[opt/len(kindOptions)]
	return ruleSpec{Name: name, Kinds: k, Scope: []string{}, State: s.m, HasState: s.has}
}

// decodeSet turns an index into a tuple of n digits in base b.
func decodeSet(i, n, b int) []int {
	r := make([]int, n)
	for k := 0; k < n; k++ {
		r[k] = i % b
		i /= b
	}
	return r
}

func pow(b, n int) int {
	r := 1
	for i := 0; i < n; i++ {
		r *= b
	}
	return r
}

// ---------------------------------------------------------------- exhaustive: state

var reX = regexp.MustCompile("^x")

// rule side values per key: absent, nil, 1, "x", /^x/
var ruleVals = []interface{}{nil, 1, "x", reX}

// stateOptionsFull: no state match at all + every combination over keys k, l.
var stateOptionsFull = func() []stateOpt {
	r := []stateOpt{{false, nil}}
	for i := 0; i <= len(ruleVals); i++ {
		for j := 0; j <= len(ruleVals); j++ {
			m := map[string]interface{}{}
			if i > 0 {
				m["k"] = ruleVals[i-1]
			}
			if j > 0 {
				m["l"] = ruleVals[j-1]
			}
			r = append(r, stateOpt{true, m})
		}
	}
	return r
}()

// event side values per key: absent, nil, 1, "x"
var eventVals = []interface{}{nil, 1, "x"}

var exStateEvents = func() []eventSpec {
	var r []eventSpec
	for i := 0; i <= len(eventVals); i++ {
		for j := 0; j <= len(eventVals); j++ {
			m := map[interface{}]interface{}{}
			if i > 0 {
				m["k"] = eventVals[i-1]
			}
			if j > 0 {
				m["l"] = eventVals[j-1]
			}
			r = append(r, eventSpec{Name: "e", Kind: []string{"a"}, State: m, Scope: -1})
		}
	}
	r = append(r, eventSpec{Name: "e", Kind: []string{"b"}, State: map[interface{}]interface{}{"k": 1, "l": "x"}, Scope: -1})
	r = append(r, eventSpec{Name: "e", Kind: []string{"a", "a"}, State: map[interface{}]interface{}{"k": 1, "l": "x"}, Scope: -1})
	return r
}()

// ---------------------------------------------------------------- exhaustive: trigger cache histories

var cacheKindOpts = [][]string{{"a.b"}, {"a.*"}, {"a.*", "a.b"}, {"c.d"}, {"*.*"}, {"a.b", "a.b"}}
var cacheStateOpts = []stateOpt{{false, nil}, {true, map[string]interface{}{"k": 1}}}

func mkCacheEvents(kinds [][]string) []eventSpec {
	var r []eventSpec
	for _, n := range []string{"e", "f"} {
		for _, k := range kinds {
			for _, s := range []map[interface{}]interface{}{{}, {"k": 1}} {
				r = append(r, eventSpec{Name: n, Kind: k, State: s, Scope: -1})
			}
		}
	}
	return r
}

// quick: 3 kinds (12 events), thorough: 4 kinds (16 events)
var cacheEventsQuick = mkCacheEvents([][]string{{"a", "b"}, {"c", "d"}, {"a", "c"}})
var cacheEventsFull = mkCacheEvents([][]string{{"a", "b"}, {"c", "d"}, {"a", "c"}, {"a"}})

func nCacheRuleOpts() int { return len(cacheKindOpts) * len(cacheStateOpts) }

func nCacheSets() int { n := nCacheRuleOpts(); return n + n*n }

func nCacheHists(cacheEvents []eventSpec) int { n := len(cacheEvents); return n + n*n }

func exCacheCase(idx int, cacheEvents []eventSpec) *caseSpec {
	nh := nCacheHists(cacheEvents)
	si, hi := idx/nh, idx%nh
	no := nCacheRuleOpts()
	var opts []int
	if si < no {
		opts = []int{si}
	} else {
		opts = decodeSet(si-no, 2, no)
	}
	cs := &caseSpec{Workers: 1 + idx%3, Burst: (idx/3)%2 == 1}
	for i, o := range opts {
		s := cacheStateOpts[o/len(cacheKindOpts)]
		cs.Rules = append(cs.Rules, ruleSpec{Name: fmt.Sprintf("r%d", i), Kinds: cacheKindOpts[o%len(cacheKindOpts)],
			Scope: []string{}, State: s.m, HasState: s.has})
	}
	ne := len(cacheEvents)
	var evs []int
	if hi < ne {
		evs = []int{hi}
	} else {
		evs = decodeSet(hi-ne, 2, ne)
	}
	for _, e := range evs {
		ev := cacheEvents[e]
		cs.Hist = append(cs.Hist, step{Event: &ev})
	}
	return cs
}

// ---------------------------------------------------------------- exhaustive: scope x suppression

var scopeKindOpts = [][]string{{"a.b"}, {"a.*"}, {"c.d"}}
var scopeReqOpts = [][]string{{}, {"s"}, {"s.t"}, {"s", "u"}}
var cascadeScopes = []map[string]bool{
	nil, // stands for: nil scope handed to NewRootMonitor (processor default)
	{"s": true},
	{"s": true, "s.t": false},
	{"": true, "s": false},
	{"": false, "s.t": true},
	{},
}

// number of rule options for a set of n rules (suppression list: subset of the others)
func nScopeRuleOpts(n int) int { return len(scopeKindOpts) * len(scopeReqOpts) * pow(2, n-1) }

func nScopeCases(n int) int { return pow(nScopeRuleOpts(n), n) * len(cascadeScopes) }

func exScopeCase(n, idx int) *caseSpec {
	sc := idx % len(cascadeScopes)
	opts := decodeSet(idx/len(cascadeScopes), n, nScopeRuleOpts(n))
	cs := &caseSpec{Workers: 1 + idx%2, Burst: false, Scopes: cascadeScopes}
	for i, o := range opts {
		k := scopeKindOpts[o%len(scopeKindOpts)]
		o /= len(scopeKindOpts)
		rq := scopeReqOpts[o%len(scopeReqOpts)]
		o /= len(scopeReqOpts)
		var supp []string
		bit := 0
		for j := 0; j < n; j++ {
			if j == i {
				continue
			}
			if o&(1<<bit) != 0 {
				supp = append(supp, fmt.Sprintf("r%d", j))
			}
			bit++
		}
		cs.Rules = append(cs.Rules, ruleSpec{Name: fmt.Sprintf("r%d", i), Kinds: k, Scope: rq, Supp: supp, Prio: (i * 7) % 3})
	}
	ev := eventSpec{Name: "e", Kind: []string{"a", "b"}, State: map[interface{}]interface{}{}, Scope: sc}
	if cascadeScopes[sc] == nil {
		ev.Scope = -1
	}
	cs.Hist = []step{{Event: &ev}}
	return cs
}

// ---------------------------------------------------------------- random

var randSegs = []string{"a", "b", "c", "d"}
var randNames = []string{"e", "f", "g"}
var randKeys = []string{"k", "l", "m"}
var randScalars = []interface{}{1, 2, "x", "y", "1", 1.5, true, "xy"}
var randRegexes = []*regexp.Regexp{regexp.MustCompile("^x$"), regexp.MustCompile("^[0-9]+$"), regexp.MustCompile("x"),
	regexp.MustCompile("^y"), regexp.MustCompile("1")}
var randScopePaths = []string{"s", "s.t", "s.t.v", "u", "u.w"}

type genOpts struct {
	maxRules   int
	unhashable bool // allow list / map values
	noRuleList bool // ... but only on the event side
	bigLeaf    int  // > 0: that many state rules on one kind pattern (in addition)
	maxDepth   int
}

func randPattern(r *core.Rand, depth int) string {
	p := make([]string, depth)
	for i := range p {
		switch {
		case r.Chance(1, 3):
			p[i] = "*"
		case r.Chance(1, 40):
			p[i] = ""
		default:
			p[i] = randSegs[r.Intn(len(randSegs))]
		}
	}
	return strings.Join(p, ".")
}

func randList(r *core.Rand) interface{} {
	switch r.Intn(4) {
	case 0:
		return []interface{}{1, 2}
	case 1:
		return []interface{}{1}
	case 2:
		return map[interface{}]interface{}{"p": 1}
	}
	return map[interface{}]interface{}{"p": 1, "q": []interface{}{"x"}}
}

func randRuleValue(r *core.Rand, o *genOpts) interface{} {
	switch {
	case r.Chance(1, 4):
		return nil
	case r.Chance(1, 5):
		return randRegexes[r.Intn(len(randRegexes))]
	case o.unhashable && !o.noRuleList && r.Chance(1, 4):
		return randList(r)
	}
	return randScalars[r.Intn(len(randScalars))]
}

func randRule(r *core.Rand, o *genOpts, name string) ruleSpec {
	rs := ruleSpec{Name: name, Scope: []string{}, Prio: r.Intn(4)}
	np := 1
	if r.Chance(1, 3) {
		np = r.Range(2, 3)
	}
	depth := r.Range(1, o.maxDepth)
	for i := 0; i < np; i++ {
		if i > 0 && r.Chance(1, 3) {
			depth = r.Range(1, o.maxDepth)
		}
		if i > 0 && r.Chance(1, 5) {
			rs.Kinds = append(rs.Kinds, rs.Kinds[0]) // duplicate pattern
			continue
		}
		rs.Kinds = append(rs.Kinds, randPattern(r, depth))
	}
	if r.Chance(1, 2) {
		rs.HasState = true
		rs.State = map[string]interface{}{}
		for _, k := range randKeys {
			if r.Chance(1, 3) {
				rs.State[k] = randRuleValue(r, o)
			}
		}
	}
	if r.Chance(1, 3) {
		n := r.Range(1, 2)
		for i := 0; i < n; i++ {
			rs.Scope = append(rs.Scope, randScopePaths[r.Intn(len(randScopePaths))])
		}
	}
	return rs
}

func randScope(r *core.Rand) map[string]bool {
	m := map[string]bool{}
	if r.Chance(2, 3) {
		m[""] = r.Chance(3, 4)
	}
	n := r.Intn(4)
	for i := 0; i < n; i++ {
		m[randScopePaths[r.Intn(len(randScopePaths))]] = r.Bool()
	}
	return m
}

// regexKeys: state keys on which some rule carries a regular expression.
func regexKeys(rules []ruleSpec) map[string]bool {
	res := map[string]bool{}
	for _, r := range rules {
		for k, v := range r.State {
			if _, ok := v.(*regexp.Regexp); ok {
				res[k] = true
			}
		}
	}
	return res
}

// randEvent builds an event that is biased towards matching the rules.
func randEvent(r *core.Rand, o *genOpts, rules []ruleSpec, rk map[string]bool, nScopes int) eventSpec {
	ev := eventSpec{Name: randNames[r.Intn(len(randNames))], State: map[interface{}]interface{}{}, Scope: -1}
	if nScopes > 0 && r.Chance(3, 4) {
		ev.Scope = r.Intn(nScopes)
	}
	var base *ruleSpec
	if len(rules) > 0 && r.Chance(5, 6) {
		base = &rules[r.Intn(len(rules))]
	}
	if base != nil {
		p := strings.Split(base.Kinds[r.Intn(len(base.Kinds))], ".")
		for _, s := range p {
			if s == "*" || r.Chance(1, 12) {
				s = randSegs[r.Intn(len(randSegs))]
				if r.Chance(1, 30) {
					s = "*"
				}
			}
			ev.Kind = append(ev.Kind, s)
		}
		switch {
		case r.Chance(1, 12):
			ev.Kind = append(ev.Kind, randSegs[r.Intn(len(randSegs))])
		case r.Chance(1, 12) && len(ev.Kind) > 0:
			ev.Kind = ev.Kind[:len(ev.Kind)-1]
		case r.Chance(1, 40) && len(ev.Kind) > 1:
			ev.Kind = []string{strings.Join(ev.Kind, ".")} // one segment that contains dots
		}
	} else {
		n := r.Range(0, o.maxDepth+1)
		for i := 0; i < n; i++ {
			ev.Kind = append(ev.Kind, randSegs[r.Intn(len(randSegs))])
		}
	}
	if ev.Kind == nil {
		ev.Kind = []string{}
	}
	setVal := func(k string, v interface{}) {
		if rk[k] {
			// keys with a regular expression rule: only values whose string form is
			// unambiguous (strings, integers); nil is fine, no generated expression
			// matches any plausible string form of it
			switch v.(type) {
			case nil, int, string:
			default:
				v = "x"
			}
		}
		ev.State[k] = v
	}
	if base != nil && base.HasState {
		for k, v := range base.State {
			if r.Chance(1, 10) {
				continue // required key missing
			}
			switch x := v.(type) {
			case nil:
				if r.Chance(1, 4) {
					setVal(k, nil)
				} else {
					setVal(k, randScalars[r.Intn(len(randScalars))])
				}
			case *regexp.Regexp:
				cands := []interface{}{"x", "xy", "y", "yx", 1, 10, 21, "ax", ""}
				setVal(k, cands[r.Intn(len(cands))])
			default:
				if o.unhashable && r.Chance(1, 5) {
					setVal(k, randList(r))
				} else if r.Chance(1, 6) {
					setVal(k, randScalars[r.Intn(len(randScalars))])
				} else {
					setVal(k, copyVal(x))
				}
			}
		}
	}
	for _, k := range randKeys {
		if _, ok := ev.State[k]; !ok && r.Chance(1, 3) {
			switch {
			case r.Chance(1, 6):
				setVal(k, nil)
			case o.unhashable && r.Chance(1, 3):
				setVal(k, randList(r))
			default:
				setVal(k, randScalars[r.Intn(len(randScalars))])
			}
		}
	}
	if r.Chance(1, 8) {
		ev.State[7] = "noise" // non-string key
	}
	return ev
}

// copyVal makes a structurally equal but distinct list / map value.
func copyVal(v interface{}) interface{} {
	switch x := v.(type) {
	case []interface{}:
		r := make([]interface{}, len(x))
		for i := range x {
			r[i] = copyVal(x[i])
		}
		return r
	case map[interface{}]interface{}:
		r := map[interface{}]interface{}{}
		for k, e := range x {
			r[k] = copyVal(e)
		}
		return r
	}
	return v
}

// bigLeafRules: n state rules on one kind pattern; rule i requires k == i (so
// one event selects exactly one of them), some additionally use l.
func bigLeafRules(r *core.Rand, n int, pattern string, prefix string) []ruleSpec {
	var rs []ruleSpec
	for i := 0; i < n; i++ {
		st := map[string]interface{}{"k": i}
		if r.Chance(1, 6) {
			st["l"] = nil
		}
		rs = append(rs, ruleSpec{Name: fmt.Sprintf("%s%d", prefix, i), Kinds: []string{pattern}, Scope: []string{}, State: st, HasState: true})
	}
	return rs
}

func randRules(r *core.Rand, o *genOpts) []ruleSpec {
	n := r.Range(1, o.maxRules)
	var rules []ruleSpec
	for i := 0; i < n; i++ {
		rules = append(rules, randRule(r, o, fmt.Sprintf("r%d", i)))
	}
	if o.bigLeaf > 0 {
		rules = append(rules, bigLeafRules(r, o.bigLeaf, randPattern(r, r.Range(1, 2)), "s")...)
		// interleave so that leaf positions are not aligned with the rule order
		p := r.Perm(len(rules))
		sh := make([]ruleSpec, len(rules))
		for i, j := range p {
			sh[i] = rules[j]
		}
		rules = sh
	}
	// suppression lists (never a rule's own name)
	for i := range rules {
		if len(rules) > 1 && r.Chance(1, 4) {
			k := r.Range(1, 2)
			for ; k > 0; k-- {
				j := r.Intn(len(rules))
				if j != i {
					rules[i].Supp = append(rules[i].Supp, rules[j].Name)
				}
			}
		}
	}
	return rules
}

func randIndexCase(r *core.Rand, o *genOpts) ([]ruleSpec, []eventSpec) {
	rules := randRules(r, o)
	rk := regexKeys(rules)
	ne := r.Range(1, 30)
	var evs []eventSpec
	for i := 0; i < ne; i++ {
		evs = append(evs, randEvent(r, o, rules, rk, 0))
	}
	return rules, evs
}

func randProcCase(r *core.Rand, o *genOpts, allowReconf bool) *caseSpec {
	cs := &caseSpec{Workers: r.Range(1, 8), Burst: r.Chance(1, 3)}
	rules := randRules(r, o)
	ns := r.Range(1, 3)
	for i := 0; i < ns; i++ {
		cs.Scopes = append(cs.Scopes, randScope(r))
	}
	// optionally hold some rules back for a reconfiguration in mid-history
	var later []ruleSpec
	if allowReconf && len(rules) > 1 && r.Chance(1, 4) {
		k := r.Range(1, len(rules)-1)
		later = rules[k:]
		rules = rules[:k]
	}
	cs.Rules = rules
	all := append(append([]ruleSpec{}, rules...), later...)
	rk := regexKeys(all)
	ne := r.Range(1, 30)
	at := -1
	if later != nil {
		at = r.Intn(ne)
	}
	var prev *eventSpec
	for i := 0; i < ne; i++ {
		if i == at {
			cs.Hist = append(cs.Hist, step{AddRules: later})
		}
		ev := randEvent(r, o, all, rk, ns)
		// histories: same name / other kind and same kind / other name follow each other often
		if prev != nil && r.Chance(1, 3) {
			ev.Name = prev.Name
		}
		if prev != nil && r.Chance(1, 8) {
			ev.Kind = prev.Kind
		}
		e := ev
		if r.Chance(1, 5) {
			// cascade: a rule that matches kind and state of e adds a child event from its action
			var cands []string
			for _, rl := range all {
				if rl.HasState && !stateMatches(rl.State, e.State) {
					continue
				}
				for _, p := range rl.Kinds {
					if kindMatches(p, e.Kind) {
						cands = append(cands, rl.Name)
						break
					}
				}
			}
			if len(cands) > 0 {
				ch := randEvent(r, o, all, rk, 0)
				ch.Scope = e.Scope
				e.Child = &ch
				e.ChildVia = cands[r.Intn(len(cands))]
			}
		}
		cs.Hist = append(cs.Hist, step{Event: &e})
		prev = &e
	}
	return cs
}

func splitPattern(p string) []string { return strings.Split(p, ".") }

// designedUnhashable: the smallest list / map cases (first indices of the unhashable streams).
func designedUnhashable(i int) ([]ruleSpec, []eventSpec, bool) {
	l12 := func() interface{} { return []interface{}{1, 2} }
	mp := func() interface{} { return map[interface{}]interface{}{"p": 1} }
	ev := func(v interface{}) eventSpec {
		return eventSpec{Name: "e", Kind: []string{"a"}, State: map[interface{}]interface{}{"k": v}, Scope: -1}
	}
	rule := func(v interface{}) ruleSpec {
		return ruleSpec{Name: "r0", Kinds: []string{"a"}, Scope: []string{}, HasState: true, State: map[string]interface{}{"k": v}}
	}
	switch i {
	case 0: // list in the event state, scalar rule
		return []ruleSpec{rule(1)}, []eventSpec{ev(l12()), ev(1)}, true
	case 1: // list in the state match
		return []ruleSpec{rule(l12())}, []eventSpec{ev(l12()), ev([]interface{}{1}), ev(1)}, true
	case 2: // map in the event state, key-only rule
		return []ruleSpec{rule(nil)}, []eventSpec{ev(mp()), ev(1)}, true
	case 3: // map in the state match
		return []ruleSpec{rule(mp())}, []eventSpec{ev(mp()), ev(map[interface{}]interface{}{"p": 2})}, true
	}
	return nil, nil, false
}
