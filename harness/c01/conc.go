package c01

import (
	"fmt"
	"sort"
	"strings"
	"sync"
	"sync/atomic"

	"github.com/krotik/ecal/engine"

	"verif/harness/core"
)

// Stream "conc": the fire set of an event must not depend on what other
// events are matched at the same time. Rule sets with several state-less rules
// on overlapping wildcard / literal kind patterns (leaves of 1..16 rules) and
// state rules; (a) G goroutines call RuleIndex.Match concurrently and compare
// with the reference matcher, (b) bursts of events are processed on 2..16
// workers and every event's executed rules are compared with the reference.

type concRule struct {
	name  string
	kinds []string
	state map[string]interface{}
	prio  int
}

func genConcRules(r *core.Rand) []concRule {
	var rules []concRule
	segs := []string{"a", "b", "c", "d"}
	pat := func() string {
		n := r.Range(1, 3)
		p := make([]string, n)
		for i := range p {
			if r.Chance(1, 3) {
				p[i] = "*"
			} else {
				p[i] = segs[r.Intn(len(segs))]
			}
		}
		p[0] = "a" // keep the events dense on one sub-tree
		return strings.Join(p, ".")
	}
	// a few patterns that get MANY state-less rules (leaf sizes on both sides
	// of the slice growth steps 1,2,4,8,16)
	npat := r.Range(2, 5)
	id := 0
	for i := 0; i < npat; i++ {
		p := pat()
		k := r.OneOf(1, 2, 3, 3, 5, 6, 7, 9, 11, 15, 16)
		for j := 0; j < k; j++ {
			rules = append(rules, concRule{name: fmt.Sprintf("r%d", id), kinds: []string{p}, prio: r.Intn(3)})
			id++
		}
	}
	// plus single rules on other patterns, some with state
	for i := r.Range(2, 8); i > 0; i-- {
		cr := concRule{name: fmt.Sprintf("r%d", id), kinds: []string{pat()}, prio: r.Intn(3)}
		if r.Chance(1, 3) {
			cr.state = map[string]interface{}{"k": float64(r.Intn(3))}
		}
		rules = append(rules, cr)
		id++
	}
	return rules
}

func wildSpecific(r *core.Rand) ([]concRule, []concEvent) {
	var rules []concRule
	id := 0
	add := func(kind string, n int) {
		for j := 0; j < n; j++ {
			rules = append(rules, concRule{name: fmt.Sprintf("r%d", id), kinds: []string{kind}, prio: r.Intn(3)})
			id++
		}
	}
	add("a.*", r.OneOf(3, 5, 6, 7, 9, 10, 11, 13))
	if r.Chance(1, 3) {
		add("*.*", r.OneOf(1, 3, 5))
	}
	segs := []string{"b", "c", "d"}
	for _, sg := range segs {
		add("a."+sg, r.Range(1, 3))
	}
	evs := make([]concEvent, r.Range(120, 400))
	for i := range evs {
		evs[i] = concEvent{kind: []string{"a", segs[r.Intn(len(segs))]}, state: map[interface{}]interface{}{"i": float64(i)}}
	}
	return rules, evs
}

type concEvent struct {
	kind  []string
	state map[interface{}]interface{}
}

func genConcEvents(r *core.Rand, n int) []concEvent {
	segs := []string{"a", "b", "c", "d"}
	evs := make([]concEvent, n)
	for i := range evs {
		k := make([]string, r.Range(1, 3))
		for j := range k {
			k[j] = segs[r.Intn(len(segs))]
		}
		k[0] = "a"
		evs[i] = concEvent{kind: k, state: map[interface{}]interface{}{"k": float64(r.Intn(3)), "i": float64(i)}}
	}
	return evs
}

// refFire: kind pattern match (same number of segments, equal or '*'), state
// pattern (key present and equal), default scope, no suppression.
func refFire(rules []concRule, e concEvent) []string {
	var out []string
	for _, ru := range rules {
		m := false
		for _, p := range ru.kinds {
			ps := strings.Split(p, ".")
			if len(ps) != len(e.kind) {
				continue
			}
			ok := true
			for i := range ps {
				if ps[i] != "*" && ps[i] != e.kind[i] {
					ok = false
				}
			}
			if ok {
				m = true
			}
		}
		if !m {
			continue
		}
		for k, v := range ru.state {
			if ev, ok := e.state[k]; !ok || ev != v {
				m = false
			}
		}
		if m {
			out = append(out, ru.name)
		}
	}
	sort.Strings(out)
	return out
}

func mkRule(ru concRule, action engine.RuleAction) *engine.Rule {
	return &engine.Rule{Name: ru.name, Desc: "c01 conc", KindMatch: ru.kinds, ScopeMatch: []string{},
		StateMatch: ru.state, Priority: ru.prio, SuppressionList: nil, Action: action}
}

func runConc(c *core.Ctx) {
	const stream = "conc"
	n := c.Pick(400, 8000)
	for idx := 0; idx < n; idx++ {
		if !c.Take(stream, idx) {
			continue
		}
		r := c.Rng(stream, idx)
		rules := genConcRules(r)
		events := genConcEvents(r, r.Range(40, 160))
		if idx%4 >= 2 {
			// the layout of an ordinary program: several sinks on a wildcard kind
			// (3, 5..7, 9.. of them: slice lengths with spare capacity behind them)
			// next to sinks on the specific kinds below the same prefix; the
			// events alternate between the specific kinds
			rules, events = wildSpecific(r)
		}
		desc := func() map[string]interface{} {
			var rs []string
			for _, ru := range rules {
				rs = append(rs, fmt.Sprintf("%s:%v%v", ru.name, ru.kinds, ru.state))
			}
			return map[string]interface{}{"rules": rs, "events": len(events)}
		}
		c.Begin(0, stream, idx, fmt.Sprint(desc()))
		if idx%2 == 0 {
			// (a) concurrent Match on the bare index
			ix := engine.NewRuleIndex()
			for _, ru := range rules {
				if err := ix.AddRule(mkRule(ru, nil)); err != nil {
					panic(err)
				}
			}
			goroutines := r.Range(2, 8)
			var bad atomic.Value
			var wg sync.WaitGroup
			for g := 0; g < goroutines; g++ {
				wg.Add(1)
				go func(g int) {
					defer wg.Done()
					for rep := 0; rep < 4; rep++ {
						for i := g; i < len(events); i++ {
							e := events[i]
							var got []string
							for _, m := range ix.Match(engine.NewEvent(fmt.Sprintf("e%d", i), e.kind, e.state)) {
								got = append(got, m.Name)
							}
							sort.Strings(got)
							got = dedupe(got)
							want := refFire(rules, e)
							if strings.Join(got, ",") != strings.Join(want, ",") {
								bad.Store(fmt.Sprintf("event kind %v state %v: Match returned %v, reference %v", e.kind, e.state, got, want))
								return
							}
						}
					}
				}(g)
			}
			wg.Wait()
			c.AddEvals(goroutines * 4 * len(events))
			if v := bad.Load(); v != nil {
				d := desc()
				d["mismatch"] = v
				d["goroutines"] = goroutines
				c.Violation("conc:index-match-differs-under-concurrency", "RuleIndex.Match called from several goroutines at once returned a set that differs from the reference for an event", stream, idx, d)
			} else {
				c.Event("conc.index.matches", int64(goroutines*4*len(events)))
				c.NontrivialKey(fmt.Sprint("ix", idx, desc()))
			}
		} else {
			// (b) bursts on a processor with several workers
			workers := r.Range(2, 16)
			proc := engine.NewProcessor(workers)
			type key struct {
				ev   int
				rule string
			}
			var mu sync.Mutex
			counts := map[key]int{}
			for _, ru := range rules {
				ru := ru
				if err := proc.AddRule(mkRule(ru, func(p engine.Processor, m engine.Monitor, e *engine.Event, tid uint64) error {
					i := int(e.State()["i"].(float64))
					mu.Lock()
					counts[key{i, ru.name}]++
					mu.Unlock()
					return nil
				})); err != nil {
					panic(err)
				}
			}
			proc.Start()
			skipped := map[int]bool{}
			for i, e := range events {
				m, err := proc.AddEvent(engine.NewEvent(fmt.Sprintf("e%d", i), e.kind, e.state), nil)
				if err != nil {
					panic(err)
				}
				if m == nil {
					skipped[i] = true
				}
			}
			proc.Finish()
			c.AddEvals(len(events))
			var mismatch string
			for i, e := range events {
				want := refFire(rules, e)
				var got []string
				mu.Lock()
				for _, ru := range rules {
					for k := counts[key{i, ru.name}]; k > 0; k-- {
						got = append(got, ru.name)
					}
				}
				mu.Unlock()
				sort.Strings(got)
				if strings.Join(got, ",") != strings.Join(want, ",") {
					mismatch = fmt.Sprintf("event %d kind %v state %v executed %v, reference %v (skipped=%v)", i, e.kind, e.state, got, want, skipped[i])
					break
				}
			}
			if mismatch != "" {
				d := desc()
				d["mismatch"] = mismatch
				d["workers"] = workers
				c.Violation("conc:fire-set-differs-under-concurrency", "an event processed while other events were processed on other workers executed a rule set that differs from the reference", stream, idx, d)
			} else {
				c.Event("conc.proc.events", int64(len(events)))
				c.NontrivialKey(fmt.Sprint("pr", idx, desc()))
			}
		}
		c.End(0)
		if idx%97 == 0 {
			c.Sample(stream, desc())
		}
	}
}

func dedupe(s []string) []string {
	var out []string
	for i, x := range s {
		if i == 0 || s[i-1] != x {
			out = append(out, x)
		}
	}
	return out
}
