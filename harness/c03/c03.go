// Package c03 holds the runtime monitors for property C03 (see DESIGN.md section 4).
package c03

import "verif/harness/core"

func init() { core.Register("C03", Run) }

// Run is the check.
func Run(c *core.Ctx) {
}
