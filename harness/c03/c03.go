// Package c03 monitors expression evaluation: every generated token sequence is
// grouped and evaluated by an independent reference (ref.go) and by the real
// lexer/parser/runtime of /repo; tree grouping and value/error must agree
// (DESIGN.md section 4, C03).
package c03

import (
	"fmt"
	"sort"
	"strings"

	"github.com/krotik/ecal/interpreter"

	"verif/harness/core"
)

func init() { core.Register("C03", Run) }

type harness struct {
	c        *core.Ctx
	erp      *interpreter.ECALRuntimeProvider
	reported int // differences seen so far in this process (bounds the cost of minimisation)
}

// result of comparing one source text
type result struct {
	cat   string   // "" = agreement; tree | parse-error | value | missing-error | unexpected-error | error-kind | error-operand | panic | harness
	devs  []string // known deviations that explain the difference (cat is then "dev")
	key   string   // panic key
	exp   outcome
	tree  *node
	real  realOut
	got   interface{}
	nlSrc string
}

func assignTarget(tree *node) string {
	if tree.op == ":=" && tree.kids[0].op == "" {
		return tree.kids[0].a.varName
	}
	return ""
}

// assess runs both sides on one source text.
func (h *harness) assess(toks []token, src string, spans []span) result {
	var res result
	tree, err := refParse(toks)
	if err != nil {
		res.cat = "harness"
		res.key = err.Error()
		return res
	}
	res.tree = tree
	env := &evalEnv{}
	res.exp = env.eval(tree)
	target := assignTarget(tree)
	vars := collectVars(toks)
	if target != "" {
		delete(vars, target)
	}
	res.real = runReal(h.erp, src, vars, target, res.exp.k != oExcluded)
	r := &res.real
	switch {
	case r.panicKey != "":
		res.cat, res.key = "panic", r.panicKey
		return res
	case r.parseErr != nil:
		res.cat = "parse-error"
		return res
	case r.shape != tree.shape():
		res.cat = "tree"
		return res
	case !r.evaluated:
		return res
	}
	got := r.res
	if target != "" && r.err == nil {
		if !r.varSet {
			res.cat = "value"
			return res
		}
		got = r.varVal
	}
	res.got = got
	ok, cat := conforms(res.exp, got, r.err, src, spans)
	if ok {
		return res
	}
	res.cat = cat
	// is the difference explained by known deviations (and only by them)?
	denv := &evalEnv{dev: true}
	dexp := denv.eval(tree)
	if len(denv.fired) > 0 && dexp.k != oAny {
		if ok2, _ := conforms(dexp, got, r.err, src, spans); ok2 {
			res.cat = "dev"
			for d := range denv.fired {
				res.devs = append(res.devs, d)
			}
			sort.Strings(res.devs)
		}
	}
	return res
}

// judge assesses a case and reports a difference with a minimal witness.
func (h *harness) judge(stream string, idx int, toks []token, src string, spans []span) result {
	c := h.c
	c.AddEvals(1)
	res := h.assess(toks, src, spans)
	h.observe(res)
	if res.cat == "" {
		return res
	}
	if res.cat == "harness" {
		c.Inconclusive("generator produced a token sequence the reference cannot group: "+res.key, stream, idx,
			map[string]interface{}{"tokens": tokensText(toks)})
		return res
	}
	// minimal witness: the smallest sub-term (own tokens, plain layout) that
	// still shows a difference of the same class
	minToks, minRes := toks, res
	minSrc := src
	found := false
	type window struct{ lo, hi int }
	var subs []window
	h.reported++
	if h.reported <= 60 {
		// every short window of the token sequence that is an expression by itself
		for l := 1; l <= 13 && l < len(toks); l++ {
			for lo := 0; lo+l <= len(toks); lo++ {
				w := toks[lo : lo+l]
				if w[0].k == tkRP || w[l-1].k == tkLP || w[l-1].k == tkOp {
					continue
				}
				if wt, err := refParse(w); err == nil && wt.op != ":=" {
					subs = append(subs, window{lo, lo + l - 1})
				}
			}
		}
	}
	nw := len(subs)
	res.tree.walk(func(n *node) {
		if n.hi-n.lo < len(toks)-1 {
			subs = append(subs, window{n.lo, n.hi})
		}
	})
	sort.SliceStable(subs[nw:], func(i, j int) bool { return subs[nw+i].hi-subs[nw+i].lo < subs[nw+j].hi-subs[nw+j].lo })
	sameClass := func(a, b result) bool {
		if a.cat == "dev" || b.cat == "dev" {
			return a.cat == b.cat
		}
		return b.cat != "" && b.cat != "harness"
	}
	for _, n := range subs {
		st := toks[n.lo : n.hi+1]
		ssrc, ssp := renderPlain(st)
		sr := h.assess(st, ssrc, ssp)
		if sameClass(res, sr) {
			minToks, minRes, minSrc, found = st, sr, ssrc, true
			break
		}
	}
	layoutOnly := false
	if !found {
		psrc, psp := renderPlain(toks)
		if psrc != src {
			pr := h.assess(toks, psrc, psp)
			if pr.cat == "" {
				layoutOnly = true
			} else if sameClass(res, pr) {
				minRes, minSrc = pr, psrc
			}
		}
	}
	detail := map[string]interface{}{
		"source":          src,
		"variables":       showVars(collectVars(toks)),
		"minimal_source":  minSrc,
		"minimal_vars":    showVars(collectVars(minToks)),
		"expected":        minRes.exp.String(),
		"expected_tree":   minRes.tree.shape(),
		"observed_tree":   minRes.real.shape,
		"observed":        showObserved(minRes),
		"difference":      minRes.cat,
		"layout_specific": layoutOnly,
	}
	if layoutOnly {
		detail["minimal_source"] = src
	}
	switch minRes.cat {
	case "dev":
		for _, d := range minRes.devs {
			c.Violation("dev:"+d, devText[d]+": "+minSrc+" => "+showObserved(minRes)+", the reference semantics give "+minRes.exp.String(), stream, idx, detail)
		}
	case "panic":
		detail["panic"] = minRes.real.panicMsg
		c.Violation(minRes.key, "evaluation of an expression inside the property's domain panicked: "+minSrc, stream, idx, detail)
	default:
		sig := minRes.tree.describe()
		if layoutOnly {
			sig = "layout"
		}
		c.Violation("diff:"+minRes.cat+":"+sig, describeDiff(minRes, minSrc), stream, idx, detail)
	}
	return res
}

func describeDiff(r result, src string) string {
	switch r.cat {
	case "tree":
		return fmt.Sprintf("%q is grouped as %s, the documented precedence gives %s", src, r.real.shape, r.tree.shape())
	case "parse-error":
		return fmt.Sprintf("%q is a single well-formed statement but was rejected: %v", src, r.real.parseErr)
	}
	return fmt.Sprintf("%q => %s, the reference semantics give %s", src, showObserved(r), r.exp.String())
}

func showObserved(r result) string {
	switch {
	case r.real.panicKey != "":
		return "panic " + r.real.panicKey
	case r.real.parseErr != nil:
		return "parse error: " + r.real.parseErr.Error()
	case !r.real.evaluated:
		return "(not evaluated)"
	}
	return showGot(r.got, r.real.err)
}

func showVars(vars map[string]interface{}) map[string]string {
	m := map[string]string{}
	for k, v := range vars {
		m[k] = fmt.Sprintf("%#v", v)
	}
	return m
}

// observe feeds the event counters of the evidence file.
func (h *harness) observe(res result) {
	c := h.c
	if res.tree == nil {
		return
	}
	if res.real.shape != "" {
		c.Event("tree.compared", 1)
	}
	c.Event("outcome."+okindNames[res.exp.k], 1)
	if res.real.evaluated {
		if res.real.err != nil {
			c.Event("real.error", 1)
		} else {
			c.Event("real.value", 1)
		}
	}
}

func (h *harness) opsOf(tree *node) {
	tree.walk(func(n *node) {
		if n.op != "" {
			if n.unary {
				h.c.Event("op.prefix."+n.op, 1)
			} else {
				h.c.Event("op."+n.op, 1)
			}
		}
	})
}

// ---------------------------------------------------------------------------
// operand choice for a flat form with slots

type form struct {
	toks  []token // flat sequence; slot atoms are distinct *atom values
	slots []*atom
}

func mkForm(parts ...interface{}) form {
	var f form
	for _, p := range parts {
		switch x := p.(type) {
		case string:
			f.toks = append(f.toks, tOp(x))
		case int:
			a := &atom{}
			f.slots = append(f.slots, a)
			f.toks = append(f.toks, tAtom(a))
		}
	}
	return f
}

type choice struct {
	operands []int // indexes into the pool
	score    int   // 0 = not distinguishing
	order    uint64
}

// chooseOperands enumerates every assignment of pool atoms to the slots,
// evaluates the documented grouping and every other grouping of the same
// tokens with the reference, and returns the k assignments that tell them
// apart best (ties broken by a seed-dependent order).
func chooseOperands(f form, pool []*atom, k int, seed uint64, tag string) []choice {
	correct, err := refParse(f.toks)
	if err != nil {
		panic("c03: malformed form " + tokensText(f.toks) + ": " + err.Error())
	}
	cs := correct.shape0()
	var alts []*node
	for _, g := range allGroupings(f.toks) {
		if g.shape0() != cs {
			alts = append(alts, g)
		}
	}
	n := len(f.slots)
	total := 1
	for i := 0; i < n; i++ {
		total *= len(pool)
	}
	env := &evalEnv{}
	var best []choice
	ops := make([]int, n)
	h0 := core.Hash64(tag) ^ seed*0x9E3779B97F4A7C15
	for x := 0; x < total; x++ {
		y := x
		for i := n - 1; i >= 0; i-- {
			ops[i] = y % len(pool)
			y /= len(pool)
			*f.slots[i] = *pool[ops[i]]
		}
		o := env.eval(correct)
		score := 0
		if o.k == oExcluded || o.k == oAny {
			score = -3 // only the tree can be compared
		} else if o.k != oVal && o.k != oErr {
			score = -2 // the tree, and "a boolean or an error"
		} else if len(alts) == 0 {
			score = -1 // the tokens admit one grouping only
		} else {
			minD, sum := 3, 0
			for _, a := range alts {
				d := observablyDifferent(o, env.eval(a))
				if d < minD {
					minD = d
				}
				sum += d
			}
			// all alternatives distinguished > some distinguished; values before errors
			score = minD*100 + sum*4
			if o.k == oVal {
				score += 2
			}
			if sum == 0 {
				score = -1 // definite outcome, but no other grouping is observably different
			}
		}
		z := h0 ^ uint64(x+1)*0xBF58476D1CE4E5B9
		z ^= z >> 29
		z *= 0x94D049BB133111EB
		z ^= z >> 32
		best = append(best, choice{append([]int(nil), ops...), score, z})
	}
	sort.Slice(best, func(i, j int) bool {
		if best[i].score != best[j].score {
			return best[i].score > best[j].score
		}
		return best[i].order < best[j].order
	})
	// take from the top, but not more than half of k from one score class so
	// that value-distinguishing and error-distinguishing cases both appear
	var out []choice
	perClass := map[int]int{}
	for _, b := range best {
		if len(out) >= k {
			break
		}
		if b.score <= 0 || perClass[b.score] >= (k+1)/2 {
			continue
		}
		perClass[b.score]++
		out = append(out, b)
	}
	for _, b := range best {
		if len(out) >= k {
			break
		}
		dup := false
		for _, o := range out {
			if o.order == b.order {
				dup = true
			}
		}
		if !dup {
			out = append(out, b)
		}
	}
	return out
}

// shape0 is the grouping without operand texts (slots are anonymous)
func (n *node) shape0() string {
	if n.op == "" {
		return fmt.Sprintf("#%d", n.lo)
	}
	var ks []string
	for _, k := range n.kids {
		ks = append(ks, k.shape0())
	}
	return n.op + "(" + strings.Join(ks, ",") + ")"
}

func (f form) assign(pool []*atom, ch choice) {
	for i, s := range f.slots {
		*s = *pool[ch.operands[i]]
	}
}

// runForm runs the chosen operand assignments of a form through the usual
// variants: literals with plain layout, all operands as variables, and a mixed
// one with random layout.
func (h *harness) runForm(stream string, idx int, f form, pool []*atom, chs []choice, r *core.Rand, parens bool) {
	c := h.c
	for ci, ch := range chs {
		f.assign(pool, ch)
		// remember the literal atoms
		lits := make([]atom, len(f.slots))
		for i, s := range f.slots {
			lits[i] = *s
		}
		for variant := 0; variant < 3; variant++ {
			for i, s := range f.slots {
				*s = lits[i]
				if variant == 1 || (variant == 2 && r.Bool()) {
					s.varName = fmt.Sprintf("v%d", i)
				}
			}
			var src string
			var spans []span
			if variant == 2 {
				src, spans, _ = renderRandom(f.toks, r)
			} else {
				src, spans = renderPlain(f.toks)
			}
			res := h.judge(stream, idx, f.toks, src, spans)
			if variant == 0 && res.tree != nil {
				h.opsOf(res.tree)
				if ch.score > 0 {
					c.NontrivialKey(stream + "|" + src)
					c.Event("distinguishing", 1)
				} else {
					c.Event("not-distinguishing", 1)
				}
				if ci == 0 {
					c.Sample(stream, map[string]interface{}{"source": src, "reference_tree": res.tree.shape(),
						"reference_outcome": res.exp.String(), "observed": showObserved(res), "distinguishing": ch.score > 0})
				}
			}
		}
		for i, s := range f.slots {
			*s = lits[i]
		}
		if parens && ci < 2 {
			h.parenVariants(stream, idx, f)
		}
	}
}

// parenVariants: explicit parentheses must override the binding powers, and
// redundant ones must change nothing. Works on flat forms "A op B op C".
func (h *harness) parenVariants(stream string, idx int, f form) {
	t := f.toks
	if len(t) != 5 {
		return
	}
	variants := [][]token{
		{tLP, t[0], t[1], t[2], tRP, t[3], t[4]},
		{t[0], t[1], tLP, t[2], t[3], t[4], tRP},
		{tLP, t[0], t[1], t[2], t[3], t[4], tRP},
		{tLP, tLP, t[0], tRP, tRP, t[1], tLP, t[2], tRP, t[3], tLP, t[4], tRP},
	}
	natural, _ := refParse(t)
	for _, v := range variants {
		src, spans := renderPlain(v)
		res := h.judge(stream, idx, v, src, spans)
		if res.tree != nil {
			if res.tree.shape() != natural.shape() {
				h.c.Event("parens.overriding", 1)
				h.c.NontrivialKey("parens|" + src)
			} else {
				h.c.Event("parens.redundant", 1)
			}
		}
	}
}

// ---------------------------------------------------------------------------

// Run is the check.
func Run(c *core.Ctx) {
	c.Note("rule", "token sequences (operands: literals of all kinds and variables bound in the scope) are grouped by an independent precedence-climbing parser and evaluated by a reference evaluator written from the statement; the real side is ParseWithRuntime+Validate+Eval; compared: tree grouping and value / error kind+named operand. "+
		"Streams: pair = all 19x19 binary operator pairs 'A op1 B op2 C', operands chosen by searching a 17-atom universe (17^3 triples) for assignments on which the documented grouping and the other grouping differ in value or error, each as literals / variables / random layout, plus forced and redundant parentheses; "+
		"prefix = 3 prefix x 19 binary x both positions, premid = 'A op1 pre B op2 C' for all 3x19x19; assign = 'x := ...' forms; single = every operator x every pair of a 32-atom universe; errmatrix = every operator x operand-kind pair {null,bool,number,string,list,map}^2 as literal and variable plus failing sub-expressions as operands; layout = every gap of sampled expressions x 8 separators (spaces, tabs, newline after operator / inside brackets / before infix operator); rand = seeded random trees up to depth 6 (250 k quick, 6 M thorough) with random parentheses, layout, variables, ~3% ill-kinded children. "+
		"Excluded by the generator/oracle: zero divisors of % (C06), container operands of comparisons/in (C06), mixed-kind comparisons and string operators on non-strings (unspecified: boolean-or-error required), escapes/interpolation in strings (C14), newline before infix + or - outside brackets (ambiguous). "+
		"Non-trivial = distinct source texts with at least two operators whose reference outcome is a definite value or error and, in the matrix streams, on which the alternative grouping is observably different.")
	erp := interpreter.NewECALRuntimeProvider("c03", nil, nil)
	// one provider for the whole process; Cron.Stop may block on the cron
	// goroutine's tick (krotik/common), so it is never awaited
	defer func() { go erp.Cron.Stop() }()
	h := &harness{c: c, erp: erp}

	h.streamPair()
	h.streamPrefix()
	h.streamPremid()
	h.streamAssign()
	h.streamSingle()
	h.streamErrMatrix()
	h.streamLayout()
	h.streamRand()
	h.streamReeval()
	h.streamLitReuse()
}

func (h *harness) begin(stream string, idx int, text string) { h.c.Begin(0, stream, idx, text) }
func (h *harness) end()                                      { h.c.End(0) }

// pair: A op1 B op2 C for all binary x binary
func (h *harness) streamPair() {
	c := h.c
	pool := matrixPool()
	k := c.Pick(6, 24)
	n := len(binOps) * len(binOps)
	for idx := 0; idx < n; idx++ {
		if !c.Mine("pair", idx) {
			continue
		}
		op1, op2 := binOps[idx/len(binOps)], binOps[idx%len(binOps)]
		f := mkForm(0, op1, 1, op2, 2)
		h.begin("pair", idx, "A "+op1+" B "+op2+" C")
		chs := chooseOperands(f, pool, k, c.Seed, "pair"+op1+op2)
		if len(chs) == 0 {
			c.Event("form.without-definite-operands", 1)
		}
		h.runForm("pair", idx, f, pool, chs, c.Rng("pair", idx), true)
		h.end()
	}
}

// prefix: pre A op B and A op pre B
func (h *harness) streamPrefix() {
	c := h.c
	pool := matrixPool()
	k := c.Pick(8, 32)
	n := len(prefixOps) * len(binOps) * 2
	for idx := 0; idx < n; idx++ {
		if !c.Mine("prefix", idx) {
			continue
		}
		pre := prefixOps[idx/(len(binOps)*2)]
		op := binOps[(idx/2)%len(binOps)]
		var f form
		if idx%2 == 0 {
			f = mkForm(pre, 0, op, 1)
		} else {
			f = mkForm(0, op, pre, 1)
		}
		h.begin("prefix", idx, tokensTemplate(f))
		chs := chooseOperands(f, pool, k, c.Seed, fmt.Sprint("prefix", idx))
		if len(chs) == 0 {
			c.Event("form.without-definite-operands", 1)
		}
		h.runForm("prefix", idx, f, pool, chs, c.Rng("prefix", idx), false)
		h.end()
	}
}

func tokensTemplate(f form) string {
	var p []string
	slot := 0
	for _, t := range f.toks {
		if t.k == tkAtom {
			p = append(p, string(rune('A'+slot)))
			slot++
		} else {
			p = append(p, t.op)
		}
	}
	return strings.Join(p, " ")
}

// premid: A op1 pre B op2 C
func (h *harness) streamPremid() {
	c := h.c
	pool := smallPool()
	k := c.Pick(3, 12)
	nb := len(binOps)
	n := len(prefixOps) * nb * nb
	for idx := 0; idx < n; idx++ {
		if !c.Mine("premid", idx) {
			continue
		}
		pre := prefixOps[idx/(nb*nb)]
		op1, op2 := binOps[(idx/nb)%nb], binOps[idx%nb]
		f := mkForm(0, op1, pre, 1, op2, 2)
		h.begin("premid", idx, tokensTemplate(f))
		chs := chooseOperands(f, pool, k, c.Seed, fmt.Sprint("premid", idx))
		if len(chs) == 0 {
			c.Event("form.without-definite-operands", 1)
		}
		h.runForm("premid", idx, f, pool, chs, c.Rng("premid", idx), false)
		h.end()
	}
}

// assign: x := A op B, x := pre A, x := A op1 B op2 C (assignment binds loosest)
func (h *harness) streamAssign() {
	c := h.c
	pool := matrixPool()
	nb := len(binOps)
	n := nb + len(prefixOps) + nb*nb
	k := c.Pick(4, 12)
	for idx := 0; idx < n; idx++ {
		if !c.Mine("assign", idx) {
			continue
		}
		var f form
		switch {
		case idx < nb:
			f = mkForm(0, binOps[idx], 1)
		case idx < nb+len(prefixOps):
			f = mkForm(prefixOps[idx-nb], 0)
		default:
			j := idx - nb - len(prefixOps)
			f = mkForm(0, binOps[j/nb], 1, binOps[j%nb], 2)
			if !c.Quick() || j%4 == int(c.Seed%4) {
				// all pairs in the thorough tier, a quarter of them in the quick tier
			} else {
				continue
			}
		}
		h.begin("assign", idx, "x := "+tokensTemplate(f))
		kk := k
		if len(f.slots) == 3 {
			kk = 2
		}
		chs := chooseOperands(f, pool, kk, c.Seed, fmt.Sprint("assign", idx))
		r := c.Rng("assign", idx)
		target := &atom{varName: "x"}
		toks := append([]token{tAtom(target), tOp(":=")}, f.toks...)
		for ci, ch := range chs {
			f.assign(pool, ch)
			rhs, _ := refParse(f.toks)
			env := &evalEnv{}
			o := env.eval(rhs)
			for variant := 0; variant < 2; variant++ {
				var src string
				var spans []span
				if variant == 0 {
					src, spans = renderPlain(toks)
				} else {
					src, spans, _ = renderRandom(toks, r)
				}
				res := h.judge("assign", idx, toks, src, spans)
				if variant == 0 && res.tree != nil {
					h.opsOf(res.tree)
					// had := bound tighter than the operator, x would hold the first operand
					first := val(f.slots[0].val)
					if f.toks[0].k == tkOp {
						first = outcome{k: oAny}
					}
					if observablyDifferent(o, first) > 0 {
						c.NontrivialKey("assign|" + src)
						c.Event("distinguishing", 1)
					}
					if ci == 0 {
						c.Sample("assign", map[string]interface{}{"source": src, "reference_tree": res.tree.shape(),
							"x_expected": res.exp.String(), "observed": showObserved(res)})
					}
				}
			}
		}
		h.end()
	}
}

// single: every operator on every pair of the wide universe
func (h *harness) streamSingle() {
	c := h.c
	pool := widePool()
	np := len(pool)
	nb := len(binOps)
	n := nb*np*np + len(prefixOps)*np*2
	for idx := 0; idx < n; idx++ {
		if !c.Mine("single", idx) {
			continue
		}
		var toks []token
		if idx < nb*np*np {
			op := binOps[idx/(np*np)]
			a, b := pool[(idx/np)%np], pool[idx%np]
			toks = []token{tAtom(a), tOp(op), tAtom(b)}
		} else {
			j := idx - nb*np*np
			pre := prefixOps[j/(np*2)]
			a := pool[(j/2)%np]
			if j%2 == 0 {
				toks = []token{tOp(pre), tAtom(a)}
			} else {
				toks = []token{tOp(pre), tOp(pre), tAtom(a)}
			}
		}
		src, spans := renderPlain(toks)
		h.begin("single", idx, src)
		res := h.judge("single", idx, toks, src, spans)
		if res.tree != nil {
			h.opsOf(res.tree)
			if res.exp.k == oVal || res.exp.k == oErr {
				c.NontrivialKey("single|" + src)
			}
			if idx%977 == 5 {
				c.Sample("single", map[string]interface{}{"source": src, "reference_outcome": res.exp.String(), "observed": showObserved(res)})
			}
		}
		h.end()
	}
}

// errmatrix: operator x operand kind x operand kind, literal and variable
// forms; then failing sub-expressions in every operand position.
func (h *harness) streamErrMatrix() {
	c := h.c
	nb := len(binOps)
	// part 1: binary: op x kindL x kindR x (literal|variable)^2 x 2 representatives
	n1 := nb * 6 * 6 * 4 * 2
	// part 2: prefix: op x kind x (literal|variable) x 2 representatives
	n2 := len(prefixOps) * 6 * 2 * 2
	// part 3: failing sub-expression as operand: (binary op x position + prefix) x 4 failing terms
	n3 := (nb*2 + len(prefixOps)) * 4
	for idx := 0; idx < n1+n2+n3; idx++ {
		if !c.Mine("errmatrix", idx) {
			continue
		}
		var toks []token
		switch {
		case idx < n1:
			x := idx
			rep := x % 2
			x /= 2
			forms := x % 4
			x /= 4
			kr := x % 6
			x /= 6
			kl := x % 6
			x /= 6
			reps := kindReps(rep)
			a, b := reps[kl], reps[kr]
			if forms&1 != 0 {
				a = asVar(a, "va")
			}
			if forms&2 != 0 {
				b = asVar(b, "vb")
			}
			toks = []token{tAtom(a), tOp(binOps[x]), tAtom(b)}
		case idx < n1+n2:
			x := idx - n1
			rep := x % 2
			x /= 2
			asv := x % 2
			x /= 2
			k := x % 6
			x /= 6
			a := kindReps(rep)[k]
			if asv == 1 {
				a = asVar(a, "va")
			}
			toks = []token{tOp(prefixOps[x]), tAtom(a)}
		default:
			x := idx - n1 - n2
			fi := x % 4
			x /= 4
			failing := [][]token{
				{tLP, tAtom(numAtom("1")), tOp("+"), tAtom(strAtom("a", 0)), tRP},
				{tLP, tOp("not"), tAtom(numAtom("1")), tRP},
				{tLP, tAtom(numAtom("1")), tOp("in"), tAtom(numAtom("2")), tRP},
				{tLP, tAtom(asVar(boolAtom(true), "vb")), tOp("*"), tAtom(numAtom("2")), tRP},
			}[fi]
			if x < nb*2 {
				op := binOps[x/2]
				// a well-kinded partner
				var partner *atom
				switch {
				case isArith(op):
					partner = numAtom("3")
				case op == "and" || op == "or":
					partner = boolAtom(true)
				case op == "in" || op == "notin":
					partner = listAtom(numAtom("1"))
					if x%2 == 1 {
						partner = numAtom("1")
					}
				case op == "like" || op == "hasPrefix" || op == "hasSuffix":
					partner = strAtom("a", 0)
				default:
					partner = numAtom("3")
				}
				if x%2 == 0 {
					toks = append(append([]token{}, failing...), tOp(op), tAtom(partner))
				} else {
					toks = append([]token{tAtom(partner), tOp(op)}, failing...)
				}
			} else {
				toks = append([]token{tOp(prefixOps[x-nb*2])}, failing...)
			}
		}
		src, spans := renderPlain(toks)
		h.begin("errmatrix", idx, src)
		res := h.judge("errmatrix", idx, toks, src, spans)
		if res.tree != nil {
			h.opsOf(res.tree)
			if res.exp.k == oErr {
				c.NontrivialKey("errmatrix|" + src)
				c.Event("errmatrix.error-expected", 1)
			} else {
				c.Event("errmatrix."+okindNames[res.exp.k], 1)
			}
			if idx%397 == 3 {
				c.Sample("errmatrix", map[string]interface{}{"source": src, "variables": showVars(collectVars(toks)),
					"reference_outcome": res.exp.String(), "observed": showObserved(res)})
			}
		}
		h.end()
	}
}

// layout: every gap of a sampled expression x every admissible separator
func (h *harness) streamLayout() {
	c := h.c
	n := c.Pick(160, 1600)
	for idx := 0; idx < n; idx++ {
		if !c.Mine("layout", idx) {
			continue
		}
		r := c.Rng("layout", idx)
		g := &rgen{r: r, errRate: 0, varRate: 25}
		d := r.Range(1, 3)
		var gn *gnode
		if r.Bool() {
			gn = g.boolean(d)
		} else {
			gn = g.num(d)
		}
		toks := g.flatten(gn, nil, false)
		if r.Chance(1, 6) {
			toks = append([]token{tAtom(&atom{varName: "x"}), tOp(":=")}, toks...)
		}
		plain := tokensText(toks)
		h.begin("layout", idx, plain)
		lx := lexemes(toks)
		for gap := 1; gap < len(lx); gap++ {
			for si, sep := range separators {
				if si == 0 && gap > 1 {
					continue // the all-single-space layout once
				}
				depth := 0
				for _, l := range lx[:gap] {
					if l.cls == '(' {
						depth++
					} else if l.cls == ')' {
						depth--
					}
				}
				if !sepAllowed(lx[gap-1], lx[gap], depth, sep) {
					continue
				}
				src, spans, nl := render(toks, "", "", func(gi int, a, b lexeme, dp int) string {
					if gi == gap {
						return sep
					}
					return " "
				})
				res := h.judge("layout", idx, toks, src, spans)
				if res.tree != nil {
					c.NontrivialKey("layout|" + src)
					if nl > 0 {
						c.Event("layout.newline."+gapClass(lx[gap-1], lx[gap]), 1)
					} else if sep == "" {
						c.Event("layout.no-space", 1)
					} else {
						c.Event("layout.blank", 1)
					}
					if idx%37 == 1 && nl > 0 && gap == 2 {
						c.Sample("layout", map[string]interface{}{"source": src, "reference_tree": res.tree.shape(), "observed": showObserved(res)})
					}
				}
			}
		}
		// leading / trailing blank space and newlines
		for _, lt := range [][2]string{{"\n", ""}, {"", "\n"}, {" \t", " \t"}, {"\n\n ", "\n\n"}} {
			src, spans, _ := render(toks, lt[0], lt[1], nil)
			// spans are relative to the full text already
			h.judge("layout", idx, toks, src, spans)
			c.Event("layout.lead-trail", 1)
		}
		h.end()
	}
}

func gapClass(a, b lexeme) string {
	switch {
	case a.cls == 'b':
		return "after-infix"
	case a.cls == 'p':
		return "after-prefix"
	case a.cls == '(':
		return "after-opening"
	case a.cls == ',':
		return "after-comma"
	case b.cls == ')':
		return "before-closing"
	case b.cls == ',':
		return "before-comma"
	case b.cls == 'b':
		return "before-infix"
	}
	return "other"
}

// rand: seeded random expressions up to depth 6
func (h *harness) streamRand() {
	c := h.c
	n := c.Pick(250000, 20000000)
	for idx := 0; idx < n; idx++ {
		if !c.Mine("rand", idx) {
			continue
		}
		r := c.Rng("rand", idx)
		g := &rgen{r: r, errRate: 30, varRate: 30}
		d := r.Range(1, 6)
		var gn *gnode
		if r.Bool() {
			gn = g.boolean(d)
		} else {
			gn = g.num(d)
		}
		toks := g.flatten(gn, nil, false)
		if r.Chance(1, 8) {
			toks = append([]token{tAtom(&atom{varName: "x"}), tOp(":=")}, toks...)
		}
		var src string
		var spans []span
		nl := 0
		if r.Chance(1, 3) {
			src, spans = renderPlain(toks)
		} else {
			src, spans, nl = renderRandom(toks, r)
		}
		h.begin("rand", idx, src)
		res := h.judge("rand", idx, toks, src, spans)
		if res.tree != nil {
			nops := res.tree.countOps()
			if idx%16 == 0 {
				h.opsOf(res.tree)
			}
			c.Event(fmt.Sprintf("rand.operators.%s", bucket(nops)), 1)
			if nl > 0 {
				c.Event("rand.with-newlines", 1)
			}
			if nops >= 2 && (res.exp.k == oVal || res.exp.k == oErr) {
				c.Nontrivial(core.Hash64("rand|" + tokensText(toks)))
			}
			if idx%(n/3+1) == 11 {
				c.Sample("rand", map[string]interface{}{"source": src, "variables": showVars(collectVars(toks)),
					"reference_tree": res.tree.shape(), "reference_outcome": res.exp.String(), "observed": showObserved(res)})
			}
		}
		h.end()
	}
}

func bucket(n int) string {
	switch {
	case n <= 1:
		return "1"
	case n <= 3:
		return "2-3"
	case n <= 7:
		return "4-7"
	case n <= 15:
		return "8-15"
	}
	return "16+"
}
