package c03

import (
	"fmt"
	"reflect"
	"strings"

	"verif/harness/core"
)

// Stream "litreuse": a list or map literal that is the right operand of
// in / notin (or the operand of == and len) is evaluated again and again - in a
// function body, a loop body - while a holder of an earlier value of the same
// literal changes that value in place (l[i] := v, m.k := v). Every evaluation
// of the literal denotes a new value made of what is written there; what the
// program did to an earlier value must not show. The expected results are
// computed here from the literal's items alone.

type litem struct {
	src string
	val interface{}
}

var litItems = []litem{
	{"1", 1.0}, {"2", 2.0}, {"3", 3.0}, {"0", 0.0}, {"-1", -1.0}, {"0.5", 0.5}, {"5", 5.0}, {"7", 7.0},
	{"true", true}, {"false", false}, {"null", nil},
	{"\"a\"", "a"}, {"\"b\"", "b"}, {"\"\"", ""}, {"\"5\"", "5"},
}

func litIn(x interface{}, items []litem) bool {
	for _, it := range items {
		if scalarEqual(x, it.val) {
			return true
		}
	}
	return false
}

func (h *harness) streamLitReuse() {
	c := h.c
	n := c.Pick(600, 20000)
	for idx := 0; idx < n; idx++ {
		if !c.Mine("litreuse", idx) {
			continue
		}
		r := c.Rng("litreuse", idx)
		// items: constants only in 2 of 3 cases, otherwise one item is a variable
		// or an interpolated string
		k := r.Range(1, 5)
		perm := r.Perm(len(litItems))
		items := make([]litem, k)
		for i := range items {
			items[i] = litItems[perm[i]]
		}
		mutIdx := r.Intn(k)
		newv := litItems[perm[k+r.Intn(len(litItems)-k)]] // not an item of the literal
		probe := items[r.Intn(k)]
		if r.Chance(1, 4) {
			probe = litItems[perm[k+r.Intn(len(litItems)-k)]]
		}
		srcItems := make([]string, k)
		for i, it := range items {
			srcItems[i] = it.src
		}
		pre := ""
		switch r.Intn(3) {
		case 0:
			j := r.Intn(k)
			pre = "v9 := " + items[j].src + "\n"
			srcItems[j] = "v9"
		}
		lit := "[" + strings.Join(srcItems, ", ") + "]"
		shape := r.Intn(4)
		var src string
		var want []interface{}
		pin, min := litIn(probe.val, items), litIn(newv.val, items)
		switch shape {
		case 0:
			// one literal node in a function that hands the value out
			src = pre + fmt.Sprintf("func mk() {\n return %s\n}\na := mk()\na[%d] := %s\nb := mk()\n"+
				"[%s in b, %s notin b, %s in b, len(b), %s in a, b == %s, a == b]",
				lit, mutIdx, newv.src, probe.src, probe.src, newv.src, newv.src, lit)
			want = []interface{}{pin, !pin, min, float64(k), true, true, false}
		case 1:
			// loop body: the literal is evaluated once per iteration and the value
			// of the previous iteration is changed
			src = pre + fmt.Sprintf("res := []\nfor i in range(1, 3) {\n l := %s\n res := add(res, %s in l)\n res := add(res, %s in l)\n l[%d] := %s\n res := add(res, %s in l)\n}\nres",
				lit, probe.src, newv.src, mutIdx, newv.src, newv.src)
			for i := 0; i < 3; i++ {
				want = append(want, pin, min, true)
			}
		case 2:
			// the literal as operand of in / notin inside a function, between the
			// calls the same text elsewhere is evaluated and changed
			src = pre + fmt.Sprintf("func has(x) {\n return [x in %s, x notin %s]\n}\nr1 := has(%s)\nfunc mk() {\n l := %s\n l[%d] := %s\n return l\n}\nm := mk()\nr2 := has(%s)\nr3 := has(%s)\nm2 := mk()\n[r1, r2, r3, has(%s), %s in m2]",
				lit, lit, probe.src, lit, mutIdx, newv.src, probe.src, newv.src, probe.src, newv.src)
			want = []interface{}{[]interface{}{pin, !pin}, []interface{}{pin, !pin}, []interface{}{min, !min}, []interface{}{pin, !pin}, true}
		default:
			// map literal: values handed out by a function, changed, handed out again
			var kv []string
			for i, it := range items {
				kv = append(kv, fmt.Sprintf("\"k%d\" : %s", i, srcItems[i]))
				_ = it
			}
			mlit := "{" + strings.Join(kv, ", ") + "}"
			src = pre + fmt.Sprintf("func mk() {\n return %s\n}\na := mk()\na.k%d := %s\na.extra := 1\nb := mk()\n[b.k%d == %s, len(b), b == %s, a == b]",
				mlit, mutIdx, newv.src, mutIdx, items[mutIdx].src, mlit)
			want = []interface{}{true, float64(k), true, false}
		}
		h.begin("litreuse", idx, src)
		c.AddEvals(1)
		o := runReal(h.erp, src, nil, "", true)
		detail := map[string]interface{}{"source": src, "expected": fmt.Sprintf("%#v", want), "observed": showGot(o.res, o.err)}
		switch {
		case o.panicKey != "":
			c.Violation(o.panicKey, "panic while evaluating a program that re-evaluates a literal: "+trunc(o.panicMsg, 300), "litreuse", idx, detail)
		case o.parseErr != nil:
			c.Violation("litreuse:parse", "a generated program does not parse: "+o.parseErr.Error(), "litreuse", idx, detail)
		case o.err != nil || !reflect.DeepEqual(o.res, interface{}(want)):
			c.Event("violation.litreuse", 1)
			c.Violation(fmt.Sprintf("litreuse:shape%d", shape), "a list or map literal evaluated again does not denote the value written there: what the program did to an earlier value of the same literal shows in a later evaluation (or the reverse)", "litreuse", idx, detail)
		default:
			c.Event("litreuse.agree", 1)
			c.Nontrivial(core.Hash64("litreuse|" + src))
		}
		if idx%(n/3+1) == 5 {
			c.Sample("litreuse", detail)
		}
		h.end()
	}
}
