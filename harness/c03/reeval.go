package c03

import (
	"fmt"

	"github.com/krotik/ecal/parser"
	"github.com/krotik/ecal/scope"

	"verif/harness/core"
)

// Stream "reeval": ONE parsed expression is evaluated several times with
// different values bound to its variables (what a loop body, a function body or
// a sink does). Every evaluation must give what the reference gives for those
// values — an operator node must not remember anything from an earlier
// evaluation (compiled patterns, operand kinds, results).
func (h *harness) streamReeval() {
	c := h.c
	n := c.Pick(12000, 600000)
	for idx := 0; idx < n; idx++ {
		if !c.Mine("reeval", idx) {
			continue
		}
		r := c.Rng("reeval", idx)
		g := &rgen{r: r, errRate: 8, varRate: 75}
		d := r.Range(1, 4)
		var gn *gnode
		if r.Bool() {
			gn = g.boolean(d)
		} else {
			gn = g.num(d)
		}
		toks := g.flatten(gn, nil, false)
		// variable atoms (top level atoms only; list elements keep their values)
		var vars []*atom
		for _, t := range toks {
			if t.k == tkAtom && t.a.varName != "" {
				vars = append(vars, t.a)
			}
		}
		if len(vars) == 0 {
			continue
		}
		src, spans := renderPlain(toks)
		tree, err := refParse(toks)
		if err != nil {
			continue
		}
		h.begin("reeval", idx, src)
		c.AddEvals(1)
		var ast *parser.ASTNode
		var perr error
		key, msg, panicked := core.Guard(func() {
			ast, perr = parser.ParseWithRuntime("c03re", src, h.erp)
			if perr == nil {
				perr = ast.Runtime.Validate()
			}
		})
		if panicked || perr != nil || ast == nil {
			if panicked {
				c.Violation(key, "panic while parsing an expression: "+trunc(msg, 300), "reeval", idx, map[string]interface{}{"source": src})
			}
			h.end()
			continue
		}
		rounds := r.Range(3, 6)
		for round := 0; round < rounds; round++ {
			if round > 0 {
				// new values of the same kinds
				for _, a := range vars {
					k := a.kind()
					if k == kList || k == kMap {
						continue
					}
					na := g.scalar(k)
					if k == kStr && r.Chance(1, 2) {
						na = strAtom(r.Pick(randPatterns), 0)
					}
					a.val, a.lit, a.tokVal = na.val, na.lit, na.tokVal
				}
			}
			env := &evalEnv{}
			exp := env.eval(tree)
			if exp.k == oExcluded {
				continue
			}
			bind := collectVars(toks)
			vs := scope.NewScope(scope.GlobalScope)
			for k, v := range bind {
				vs.SetValue(k, v)
			}
			var got interface{}
			var gerr error
			key, msg, panicked := core.Guard(func() {
				got, gerr = ast.Runtime.Eval(vs, make(map[string]interface{}), h.erp.NewThreadID())
			})
			c.AddEvals(1)
			detail := map[string]interface{}{"source": src, "round": round, "variables": showVars(bind), "reference_outcome": exp.String(), "observed": showGot(got, gerr)}
			if panicked {
				c.Violation(key, "panic while evaluating an expression again with other values: "+trunc(msg, 300), "reeval", idx, detail)
				break
			}
			if ok, cat := conforms(exp, got, gerr, src, spans); !ok {
				// known deviations are judged by the other streams; here only the
				// dependence on an earlier evaluation matters: re-check with a
				// freshly parsed tree
				fresh := runReal(h.erp, src, bind, "", true)
				if ok2, _ := conforms(exp, fresh.res, fresh.err, src, spans); ok2 && fresh.panicKey == "" && fresh.parseErr == nil {
					c.Violation("reeval:"+cat, fmt.Sprintf("evaluation number %d of one parsed expression gives a result that a freshly parsed copy does not give for the same values (an operator remembers an earlier evaluation)", round+1), "reeval", idx, detail)
				} else {
					c.Event("reeval.difference-also-in-fresh-parse(judged-by-other-streams)", 1)
				}
				break
			}
			c.Event("reeval.evaluations-agree", 1)
		}
		c.Nontrivial(core.Hash64("reeval|" + src))
		if idx%(n/3+1) == 7 {
			c.Sample("reeval", map[string]interface{}{"source": src, "rounds": rounds, "variables_last_round": showVars(collectVars(toks))})
		}
		h.end()
	}
}

func trunc(s string, n int) string {
	if len(s) > n {
		return s[:n]
	}
	return s
}
