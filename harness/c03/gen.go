package c03

// Generators: operand pools, token-sequence forms, the seeded random
// expression generator and the layout renderer.

import (
	"fmt"
	"strconv"
	"strings"

	"verif/harness/core"
)

// ---------------------------------------------------------------------------
// atoms

func numAtom(lit string) *atom {
	v, err := strconv.ParseFloat(lit, 64)
	if err != nil {
		panic("c03: bad number literal in generator: " + lit)
	}
	return &atom{val: v, lit: lit, tokVal: lit}
}

// strAtom builds a string literal; style 0 = "..", 1 = '..', 2 = r"..". The
// content never holds quotes, backslashes or braces (escapes and interpolation
// belong to C14).
func strAtom(s string, style int) *atom {
	var lit string
	switch style {
	case 1:
		lit = "'" + s + "'"
	case 2:
		lit = `r"` + s + `"`
	default:
		lit = `"` + s + `"`
	}
	return &atom{val: s, lit: lit, tokVal: s}
}

func boolAtom(b bool) *atom {
	if b {
		return &atom{val: true, lit: "true", tokVal: "true"}
	}
	return &atom{val: false, lit: "false", tokVal: "false"}
}

func nullAtom() *atom { return &atom{val: nil, lit: "null", tokVal: "null"} }

func listAtom(elems ...*atom) *atom {
	v := make([]interface{}, len(elems))
	for i, e := range elems {
		v[i] = e.val
	}
	return &atom{val: v, elems: elems}
}

func mapAtom(kv ...*atom) *atom {
	m := map[interface{}]interface{}{}
	for i := 0; i+1 < len(kv); i += 2 {
		m[kv[i].val] = kv[i+1].val
	}
	return &atom{val: m, elems: kv}
}

func asVar(a *atom, name string) *atom {
	c := *a
	c.varName = name
	return &c
}

func (a *atom) source() string {
	if a.varName != "" {
		return a.varName
	}
	switch a.kind() {
	case kList:
		var p []string
		for _, e := range a.elems {
			p = append(p, e.source())
		}
		return "[" + strings.Join(p, ", ") + "]"
	case kMap:
		var p []string
		for i := 0; i+1 < len(a.elems); i += 2 {
			p = append(p, a.elems[i].source()+": "+a.elems[i+1].source())
		}
		return "{" + strings.Join(p, ", ") + "}"
	}
	return a.lit
}

// collectVars gathers the variable bindings a token sequence needs.
func collectVars(toks []token) map[string]interface{} {
	vars := map[string]interface{}{}
	var add func(a *atom)
	add = func(a *atom) {
		if a.varName != "" {
			vars[a.varName] = a.val
			return
		}
		for _, e := range a.elems {
			add(e)
		}
	}
	for _, t := range toks {
		if t.k == tkAtom {
			add(t.a)
		}
	}
	return vars
}

// the operand universe of the exhaustive matrices
func matrixPool() []*atom {
	return []*atom{
		numAtom("7"), numAtom("2"), numAtom("3"), numAtom("0.1"), numAtom("0.2"), numAtom("0.3"),
		strAtom("a", 0), strAtom("ab", 0), strAtom("b", 0), strAtom("true", 0),
		boolAtom(true), boolAtom(false),
		nullAtom(),
		listAtom(numAtom("7"), strAtom("a", 0), boolAtom(true)),
		listAtom(numAtom("2"), numAtom("0.3")),
		listAtom(boolAtom(false), strAtom("ab", 0)),
		listAtom(),
	}
}

// a smaller universe for forms with three operand slots and several
// alternative groupings
func smallPool() []*atom {
	return []*atom{
		numAtom("7"), numAtom("2"), numAtom("0.1"), numAtom("0.3"),
		strAtom("a", 0), strAtom("ab", 0),
		boolAtom(true), boolAtom(false),
		listAtom(numAtom("7"), strAtom("a", 0), boolAtom(true)),
		listAtom(boolAtom(false), numAtom("2")),
	}
}

// a wider universe for the single-operator semantics sweep
func widePool() []*atom {
	p := matrixPool()
	return append(p,
		numAtom("7.5"), numAtom("2.5"), numAtom("10"), numAtom("0"), numAtom("1.5e+02"), numAtom("1"),
		strAtom("", 0), strAtom("B", 1), strAtom("10", 0), strAtom("9", 2), strAtom("^a", 0), strAtom("b$", 0),
		strAtom("a.", 0), strAtom("abc", 0),
		listAtom(nullAtom(), numAtom("10"), strAtom("10", 0)),
	)
}

// representatives of each kind for the operator x operand-kind matrix
func kindReps(variant int) []*atom {
	if variant == 0 {
		return []*atom{nullAtom(), boolAtom(true), numAtom("7"), strAtom("ab", 0),
			listAtom(numAtom("7"), strAtom("ab", 0)), mapAtom(strAtom("k", 0), numAtom("7"))}
	}
	return []*atom{nullAtom(), boolAtom(false), numAtom("2.5"), strAtom("7", 1),
		listAtom(), mapAtom(numAtom("1"), numAtom("2"))}
}

// ---------------------------------------------------------------------------
// rendering with layout

type lexeme struct {
	text string
	tok  int  // index of the token it belongs to
	cls  byte // 'w' value / identifier, 'b' binary op, 'p' prefix op, '(' opening, ')' closing, ',' separator
	noNL bool // never put a newline next to it (map literals)
}

func isWordy(c byte) bool {
	return c == '"' || c == '\'' || c == '_' || c == '.' ||
		(c >= '0' && c <= '9') || (c >= 'a' && c <= 'z') || (c >= 'A' && c <= 'Z')
}

func atomLexemes(a *atom, tok int, inMap bool, out []lexeme) []lexeme {
	if a.varName != "" {
		return append(out, lexeme{a.varName, tok, 'w', inMap})
	}
	switch a.kind() {
	case kList:
		out = append(out, lexeme{"[", tok, '(', inMap})
		for i, e := range a.elems {
			if i > 0 {
				out = append(out, lexeme{",", tok, ',', inMap})
			}
			out = atomLexemes(e, tok, inMap, out)
		}
		return append(out, lexeme{"]", tok, ')', inMap})
	case kMap:
		out = append(out, lexeme{"{", tok, '(', true})
		for i := 0; i+1 < len(a.elems); i += 2 {
			if i > 0 {
				out = append(out, lexeme{",", tok, ',', true})
			}
			out = atomLexemes(a.elems[i], tok, true, out)
			out = append(out, lexeme{":", tok, ',', true})
			out = atomLexemes(a.elems[i+1], tok, true, out)
		}
		return append(out, lexeme{"}", tok, ')', true})
	}
	return append(out, lexeme{a.lit, tok, 'w', inMap})
}

func lexemes(toks []token) []lexeme {
	var out []lexeme
	for i, t := range toks {
		switch t.k {
		case tkAtom:
			out = atomLexemes(t.a, i, false, out)
		case tkLP:
			out = append(out, lexeme{"(", i, '(', false})
		case tkRP:
			out = append(out, lexeme{")", i, ')', false})
		case tkOp:
			cls := byte('p')
			if i > 0 && (toks[i-1].k == tkAtom || toks[i-1].k == tkRP) {
				cls = 'b'
			}
			out = append(out, lexeme{t.op, i, cls, false})
		}
	}
	return out
}

var separators = []string{" ", "", "  ", "\t", "\n", " \n  ", "\n\n", "\t\n\t"}

// sepAllowed tells whether separator sep may stand between lexemes a and b
// (depth = parenthesis / bracket depth at the gap) without splitting the
// statement or gluing two tokens together.
func sepAllowed(a, b lexeme, depth int, sep string) bool {
	if sep == "" {
		return !(isWordy(a.text[len(a.text)-1]) && isWordy(b.text[0]))
	}
	if !strings.Contains(sep, "\n") {
		return true
	}
	if a.noNL || b.noNL {
		return false
	}
	if a.cls == 'b' || a.cls == 'p' || a.cls == '(' || a.cls == ',' {
		return true // after an operator, an opening bracket, a comma
	}
	if b.cls == ')' || b.cls == ',' {
		return true // before a closing bracket or a comma
	}
	if b.cls == 'b' {
		// a line that starts with an infix operator continues the statement;
		// + and - could also start a new one, so only inside brackets
		return (b.text != "+" && b.text != "-") || depth > 0
	}
	return false
}

type span struct{ start, end int }

// render joins the lexemes; choose picks the separator for gap i (0 = before
// the first lexeme is not a gap; gaps are numbered 1..len-1). Returns the
// source and the byte span of every token.
func render(toks []token, lead, trail string, choose func(gap int, a, b lexeme, depth int) string, spell ...func(l lexeme) string) (string, []span, int) {
	lx := lexemes(toks)
	if len(spell) > 0 {
		for i := range lx {
			lx[i].text = spell[0](lx[i])
		}
	}
	spans := make([]span, len(toks))
	for i := range spans {
		spans[i].start = -1
	}
	var b strings.Builder
	b.WriteString(lead)
	depth := 0
	newlines := 0
	for i, l := range lx {
		if i > 0 {
			sep := " "
			if choose != nil {
				sep = choose(i, lx[i-1], l, depth)
			}
			newlines += strings.Count(sep, "\n")
			b.WriteString(sep)
		}
		if spans[l.tok].start < 0 {
			spans[l.tok].start = b.Len()
		}
		b.WriteString(l.text)
		spans[l.tok].end = b.Len()
		if l.cls == '(' {
			depth++
		} else if l.cls == ')' {
			depth--
		}
	}
	b.WriteString(trail)
	return b.String(), spans, newlines
}

func renderPlain(toks []token) (string, []span) {
	s, sp, _ := render(toks, "", "", nil)
	return s, sp
}

func renderRandom(toks []token, r *core.Rand) (string, []span, int) {
	weights := []int{55, 14, 5, 5, 10, 5, 3, 3}
	total := 0
	for _, w := range weights {
		total += w
	}
	lead := []string{"", "", "", " ", "\n", "\t"}[r.Intn(6)]
	trail := []string{"", "", "", " ", "\n", " \n"}[r.Intn(6)]
	return render(toks, lead, trail, func(gap int, a, b lexeme, depth int) string {
		for try := 0; try < 8; try++ {
			x := r.Intn(total)
			k := 0
			for x >= weights[k] {
				x -= weights[k]
				k++
			}
			if sepAllowed(a, b, depth, separators[k]) {
				return separators[k]
			}
		}
		return " "
	}, func(l lexeme) string {
		// keywords are not case sensitive: one operator word in eight is
		// written in another case (AND, Or, NOT, LIKE, NotIn, hasprefix ...)
		if (l.cls != 'b' && l.cls != 'p') || !isWordy(l.text[0]) || l.text[0] >= '0' && l.text[0] <= '9' || !r.Chance(1, 8) {
			return l.text
		}
		switch r.Intn(3) {
		case 0:
			return strings.ToUpper(l.text)
		case 1:
			return strings.ToLower(l.text)
		}
		return strings.ToUpper(l.text[:1]) + strings.ToLower(l.text[1:])
	})
}

// ---------------------------------------------------------------------------
// seeded random expressions

type gnode struct {
	op    string
	unary bool
	kids  []*gnode
	a     *atom
}

type rgen struct {
	r       *core.Rand
	nvars   int
	errRate int // per mille: a child of the wrong kind
	varRate int // per cent: an operand is a variable
}

var randStrings = []string{"", "a", "ab", "abc", "b", "B", "true", "7", "10", "9", "a b", "Hans", "null", "ba"}
var randPatterns = []string{"a", "^a", "b$", "a.c", "^ab?c*$", "H.*s", "[a-c]+", "^$", "7|9", ".", "x*", "^(a|b)+$", "an"}
var randNumbers = []string{"0", "1", "2", "3", "4", "5", "6", "7", "8", "9", "10", "12", "0.5", "1.5", "2.25",
	"0.1", "0.2", "0.3", "10.75", "3.0", "1.50", "1.5e+02", "2e+01", "1.25e+1", "100", "0.75",
	// digits with leading zeros are decimal numbers like any other
	"010", "007", "0100", "00", "08", "0644", "00.5", "017", "0010", "123456789012345678"}

func (g *rgen) wrap(a *atom) *atom {
	if g.r.Intn(100) < g.varRate {
		g.nvars++
		return asVar(a, fmt.Sprintf("v%d", g.nvars))
	}
	return a
}

func (g *rgen) scalar(k vkind) *atom {
	switch k {
	case kNull:
		return nullAtom()
	case kBool:
		return boolAtom(g.r.Bool())
	case kNum:
		return numAtom(g.r.Pick(randNumbers))
	}
	style := 0
	if x := g.r.Intn(100); x >= 85 {
		style = 2
	} else if x >= 60 {
		style = 1
	}
	return strAtom(g.r.Pick(randStrings), style)
}

func (g *rgen) listLit() *atom {
	n := g.r.Intn(5)
	elems := make([]*atom, n)
	mono := vkind(g.r.Range(1, 3))
	for i := range elems {
		k := mono
		if g.r.Chance(1, 4) {
			k = vkind(g.r.Intn(4))
		}
		e := g.scalar(k)
		if g.r.Chance(1, 10) {
			e = g.wrap(e)
		}
		elems[i] = e
	}
	return listAtom(elems...)
}

func (g *rgen) atomOf(k vkind) *gnode {
	switch k {
	case kList:
		return &gnode{a: g.wrap(g.listLit())}
	case kMap:
		return &gnode{a: g.wrap(mapAtom(g.scalar(kStr), g.scalar(kNum)))}
	}
	return &gnode{a: g.wrap(g.scalar(k))}
}

func (g *rgen) sub(d int) int {
	if d <= 0 {
		return 0
	}
	if g.r.Bool() {
		return d - 1
	}
	return g.r.Intn(d)
}

// child generates an operand of the wanted kind, or (rarely) of another one
func (g *rgen) child(k vkind, d int) *gnode {
	if g.r.Intn(1000) < g.errRate {
		k2 := vkind(g.r.Intn(6))
		switch k2 {
		case kNum:
			return g.num(g.sub(d))
		case kBool:
			return g.boolean(g.sub(d))
		}
		return g.atomOf(k2)
	}
	switch k {
	case kNum:
		return g.num(d)
	case kBool:
		return g.boolean(d)
	}
	return g.atomOf(k)
}

func (g *rgen) num(d int) *gnode {
	if d <= 0 {
		return g.atomOf(kNum)
	}
	x := g.r.Intn(100)
	switch {
	case x < 72:
		op := []string{"+", "-", "*", "/", "//", "%", "+", "-", "*"}[g.r.Intn(9)]
		l := g.child(kNum, g.sub(d))
		var r *gnode
		if op == "%" && g.r.Chance(7, 10) {
			r = &gnode{a: g.wrap(numAtom(strconv.Itoa(g.r.Range(1, 9))))}
		} else {
			r = g.child(kNum, g.sub(d))
		}
		if g.r.Bool() {
			// keep the wanted depth on one side
			l = g.child(kNum, d-1)
		}
		return &gnode{op: op, kids: []*gnode{l, r}}
	case x < 90:
		return &gnode{op: "-", unary: true, kids: []*gnode{g.child(kNum, d-1)}}
	default:
		return &gnode{op: "+", unary: true, kids: []*gnode{g.child(kNum, d-1)}}
	}
}

func (g *rgen) boolean(d int) *gnode {
	if d <= 0 {
		return g.atomOf(kBool)
	}
	x := g.r.Intn(100)
	switch {
	case x < 24: // numeric comparison
		op := []string{"<", "<=", ">", ">=", "==", "!="}[g.r.Intn(6)]
		return &gnode{op: op, kids: []*gnode{g.child(kNum, d-1), g.child(kNum, g.sub(d))}}
	case x < 32: // string comparison
		op := []string{"<", "<=", ">", ">=", "==", "!="}[g.r.Intn(6)]
		return &gnode{op: op, kids: []*gnode{g.child(kStr, 0), g.child(kStr, 0)}}
	case x < 38: // equality of booleans / null
		op := []string{"==", "!="}[g.r.Intn(2)]
		if g.r.Chance(1, 5) {
			return &gnode{op: op, kids: []*gnode{g.child(kNull, 0), g.child(kNull, 0)}}
		}
		return &gnode{op: op, kids: []*gnode{g.child(kBool, d-1), g.child(kBool, g.sub(d))}}
	case x < 62:
		op := []string{"and", "or"}[g.r.Intn(2)]
		return &gnode{op: op, kids: []*gnode{g.child(kBool, d-1), g.child(kBool, g.sub(d))}}
	case x < 74:
		return &gnode{op: "not", unary: true, kids: []*gnode{g.child(kBool, d-1)}}
	case x < 80:
		return &gnode{op: "like", kids: []*gnode{g.child(kStr, 0),
			{a: g.wrap(strAtom(g.r.Pick(randPatterns), g.r.Intn(3)))}}}
	case x < 88:
		op := []string{"hasPrefix", "hasSuffix"}[g.r.Intn(2)]
		return &gnode{op: op, kids: []*gnode{g.child(kStr, 0), g.child(kStr, 0)}}
	default:
		op := []string{"in", "notin"}[g.r.Intn(2)]
		var item *gnode
		switch g.r.Intn(4) {
		case 0:
			item = g.child(kNum, d-1)
		case 1:
			item = g.child(kBool, g.sub(d))
		case 2:
			item = g.child(kStr, 0)
		default:
			item = g.atomOf(vkind(g.r.Intn(4)))
		}
		return &gnode{op: op, kids: []*gnode{item, g.child(kList, 0)}}
	}
}

// flatten turns a generated tree into tokens, parenthesising where the
// operator table needs it (occasionally leaving needed parentheses out or adding
// redundant ones: whatever comes out is grouped by the reference parser from
// the tokens alone).
func (g *rgen) flatten(n *gnode, out []token, need bool) []token {
	paren := need
	if need && g.r.Chance(2, 100) {
		paren = false
	}
	extra := 0
	if g.r.Chance(12, 100) {
		extra = 1
		if g.r.Chance(1, 5) {
			extra = 2
		}
	}
	if paren {
		extra++
	}
	for i := 0; i < extra; i++ {
		out = append(out, tLP)
	}
	switch {
	case n.op == "":
		out = append(out, tAtom(n.a))
	case n.unary:
		out = append(out, tOp(n.op))
		k := n.kids[0]
		needK := false
		if k.op != "" && !k.unary {
			if n.op == "not" {
				needK = binLevel[k.op] < lvlCmp
			} else {
				needK = true
			}
		}
		out = g.flatten(k, out, needK)
	default:
		lvl := binLevel[n.op]
		for side, k := range n.kids {
			needK := false
			switch {
			case k.op == "":
			case k.unary && k.op == "not":
				needK = lvl >= lvlCmp
			case k.unary:
			default:
				kl := binLevel[k.op]
				needK = kl < lvl || (kl == lvl && side == 1)
			}
			if side == 1 {
				out = append(out, tOp(n.op))
			}
			out = g.flatten(k, out, needK)
		}
	}
	for i := 0; i < extra; i++ {
		out = append(out, tRP)
	}
	return out
}

func tokensText(toks []token) string {
	s, _ := renderPlain(toks)
	return s
}
