package c03

// The observed side: the real lexer + parser + runtime of /repo.

import (
	"fmt"
	"strings"

	"github.com/krotik/ecal/interpreter"
	"github.com/krotik/ecal/parser"
	"github.com/krotik/ecal/scope"
	"github.com/krotik/ecal/util"

	"verif/harness/core"
)

type realOut struct {
	parseErr  error // parse or validation error
	shape     string
	evaluated bool
	res       interface{}
	err       error
	varSet    bool
	varVal    interface{}
	panicKey  string
	panicMsg  string
}

func realShape(n *parser.ASTNode, b *strings.Builder) {
	if n == nil {
		b.WriteString("<nil>")
		return
	}
	switch n.Name {
	case parser.NodeNUMBER, parser.NodeSTRING, parser.NodeIDENTIFIER:
		b.WriteString(n.Name)
		b.WriteString(":")
		if n.Token != nil {
			b.WriteString(n.Token.Val)
		}
		if len(n.Children) == 0 {
			return
		}
	default:
		b.WriteString(n.Name)
		if len(n.Children) == 0 && n.Name != parser.NodeLIST && n.Name != parser.NodeMAP {
			return
		}
	}
	b.WriteString("(")
	for i, c := range n.Children {
		if i > 0 {
			b.WriteString(",")
		}
		realShape(c, b)
	}
	b.WriteString(")")
}

// runReal parses, validates and (unless evalToo is false) evaluates src the
// way the repository's own tests do.
func runReal(erp *interpreter.ECALRuntimeProvider, src string, vars map[string]interface{}, assignVar string, evalToo bool) realOut {
	var o realOut
	key, msg, panicked := core.Guard(func() {
		ast, err := parser.ParseWithRuntime("c03", src, erp)
		if err != nil {
			o.parseErr = err
			return
		}
		if ast == nil {
			o.parseErr = fmt.Errorf("parser returned neither a tree nor an error")
			return
		}
		var b strings.Builder
		realShape(ast, &b)
		o.shape = b.String()
		if err := ast.Runtime.Validate(); err != nil {
			o.parseErr = err
			return
		}
		if !evalToo {
			return
		}
		vs := scope.NewScope(scope.GlobalScope)
		for k, v := range vars {
			vs.SetValue(k, v)
		}
		o.res, o.err = ast.Runtime.Eval(vs, make(map[string]interface{}), erp.NewThreadID())
		o.evaluated = true
		if assignVar != "" {
			v, ok, gerr := vs.GetValue(assignVar)
			if gerr == nil && ok {
				o.varSet, o.varVal = true, v
			}
		}
	})
	if panicked {
		o.panicKey, o.panicMsg = key, msg
	}
	return o
}

var errTypes = map[string]error{
	"number":  util.ErrNotANumber,
	"boolean": util.ErrNotABoolean,
	"list":    util.ErrNotAList,
}

// namesOperand: does the error detail name the operand? A literal is named by
// its token text, a variable by its name, a composite operand by some token
// of its own source text.
func namesOperand(detail string, operand *node, src string, spans []span) bool {
	if operand.op == "" && operand.a.varName != "" {
		return strings.Contains(detail, operand.a.varName)
	}
	if operand.op == "" && operand.a.kind() <= kStr {
		return strings.Contains(detail, operand.a.tokVal)
	}
	head := detail
	if i := strings.Index(head, "="); i > 0 {
		head = head[:i]
	}
	if strings.TrimSpace(head) == "" {
		return false
	}
	text := src[spans[operand.lo].start:spans[operand.hi].end]
	return strings.Contains(text, head)
}

// conforms compares what the real evaluation produced with a reference outcome.
func conforms(exp outcome, got interface{}, gotErr error, src string, spans []span) (bool, string) {
	switch exp.k {
	case oAny, oExcluded:
		return true, ""
	case oBoolOrErr:
		if gotErr != nil {
			return true, ""
		}
		if _, ok := got.(bool); ok {
			return true, ""
		}
		return false, "value"
	case oAnyErr:
		if gotErr != nil {
			return true, ""
		}
		return false, "missing-error"
	case oVal:
		if gotErr != nil {
			return false, "unexpected-error"
		}
		if !valuesEqual(exp.v, got) {
			return false, "value"
		}
		return true, ""
	case oErr:
		if gotErr == nil {
			return false, "missing-error"
		}
		re, ok := gotErr.(*util.RuntimeError)
		if !ok {
			return false, "error-kind"
		}
		kindOK := false
		for _, s := range exp.errs {
			if re.Type == errTypes[s.what] {
				kindOK = true
				if namesOperand(re.Detail, s.operand, src, spans) {
					return true, ""
				}
			}
		}
		if kindOK {
			return false, "error-operand"
		}
		return false, "error-kind"
	}
	return false, "harness"
}

func showGot(v interface{}, err error) string {
	if err != nil {
		if re, ok := err.(*util.RuntimeError); ok {
			return fmt.Sprintf("runtime error %q detail %q", re.Type.Error(), re.Detail)
		}
		return fmt.Sprintf("error (%T) %v", err, err)
	}
	return fmt.Sprintf("value %#v", v)
}
