package c03

// The reference model of property C03: a precedence-climbing parser over token
// sequences and an evaluator, both written from the property statement and the
// language reference (ecal.md). Nothing here uses parser/ or interpreter/ of
// /repo.

import (
	"fmt"
	"math"
	"regexp"
	"sort"
	"strings"
)

// ---------------------------------------------------------------------------
// values and atoms

type vkind int

const (
	kNull vkind = iota
	kBool
	kNum
	kStr
	kList
	kMap
)

var kindNames = []string{"null", "bool", "num", "str", "list", "map"}

func (k vkind) String() string { return kindNames[k] }

func kindOf(v interface{}) vkind {
	switch v.(type) {
	case nil:
		return kNull
	case bool:
		return kBool
	case float64:
		return kNum
	case string:
		return kStr
	case []interface{}:
		return kList
	case map[interface{}]interface{}:
		return kMap
	}
	panic(fmt.Sprintf("c03: value of unknown kind %T", v))
}

// atom is an operand: a literal (scalar, list, map) or a variable bound to a
// value in the scope.
type atom struct {
	val     interface{}
	lit     string  // source text of a scalar literal
	tokVal  string  // text the corresponding lexer token carries
	elems   []*atom // list elements; for a map: key, value, key, value, ...
	varName string  // rendered as this variable when non-empty
}

func (a *atom) kind() vkind { return kindOf(a.val) }

// ---------------------------------------------------------------------------
// tokens

type tkind int

const (
	tkAtom tkind = iota
	tkOp         // prefix or binary operator (decided by position)
	tkLP
	tkRP
)

type token struct {
	k  tkind
	op string
	a  *atom
}

func tAtom(a *atom) token { return token{k: tkAtom, a: a} }
func tOp(op string) token { return token{k: tkOp, op: op} }

var tLP = token{k: tkLP}
var tRP = token{k: tkRP}

// ---------------------------------------------------------------------------
// operator table (from the property statement)
//
//   * / // %   >   + -   >   comparison, like, hasPrefix, hasSuffix, in, notin
//   >   and   >   or   >   :=          binary operators associate to the left;
//   prefix - and + bind tightest; not applies to the following comparison.

const (
	lvlAssign = 1
	lvlOr     = 2
	lvlAnd    = 3
	lvlCmp    = 4
	lvlAdd    = 5
	lvlMul    = 6
	lvlSign   = 7 // operand of a prefix sign: nothing binary binds that tight
)

var binLevel = map[string]int{
	":=": lvlAssign,
	"or": lvlOr, "and": lvlAnd,
	"==": lvlCmp, "!=": lvlCmp, "<": lvlCmp, "<=": lvlCmp, ">": lvlCmp, ">=": lvlCmp,
	"like": lvlCmp, "hasPrefix": lvlCmp, "hasSuffix": lvlCmp, "in": lvlCmp, "notin": lvlCmp,
	"+": lvlAdd, "-": lvlAdd,
	"*": lvlMul, "/": lvlMul, "//": lvlMul, "%": lvlMul,
}

// the 19 binary expression operators (":=" is handled separately)
var binOps = []string{"*", "/", "//", "%", "+", "-", "==", "!=", "<", "<=", ">", ">=",
	"like", "hasPrefix", "hasSuffix", "in", "notin", "and", "or"}

var prefixOps = []string{"-", "+", "not"}

func isPrefixOp(op string) bool { return op == "-" || op == "+" || op == "not" }

// ---------------------------------------------------------------------------
// reference tree

type node struct {
	op     string // "" for an atom
	unary  bool
	kids   []*node
	a      *atom
	lo, hi int // token span including parentheses directly around the term
}

type refParser struct {
	toks []token
	pos  int
}

type refSyntaxError struct{ msg string }

func (p *refParser) fail(f string, a ...interface{}) {
	panic(refSyntaxError{fmt.Sprintf(f, a...) + fmt.Sprintf(" at token %d", p.pos)})
}

// refParse groups a token sequence. A malformed sequence is a harness defect
// and reported as an error.
func refParse(toks []token) (n *node, err error) {
	defer func() {
		if r := recover(); r != nil {
			if se, ok := r.(refSyntaxError); ok {
				n, err = nil, fmt.Errorf("%s", se.msg)
				return
			}
			panic(r)
		}
	}()
	p := &refParser{toks: toks}
	n = p.expr(lvlAssign)
	if p.pos != len(toks) {
		p.fail("trailing tokens")
	}
	return n, nil
}

func (p *refParser) expr(minLevel int) *node {
	left := p.operand()
	for p.pos < len(p.toks) {
		t := p.toks[p.pos]
		if t.k != tkOp {
			break
		}
		lvl, ok := binLevel[t.op]
		if !ok {
			p.fail("%q is not a binary operator", t.op)
		}
		if lvl < minLevel {
			break
		}
		p.pos++
		right := p.expr(lvl + 1) // left-associative
		left = &node{op: t.op, kids: []*node{left, right}, lo: left.lo, hi: right.hi}
	}
	return left
}

func (p *refParser) operand() *node {
	if p.pos >= len(p.toks) {
		p.fail("operand expected")
	}
	t := p.toks[p.pos]
	start := p.pos
	switch t.k {
	case tkAtom:
		p.pos++
		return &node{a: t.a, lo: start, hi: start}
	case tkLP:
		p.pos++
		n := p.expr(lvlAssign)
		if p.pos >= len(p.toks) || p.toks[p.pos].k != tkRP {
			p.fail("closing parenthesis expected")
		}
		p.pos++
		// the parenthesised term is the same tree; remember the wider span
		c := *n
		c.lo, c.hi = start, p.pos-1
		return &c
	case tkOp:
		switch t.op {
		case "-", "+":
			p.pos++
			o := p.expr(lvlSign)
			return &node{op: t.op, unary: true, kids: []*node{o}, lo: start, hi: o.hi}
		case "not":
			p.pos++
			o := p.expr(lvlCmp)
			return &node{op: t.op, unary: true, kids: []*node{o}, lo: start, hi: o.hi}
		}
	}
	p.fail("operand expected")
	return nil
}

// allGroupings enumerates every tree that respects the token order of a flat
// (parenthesis-free) sequence, whatever the binding powers. Used to find operand
// values for which the documented grouping is observably different.
func allGroupings(toks []token) []*node {
	// classify operator tokens: an operator right after an atom is binary
	n := len(toks)
	binary := make([]bool, n)
	for i, t := range toks {
		if t.k == tkOp && i > 0 && toks[i-1].k == tkAtom {
			binary[i] = true
		}
	}
	type key struct{ i, j int }
	memo := map[key][]*node{}
	var build func(i, j int) []*node
	build = func(i, j int) []*node {
		if i > j {
			return nil
		}
		k := key{i, j}
		if r, ok := memo[k]; ok {
			return r
		}
		var res []*node
		if i == j {
			if toks[i].k == tkAtom {
				res = []*node{{a: toks[i].a, lo: i, hi: i}}
			}
			memo[k] = res
			return res
		}
		if toks[i].k == tkOp && !binary[i] {
			for _, o := range build(i+1, j) {
				res = append(res, &node{op: toks[i].op, unary: true, kids: []*node{o}, lo: i, hi: j})
			}
		}
		for m := i + 1; m < j; m++ {
			if !binary[m] {
				continue
			}
			ls := build(i, m-1)
			if len(ls) == 0 {
				continue
			}
			rs := build(m+1, j)
			for _, l := range ls {
				for _, r := range rs {
					res = append(res, &node{op: toks[m].op, kids: []*node{l, r}, lo: i, hi: j})
				}
			}
		}
		memo[k] = res
		return res
	}
	return build(0, n-1)
}

// shape prints the grouping of a reference tree with the node names the real
// parser uses (parser/const.go), so both sides can be compared as strings.
var nodeNames = map[string]string{
	"+": "plus", "-": "minus", "*": "times", "/": "div", "//": "divint", "%": "modint",
	"==": "==", "!=": "!=", "<": "<", "<=": "<=", ">": ">", ">=": ">=",
	"like": "like", "hasPrefix": "hasprefix", "hasSuffix": "hassuffix", "in": "in", "notin": "notin",
	"and": "and", "or": "or", "not": "not", ":=": ":=",
}

func atomShape(a *atom, b *strings.Builder) {
	if a.varName != "" {
		b.WriteString("identifier:" + a.varName)
		return
	}
	switch a.kind() {
	case kNull:
		b.WriteString("null")
	case kBool:
		if a.val.(bool) {
			b.WriteString("true")
		} else {
			b.WriteString("false")
		}
	case kNum:
		b.WriteString("number:" + a.tokVal)
	case kStr:
		b.WriteString("string:" + a.tokVal)
	case kList:
		b.WriteString("list(")
		for i, e := range a.elems {
			if i > 0 {
				b.WriteString(",")
			}
			atomShape(e, b)
		}
		b.WriteString(")")
	case kMap:
		b.WriteString("map(")
		for i := 0; i+1 < len(a.elems); i += 2 {
			if i > 0 {
				b.WriteString(",")
			}
			b.WriteString("kvp(")
			atomShape(a.elems[i], b)
			b.WriteString(",")
			atomShape(a.elems[i+1], b)
			b.WriteString(")")
		}
		b.WriteString(")")
	}
}

func (n *node) writeShape(b *strings.Builder) {
	if n.op == "" {
		atomShape(n.a, b)
		return
	}
	b.WriteString(nodeNames[n.op])
	b.WriteString("(")
	for i, k := range n.kids {
		if i > 0 {
			b.WriteString(",")
		}
		k.writeShape(b)
	}
	b.WriteString(")")
}

func (n *node) shape() string {
	var b strings.Builder
	n.writeShape(&b)
	return b.String()
}

// describe gives a short signature of a tree root for finding keys and
// messages: the operator and, per operand, its kind or "expr".
func (n *node) describe() string {
	if n.op == "" {
		return n.a.kind().String()
	}
	var ks []string
	for _, k := range n.kids {
		if k.op == "" {
			ks = append(ks, k.describe())
		} else {
			ks = append(ks, "expr")
		}
	}
	pre := ""
	if n.unary {
		pre = "prefix"
	}
	return pre + n.op + "(" + strings.Join(ks, ",") + ")"
}

func (n *node) walk(f func(*node)) {
	f(n)
	for _, k := range n.kids {
		k.walk(f)
	}
}

func (n *node) countOps() int {
	c := 0
	n.walk(func(m *node) {
		if m.op != "" {
			c++
		}
	})
	return c
}

// ---------------------------------------------------------------------------
// outcomes

type okind int

const (
	oVal       okind = iota // exactly this value
	oErr                    // a runtime error out of errs
	oBoolOrErr              // statement is silent on the value: a boolean or any error
	oAnyErr                 // must be an error, the statement does not say which
	oAny                    // nothing can be said
	oExcluded               // outside the property (zero divisor of %, uncomparable operands): not evaluated
)

var okindNames = []string{"value", "error", "bool-or-error", "some-error", "unspecified", "excluded"}

// errSpec is one acceptable runtime error: "Operand is not a <what>" naming operand.
type errSpec struct {
	what    string // number | boolean | list
	operand *node
}

type outcome struct {
	k    okind
	v    interface{}
	errs []errSpec
}

func val(v interface{}) outcome { return outcome{k: oVal, v: v} }

// known deviations of the real implementation, modelled as switches
const devLikeSwallowsError = "like-swallows-operand-error"

var devText = map[string]string{
	devLikeSwallowsError: "like drops the runtime error of a failing operand and yields null",
}

type evalEnv struct {
	dev   bool            // evaluate with the known deviations switched on
	fired map[string]bool // which switches influenced the run
}

func (e *evalEnv) fire(name string) {
	if e.fired == nil {
		e.fired = map[string]bool{}
	}
	e.fired[name] = true
}

var reCache = map[string]*regexp.Regexp{}

func likeMatch(s, pattern string) (bool, error) {
	re, ok := reCache[pattern]
	if !ok {
		var err error
		re, err = regexp.Compile(pattern)
		if err != nil {
			re = nil
		}
		reCache[pattern] = re
	}
	if re == nil {
		return false, fmt.Errorf("invalid pattern")
	}
	return re.MatchString(s), nil
}

func scalarEqual(a, b interface{}) bool {
	ka, kb := kindOf(a), kindOf(b)
	if ka != kb {
		return false
	}
	switch ka {
	case kNull:
		return true
	case kBool:
		return a.(bool) == b.(bool)
	case kNum:
		return a.(float64) == b.(float64)
	case kStr:
		return a.(string) == b.(string)
	}
	return false
}

func isContainer(v interface{}) bool { k := kindOf(v); return k == kList || k == kMap }

func yieldsBoolean(op string) bool {
	if op == "and" || op == "or" || op == "not" {
		return true
	}
	return binLevel[op] == lvlCmp
}

func isArith(op string) bool { l := binLevel[op]; return l == lvlAdd || l == lvlMul }

const maxInt = 4.0e18 // beyond this the integer truncation of a float is not portable

// eval evaluates a reference tree.
func (e *evalEnv) eval(n *node) outcome {
	if n.op == "" {
		return val(n.a.val)
	}
	if n.op == ":=" {
		// the value of interest is what the variable receives
		return e.eval(n.kids[1])
	}
	outs := make([]outcome, len(n.kids))
	worst := oVal
	for i, k := range n.kids {
		outs[i] = e.eval(k)
		if outs[i].k == oExcluded {
			worst = oExcluded
		}
	}
	if worst == oExcluded {
		return outcome{k: oExcluded}
	}
	for _, o := range outs {
		if o.k == oAny {
			return outcome{k: oAny}
		}
	}
	// known deviation: like drops an error raised by one of its operands
	if e.dev && n.op == "like" {
		for _, o := range outs {
			if o.k == oErr || o.k == oAnyErr {
				e.fire(devLikeSwallowsError)
				return val(nil)
			}
			if o.k == oBoolOrErr {
				return outcome{k: oAny}
			}
		}
	}
	if n.op == "like" && outs[1].k == oVal && kindOf(outs[1].v) != kStr {
		return outcome{k: oAny} // the text form of a non-string need not even be a pattern
	}
	// operands whose value the statement leaves open
	open, anyErr := false, false
	for _, o := range outs {
		if o.k == oBoolOrErr {
			open = true
		}
		if o.k == oAnyErr {
			anyErr = true
		}
	}
	if anyErr {
		return outcome{k: oAnyErr}
	}
	if open {
		if yieldsBoolean(n.op) {
			return outcome{k: oBoolOrErr}
		}
		return outcome{k: oAnyErr} // a boolean or an error fed to an arithmetic operator
	}
	// an operand failed: the failure propagates; a well-evaluated but ill-kinded
	// sibling may be reported instead (the statement does not fix the order)
	failed := false
	var errs []errSpec
	for _, o := range outs {
		if o.k == oErr {
			failed = true
			errs = append(errs, o.errs...)
		}
	}
	want := ""
	switch {
	case isArith(n.op):
		want = "number"
	case n.op == "and" || n.op == "or" || n.op == "not":
		want = "boolean"
	}
	wrong := func(i int) bool {
		if outs[i].k != oVal {
			return false
		}
		switch want {
		case "number":
			return kindOf(outs[i].v) != kNum
		case "boolean":
			return kindOf(outs[i].v) != kBool
		}
		if (n.op == "in" || n.op == "notin") && i == 1 {
			return kindOf(outs[i].v) != kList
		}
		return false
	}
	for i := range outs {
		if wrong(i) {
			w := want
			if w == "" {
				w = "list"
			}
			errs = append(errs, errSpec{w, n.kids[i]})
		}
	}
	if failed || len(errs) > 0 {
		return outcome{k: oErr, errs: errs}
	}

	// all operands are values of an acceptable kind
	if n.unary {
		switch n.op {
		case "-":
			return val(-outs[0].v.(float64))
		case "+":
			return val(outs[0].v.(float64))
		case "not":
			return val(!outs[0].v.(bool))
		}
	}
	l, r := outs[0].v, outs[1].v
	switch n.op {
	case "+":
		return val(l.(float64) + r.(float64))
	case "-":
		return val(l.(float64) - r.(float64))
	case "*":
		return val(l.(float64) * r.(float64))
	case "/":
		return val(l.(float64) / r.(float64))
	case "//":
		return val(math.Floor(l.(float64) / r.(float64)))
	case "%":
		a, b := l.(float64), r.(float64)
		if math.IsNaN(a) || math.IsNaN(b) || math.Abs(a) > maxInt || math.Abs(b) > maxInt {
			return outcome{k: oExcluded}
		}
		ai, bi := int64(a), int64(b)
		if bi == 0 {
			// a divisor whose integer part is zero (0, 0.5, -0.25): "modulo by
			// zero comes back as an error value" - some error, never a value
			return outcome{k: oAnyErr}
		}
		return val(float64(ai % bi))
	case "and":
		return val(l.(bool) && r.(bool)) // both operands were evaluated: not short-circuit
	case "or":
		return val(l.(bool) || r.(bool))
	case "==", "!=", "<", "<=", ">", ">=":
		if isContainer(l) || isContainer(r) {
			return outcome{k: oExcluded} // comparing containers may crash: C06
		}
		kl, kr := kindOf(l), kindOf(r)
		if kl != kr {
			return outcome{k: oBoolOrErr} // mixed kinds: unspecified
		}
		if n.op == "==" {
			return val(scalarEqual(l, r))
		}
		if n.op == "!=" {
			return val(!scalarEqual(l, r))
		}
		var c int
		switch kl {
		case kNum:
			a, b := l.(float64), r.(float64)
			if math.IsNaN(a) || math.IsNaN(b) {
				return val(false)
			}
			c = cmpFloat(a, b)
		case kStr:
			c = strings.Compare(l.(string), r.(string))
		default:
			return outcome{k: oBoolOrErr} // ordering of booleans / null: unspecified
		}
		switch n.op {
		case "<":
			return val(c < 0)
		case "<=":
			return val(c <= 0)
		case ">":
			return val(c > 0)
		}
		return val(c >= 0)
	case "like", "hasPrefix", "hasSuffix":
		ls, lok := l.(string)
		rs, rok := r.(string)
		if !lok || !rok {
			return outcome{k: oBoolOrErr} // string operators on other kinds: unspecified
		}
		switch n.op {
		case "like":
			m, err := likeMatch(ls, rs)
			if err != nil {
				return outcome{k: oAny} // invalid pattern: the statement is silent
			}
			return val(m)
		case "hasPrefix":
			return val(len(ls) >= len(rs) && ls[:len(rs)] == rs)
		}
		return val(len(ls) >= len(rs) && ls[len(ls)-len(rs):] == rs)
	case "in", "notin":
		if isContainer(l) {
			return outcome{k: oExcluded}
		}
		found := false
		for _, e := range r.([]interface{}) {
			if isContainer(e) {
				return outcome{k: oExcluded}
			}
			if scalarEqual(l, e) {
				found = true
			}
		}
		return val(found == (n.op == "in"))
	}
	panic("c03: reference has no rule for operator " + n.op)
}

func cmpFloat(a, b float64) int {
	switch {
	case a < b:
		return -1
	case a > b:
		return 1
	}
	return 0
}

func valuesEqual(a, b interface{}) bool {
	switch x := a.(type) {
	case nil:
		return b == nil
	case bool:
		y, ok := b.(bool)
		return ok && x == y
	case float64:
		y, ok := b.(float64)
		return ok && (x == y || (math.IsNaN(x) && math.IsNaN(y)))
	case string:
		y, ok := b.(string)
		return ok && x == y
	case []interface{}:
		y, ok := b.([]interface{})
		if !ok || len(x) != len(y) {
			return false
		}
		for i := range x {
			if !valuesEqual(x[i], y[i]) {
				return false
			}
		}
		return true
	case map[interface{}]interface{}:
		y, ok := b.(map[interface{}]interface{})
		if !ok || len(x) != len(y) {
			return false
		}
		for k, v := range x {
			w, ok := y[k]
			if !ok || !valuesEqual(v, w) {
				return false
			}
		}
		return true
	}
	return false
}

// observablyDifferent tells whether two reference outcomes can be told apart
// by looking at value / error of an evaluation: 2 = value against different
// value, 1 = value against error or disjoint errors, 0 = cannot tell.
func observablyDifferent(a, b outcome) int {
	switch {
	case a.k == oVal && b.k == oVal:
		if !valuesEqual(a.v, b.v) {
			return 2
		}
	case a.k == oVal && (b.k == oErr || b.k == oAnyErr), b.k == oVal && (a.k == oErr || a.k == oAnyErr):
		return 1
	case a.k == oErr && b.k == oErr:
		for _, x := range a.errs {
			for _, y := range b.errs {
				if x.what == y.what && x.operand.lo == y.operand.lo && x.operand.hi == y.operand.hi {
					return 0
				}
			}
		}
		return 1
	}
	return 0
}

func (o outcome) String() string {
	switch o.k {
	case oVal:
		return fmt.Sprintf("value %#v", o.v)
	case oErr:
		var s []string
		for _, e := range o.errs {
			s = append(s, fmt.Sprintf("'Operand is not a %s' naming operand %s", e.what, e.operand.describe()))
		}
		sort.Strings(s)
		return "runtime error: " + strings.Join(s, " | ")
	}
	return okindNames[o.k]
}
