package c13

import (
	"fmt"
	"regexp"
	"strings"

	"verif/harness/core"
)

// tgen generates ECAL program texts. With ifFor == false it never emits the
// keywords if / elif / else / for (the constructs whose parsing touches the
// package-level grammar table), neither directly nor inside interpolated
// strings.
type tgen struct {
	r       *core.Rand
	ifFor   bool
	imports []string // importable paths ("" = none)
	nFunc   int
	nLoop   int
	nMap    int // map literals emitted
	nBlock  int // blocks emitted
	nGuard  int // if / for emitted
}

var idents = []string{"a", "b", "c", "d", "x", "y", "z", "foo", "bar", "m", "lst", "acc", "val"}
var funcs = []string{"foo", "bar", "len", "type", "concat", "m.get", "lst.add", "range"}
var words = []string{"abc", "x y", "", "k", "hello world", "E1", "a.b", "1"}

var ifForRe = regexp.MustCompile(`\b(if|for|elif|else)\b`)

func (g *tgen) ident() string { return g.r.Pick(idents) }

func (g *tgen) number() string {
	switch g.r.Intn(4) {
	case 0:
		return fmt.Sprint(g.r.Intn(10))
	case 1:
		return fmt.Sprint(g.r.Intn(100000))
	case 2:
		return fmt.Sprintf("%d.%d", g.r.Intn(50), g.r.Intn(100))
	}
	return fmt.Sprint(g.r.Intn(3))
}

// safeExpr: literals, lists, maps, + - * on numbers, len(...). Evaluates
// without runtime errors; used where the text is evaluated, not only parsed.
func (g *tgen) safeExpr(d int) string {
	if d <= 0 {
		if g.r.Bool() {
			return g.number()
		}
		return "'" + g.r.Pick(words) + "'"
	}
	switch g.r.Intn(8) {
	case 0:
		return g.number()
	case 1:
		return "'" + g.r.Pick(words) + "'"
	case 2:
		return fmt.Sprintf("%s %s %s", g.number(), g.r.Pick([]string{"+", "-", "*"}), g.number())
	case 3:
		n := g.r.Intn(4)
		p := make([]string, n)
		for i := range p {
			p[i] = g.safeExpr(d - 1)
		}
		return "[" + strings.Join(p, ", ") + "]"
	case 4, 5:
		g.nMap++
		n := g.r.Intn(4)
		p := make([]string, n)
		for i := range p {
			k := fmt.Sprint(i + 1)
			if g.r.Bool() {
				k = fmt.Sprintf("'k%d'", i)
			}
			p[i] = k + ": " + g.safeExpr(d-1)
		}
		return "{" + strings.Join(p, ", ") + "}"
	case 6:
		g.nMap++
		return fmt.Sprintf("len({1: %s, 2: %s})", g.safeExpr(d-1), g.safeExpr(d-1))
	}
	return fmt.Sprintf("(%s + %s)", g.number(), g.number())
}

func (g *tgen) str() string {
	switch g.r.Intn(7) {
	case 0:
		return `"` + g.r.Pick(words) + `"`
	case 1:
		return `'` + g.r.Pick(words) + `'`
	case 2:
		return `r"raw {{` + g.ident() + `}} \n"`
	case 3:
		return `"i={{` + g.ident() + ` + ` + g.number() + `}}"`
	case 4:
		g.nMap++
		return `"m={{ len({1: ` + g.number() + `}) }} and {{` + g.ident() + `}}"`
	case 5:
		return `"esc \"q\" \n \t end"`
	}
	return `"` + g.r.Pick(words) + ` ` + g.r.Pick(words) + `"`
}

func (g *tgen) atom() string {
	switch g.r.Intn(9) {
	case 0, 1:
		return g.number()
	case 2, 3:
		return g.str()
	case 4, 5:
		return g.ident()
	case 6:
		return g.r.Pick([]string{"true", "false", "null"})
	case 7:
		return g.ident() + "." + g.ident()
	}
	return g.ident() + "[" + g.number() + "]"
}

func (g *tgen) mapLit(d int) string {
	g.nMap++
	n := g.r.Intn(4)
	p := make([]string, n)
	for i := range p {
		var k string
		switch g.r.Intn(3) {
		case 0:
			k = g.number()
		case 1:
			k = g.str()
		default:
			k = g.ident()
		}
		p[i] = k + " : " + g.expr(d-1)
	}
	switch g.r.Intn(4) {
	case 0:
		return "{" + strings.Join(p, ", ") + "}"
	case 1:
		return "{ " + strings.Join(p, ",\n    ") + " }"
	case 2:
		return "{\n    " + strings.Join(p, ",\n    ") + "\n}"
	}
	return "{" + strings.Join(p, ",") + "}"
}

func (g *tgen) expr(d int) string {
	if d <= 0 {
		return g.atom()
	}
	switch g.r.Intn(16) {
	case 0, 1:
		return g.atom()
	case 2:
		return g.expr(d-1) + " " + g.r.Pick([]string{"+", "-", "*", "/", "//", "%"}) + " " + g.expr(d-1)
	case 3:
		return g.expr(d-1) + " " + g.r.Pick([]string{"==", "!=", "<", ">", "<=", ">="}) + " " + g.expr(d-1)
	case 4:
		if g.r.Bool() {
			return "not " + g.expr(d-1)
		}
		return g.expr(d-1) + " " + g.r.Pick([]string{"and", "or"}) + " " + g.expr(d-1)
	case 5:
		return "-" + g.atom()
	case 6:
		return "(" + g.expr(d-1) + ")"
	case 7:
		n := g.r.Intn(4)
		p := make([]string, n)
		for i := range p {
			p[i] = g.expr(d - 1)
		}
		return "[" + strings.Join(p, ", ") + "]"
	case 8, 9, 10:
		return g.mapLit(d)
	case 11:
		n := g.r.Intn(3)
		p := make([]string, n)
		for i := range p {
			p[i] = g.expr(d - 1)
		}
		return g.r.Pick(funcs) + "(" + strings.Join(p, ", ") + ")"
	case 12:
		return g.expr(d-1) + " " + g.r.Pick([]string{"in", "notin", "like", "hasprefix", "hassuffix"}) + " " + g.expr(d-1)
	case 13:
		return g.ident() + "[" + g.expr(d-1) + "]." + g.ident()
	case 14:
		return g.str()
	}
	return g.mapLit(d - 1)
}

// guardExpr is an expression for an if / for condition. Mostly without a map
// literal (inside a guard expression '{' starts the block, so a map literal
// there is a - deterministic - syntax error); sometimes with one.
func (g *tgen) guardExpr(d int) string {
	if g.r.Chance(1, 10) {
		return g.expr(d)
	}
	switch g.r.Intn(6) {
	case 0:
		return g.ident() + " " + g.r.Pick([]string{"==", "!=", "<", ">"}) + " " + g.number()
	case 1:
		return "(" + g.ident() + " + " + g.number() + ") > " + g.number() + " and " + g.ident()
	case 2:
		return g.ident() + " in [" + g.number() + ", " + g.str() + "]"
	case 3:
		return "not " + g.ident() + "." + g.ident()
	case 4:
		return g.r.Pick(funcs) + "(" + g.ident() + ") == " + g.str()
	}
	return "true"
}

func ind(n int) string { return strings.Repeat("    ", n) }

func (g *tgen) block(d, lvl int) string {
	g.nBlock++
	n := g.r.Intn(4)
	if d <= 0 && n > 1 {
		n = 1
	}
	if n == 0 {
		return g.r.Pick([]string{"{}", "{ }", "{\n" + ind(lvl) + "}"})
	}
	st := make([]string, n)
	for i := range st {
		st[i] = g.stmt(d-1, lvl+1)
	}
	if g.r.Chance(1, 6) {
		oneLine := true
		for _, s := range st {
			if strings.Contains(s, "\n") || strings.Contains(s, "#") {
				oneLine = false
			}
		}
		if oneLine {
			return "{ " + strings.Join(st, "; ") + " }"
		}
	}
	return "{\n" + ind(lvl+1) + strings.Join(st, "\n"+ind(lvl+1)) + "\n" + ind(lvl) + "}"
}

func (g *tgen) stmt(d, lvl int) string {
	for {
		k := g.r.Intn(20)
		if d <= 0 && k >= 7 && k != 11 {
			k = g.r.Intn(5)
		}
		switch k {
		case 0, 1, 2:
			return g.ident() + " := " + g.expr(2)
		case 3:
			return "let " + g.ident() + " := " + g.expr(2)
		case 4:
			return "[" + g.ident() + ", " + g.ident() + "] := [" + g.expr(1) + ", " + g.expr(1) + "]"
		case 5:
			return g.r.Pick(funcs) + "(" + g.expr(2) + ")"
		case 6:
			if g.nFunc > 0 && g.r.Bool() {
				return "return " + g.expr(2)
			}
			if g.nLoop > 0 {
				return g.r.Pick([]string{"break", "continue"})
			}
			return g.ident() + " := " + g.mapLit(2)
		case 7, 8:
			g.nFunc++
			name := ""
			if g.r.Chance(3, 4) {
				name = " " + g.ident()
			}
			params := []string{}
			for i := g.r.Intn(3); i > 0; i-- {
				p := g.ident()
				if g.r.Chance(1, 3) {
					p += "=" + g.expr(1)
				}
				params = append(params, p)
			}
			s := "func" + name + "(" + strings.Join(params, ", ") + ") " + g.block(d, lvl)
			g.nFunc--
			if name == "" {
				s = g.ident() + " := " + s
			}
			return s
		case 9:
			s := "try " + g.block(d, lvl)
			for i := g.r.Intn(3); i > 0; i-- {
				switch g.r.Intn(4) {
				case 0:
					s += " except " + g.block(d, lvl)
				case 1:
					s += ` except "E1", "E2" as e ` + g.block(d, lvl)
				case 2:
					s += " except e " + g.block(d, lvl)
				default:
					s += ` except "` + g.r.Pick(words) + `" ` + g.block(d, lvl)
				}
			}
			if g.r.Chance(1, 3) {
				s += " otherwise " + g.block(d, lvl)
			}
			if g.r.Chance(1, 2) {
				s += " finally " + g.block(d, lvl)
			}
			return s
		case 10:
			// names nobody has used before are the interesting ones: the first
			// use of a name sets up shared state
			return "mutex " + g.ident() + fmt.Sprint(g.r.Intn(400)) + " " + g.block(d, lvl)
		case 11:
			if len(g.imports) == 0 {
				continue
			}
			return `import "` + g.r.Pick(g.imports) + `" as ` + g.ident()
		case 12:
			s := "sink " + g.ident() + g.number()[:1] + "\n" + ind(lvl+1) + `kindmatch [ "` + g.r.Pick([]string{"c13.ev", "c13.*", "a.b.c"}) + `" ]`
			if g.r.Bool() {
				s += ",\n" + ind(lvl+1) + "statematch " + g.mapLit(1)
			}
			if g.r.Bool() {
				s += ",\n" + ind(lvl+1) + "priority " + fmt.Sprint(g.r.Intn(10))
			}
			if g.r.Chance(1, 3) {
				s += ",\n" + ind(lvl+1) + `suppresses [ "other" ]`
			}
			return s + "\n" + ind(lvl+1) + g.block(d, lvl+1)
		case 13:
			c := g.r.Pick([]string{"# a comment { with brace", "/* multi { } */", "# if for {"})
			if !g.ifFor {
				c = strings.Replace(c, "if for", "i f", 1)
			}
			return c + "\n" + ind(lvl) + g.ident() + " := " + g.expr(1) + " # post " + g.ident()
		case 14, 15, 16:
			if !g.ifFor {
				continue
			}
			g.nGuard++
			s := "if " + g.guardExpr(2) + " " + g.block(d, lvl)
			for i := g.r.Intn(3); i > 0; i-- {
				g.nGuard++
				s += " elif " + g.guardExpr(2) + " " + g.block(d, lvl)
			}
			if g.r.Bool() {
				s += " else " + g.block(d, lvl)
			}
			return s
		case 17, 18, 19:
			if !g.ifFor {
				continue
			}
			g.nGuard++
			g.nLoop++
			var s string
			switch g.r.Intn(4) {
			case 0:
				s = "for " + g.ident() + " in range(" + g.number() + ", " + g.number() + ") " + g.block(d, lvl)
			case 1:
				s = "for [" + g.ident() + ", " + g.ident() + "] in " + g.ident() + " " + g.block(d, lvl)
			case 2:
				s = "for " + g.guardExpr(1) + " " + g.block(d, lvl)
			default:
				s = "for " + g.ident() + " in [" + g.expr(1) + ", " + g.expr(1) + "] " + g.block(d, lvl)
			}
			g.nLoop--
			return s
		}
	}
}

// program returns a (mostly valid) program of n top level statements.
func (g *tgen) program(n, depth int) string {
	st := make([]string, n)
	for i := range st {
		st[i] = g.stmt(depth, 0)
	}
	sep := "\n"
	if g.r.Chance(1, 8) {
		sep = "\n\n"
	}
	return strings.Join(st, sep) + "\n"
}

// breakText injects a syntax error. Kinds 0..4 fail on the last tokens (the
// lexer goroutine has finished by then), kind 5 fails in the middle of the text.
func (g *tgen) breakText(src string) (string, string) {
	switch k := g.r.Intn(12); {
	case k < 2:
		if i := strings.LastIndex(src, "}"); i >= 0 {
			return src[:i] + src[i+1:], "drop-last-closing-brace"
		}
		return src + ")", "stray-paren-at-end"
	case k < 4:
		return src + ")\n", "stray-paren-at-end"
	case k < 6:
		return src + "x := \"abc\n", "unclosed-string-at-end"
	case k < 8:
		g.nMap++
		return src + "y := {1 :", "unfinished-map-at-end"
	case k < 10:
		return src + "}\n", "stray-closing-brace-at-end"
	case k < 11:
		return src + "z := {1 : 2 3 : 4}\n", "missing-comma-in-map-at-end"
	default:
		lines := strings.Split(src, "\n")
		i := g.r.Intn(len(lines))
		lines[i] = ") " + lines[i]
		return strings.Join(lines, "\n"), "stray-paren-in-the-middle"
	}
}

// lib returns an importable file.
func (g *tgen) lib(i int) string {
	var b strings.Builder
	fmt.Fprintf(&b, "# library %d\n", i)
	fmt.Fprintf(&b, "func f(x) {\n    return x * %d\n}\n", g.r.Range(2, 5))
	g.nMap++
	fmt.Fprintf(&b, "m := {\"k\": [1, 2, %s], \"j\": {\"x\": %s}}\n", g.number(), g.number())
	if g.ifFor {
		g.nGuard += 2
		fmt.Fprintf(&b, "func g(x) {\n    if x > %d {\n        return {\"big\": x}\n    } elif x == 0 {\n        return {}\n    }\n    r := 0\n    for i in range(1, %d) {\n        r := r + i\n    }\n    return {\"small\": x, \"r\": r}\n}\n", g.r.Intn(4), g.r.Range(1, 4))
	} else {
		fmt.Fprintf(&b, "func g(x) {\n    return {\"val\": x, \"more\": [x, {\"y\": %s}]}\n}\n", g.number())
	}
	fmt.Fprintf(&b, "n := \"lib%d {{ len(m) + %d }}\"\n", i, g.r.Intn(9))
	return b.String()
}
