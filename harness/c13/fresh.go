package c13

import (
	"fmt"
	"sync"
	"sync/atomic"

	"github.com/krotik/ecal/interpreter"
	"github.com/krotik/ecal/util"

	"verif/harness/core"
)

// Stream "fresh": 2..8 goroutines parse and validate, with ONE shared runtime
// provider, texts nobody has parsed before - every text brings names of its
// own (mutex names, function names, sink names, import paths), so whatever a
// provider or the parser keeps per name is set up by several goroutines at the
// same time, all the time. Afterwards every text is parsed once more on one
// goroutine with a new provider: the results must be the same.
func freshScenario(c *core.Ctx, stream string, idx int) {
	r := c.Rng(stream, idx)
	g := r.OneOf(2, 3, 4, 4, 8)
	per := r.Range(40, 120)
	sc := &scen{c: c, stream: stream, idx: idx, reported: map[string]bool{}}
	files := map[string]string{}
	for k := 0; k < g*per; k++ {
		files[fmt.Sprintf("lib/f%d.ecal", k)] = fmt.Sprintf("mutex lm%d {\n    q := %d\n}\n", k, k)
	}
	sc.erp = interpreter.NewECALRuntimeProvider("c13-fresh", &util.MemoryImportLocator{Files: files}, &memLog{})
	defer stopCron(sc.erp)
	c.Begin(0, stream, idx, fmt.Sprintf("fresh: %d goroutines x %d new texts each", g, per))
	defer c.End(0)
	texts := make([][]*textCase, g)
	got := make([][]string, g)
	for i := 0; i < g; i++ {
		gr := core.NewRand(r.U64())
		for k := 0; k < per; k++ {
			n := i*per + k
			var src string
			switch gr.Intn(6) {
			case 0:
				src = fmt.Sprintf("mutex m%d {\n    a := 1\n    mutex n%d {\n        b := 2\n    }\n}\n", n, n)
			case 1:
				src = fmt.Sprintf("func fn%d(x) {\n    mutex fm%d {\n        return x\n    }\n}\nfn%d(1)\n", n, n, n)
			case 2:
				src = fmt.Sprintf("sink sk%d\n    kindmatch [ \"k%d\" ],\n    priority %d\n{\n    mutex sm%d {\n        log(event)\n    }\n}\n", n, n, n%7, n)
			case 3:
				src = fmt.Sprintf("import \"lib/f%d.ecal\" as l%d\nmutex im%d {\n    c := l%d\n}\n", n, n, n, n)
			case 4:
				src = fmt.Sprintf("x%d := \"{{mutexless%d}}\"\nmutex sm%d {\n    y := {\"k%d\" : [%d]}\n}\n", n, n, n, n, n)
			default:
				// an error at the first token in between
				src = fmt.Sprintf("\"unclosed %d\nmutex em%d {\n}\n", n, n)
			}
			texts[i] = append(texts[i], &textCase{name: fmt.Sprintf("fresh-%d-%d.ecal", idx, n), src: src, kind: "fresh"})
		}
		got[i] = make([]string, per)
	}
	var wg sync.WaitGroup
	start := make(chan struct{})
	for i := 0; i < g; i++ {
		wg.Add(1)
		go func(i int) {
			defer wg.Done()
			<-start
			for k, t := range texts[i] {
				got[i][k], _ = sc.parseOnce(t, modeValidate, false)
			}
		}(i)
	}
	close(start)
	wg.Wait()
	c.AddEvals(g * per)
	// sequential reference with a provider of its own
	conc := sc.erp
	sc.erp = interpreter.NewECALRuntimeProvider("c13-fresh", &util.MemoryImportLocator{Files: files}, &memLog{})
	defer stopCron(sc.erp)
	_ = conc
	bad := 0
	for i := 0; i < g; i++ {
		for k, t := range texts[i] {
			want, _ := sc.parseOnce(t, modeValidate, false)
			if want != got[i][k] {
				bad++
				if bad <= 2 {
					c.Violation("fresh:result-differs", "parsing and validating a text for the first time next to other first-time parses gives another result than parsing it alone: "+firstDiff(want, got[i][k]), stream, idx,
						map[string]interface{}{"text": t.src, "alone": trunc(want, 1500), "concurrent": trunc(got[i][k], 1500), "goroutines": g})
				}
			}
		}
	}
	c.Event("fresh.texts", int64(g*per))
	c.Event("fresh.scenarios", 1)
	if atomic.LoadInt64(&sc.maxActive) >= 2 && bad == 0 {
		c.Nontrivial(core.Hash64(fmt.Sprintf("fresh|%d", idx)))
	}
}
