package c13

import (
	"fmt"
	"sort"
	"strings"
	"sync"
	"time"

	"github.com/krotik/ecal/engine"
	"github.com/krotik/ecal/interpreter"
	"github.com/krotik/ecal/parser"
	"github.com/krotik/ecal/scope"
	"github.com/krotik/ecal/util"

	"verif/harness/core"
	"verif/harness/sched"
)

// memLog is the logger handed to the interpreter; log(...) calls of the
// evaluated programs are the observable output of sinks.
type memLog struct {
	mu    sync.Mutex
	lines []string
}

func (l *memLog) add(p string, v []interface{}) {
	l.mu.Lock()
	l.lines = append(l.lines, p+fmt.Sprint(v...))
	l.mu.Unlock()
}
func (l *memLog) LogError(v ...interface{}) { l.add("error: ", v) }
func (l *memLog) LogInfo(v ...interface{})  { l.add("", v) }
func (l *memLog) LogDebug(v ...interface{}) { l.add("debug: ", v) }
func (l *memLog) take(sorted bool) string {
	l.mu.Lock()
	defer l.mu.Unlock()
	r := l.lines
	l.lines = nil
	if sorted {
		sort.Strings(r)
	}
	return strings.Join(r, "\n")
}

// stopCron stops the provider's cron goroutine without waiting for it:
// timeutil.Cron.Stop holds the cron lock while it hands the stop token over,
// and deadlocks with the cron goroutine when its one-second tick fires at
// that moment (krotik/common, not a subject of this property).
func stopCron(erp *interpreter.ECALRuntimeProvider) { go erp.Cron.Stop() }

const (
	jobInterp = "interp" // strings with {{...}}: one run-time parse per interpolation
	jobImport = "import" // import statements: one run-time parse per imported file
	jobSink   = "sink"   // sinks on pool workers which interpolate and import
	jobDebug  = "debug"  // suspended thread + inject loop (parses on the console goroutine)
)

// evalJob is one evaluation whose result depends on parses done at run time.
type evalJob struct {
	kind    string
	name    string
	src     string
	files   map[string]string
	events  int
	injects []string
	want    string
	dropped bool // no sequential result could be obtained
}

func (j *evalJob) describe() string {
	s := fmt.Sprintf("[%s] %s", j.kind, trunc(j.src, 400))
	if len(j.injects) > 0 {
		s += fmt.Sprintf(" injects=%q", j.injects)
	}
	return s
}

// worker holds what one goroutine re-uses between runs of a job.
type jobWorker struct {
	j       *evalJob
	lg      *memLog
	erp     *interpreter.ECALRuntimeProvider
	workers int // pool workers of a sink job
}

func (j *evalJob) newWorker(poolWorkers int) *jobWorker {
	w := &jobWorker{j: j, lg: &memLog{}, workers: poolWorkers}
	if j.kind == jobInterp || j.kind == jobImport {
		w.erp = interpreter.NewECALRuntimeProvider(j.name, &util.MemoryImportLocator{Files: j.files}, w.lg)
	}
	return w
}

func (w *jobWorker) close() {
	if w.erp != nil {
		stopCron(w.erp)
	}
}

// run executes the job once. incon != "" means no result could be obtained.
func (w *jobWorker) run() (out string, incon string) {
	switch w.j.kind {
	case jobSink:
		return w.runSink(), ""
	case jobDebug:
		return w.runDebug()
	}
	return w.runPlain(), ""
}

func evalProgram(erp *interpreter.ECALRuntimeProvider, name, src string) string {
	var out string
	key, _, panicked := core.Guard(func() {
		ast, err := parser.ParseWithRuntime(name, src, erp)
		if err != nil {
			out = "parse: " + err.Error()
			return
		}
		if err = ast.Runtime.Validate(); err != nil {
			out = "validate: " + err.Error()
			return
		}
		vs := scope.NewScope(scope.GlobalScope)
		res, err := ast.Runtime.Eval(vs, make(map[string]interface{}), erp.NewThreadID())
		out = fmt.Sprintf("result=%v error=%v", res, err)
	})
	if panicked {
		out = "PANIC " + key
	}
	return out
}

func (w *jobWorker) runPlain() string {
	out := evalProgram(w.erp, w.j.name, w.j.src)
	return out + "\nlog:\n" + w.lg.take(false)
}

func (w *jobWorker) runSink() string {
	j := w.j
	erp := interpreter.NewECALRuntimeProvider(j.name, &util.MemoryImportLocator{Files: j.files}, w.lg)
	defer stopCron(erp)
	// the sequential reference runs the sinks on ONE worker (sink bodies parse
	// at run time, so several workers are concurrent parses already); the
	// concurrent phase uses four. The multiset of log lines does not depend on it.
	erp.Processor = engine.NewProcessor(w.workers)
	erp.Processor.SetFailOnFirstErrorInTriggerSequence(true)
	erp.Processor.ThreadPool().TooManyCallback = func() {} // the default writes a warning to stderr
	out := evalProgram(erp, j.name, j.src)
	erp.Processor.Start()
	var mons []engine.Monitor
	for k := 0; k < j.events; k++ {
		m, err := erp.Processor.AddEvent(engine.NewEvent(fmt.Sprintf("ev%d", k), []string{"c13", "ev"},
			map[interface{}]interface{}{"n": float64(k)}), nil)
		if err != nil {
			w.lg.add("add event: ", []interface{}{err})
		} else if m != nil {
			mons = append(mons, m)
		}
	}
	erp.Processor.ThreadPool().WaitAll() // re-broadcasts until the queue is empty and all workers idle
	erp.Processor.Finish()
	for _, m := range mons {
		if rm, ok := m.(*engine.RootMonitor); ok {
			for _, te := range rm.AllErrors() {
				for rule, e := range te.ErrorMap {
					w.lg.add("sink error: ", []interface{}{rule, ": ", e})
				}
			}
		}
	}
	return out + "\nlog (sorted):\n" + w.lg.take(true)
}

func (w *jobWorker) runDebug() (string, string) {
	j := w.j
	erp := interpreter.NewECALRuntimeProvider(j.name, &util.MemoryImportLocator{Files: j.files}, w.lg)
	defer stopCron(erp)
	gvs := scope.NewScope(scope.GlobalScope)
	dbg := interpreter.NewECALDebugger(gvs)
	erp.Debugger = dbg
	ast, err := parser.ParseWithRuntime(j.name, j.src, erp)
	if err != nil {
		return "parse: " + err.Error(), ""
	}
	if err = ast.Runtime.Validate(); err != nil {
		return "validate: " + err.Error(), ""
	}
	dbg.SetBreakPoint(j.name, 2)
	tid := erp.NewThreadID()
	done := make(chan string, 1)
	gidCh := make(chan uint64, 1)
	go func() {
		gidCh <- sched.GoID()
		var out string
		key, _, panicked := core.Guard(func() {
			vs := scope.NewScope(scope.GlobalScope)
			res, err := ast.Runtime.Eval(vs, make(map[string]interface{}), tid)
			out = fmt.Sprintf("result=%v error=%v", res, err)
		})
		if panicked {
			out = "PANIC " + key
		}
		done <- out
	}()
	gid := <-gidCh
	// the thread must really be parked on its condition variable before the
	// console acts (a Continue issued earlier can be lost - that is C15's
	// subject, not this property's)
	parked := false
	for i := 0; i < 4000 && !parked; i++ {
		select {
		case r := <-done:
			return "finished without suspending: " + r, ""
		default:
		}
		if strings.HasPrefix(sched.GoStates()[gid], "sync.Cond.Wait") {
			parked = true
		} else {
			time.Sleep(500 * time.Microsecond)
		}
	}
	if !parked {
		return "", "debugged thread did not reach its breakpoint wait"
	}
	var b strings.Builder
	for _, e := range j.injects {
		var ierr error
		key, _, panicked := core.Guard(func() { ierr = dbg.InjectValue(tid, "x", e) })
		if panicked {
			fmt.Fprintf(&b, "inject %q: PANIC %s\n", e, key)
		} else {
			fmt.Fprintf(&b, "inject %q: %v\n", e, ierr)
		}
	}
	dbg.Continue(tid, util.Resume)
	select {
	case r := <-done:
		dbg.RecordThreadFinished(tid)
		b.WriteString(r)
	case <-time.After(30 * time.Second):
		return "", "debugged thread did not finish after Continue"
	}
	return b.String() + "\nlog:\n" + w.lg.take(false), ""
}

// interpExpr is a safe expression that can stand between {{ and }}: it never
// contains the delimiters itself (how the interpolator pairs delimiters is
// C14's subject).
func interpExpr(g *tgen, d int) string {
	e := g.safeExpr(d)
	for strings.Contains(e, "}}") || strings.Contains(e, "{{") {
		e = strings.Replace(strings.Replace(e, "}}", "} }", -1), "{{", "{ {", -1)
	}
	return e
}

// makeJob builds the program of a job of the given kind.
func makeJob(kind string, g *tgen, name string, files map[string]string, paths []string) *evalJob {
	j := &evalJob{kind: kind, name: name, files: files}
	var b strings.Builder
	switch kind {
	case jobInterp:
		fmt.Fprintf(&b, "a := %d\n", g.r.Intn(50))
		g.nMap++
		fmt.Fprintf(&b, "m := {\"k\": [1, 2, %d], \"j\": {\"x\": %d}}\n", g.r.Intn(9), g.r.Intn(9))
		fmt.Fprintf(&b, "s := \"v={{a + %d}} k={{m.k[%d]}} z={{ len([%s]) }} n={{m.j.x * 2}}\"\n", g.r.Intn(9), g.r.Intn(3), interpExpr(g, 1))
		fmt.Fprintf(&b, "t := \"q={{ [a, %s] }} w={{ %s }}\"\n", interpExpr(g, 2), interpExpr(g, 2))
		if g.ifFor {
			g.nGuard += 2
			fmt.Fprintf(&b, "for i in range(1, %d) {\n    if i > 1 {\n        t := t + \"{{i}}:{{ len({1 : i}) }};\"\n    } else {\n        t := t + \"{{ if i == 1 { 'one' } }}\"\n    }\n}\n", g.r.Range(2, 4))
		}
		b.WriteString("log(s)\n[s, t]\n")
	case jobImport:
		for i, p := range paths {
			fmt.Fprintf(&b, "import %q as l%d\n", p, i)
		}
		g.nMap++
		fmt.Fprintf(&b, "r := {\"f\": l0.f(%d), \"g\": l1.g(%d), \"n\": l0.n, \"m\": l1.m}\n", g.r.Intn(9), g.r.Intn(5))
		b.WriteString("log(\"imported {{ len(r) }}\")\nr\n")
	case jobSink:
		j.events = g.r.Range(8, 24)
		fmt.Fprintf(&b, "import %q as top\n", paths[0])
		fmt.Fprintf(&b, "sink s1\n    kindmatch [ \"c13.ev\" ],\n    priority 1\n    {\n")
		fmt.Fprintf(&b, "        import %q as lib\n", paths[1%len(paths)])
		g.nMap++
		fmt.Fprintf(&b, "        log(\"s1 n={{event.state.n}} f={{lib.f(event.state.n)}} g={{lib.g(1)}} m={{ len([%s]) }}\")\n", interpExpr(g, 1))
		if g.ifFor {
			g.nGuard += 2
			b.WriteString("        for i in range(1, 2) {\n            if i == event.state.n {\n                log(\"hit {{i}} {{ {1 : i} }}\")\n            }\n        }\n")
		}
		b.WriteString("    }\n")
		fmt.Fprintf(&b, "sink s2\n    kindmatch [ \"c13.*\" ],\n    priority 2\n    {\n")
		g.nMap++
		fmt.Fprintf(&b, "        log(\"s2 {{event.name}} {{ [event.state.n, {'k' : event.state.n}] }} {{ %s }}\")\n    }\n", interpExpr(g, 1))
		b.WriteString("\"sinks declared {{ top.n }}\"\n")
	case jobDebug:
		b.WriteString("x := 1\ny := x\nz := \"y is {{y}} / {{ len([y, y]) }}\"\n[y, z]\n")
		n := g.r.Range(3, 6)
		for i := 0; i < n; i++ {
			switch {
			case g.r.Chance(1, 6):
				g.nMap++
				j.injects = append(j.injects, "{1 : 2") // syntax error on the console
			case g.ifFor && g.r.Chance(1, 3):
				g.nGuard++
				g.nMap++
				j.injects = append(j.injects, fmt.Sprintf("if 1 == 1 { {'v' : %s} }", g.safeExpr(1)))
			default:
				j.injects = append(j.injects, g.safeExpr(2))
			}
		}
		g.nMap++
		j.injects = append(j.injects, fmt.Sprintf("{'last' : [%d, {2 : 3}]}", g.r.Intn(99)))
	}
	j.src = b.String()
	return j
}
