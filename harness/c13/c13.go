// Package c13 holds the runtime monitors for property C13 (see DESIGN.md section 4).
package c13

import "verif/harness/core"

func init() { core.Register("C13", Run) }

// Run is the check.
func Run(c *core.Ctx) {
}
