// Package c13 holds the runtime monitors for property C13: parsing is a pure,
// re-entrant function of its input (see DESIGN.md section 4).
//
// Every scenario first computes, on one goroutine in a quiescent process, the
// result of every text (rendered tree or error string) and of every
// evaluation job; then 2..16 goroutines parse the same texts concurrently
// (with and without a runtime provider, with Validate) while other goroutines
// run evaluations that parse at run time (string interpolation, imports,
// sinks on pool workers, a debugger inject loop). Oracles: each concurrent
// result equals the sequential one; the process survives (the driver turns
// `fatal error: concurrent map ...` into a verdict using the progress slot);
// in the -race build the driver applies cfg race_rule to the reports.
//
// Streams: "noif" scenarios contain no if/for anywhere (texts, imported files,
// interpolations), so the known grammar-table defect cannot disturb them and
// any other re-entrancy problem stays visible; "canary" (small, fixed texts)
// and "mixed" (full corpus) scenarios parse if/for concurrently. Scenario
// indexes are even for noif and odd for canary/mixed, so that with an even
// number of batches a process runs either the one or the other kind.
package c13

import (
	"fmt"
	"os"
	"runtime"
	"strings"
	"sync"
	"sync/atomic"
	"time"

	"github.com/krotik/ecal/interpreter"
	"github.com/krotik/ecal/parser"
	"github.com/krotik/ecal/util"

	"verif/harness/core"
)

func init() { core.Register("C13", Run) }

const (
	streamNoif   = "noif"
	streamCanary = "canary"
	streamMixed  = "mixed"

	// a process that lost this many if/for scenarios to a fatal error stops
	// running further ones (the driver abandons a batch after 6 deaths and
	// with it everything the batch observed)
	maxDeaths = 3
)

const (
	modeParse    = 0 // parser.Parse
	modeRuntime  = 1 // parser.ParseWithRuntime with a shared provider
	modeValidate = 2 // ... followed by Validate
)

var modeNames = []string{"Parse", "ParseWithRuntime", "ParseWithRuntime+Validate"}

type textCase struct {
	name  string
	src   string
	kind  string // "valid" or the injected error
	ifFor bool
	leaky bool // the parse leaves the lexer goroutine behind (error far from the end)
	want  [3]string
}

const (
	roleParse = iota
	roleRuntime
	roleValidate
	roleJob
)

type role struct {
	kind int
	job  *evalJob
}

func (r role) String() string {
	if r.kind == roleJob {
		return r.job.kind
	}
	return modeNames[r.kind]
}

type scen struct {
	c      *core.Ctx
	stream string
	idx    int
	ifFor  bool
	texts  []*textCase
	roles  []role
	jobs   []*evalJob
	reps   int
	erp    *interpreter.ECALRuntimeProvider

	active     int64
	maxActive  int64
	overlapped int64
	leakBudget int64
	nParse     int64
	nErrRes    int64
	nTreeRes   int64
	nValidate  int64
	nRtNodes   int64
	nJobRuns   [4]int64
	nInjects   int64

	mu       sync.Mutex
	reported map[string]bool

	// cold: this is the first scenario of the process. The concurrent phase
	// runs BEFORE the sequential results are computed, so that state which is
	// initialised lazily on first use is first used concurrently; results are
	// kept and compared afterwards.
	cold     bool
	deferred map[deferredResult]int
	nViol    int  // violations reported by this scenario
	sticky   bool // cold scenario: the probes failed right after the concurrent phase
}

type deferredResult struct {
	text *textCase
	job  *evalJob
	mode int
	got  string
}

func (sc *scen) checkParse(t *textCase, mode int, got string, g int) {
	if sc.cold {
		sc.mu.Lock()
		if _, ok := sc.deferred[deferredResult{t, nil, mode, got}]; !ok {
			sc.deferred[deferredResult{t, nil, mode, got}] = g
		}
		sc.mu.Unlock()
		return
	}
	if got != t.want[mode] {
		sc.reportParseDiff(t, mode, got, g)
	}
}

func (sc *scen) checkJob(j *evalJob, got string, g int) {
	if sc.cold {
		sc.mu.Lock()
		if _, ok := sc.deferred[deferredResult{nil, j, 0, got}]; !ok {
			sc.deferred[deferredResult{nil, j, 0, got}] = g
		}
		sc.mu.Unlock()
		return
	}
	if got != j.want {
		sc.reportJobDiff(j, got, g)
	}
}

var jobKinds = []string{jobInterp, jobImport, jobSink, jobDebug}

func reps(c *core.Ctx) int {
	n := c.Pick(240, 1200)
	if c.Race {
		n /= 4
	}
	return n
}

func buildScenario(c *core.Ctx, stream string, idx int) *scen {
	r := c.Rng(stream, idx)
	sc := &scen{c: c, stream: stream, idx: idx, ifFor: stream != streamNoif, reps: reps(c), reported: map[string]bool{}}
	if stream == streamCanary {
		// the minimal witness of the grammar-table defect, kept as a fixed regression scenario
		fixed := [][2]string{
			{"if a == 1 {\n    b := 2\n}\n", "valid"},
			{"x := {\"k\" : 1}\n", "valid"},
			{"for i in range(1, 3) {\n    c := {1 : i}\n}\n", "valid"},
			{"y := [{}, {1 : {2 : 3}}]\n", "valid"},
		}
		for k, f := range fixed {
			sc.texts = append(sc.texts, &textCase{name: fmt.Sprintf("canary-%d.ecal", k), src: f[0], kind: f[1], ifFor: ifForRe.MatchString(f[0])})
		}
		g := []int{2, 2, 3, 4}[r.Intn(4)]
		for i := 0; i < g; i++ {
			sc.roles = append(sc.roles, role{kind: i % 3})
		}
		sc.reps /= 2
		return sc
	}
	// importable files
	files := map[string]string{}
	var paths []string
	lg := &tgen{r: r, ifFor: sc.ifFor}
	for i := 0; i < 3; i++ {
		p := fmt.Sprintf("lib/l%d.ecal", i)
		files[p] = lg.lib(i)
		paths = append(paths, p)
	}
	nTexts := r.Range(4, 14)
	for k := 0; k < nTexts; k++ {
		g := &tgen{r: r, ifFor: sc.ifFor && k%3 != 1, imports: paths}
		src := g.program(r.Range(1, 5), r.Range(1, 3))
		if sc.ifFor && k%3 == 0 && g.nGuard == 0 {
			src = "if " + g.guardExpr(1) + " " + g.block(1, 0) + "\n" + src
		}
		if k%3 == 1 && g.nMap == 0 {
			src += g.ident() + " := " + g.mapLit(2) + "\n"
		}
		kind := "valid"
		if r.Chance(1, 4) {
			src, kind = g.breakText(src)
		}
		if !sc.ifFor && ifForRe.MatchString(src) {
			panic("c13 generator emitted if/for in a noif text: " + src)
		}
		sc.texts = append(sc.texts, &textCase{name: fmt.Sprintf("%s-%d-t%d.ecal", stream, idx, k), src: src, kind: kind,
			ifFor: ifForRe.MatchString(src)})
	}
	// texts whose very FIRST token cannot be read (the parser gives up before
	// it has built anything): an unclosed string, a bad identifier, nothing but a
	// comment without a line end
	if (idx/2)%2 == 1 {
		for k, f := range [][2]string{{"\"never closed " + fmt.Sprint(idx) + "\nx := 1\n", "first-token-unclosed-string"},
			{"1abc := 2\n", "first-token-bad-identifier"}, {"# nothing but a comment", "comment-only-no-line-end"}} {
			sc.texts = append(sc.texts, &textCase{name: fmt.Sprintf("%s-%d-f%d.ecal", stream, idx, k), src: f[0], kind: f[1]})
		}
	}
	g := []int{2, 2, 3, 4, 4, 6, 8, 8, 12, 16}[r.Intn(10)]
	jg := &tgen{r: r, ifFor: sc.ifFor}
	for i := 0; i < g; i++ {
		// the first two goroutines always parse; the others parse or evaluate
		if i >= 2 && r.Chance(2, 5) {
			kind := jobKinds[r.Intn(len(jobKinds))]
			j := makeJob(kind, jg, fmt.Sprintf("%s-%d-job%d", stream, idx, i), files, paths)
			if !sc.ifFor && (ifForRe.MatchString(j.src) || ifForRe.MatchString(strings.Join(j.injects, " "))) {
				panic("c13 generator emitted if/for in a noif job: " + j.src)
			}
			sc.jobs = append(sc.jobs, j)
			sc.roles = append(sc.roles, role{kind: roleJob, job: j})
		} else {
			sc.roles = append(sc.roles, role{kind: r.Intn(3)})
		}
	}
	if !sc.ifFor {
		for _, f := range files {
			if ifForRe.MatchString(f) {
				panic("c13 generator emitted if/for in a noif library")
			}
		}
	}
	return sc
}

func (sc *scen) describe() string {
	var b strings.Builder
	fmt.Fprintf(&b, "%s scenario %d: %d goroutines, roles %v, %d parses per parsing goroutine; texts:\n", sc.stream, sc.idx, len(sc.roles), sc.roles, sc.reps)
	for _, t := range sc.texts {
		fmt.Fprintf(&b, "--- %s (%s)\n%s\n", t.name, t.kind, trunc(t.src, 350))
	}
	for _, j := range sc.jobs {
		fmt.Fprintf(&b, "--- job %s\n", j.describe())
	}
	return b.String()
}

// parseOnce performs one parse in the given mode and renders the outcome.
func (sc *scen) parseOnce(t *textCase, mode int, checkIDs bool) (res string, dup string) {
	n := atomic.AddInt64(&sc.active, 1)
	if n > 1 {
		atomic.AddInt64(&sc.overlapped, 1)
		for {
			m := atomic.LoadInt64(&sc.maxActive)
			if n <= m || atomic.CompareAndSwapInt64(&sc.maxActive, m, n) {
				break
			}
		}
	}
	var ast *parser.ASTNode
	var err error
	var verr string
	key, _, panicked := core.Guard(func() {
		if mode == modeParse {
			ast, err = parser.Parse(t.name, t.src)
		} else {
			ast, err = parser.ParseWithRuntime(t.name, t.src, sc.erp)
		}
		if mode == modeValidate && err == nil && ast != nil && ast.Runtime != nil {
			verr = fmt.Sprintf("VALIDATE %v\n", ast.Runtime.Validate())
		}
	})
	atomic.AddInt64(&sc.active, -1)
	atomic.AddInt64(&sc.nParse, 1)
	if panicked {
		return "PANIC " + key + "\n", ""
	}
	var ids map[string]int
	if checkIDs && mode != modeParse {
		ids = map[string]int{}
	}
	res = renderResult(ast, err, ids) + verr
	if err != nil {
		atomic.AddInt64(&sc.nErrRes, 1)
	} else {
		atomic.AddInt64(&sc.nTreeRes, 1)
	}
	if verr != "" {
		atomic.AddInt64(&sc.nValidate, 1)
	}
	if ids != nil {
		atomic.AddInt64(&sc.nRtNodes, int64(len(ids)))
		for id, k := range ids {
			if k > 1 {
				dup = fmt.Sprintf("instance id %s is carried by %d runtime components of one tree", id, k)
				break
			}
		}
	}
	return res, dup
}

func (sc *scen) once(key string) bool {
	sc.mu.Lock()
	defer sc.mu.Unlock()
	if sc.reported[key] {
		return false
	}
	sc.reported[key] = true
	sc.nViol++
	return true
}

func (sc *scen) reportParseDiff(t *textCase, mode int, got string, g int) {
	want := t.want[mode]
	var key string
	switch {
	case strings.HasPrefix(got, "PANIC "):
		key = strings.TrimSpace(strings.TrimPrefix(got, "PANIC "))
	case sc.ifFor && strings.Contains(t.src, "{") && braceRelated(t.src, want, got):
		key = "wrong-result:brace-meaning"
	case isErrorResult(got) && !isErrorResult(want):
		key = "wrong-result:parse-error-for-valid-text"
	case !isErrorResult(got) && isErrorResult(want):
		key = "wrong-result:parse-tree-for-invalid-text"
	case isErrorResult(got):
		key = "wrong-result:parse-different-error"
	default:
		key = "wrong-result:parse-different-tree"
	}
	if !sc.once(key) {
		return
	}
	what := fmt.Sprintf("a concurrent %s of %q differs from the sequential result for the same text (%s)", modeNames[mode], t.name, firstDiff(want, got))
	sc.c.Violation(key, what, sc.stream, sc.idx, map[string]interface{}{
		"text": t.src, "name": t.name, "mode": modeNames[mode], "text_kind": t.kind,
		"sequential": trunc(want, 1500), "concurrent": trunc(got, 1500),
		"goroutine": g, "goroutines": len(sc.roles), "roles": fmt.Sprint(sc.roles),
		"concurrent_if_for_parses": sc.ifFor,
	})
}

func (sc *scen) reportJobDiff(j *evalJob, got string, g int) {
	key := "wrong-result:eval-" + j.kind
	if strings.HasPrefix(got, "PANIC ") {
		key = strings.TrimSpace(strings.SplitN(strings.TrimPrefix(got, "PANIC "), "\n", 2)[0])
	} else if sc.ifFor && strings.Count(got, "Parse error") != strings.Count(j.want, "Parse error") {
		// a run-time parse failed in one of the two runs only: with if/for
		// parses running concurrently this is the swapped '{' entry
		worse := got
		if strings.Count(j.want, "Parse error") > strings.Count(got, "Parse error") {
			worse = j.want
		}
		if strings.Contains(worse, "({)") || strings.Contains(worse, "Unexpected term") || strings.Contains(worse, "Unexpected end") {
			key = "wrong-result:brace-meaning"
		}
	}
	if !sc.once(key) {
		return
	}
	what := fmt.Sprintf("a %s evaluation running next to concurrent parses differs from the same evaluation run alone (%s)", j.kind, firstDiff(j.want, got))
	sc.c.Violation(key, what, sc.stream, sc.idx, map[string]interface{}{
		"program": j.src, "injects": j.injects, "events": j.events, "files": j.files,
		"sequential": trunc(j.want, 1500), "concurrent": trunc(got, 1500),
		"goroutine": g, "goroutines": len(sc.roles), "roles": fmt.Sprint(sc.roles),
		"concurrent_if_for_parses": sc.ifFor,
	})
}

// leakyText: would a parse of this text leave the lexer goroutine blocked
// (parse error with more than a look-ahead of tokens left)? Such texts are
// parsed only a few times per scenario (the race runtime supports at most
// 8128 live goroutines).
func leakyText(t *textCase) bool {
	l, p, ok := errorPosition(t.want[modeParse])
	if !isErrorResult(t.want[modeParse]) {
		return false
	}
	if !ok {
		return true
	}
	after := 0
	for _, tok := range parser.LexToList(t.name, t.src) {
		if tok.Lline > l || (tok.Lline == l && tok.Lpos > p) {
			after++
		}
	}
	return after > 2
}

func (sc *scen) baseline() {
	saved := []int64{sc.nParse, sc.nErrRes, sc.nTreeRes, sc.nValidate, sc.overlapped, sc.maxActive}
	for _, t := range sc.texts {
		for m := 0; m < 3; m++ {
			t.want[m], _ = sc.parseOnce(t, m, false)
		}
		t.leaky = leakyText(t)
	}
	kept := sc.jobs[:0]
	for _, j := range sc.jobs {
		w := j.newWorker(1)
		out, incon := w.run()
		w.close()
		if incon != "" {
			sc.c.Inconclusive("evaluation job produced no sequential result: "+incon, sc.stream, sc.idx, j.describe())
			j.dropped = true
			continue
		}
		j.want = out
		kept = append(kept, j)
	}
	sc.jobs = kept
	sc.nParse, sc.nErrRes, sc.nTreeRes, sc.nValidate, sc.overlapped, sc.maxActive = saved[0], saved[1], saved[2], saved[3], saved[4], saved[5]
}

func (sc *scen) runRole(g int, ro role, r *core.Rand) {
	if ro.kind == roleJob {
		j := ro.job
		if j.dropped {
			return
		}
		n := sc.reps / 12
		ki := 0
		switch j.kind {
		case jobImport:
			ki = 1
		case jobSink:
			n, ki = sc.reps/60, 2
		case jobDebug:
			n, ki = sc.reps/60, 3
			if n > 12 {
				n = 12 // every inject leaves a cron goroutine of the interpreter behind
			}
		}
		if n < 1 {
			n = 1
		}
		w := j.newWorker(4)
		defer w.close()
		for i := 0; i < n; i++ {
			got, incon := w.run()
			atomic.AddInt64(&sc.nJobRuns[ki], 1)
			if incon != "" {
				sc.c.Inconclusive("evaluation job produced no result: "+incon, sc.stream, sc.idx, j.describe())
				return
			}
			if j.kind == jobDebug {
				atomic.AddInt64(&sc.nInjects, int64(len(j.injects)))
			}
			sc.checkJob(j, got, g)
		}
		return
	}
	for i := 0; i < sc.reps; i++ {
		t := sc.texts[r.Intn(len(sc.texts))]
		if t.leaky && atomic.AddInt64(&sc.leakBudget, -1) < 0 {
			continue
		}
		got, dup := sc.parseOnce(t, ro.kind, i%4 == 0)
		sc.checkParse(t, ro.kind, got, g)
		if dup != "" && sc.once("wrong-result:duplicate-instance-id") {
			sc.c.Violation("wrong-result:duplicate-instance-id", "runtime components of one concurrently parsed tree share an instance id (sequential parses give every component its own): "+dup,
				sc.stream, sc.idx, map[string]interface{}{"text": t.src, "name": t.name, "goroutines": len(sc.roles)})
		}
	}
}

func (sc *scen) run() {
	c := sc.c
	sc.erp = interpreter.NewECALRuntimeProvider("c13-shared", &util.MemoryImportLocator{Files: map[string]string{}}, &memLog{})
	defer stopCron(sc.erp)
	if !sc.cold {
		sc.baseline()
	}
	sc.leakBudget = 8
	rngs := make([]*core.Rand, len(sc.roles))
	base := c.Rng(sc.stream+"/goroutines", sc.idx)
	for i := range rngs {
		rngs[i] = core.NewRand(base.U64())
	}
	start := make(chan struct{})
	var wg sync.WaitGroup
	for g, ro := range sc.roles {
		wg.Add(1)
		go func(g int, ro role) {
			defer wg.Done()
			<-start
			sc.runRole(g, ro, rngs[g])
		}(g, ro)
	}
	close(start)
	wg.Wait()
	if sc.cold && !probesSane() {
		// the parser no longer parses the (valid) probe texts although every
		// goroutine has returned: no trustworthy sequential results can be
		// computed in this process any more; Run reports the sticky state
		sc.sticky = true
		sc.cold = false
		c.Inconclusive("results of the cold-start scenario were not compared: the parser state was already corrupted when its concurrent phase ended", sc.stream, sc.idx, nil)
	}
	if sc.cold {
		sc.baseline()
		sc.cold = false
		for d, g := range sc.deferred {
			if d.job != nil {
				if !d.job.dropped && d.got != d.job.want {
					sc.reportJobDiff(d.job, d.got, g)
				}
			} else if d.got != d.text.want[d.mode] {
				sc.reportParseDiff(d.text, d.mode, d.got, g)
			}
		}
		c.Event("scenarios.cold-start(concurrent-phase-before-sequential)", 1)
	}

	// evidence
	c.Event("scenarios."+sc.stream, 1)
	c.Event(fmt.Sprintf("scenarios.goroutines=%02d", len(sc.roles)), 1)
	if sc.maxActive >= 2 {
		c.Event("scenarios.with-overlapping-parses", 1)
	}
	c.Event("parse.concurrent-calls", sc.nParse)
	c.Event("parse.calls-started-while-another-was-active", sc.overlapped)
	c.Event("parse.results.error", sc.nErrRes)
	c.Event("parse.results.tree", sc.nTreeRes)
	c.Event("validate.calls", sc.nValidate)
	c.Event("runtime-components.checked-for-distinct-ids", sc.nRtNodes)
	for i, k := range jobKinds {
		if sc.nJobRuns[i] > 0 {
			c.Event("eval."+k+".runs", sc.nJobRuns[i])
		}
	}
	if sc.nInjects > 0 {
		c.Event("debugger.inject-calls", sc.nInjects)
	}
	for _, t := range sc.texts {
		c.Event("texts.total", 1)
		if t.ifFor {
			c.Event("texts.with-if-or-for", 1)
		}
		if strings.Contains(t.src, "{") {
			c.Event("texts.with-brace", 1)
		}
		if isErrorResult(t.want[0]) {
			c.Event("texts.sequential-result-is-error", 1)
		}
		if t.leaky {
			c.Event("texts.error-far-from-end(parsed-at-most-8x)", 1)
		}
		if sc.maxActive >= 2 {
			for m := 0; m < 3; m++ {
				c.Nontrivial(core.Hash64(fmt.Sprintf("%d|%s", m, t.src)))
			}
		}
	}
	for _, j := range sc.jobs {
		if sc.maxActive >= 2 {
			c.NontrivialKey(j.kind + "|" + j.src + "|" + strings.Join(j.injects, "|"))
		}
		c.Sample("job-"+j.kind+"-"+sc.stream, map[string]interface{}{"program": j.src, "injects": j.injects, "events": j.events, "sequential_result": trunc(j.want, 600)})
	}
	if len(sc.texts) > 0 {
		t := sc.texts[len(sc.texts)/2]
		c.Sample("text-"+sc.stream, map[string]interface{}{"text": t.src, "kind": t.kind, "goroutines": len(sc.roles), "roles": fmt.Sprint(sc.roles),
			"sequential_result": trunc(t.want[modeRuntime], 500)})
	}
}

// probes: texts whose sequential result is taken when the process starts and
// again after every scenario (all goroutines joined). A difference means the
// parser's package-level state did not return to its initial value.
var probes = [][2]string{
	{"probe-map", "x := {1 : 2}\n"},
	{"probe-if", "if a { b := {3 : 4} }\n"},
	{"probe-for", "for i in c { d := 1 }\n"},
	{"probe-func", "func f() { return {} }\n"},
}

func probeNow() []string {
	res := make([]string, len(probes))
	for i, p := range probes {
		key, _, panicked := core.Guard(func() {
			ast, err := parser.Parse(p[0], p[1])
			res[i] = renderResult(ast, err, nil)
		})
		if panicked {
			res[i] = "PANIC " + key
		}
	}
	return res
}

func probesSane() bool { return probesSaneList(probeNow()) }

func probesSaneList(l []string) bool {
	for _, r := range l {
		if isErrorResult(r) || !hasTree(r) {
			return false
		}
	}
	return true
}

// Run is the check.
func Run(c *core.Ctx) {
	c.Note("rule", "scenario = seeded set of 4..14 generated program texts (assignments, expressions, list/map literals incl. nested and empty ones, func/sink/try/mutex blocks, imports from a memory locator, comments, interpolated strings; mixed stream additionally if/elif/else and for with nested guards; 1 in 4 texts carries an injected syntax error: dropped closing brace, stray token, unclosed string, unfinished map, error in the middle; every other scenario adds three texts whose very first token cannot be read) plus 3 importable files; sequential results first (in the first scenario of each process and in every eighth scenario: afterwards, so that lazily initialised state is first touched concurrently), then 2..16 goroutines: parsing goroutines (Parse / ParseWithRuntime on one shared provider / +Validate, N parses each over the texts) next to evaluation goroutines (interpolating strings, importing files, sinks on pool workers fed with 8..24 events, debugger breakpoint + inject loop). fresh stream = 2..8 goroutines parse+validate, with one shared provider, 40..120 texts each that nobody parsed before (every text brings its own mutex, function, sink and import names), compared with parsing each text alone with another provider. canary stream = 4 fixed texts (if, for, map literals), 2..4 parsing goroutines. noif stream: no if/for anywhere. non-trivial/distinct = distinct (text, parse mode) pairs and distinct evaluation jobs of scenarios in which at least two parses were observed in flight simultaneously")
	var probeWant []string // taken after the first (cold) scenario of the process
	first := true

	nNoif := c.Pick(128, 480)
	nCanary := c.Pick(64, 192)
	nMixed := c.Pick(128, 480)
	type plan struct {
		stream string
		n      int
		parity int
	}
	plans := []plan{{streamNoif, nNoif, 0}, {streamCanary, nCanary, 1}, {streamMixed, nMixed, 1}}

	// if/for scenarios that killed an earlier attempt of this batch (the driver
	// passes them as --skip): they are mine by index but not offered to me
	deaths := 0
	if !c.Replay() {
		for _, p := range plans[1:] {
			for idx := p.parity; idx < 2*p.n; idx += 2 {
				if (c.NBatch <= 1 || idx%c.NBatch == c.Batch) && !c.Mine(p.stream, idx) {
					deaths++
				}
			}
		}
	}
	for idx := 0; idx < c.Pick(160, 1600); idx++ {
		if c.Take("fresh", idx) {
			freshScenario(c, "fresh", idx)
		}
	}
	poisoned := false
	notRun := 0
	for _, p := range plans {
		for idx := p.parity; idx < 2*p.n; idx += 2 {
			if !c.Mine(p.stream, idx) {
				continue
			}
			if poisoned || (p.parity == 1 && deaths >= maxDeaths && !c.Replay()) {
				notRun++
				continue
			}
			c.Take(p.stream, idx)
			var sc *scen
			var got []string
			// a replay repeats the scenario (same texts, same roles) until a
			// violation shows or 30 schedules have been tried
			for try := 0; try < 30; try++ {
				sc = buildScenario(c, p.stream, idx)
				// every fourth scenario runs its concurrent phase before the
				// sequential one as well: whatever a provider or the parser sets up
				// lazily (tables keyed by names that appear in the texts) is then
				// first touched by several goroutines at once
				sc.cold, sc.deferred = first || (idx/2)%4 == 3, map[deferredResult]int{}
				c.Begin(0, p.stream, idx, sc.describe())
				t0 := time.Now()
				sc.run()
				if os.Getenv("VH_C13_TIMING") != "" {
					fmt.Fprintf(os.Stderr, "%s:%d %v roles=%v\n", p.stream, idx, time.Since(t0), sc.roles)
				}
				c.End(0)
				got = probeNow()
				if !c.Replay() || sc.nViol > 0 || sc.sticky || first && !probesSaneList(got) {
					break
				}
				if probeWant != nil && fmt.Sprint(got) != fmt.Sprint(probeWant) {
					break
				}
				if first {
					first = false
					probeWant = got
				}
			}
			if first {
				// the probes are valid programs: whatever ran before, a
				// sequential parse of them yields a tree
				first = false
				probeWant = make([]string, len(got))
				for i := range got {
					probeWant[i] = got[i]
					if isErrorResult(got[i]) || !hasTree(got[i]) {
						probeWant[i] = "TREE (expected: the probe is a valid program)\n"
					}
				}
			}
			for i := range got {
				if got[i] != probeWant[i] {
					key := "sticky:parser-state"
					if braceRelated(probes[i][1], probeWant[i], got[i]) {
						key = "sticky:brace-meaning"
					}
					c.Violation(key, fmt.Sprintf("after all parses of the scenario have returned, a sequential parse of %q does not give the result it gave before the scenario (%s): package-level parser state stayed modified", probes[i][1], firstDiff(probeWant[i], got[i])),
						p.stream, idx, map[string]interface{}{"probe": probes[i][1], "before": probeWant[i], "now": got[i], "scenario": trunc(sc.describe(), 3000)})
					poisoned = true
					break
				}
			}
		}
	}
	if notRun > 0 {
		why := fmt.Sprintf("%d if/for scenarios of this batch already ended in a process death", deaths)
		if poisoned {
			why = "the parser state of this process stayed corrupted after a scenario (reported as sticky:*)"
		}
		c.Event("scenarios.not-run", int64(notRun))
		c.Inconclusive(fmt.Sprintf("%d scenarios of batch %d were not run: %s", notRun, c.Batch, why), "batch", c.Batch, nil)
	}
	c.Event("goroutines.alive-at-end(summed-over-batches)", int64(runtime.NumGoroutine()))
}
