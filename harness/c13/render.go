package c13

import (
	"fmt"
	"reflect"
	"strconv"
	"strings"

	"github.com/krotik/ecal/parser"
)

// renderNode writes every observable field of the tree: node name, the whole
// token (id, value, offsets, line, column, source name, flags), meta data
// (comments), the type of the attached runtime component and the children.
// Instance ids of runtime components are collected in ids (they legitimately
// differ between two parses; within one tree they must be pairwise distinct).
func renderNode(n *parser.ASTNode, b *strings.Builder, depth int, ids map[string]int) {
	for i := 0; i < depth; i++ {
		b.WriteByte(' ')
	}
	if n == nil {
		b.WriteString("<nil node>\n")
		return
	}
	b.WriteString(n.Name)
	if t := n.Token; t != nil {
		b.WriteString(" tok=")
		b.WriteString(strconv.Itoa(int(t.ID)))
		b.WriteByte('/')
		b.WriteString(strconv.Quote(t.Val))
		b.WriteByte('/')
		b.WriteString(strconv.Itoa(t.Pos))
		b.WriteByte('/')
		b.WriteString(strconv.Itoa(t.Lline))
		b.WriteByte(':')
		b.WriteString(strconv.Itoa(t.Lpos))
		b.WriteByte('/')
		b.WriteString(t.Lsource)
		if t.Identifier {
			b.WriteString("/id")
		}
		if t.AllowEscapes {
			b.WriteString("/esc")
		}
	} else {
		b.WriteString(" tok=nil")
	}
	for _, m := range n.Meta {
		b.WriteString(" meta=")
		b.WriteString(m.Type())
		b.WriteByte(':')
		b.WriteString(strconv.Quote(m.Value()))
	}
	if n.Runtime != nil {
		b.WriteString(" rt=")
		b.WriteString(reflect.TypeOf(n.Runtime).String())
		if ids != nil {
			if id, ok := instanceID(n.Runtime); ok {
				ids[id]++
			}
		}
	}
	b.WriteByte('\n')
	for _, ch := range n.Children {
		renderNode(ch, b, depth+1, ids)
	}
}

// instanceID reads the unexported instance id of an interpreter runtime
// component (all of them embed *baseRuntime).
func instanceID(rt parser.Runtime) (id string, ok bool) {
	defer func() {
		if recover() != nil {
			ok = false
		}
	}()
	v := reflect.ValueOf(rt)
	for v.Kind() == reflect.Ptr || v.Kind() == reflect.Interface {
		if v.IsNil() {
			return "", false
		}
		v = v.Elem()
	}
	if v.Kind() != reflect.Struct {
		return "", false
	}
	f := v.FieldByName("instanceID")
	if !f.IsValid() || f.Kind() != reflect.String {
		return "", false
	}
	return f.String(), true
}

// renderResult turns the outcome of a parse into one comparable string.
func renderResult(ast *parser.ASTNode, err error, ids map[string]int) string {
	var b strings.Builder
	if err != nil {
		b.WriteString("ERROR ")
		b.WriteString(err.Error())
		if pe, ok := err.(*parser.Error); ok {
			fmt.Fprintf(&b, " [source=%q type=%v detail=%q line=%d pos=%d]", pe.Source, pe.Type, pe.Detail, pe.Line, pe.Pos)
		}
		b.WriteByte('\n')
	}
	if ast != nil {
		b.WriteString("TREE\n")
		renderNode(ast, &b, 0, ids)
	} else if err == nil {
		b.WriteString("NOTHING\n")
	}
	return b.String()
}

func isErrorResult(res string) bool { return strings.HasPrefix(res, "ERROR ") }
func hasTree(res string) bool       { return strings.Contains(res, "TREE\n") }

// errorPosition extracts line / column of a rendered parser error.
func errorPosition(res string) (line, pos int, ok bool) {
	i := strings.Index(res, " line=")
	if !isErrorResult(res) || i < 0 {
		return 0, 0, false
	}
	if _, err := fmt.Sscanf(res[i:], " line=%d pos=%d]", &line, &pos); err != nil {
		return 0, 0, false
	}
	return line, pos, line > 0
}

// errorCore is type, detail and position of a rendered parser error.
func errorCore(res string) string {
	i := strings.Index(res, " type=")
	j := strings.Index(res, "]\n")
	if i < 0 || j < i {
		return res
	}
	return res[i:j]
}

// atBrace tells whether the position (1-based line and column) is on a '{' or
// on the first token after a '{'.
func atBrace(src string, line, pos int) bool {
	off := 0
	for l := 1; l < line; l++ {
		j := strings.IndexByte(src[off:], '\n')
		if j < 0 {
			return false
		}
		off += j + 1
	}
	off += pos - 1
	if off < 0 {
		return false
	}
	if off >= len(src) {
		off = len(src) // end of input: look backwards only
	} else if src[off] == '{' {
		return true
	}
	for k := off - 1; k >= 0; k-- {
		switch src[k] {
		case ' ', '\t', '\n', '\r':
			continue
		case '{':
			return true
		}
		return false
	}
	return false
}

// braceToken tells, from the token stream of src, whether the token at the
// given line / column is a '{' or directly follows one (comments skipped).
// Positions are matched against the lexer's own token positions, so a
// position the lexer reports wrongly is still matched consistently.
func braceToken(src string, line, pos int) bool {
	var toks []parser.LexToken
	for _, t := range parser.LexToList("classify", src) {
		if t.ID != parser.TokenPRECOMMENT && t.ID != parser.TokenPOSTCOMMENT {
			toks = append(toks, t)
		}
	}
	for i, t := range toks {
		if t.Lline == line && t.Lpos == pos {
			if t.ID == parser.TokenLBRACE || (i > 0 && toks[i-1].ID == parser.TokenLBRACE) {
				return true
			}
		}
	}
	return false
}

// braceRelated: is the difference between the sequential and the concurrent
// result of src located at a '{' (the token whose grammar entry an if / for
// parse swaps)? Used only to choose the finding key.
func braceRelated(src, want, got string) bool {
	if isErrorResult(want) && isErrorResult(got) && errorCore(want) == errorCore(got) {
		return false // same error at the same place: the difference is elsewhere (e.g. the source name)
	}
	for _, r := range []string{got, want} {
		if l, p, ok := errorPosition(r); ok && (braceToken(src, l, p) || atBrace(src, l, p)) {
			return true
		}
		if isErrorResult(r) && strings.Contains(r, ` detail="{" `) {
			return true
		}
	}
	return false
}

func firstDiff(a, b string) string {
	la, lb := strings.Split(a, "\n"), strings.Split(b, "\n")
	for i := 0; i < len(la) || i < len(lb); i++ {
		var x, y string
		if i < len(la) {
			x = la[i]
		}
		if i < len(lb) {
			y = lb[i]
		}
		if x != y {
			return fmt.Sprintf("line %d: sequential %q / concurrent %q", i+1, trunc(x, 300), trunc(y, 300))
		}
	}
	return ""
}

func trunc(s string, n int) string {
	if len(s) > n {
		return s[:n] + "…"
	}
	return s
}
