// Package c05 holds the runtime monitors for property C05 (see DESIGN.md section 4).
package c05

import "verif/harness/core"

func init() { core.Register("C05", Run) }

// Run is the check.
func Run(c *core.Ctx) {
}
