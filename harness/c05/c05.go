// Package c05 holds the runtime monitor for property C05: lexical scoping,
// functions, containers and objects (see DESIGN.md section 4).
//
// Generated programs (gen.go) are interpreted by a store-passing reference
// model (ref.go) and by the real interpreter of /repo (real.go); marker traces,
// probe values and global scope values are compared.
package c05

import (
	"fmt"
	"os"
	"sort"
	"strings"

	"verif/harness/core"
)

func init() { core.Register("C05", Run) }

// diff describes the first difference between two observations.
type diff struct {
	cat      string // error | trace | probe | global
	where    string
	expected string
	observed string
}

func compare(want, got obs, p *Program, probeSrc []string) *diff {
	if got.Err != "" {
		return &diff{"error", "program", "no error", got.Err}
	}
	n := len(want.Trace)
	if len(got.Trace) < n {
		n = len(got.Trace)
	}
	for i := 0; i < n; i++ {
		if want.Trace[i] != got.Trace[i] {
			return &diff{"trace", fmt.Sprintf("marker call %d", i), want.Trace[i], got.Trace[i]}
		}
	}
	if len(want.Trace) != len(got.Trace) {
		d := &diff{"trace", fmt.Sprintf("marker call %d", n), "<end of trace>", "<end of trace>"}
		if len(want.Trace) > n {
			d.expected = want.Trace[n]
		} else {
			d.observed = got.Trace[n]
		}
		return d
	}
	for i := range want.Probes {
		if want.Probes[i] == undetermined {
			continue
		}
		if i >= len(got.Probes) || want.Probes[i] != got.Probes[i] {
			o := "<missing>"
			if i < len(got.Probes) {
				o = got.Probes[i]
			}
			return &diff{"probe", probeSrc[i], want.Probes[i], o}
		}
	}
	for i := range want.Globals {
		if want.Globals[i] == undetermined {
			continue
		}
		if i >= len(got.Globals) || want.Globals[i] != got.Globals[i] {
			o := "<missing>"
			if i < len(got.Globals) {
				o = got.Globals[i]
			}
			return &diff{"global", "global " + p.Names[i], want.Globals[i], o}
		}
	}
	return nil
}

func sameObs(a, b obs) bool {
	eq := func(x, y []string) bool {
		if len(x) != len(y) {
			return false
		}
		for i := range x {
			if x[i] != y[i] {
				return false
			}
		}
		return true
	}
	return eq(a.Trace, b.Trace) && eq(a.Probes, b.Probes) && eq(a.Globals, b.Globals)
}

// verdict of one program
type verdict struct {
	dropped  string // non-empty: the statement does not determine the program (reason)
	keys     []string
	d        *diff
	src      string
	feat     map[string]int
	traceLen int
	realErr  string
	partial  bool // deviation keys assigned on a matching trace prefix only
}

// devMasks orders the subsets of allDevs by size.
func devMasks() []int {
	var res []int
	for n := 1; n <= len(allDevs); n++ {
		for mask := 1; mask < 1<<len(allDevs); mask++ {
			c := 0
			for i := range allDevs {
				if mask&(1<<i) != 0 {
					c++
				}
			}
			if c == n {
				res = append(res, mask)
			}
		}
	}
	return res
}

func commonPrefixAgrees(a, b []string) bool {
	n := len(a)
	if len(b) < n {
		n = len(b)
	}
	return tracePrefix(a[:n], b)
}

func tracePrefix(pre, full []string) bool {
	if len(pre) > len(full) {
		return false
	}
	for i := range pre {
		if pre[i] != full[i] {
			return false
		}
	}
	return true
}

func dropClass(why string) string {
	for _, p := range [][2]string{
		{"add/del", "used-after-add-del"}, {"handed to del", "used-after-add-del"}, {"missing map key", "missing-key"},
		{"out of range", "index-out-of-range"}, {"let", "let-rhs-touches-name"}, {"fuel", "fuel"}, {"depth", "depth"},
		{"number key of a map", "write-path-through-number-key"}, {"without return", "function-without-return"},
		{"two super templates", "ambiguous-inheritance"}, {"own constructor", "missing-super-constructor"},
		{"function statement", "funcdecl-name-of-enclosing-scope"}, {"loop variable", "loop-variable-name"},
		{"non-container", "non-container"}, {"not a number", "non-number"}, {"non-function", "non-function"},
		{"left side refers", "rhs-changes-target"}, {"block scope", "block-scope-reuse"}, {"range", "degenerate-range"},
	} {
		if strings.Contains(why, p[0]) {
			return p[1]
		}
	}
	return "other"
}

func probeSources(p *Program) []string {
	res := make([]string, len(p.Probes))
	for i, e := range p.Probes {
		res[i] = ExprSource(e)
	}
	return res
}

// judge runs the reference (twice: fresh block frames and re-used block frames
// must agree, otherwise the program depends on something the statement leaves
// open) and the real interpreter.
func judge(p *Program) verdict {
	var v verdict
	fresh := runRef(p, false, nil)
	if fresh.unspec != "" {
		v.dropped = fresh.unspec
		return v
	}
	reuse := runRef(p, true, nil)
	if reuse.unspec != "" || !sameObs(fresh.obs, reuse.obs) {
		v.dropped = "outcome depends on whether a re-entered block scope is fresh"
		return v
	}
	v.feat = fresh.feat
	v.traceLen = len(fresh.obs.Trace)
	v.src = Source(p.Body)
	ps := probeSources(p)
	real, pkey := runReal(v.src, ps, p.Names, len(fresh.obs.Trace)+20)
	if strings.Contains(real.Err, markerBudgetMsg) {
		// a known deviation can legitimately lengthen a run (a loop over a list that
		// should have been replaced); give it room before calling it run-away
		real, pkey = runReal(v.src, ps, p.Names, 4*len(fresh.obs.Trace)+200)
	}
	v.realErr = real.Err
	d := compare(fresh.obs, real, p, ps)
	if d == nil {
		return v
	}
	v.d = d
	// known deviations: which subset of switches reproduces the real outcome?
	// (a) a subset whose run equals the real observation exactly; else (b) a
	// subset whose run agrees with the real trace as far as the model could follow
	// it before the deviation led it into undetermined territory.
	var partial []string
	for _, mask := range devMasks() {
		devs := map[string]bool{}
		for i, s := range allDevs {
			if mask&(1<<i) != 0 {
				devs[s] = true
			}
		}
		for _, reuseMode := range []bool{true, false} {
			rr := runRef(p, reuseMode, devs)
			var fired []string
			for _, s := range allDevs {
				if devs[s] && rr.fired[s] {
					fired = append(fired, "dev:"+s)
				}
			}
			if len(fired) == 0 {
				continue
			}
			if rr.unspec == "" {
				if compare(rr.obs, real, p, ps) == nil {
					v.keys = fired
					return v
				}
				continue
			}
			if partial == nil && real.Err == "" && tracePrefix(rr.obs.Trace, real.Trace) {
				partial = fired
			}
			if partial == nil && strings.Contains(real.Err, markerBudgetMsg) && commonPrefixAgrees(rr.obs.Trace, real.Trace) {
				// the deviation sent both the model and the interpreter into a run
				// that only the budgets ended
				partial = fired
			}
		}
	}
	if partial != nil {
		v.keys = partial
		v.partial = true
		return v
	}
	if pkey != "" {
		v.keys = []string{pkey}
	} else {
		v.keys = []string{"diff:" + d.cat}
	}
	return v
}

func hasKey(v verdict, k string) bool {
	for _, x := range v.keys {
		if x == k {
			return true
		}
	}
	return false
}

var shrunkPerKey = map[string]int{}
var reportedPerKey = map[string]int{}

func report(c *core.Ctx, stream string, idx int, p *Program, v verdict) {
	switch {
	case v.dropped != "":
		c.Event("case.dropped", 1)
		c.Event("dropped."+dropClass(v.dropped), 1)
		if dropClass(v.dropped) == "other" {
			c.Sample("dropped-other", map[string]interface{}{"why": v.dropped, "stream": stream, "idx": idx})
		}
		return
	case len(v.keys) == 0:
		c.Event("case.held", 1)
	default:
		c.Event("case.violating", 1)
	}
	kinds := 0
	for _, k := range sortedFeat(v.feat) {
		c.Event("feat."+k, int64(v.feat[k]))
		if interesting(k) {
			kinds++
		}
	}
	c.Event("marker-calls", int64(v.traceLen))
	if kinds >= 2 && v.traceLen >= 2 {
		c.NontrivialKey(v.src)
	}
	if idx%997 == 3 {
		c.Sample(stream, map[string]interface{}{"idx": idx, "source": v.src, "probes": probeSources(p), "marker_calls": v.traceLen})
	}
	if len(v.keys) == 0 {
		return
	}
	// shrink along the generator's structure, one minimal witness per key
	for _, key := range v.keys {
		mp, mv := p, v
		if shrunkPerKey[key] < 3 {
			// shrinking costs a few hundred evaluations: only the first cases of a key
			shrunkPerKey[key]++
			mp, mv = shrink(cloneProgram(p), v, key)
		}
		detail := map[string]interface{}{"where": mv.d.where, "expected": clip(mv.d.expected, 400), "observed": clip(mv.d.observed, 400),
			"matched_on_trace_prefix_only": v.partial}
		if reportedPerKey[key] < 10 {
			// full sources only for the first cases of a key (every case can be
			// re-generated from its stream and index)
			detail["minimal_source"] = mv.src
			detail["probes"] = probeSources(mp)
			detail["original_source"] = clip(v.src, 3000)
		}
		reportedPerKey[key]++
		c.Violation(key, fmt.Sprintf("%s differs between the reference model and the interpreter: expected %s, observed %s",
			mv.d.where, clip(mv.d.expected, 200), clip(mv.d.observed, 200)), stream, idx, detail)
	}
}

func clip(s string, n int) string {
	if len(s) > n {
		return s[:n] + "..."
	}
	return s
}

func sortedFeat(m map[string]int) []string {
	var ks []string
	for k := range m {
		ks = append(ks, k)
	}
	sort.Strings(ks)
	return ks
}

// interesting features are the ones the property is about (as opposed to mere
// plumbing like "an if block was entered").
func interesting(k string) bool {
	for _, p := range []string{"read.captured", "read.global-from-function", "read.enclosing-block", "read.undefined",
		"assign.", "define.inner", "let.shadows", "call.fewer", "call.surplus", "call.default", "call.closure", "call.with-this",
		"call.via-path", "path.write", "path.read.depth2", "path.read.depth3", "path.read.mixed", "write.", "builtin.", "new.", "multi-assign"} {
		if strings.HasPrefix(k, p) {
			return true
		}
	}
	return false
}

const ruleText = "programs are generated type-directed over a bounded name pool (8 names a..h: 2 scalar, 2 container, 2 function, 2 object names; every name has one type in all scopes so that parameters, let and block-local definitions shadow same-named outer variables), mixing global/if/for/try/mutex block scopes nested <= 3, let, named and anonymous functions, nested and returned closures, recursion with a decreasing counter, literal parameter defaults, calls with -1/0/+1 arguments, list and map literals with integer and dot-free string keys nested <= 3, reads and writes through dot and bracket paths (depth <= 3, read-back after write), len/add/del/concat, multi-assignment, object templates (single / chain / multiple / diamond inheritance) with properties, methods using this, init and super[i](...) calls; plus a directed enumeration of container write/read/len/del cases (key kind x present/absent x nesting prefix x access form). The reference model drops a program (never judges it) when it reads a missing key or an out-of-range index, touches a list or map after it was handed to add/del, uses the result of a function without return, binds a loop variable or function statement over a same-named outer variable, writes through a number key in the middle of a path, inherits two different definitions of one property from sibling templates, lets the right side of `let x` touch x, or when fresh and re-used block scopes would give different observations. Map keys are compared by their text (1 and \"1\" are not told apart; numeric-looking string keys are not generated). A case counts as non-trivial and distinct when its source text is new, its reference trace has >= 2 marker calls and the reference run exercised >= 2 kinds of scoping / closure / aliasing / container / object features (events feat.*)."

// Run is the check.
func Run(c *core.Ctx) {
	c.Note("rule", ruleText)
	// directed enumeration (exhaustive over its small universe, both tiers)
	dir := directedPrograms()
	for i, p := range dir {
		if !c.Take("directed", i) {
			continue
		}
		runCase(c, "directed", i, p)
	}
	n := c.Pick(60000, 1500000)
	for i := 0; i < n; i++ {
		if !c.Take("gen", i) {
			continue
		}
		p := generate(c.Rng("gen", i))
		runCase(c, "gen", i, p)
	}
}

func runCase(c *core.Ctx, stream string, idx int, p *Program) {
	c.Begin(0, stream, idx, clip(Source(p.Body), 6000))
	v := judge(p)
	c.End(0)
	if os.Getenv("VH_C05_DEBUG") != "" {
		debugDump(p, v)
	}
	report(c, stream, idx, p, v)
}

func debugDump(p *Program, v verdict) {
	w := os.Stderr
	fmt.Fprintf(w, "---- source\n%s---- probes %v\n", Source(p.Body), probeSources(p))
	fmt.Fprintf(w, "dropped=%q keys=%v\n", v.dropped, v.keys)
	if v.d != nil {
		fmt.Fprintf(w, "diff %s at %s\n  expected %s\n  observed %s\n", v.d.cat, v.d.where, v.d.expected, v.d.observed)
	}
	show := func(name string, o obs, unspec string) {
		fmt.Fprintf(w, "== %s unspec=%q err=%q\n", name, unspec, o.Err)
		for i, t := range o.Trace {
			fmt.Fprintf(w, "  t%d %s\n", i, t)
		}
		for i, t := range o.Probes {
			fmt.Fprintf(w, "  p%d %s\n", i, t)
		}
		for i, t := range o.Globals {
			if t != "<undef>" {
				fmt.Fprintf(w, "  g %s %s\n", p.Names[i], t)
			}
		}
	}
	fr := runRef(p, false, nil)
	show("ref", fr.obs, fr.unspec)
	if fr.unspec != "" {
		return
	}
	all := map[string]bool{}
	for _, s := range allDevs {
		all[s] = true
	}
	dr := runRef(p, false, all)
	show("ref+devs", dr.obs, dr.unspec)
	real, _ := runReal(Source(p.Body), probeSources(p), p.Names, len(fr.obs.Trace)+20)
	show("real", real, "")
}
