package c05

// Directed enumeration of small container programs: every combination of
//   key kind         number 1, 0, 12, -3; string "k" (dot-able), "u v" (bracket only)
//   key present      in the literal or not
//   position         the root map, a map nested in a map, in a list, two levels deep
//   operation        write+read+len, del+len, write through an alias variable,
//                    write through a function parameter
//   access forms     dot / bracket for writing and for reading where the key allows both
// plus list index writes. The same reference model and comparison as for the
// generated programs decide.

type dkey struct {
	num bool
	n   float64
	s   string
}

func (k dkey) lit() *Lit {
	if k.num {
		return numLit(k.n)
	}
	return strLit(k.s)
}

func (k dkey) step(dot bool) Step {
	if dot {
		return Step{Dot: true, Idx: strLit(k.s)}
	}
	return Step{Idx: k.lit()}
}

func directedPrograms() []*Program {
	keys := []dkey{{num: true, n: 1}, {num: true, n: 0}, {num: true, n: 12}, {num: true, n: -3}, {s: "k"}, {s: "u v"}}
	var res []*Program
	names := []string{"m", "x", "y", "f", "l"}
	for _, k := range keys {
		dotable := !k.num && identRe.MatchString(k.s)
		forms := []bool{false}
		if dotable {
			forms = []bool{false, true}
		}
		for _, present := range []bool{true, false} {
			inner := func() *MapLit {
				m := &MapLit{Keys: []*Lit{strLit("z")}, Vals: []Expr{numLit(0)}}
				if present {
					m.Keys = append(m.Keys, k.lit())
					m.Vals = append(m.Vals, strLit("old"))
				}
				m.Keys = append(m.Keys, numLit(3))
				m.Vals = append(m.Vals, strLit("three"))
				return m
			}
			for pos := 0; pos < 4; pos++ {
				for _, pdot := range []bool{false, true} {
					var lit Expr
					var prefix []Step
					switch pos {
					case 0:
						if pdot {
							continue
						}
						lit = inner()
					case 1:
						lit = &MapLit{Keys: []*Lit{strLit("w"), numLit(1)}, Vals: []Expr{inner(), strLit("one")}}
						prefix = []Step{{Dot: pdot, Idx: strLit("w")}}
					case 2:
						if pdot {
							continue
						}
						lit = &ListLit{[]Expr{inner(), numLit(5)}}
						prefix = []Step{{Idx: numLit(0)}}
					case 3:
						lit = &MapLit{Keys: []*Lit{strLit("w")}, Vals: []Expr{&ListLit{[]Expr{numLit(4), inner()}}}}
						prefix = []Step{{Dot: pdot, Idx: strLit("w")}, {Idx: numLit(1)}}
					}
					cont := func() Expr {
						if len(prefix) == 0 {
							return &Var{"m"}
						}
						return &Path{Root: "m", Steps: append([]Step{}, prefix...)}
					}
					at := func(root string, pre []Step, dot bool) *Path {
						return &Path{Root: root, Steps: append(append([]Step{}, pre...), k.step(dot))}
					}
					def := &Assign{Target: &Var{"m"}, Rhs: lit}
					for _, wdot := range forms {
						for _, rdot := range forms {
							// write, read back, len, dump
							res = append(res, &Program{Names: names, Body: []Stmt{def,
								&Assign{Target: at("m", prefix, wdot), Rhs: strLit("new")},
								&Rec{Tag: "rw", Args: []Expr{at("m", prefix, rdot), &Builtin{"len", []Expr{cont()}}, &Var{"m"}}}},
								Probes: []Expr{at("m", prefix, rdot), &Builtin{"len", []Expr{cont()}}}})
							// through an alias variable
							res = append(res, &Program{Names: names, Body: []Stmt{def,
								&Assign{Target: &Var{"y"}, Rhs: cont()},
								&Assign{Target: at("y", nil, wdot), Rhs: strLit("new")},
								&Rec{Tag: "al", Args: []Expr{at("m", prefix, rdot), &Builtin{"len", []Expr{cont()}}}}},
								Probes: []Expr{at("y", nil, rdot), &Var{"m"}}})
							// through a function parameter
							res = append(res, &Program{Names: names, Body: []Stmt{def,
								&FuncDecl{&FuncLit{ID: 1, Name: "f", Params: []Param{{Name: "y"}}, Body: []Stmt{
									&Rec{Tag: "F1"},
									&Assign{Target: at("y", nil, wdot), Rhs: strLit("new")},
									&Return{at("y", nil, rdot)}}}},
								&Rec{Tag: "fp", Args: []Expr{&Call{&Var{"f"}, []Expr{cont()}}, at("m", prefix, rdot), &Builtin{"len", []Expr{cont()}}}}},
								Probes: []Expr{&Var{"m"}}})
						}
					}
					// del
					res = append(res, &Program{Names: names, Body: []Stmt{def,
						&Assign{Target: &Var{"x"}, Rhs: &Builtin{"del", []Expr{cont(), k.lit()}}},
						&Rec{Tag: "dm", Args: []Expr{&Builtin{"len", []Expr{&Var{"x"}}}, &Var{"x"}}}},
						Probes: []Expr{&Builtin{"len", []Expr{&Var{"x"}}}}})
					// write then del
					res = append(res, &Program{Names: names, Body: []Stmt{def,
						&Assign{Target: at("m", prefix, false), Rhs: strLit("new")},
						&Assign{Target: &Var{"x"}, Rhs: &Builtin{"del", []Expr{cont(), k.lit()}}},
						&Rec{Tag: "wd", Args: []Expr{&Builtin{"len", []Expr{&Var{"x"}}}, &Var{"x"}}}},
						Probes: []Expr{&Builtin{"len", []Expr{&Var{"x"}}}}})
				}
			}
		}
	}
	// list indices: direct, nested, through alias and parameter, add/del/concat
	for i := 0; i < 3; i++ {
		idx := numLit(float64(i))
		l3 := func() Expr { return &ListLit{[]Expr{numLit(10), numLit(11), numLit(12)}} }
		res = append(res, &Program{Names: names, Body: []Stmt{
			&Assign{Target: &Var{"l"}, Rhs: l3()},
			&Assign{Target: &Path{Root: "l", Steps: []Step{{Idx: idx}}}, Rhs: strLit("new")},
			&Rec{Tag: "li", Args: []Expr{&Path{Root: "l", Steps: []Step{{Idx: idx}}}, &Builtin{"len", []Expr{&Var{"l"}}}, &Var{"l"}}}}})
		res = append(res, &Program{Names: names, Body: []Stmt{
			&Assign{Target: &Var{"m"}, Rhs: &MapLit{Keys: []*Lit{strLit("k")}, Vals: []Expr{&ListLit{[]Expr{l3(), l3()}}}}},
			&Assign{Target: &Var{"y"}, Rhs: &Path{Root: "m", Steps: []Step{{Dot: true, Idx: strLit("k")}, {Idx: numLit(1)}}}},
			&Assign{Target: &Path{Root: "y", Steps: []Step{{Idx: idx}}}, Rhs: strLit("new")},
			&Rec{Tag: "ln", Args: []Expr{&Path{Root: "m", Steps: []Step{{Idx: strLit("k")}, {Idx: numLit(1)}, {Idx: idx}}}, &Var{"m"}}}}})
		res = append(res, &Program{Names: names, Body: []Stmt{
			&Assign{Target: &Var{"l"}, Rhs: l3()},
			&Assign{Target: &Var{"x"}, Rhs: &Builtin{"del", []Expr{&Var{"l"}, idx}}},
			&Rec{Tag: "ld", Args: []Expr{&Builtin{"len", []Expr{&Var{"x"}}}, &Var{"x"}}}}})
		res = append(res, &Program{Names: names, Body: []Stmt{
			&Assign{Target: &Var{"l"}, Rhs: l3()},
			&Assign{Target: &Var{"x"}, Rhs: &Builtin{"add", []Expr{&Var{"l"}, strLit("new"), idx}}},
			&Rec{Tag: "la", Args: []Expr{&Builtin{"len", []Expr{&Var{"x"}}}, &Var{"x"}}}}})
		res = append(res, &Program{Names: names, Body: []Stmt{
			&Assign{Target: &Var{"l"}, Rhs: l3()},
			&Assign{Target: &Var{"x"}, Rhs: &Builtin{"concat", []Expr{&Var{"l"}, l3(), &Var{"l"}}}},
			&Assign{Target: &Path{Root: "x", Steps: []Step{{Idx: idx}}}, Rhs: strLit("new")},
			&Rec{Tag: "lc", Args: []Expr{&Builtin{"len", []Expr{&Var{"x"}}}, &Var{"x"}, &Var{"l"}}}}})
	}
	return res
}
