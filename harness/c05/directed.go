package c05

// Directed enumeration of small container programs: every combination of
//   key kind         number 1, 0, 12, -3; string "k" (dot-able), "u v" (bracket only)
//   key present      in the literal or not
//   position         the root map, a map nested in a map, in a list, two levels deep
//   operation        write+read+len, del+len, write through an alias variable,
//                    write through a function parameter
//   access forms     dot / bracket for writing and for reading where the key allows both
// plus list index writes. The same reference model and comparison as for the
// generated programs decide.

type dkey struct {
	num bool
	n   float64
	s   string
}

func (k dkey) lit() *Lit {
	if k.num {
		return numLit(k.n)
	}
	return strLit(k.s)
}

func (k dkey) step(dot bool) Step {
	if dot {
		return Step{Dot: true, Idx: strLit(k.s)}
	}
	return Step{Idx: k.lit()}
}

func directedPrograms() []*Program {
	keys := []dkey{{num: true, n: 1}, {num: true, n: 0}, {num: true, n: 12}, {num: true, n: -3}, {s: "k"}, {s: "u v"}}
	var res []*Program
	names := []string{"m", "x", "y", "f", "l"}
	for _, k := range keys {
		dotable := !k.num && identRe.MatchString(k.s)
		forms := []bool{false}
		if dotable {
			forms = []bool{false, true}
		}
		for _, present := range []bool{true, false} {
			inner := func() *MapLit {
				m := &MapLit{Keys: []*Lit{strLit("z")}, Vals: []Expr{numLit(0)}}
				if present {
					m.Keys = append(m.Keys, k.lit())
					m.Vals = append(m.Vals, strLit("old"))
				}
				m.Keys = append(m.Keys, numLit(3))
				m.Vals = append(m.Vals, strLit("three"))
				return m
			}
			for pos := 0; pos < 4; pos++ {
				for _, pdot := range []bool{false, true} {
					var lit Expr
					var prefix []Step
					switch pos {
					case 0:
						if pdot {
							continue
						}
						lit = inner()
					case 1:
						lit = &MapLit{Keys: []*Lit{strLit("w"), numLit(1)}, Vals: []Expr{inner(), strLit("one")}}
						prefix = []Step{{Dot: pdot, Idx: strLit("w")}}
					case 2:
						if pdot {
							continue
						}
						lit = &ListLit{[]Expr{inner(), numLit(5)}}
						prefix = []Step{{Idx: numLit(0)}}
					case 3:
						lit = &MapLit{Keys: []*Lit{strLit("w")}, Vals: []Expr{&ListLit{[]Expr{numLit(4), inner()}}}}
						prefix = []Step{{Dot: pdot, Idx: strLit("w")}, {Idx: numLit(1)}}
					}
					cont := func() Expr {
						if len(prefix) == 0 {
							return &Var{"m"}
						}
						return &Path{Root: "m", Steps: append([]Step{}, prefix...)}
					}
					at := func(root string, pre []Step, dot bool) *Path {
						return &Path{Root: root, Steps: append(append([]Step{}, pre...), k.step(dot))}
					}
					def := &Assign{Target: &Var{"m"}, Rhs: lit}
					for _, wdot := range forms {
						for _, rdot := range forms {
							// write, read back, len, dump
							res = append(res, &Program{Names: names, Body: []Stmt{def,
								&Assign{Target: at("m", prefix, wdot), Rhs: strLit("new")},
								&Rec{Tag: "rw", Args: []Expr{at("m", prefix, rdot), &Builtin{"len", []Expr{cont()}}, &Var{"m"}}}},
								Probes: []Expr{at("m", prefix, rdot), &Builtin{"len", []Expr{cont()}}}})
							// through an alias variable
							res = append(res, &Program{Names: names, Body: []Stmt{def,
								&Assign{Target: &Var{"y"}, Rhs: cont()},
								&Assign{Target: at("y", nil, wdot), Rhs: strLit("new")},
								&Rec{Tag: "al", Args: []Expr{at("m", prefix, rdot), &Builtin{"len", []Expr{cont()}}}}},
								Probes: []Expr{at("y", nil, rdot), &Var{"m"}}})
							// through a function parameter
							res = append(res, &Program{Names: names, Body: []Stmt{def,
								&FuncDecl{&FuncLit{ID: 1, Name: "f", Params: []Param{{Name: "y"}}, Body: []Stmt{
									&Rec{Tag: "F1"},
									&Assign{Target: at("y", nil, wdot), Rhs: strLit("new")},
									&Return{at("y", nil, rdot)}}}},
								&Rec{Tag: "fp", Args: []Expr{&Call{&Var{"f"}, []Expr{cont()}}, at("m", prefix, rdot), &Builtin{"len", []Expr{cont()}}}}},
								Probes: []Expr{&Var{"m"}}})
						}
					}
					// del
					res = append(res, &Program{Names: names, Body: []Stmt{def,
						&Assign{Target: &Var{"x"}, Rhs: &Builtin{"del", []Expr{cont(), k.lit()}}},
						&Rec{Tag: "dm", Args: []Expr{&Builtin{"len", []Expr{&Var{"x"}}}, &Var{"x"}}}},
						Probes: []Expr{&Builtin{"len", []Expr{&Var{"x"}}}}})
					// write then del
					res = append(res, &Program{Names: names, Body: []Stmt{def,
						&Assign{Target: at("m", prefix, false), Rhs: strLit("new")},
						&Assign{Target: &Var{"x"}, Rhs: &Builtin{"del", []Expr{cont(), k.lit()}}},
						&Rec{Tag: "wd", Args: []Expr{&Builtin{"len", []Expr{&Var{"x"}}}, &Var{"x"}}}},
						Probes: []Expr{&Builtin{"len", []Expr{&Var{"x"}}}}})
				}
			}
		}
	}
	// list indices: direct, nested, through alias and parameter, add/del/concat
	for i := 0; i < 3; i++ {
		idx := numLit(float64(i))
		l3 := func() Expr { return &ListLit{[]Expr{numLit(10), numLit(11), numLit(12)}} }
		res = append(res, &Program{Names: names, Body: []Stmt{
			&Assign{Target: &Var{"l"}, Rhs: l3()},
			&Assign{Target: &Path{Root: "l", Steps: []Step{{Idx: idx}}}, Rhs: strLit("new")},
			&Rec{Tag: "li", Args: []Expr{&Path{Root: "l", Steps: []Step{{Idx: idx}}}, &Builtin{"len", []Expr{&Var{"l"}}}, &Var{"l"}}}}})
		res = append(res, &Program{Names: names, Body: []Stmt{
			&Assign{Target: &Var{"m"}, Rhs: &MapLit{Keys: []*Lit{strLit("k")}, Vals: []Expr{&ListLit{[]Expr{l3(), l3()}}}}},
			&Assign{Target: &Var{"y"}, Rhs: &Path{Root: "m", Steps: []Step{{Dot: true, Idx: strLit("k")}, {Idx: numLit(1)}}}},
			&Assign{Target: &Path{Root: "y", Steps: []Step{{Idx: idx}}}, Rhs: strLit("new")},
			&Rec{Tag: "ln", Args: []Expr{&Path{Root: "m", Steps: []Step{{Idx: strLit("k")}, {Idx: numLit(1)}, {Idx: idx}}}, &Var{"m"}}}}})
		res = append(res, &Program{Names: names, Body: []Stmt{
			&Assign{Target: &Var{"l"}, Rhs: l3()},
			&Assign{Target: &Var{"x"}, Rhs: &Builtin{"del", []Expr{&Var{"l"}, idx}}},
			&Rec{Tag: "ld", Args: []Expr{&Builtin{"len", []Expr{&Var{"x"}}}, &Var{"x"}}}}})
		res = append(res, &Program{Names: names, Body: []Stmt{
			&Assign{Target: &Var{"l"}, Rhs: l3()},
			&Assign{Target: &Var{"x"}, Rhs: &Builtin{"add", []Expr{&Var{"l"}, strLit("new"), idx}}},
			&Rec{Tag: "la", Args: []Expr{&Builtin{"len", []Expr{&Var{"x"}}}, &Var{"x"}}}}})
		res = append(res, &Program{Names: names, Body: []Stmt{
			&Assign{Target: &Var{"l"}, Rhs: l3()},
			&Assign{Target: &Var{"x"}, Rhs: &Builtin{"concat", []Expr{&Var{"l"}, l3(), &Var{"l"}}}},
			&Assign{Target: &Path{Root: "x", Steps: []Step{{Idx: idx}}}, Rhs: strLit("new")},
			&Rec{Tag: "lc", Args: []Expr{&Builtin{"len", []Expr{&Var{"x"}}}, &Var{"x"}, &Var{"l"}}}}})
	}
	// concat must return a NEW list: two results built from the same first
	// operand must not share storage with it or with each other, whatever spare
	// capacity the operand's Go slice has (literal sizes 1..9, lists grown by add)
	for n := 1; n <= 9; n++ {
		for grown := 0; grown < 2; grown++ {
			lit := func(k int) Expr {
				var es []Expr
				for i := 0; i < k; i++ {
					es = append(es, numLit(float64(10+i)))
				}
				return &ListLit{es}
			}
			body := []Stmt{&Assign{Target: &Var{"l"}, Rhs: lit(n)}}
			if grown == 1 {
				body = []Stmt{&Assign{Target: &Var{"l"}, Rhs: lit(1)}}
				for i := 1; i < n; i++ {
					body = append(body, &Assign{Target: &Var{"l"}, Rhs: &Builtin{"add", []Expr{&Var{"l"}, numLit(float64(10 + i))}}})
				}
			}
			body = append(body,
				&Assign{Target: &Var{"x"}, Rhs: &Builtin{"concat", []Expr{&Var{"l"}, &ListLit{[]Expr{strLit("b")}}}}},
				&Assign{Target: &Var{"y"}, Rhs: &Builtin{"concat", []Expr{&Var{"l"}, &ListLit{[]Expr{strLit("c")}}}}},
				&Rec{Tag: "cc1", Args: []Expr{&Var{"x"}, &Var{"y"}, &Var{"l"}}},
				&Assign{Target: &Path{Root: "x", Steps: []Step{{Idx: numLit(0)}}}, Rhs: strLit("new")},
				&Rec{Tag: "cc2", Args: []Expr{&Var{"x"}, &Var{"y"}, &Var{"l"}, &Builtin{"len", []Expr{&Var{"x"}}}, &Builtin{"len", []Expr{&Var{"y"}}}, &Builtin{"len", []Expr{&Var{"l"}}}}})
			res = append(res, &Program{Names: names, Body: body})
		}
	}
	return append(res, scenarioPrograms()...)
}

// ---------------------------------------------------------------------------
// fixed closure / scope / object scenarios (a handful of classic shapes that
// the random generator reaches only with small probability per program)

func v(n string) *Var                { return &Var{n} }
func num(f float64) *Lit             { return numLit(f) }
func set(n string, e Expr) *Assign   { return &Assign{Target: v(n), Rhs: e} }
func let(n string, e Expr) *Assign   { return &Assign{Let: true, Target: v(n), Rhs: e} }
func call(f string, a ...Expr) *Call { return &Call{v(f), a} }
func rec(tag string, a ...Expr) *Rec { return &Rec{tag, a} }
func plus(a Expr, b float64) *Bin    { return &Bin{"+", a, num(b)} }
func fn(id int, ps []string, b ...Stmt) *FuncLit {
	f := &FuncLit{ID: id}
	for _, p := range ps {
		f.Params = append(f.Params, Param{Name: p})
	}
	f.Body = append([]Stmt{&Rec{Tag: "F" + fmtNum(float64(id))}}, b...)
	return f
}
func dot(root string, keys ...string) *Path {
	p := &Path{Root: root}
	for _, k := range keys {
		p.Steps = append(p.Steps, Step{Dot: true, Idx: strLit(k)})
	}
	return p
}

func scenarioPrograms() []*Program {
	names := []string{"a", "b", "c", "d", "x", "y", "mk", "c1", "c2", "o", "o2", "A", "B", "C", "D", "i"}
	P := func(body ...Stmt) *Program { return &Program{Body: body, Names: names} }
	counter := fn(1, nil, let("x", num(0)), &Return{fn(2, nil, set("x", plus(v("x"), 1)), &Return{v("x")})})
	return []*Program{
		// two independent counters made by the same function; a global x stays untouched
		P(set("x", num(100)), set("mk", counter), set("c1", call("mk")), set("c2", call("mk")),
			rec("c", call("c1"), call("c1"), call("c2"), call("c1"), v("x"))),
		// two closures sharing one captured variable
		P(set("mk", fn(1, nil, let("x", num(0)),
			&Return{&ListLit{[]Expr{fn(2, nil, set("x", plus(v("x"), 1)), &Return{v("x")}), fn(3, nil, &Return{v("x")})}}})),
			set("a", call("mk")), set("c1", &Path{Root: "a", Steps: []Step{{Idx: num(0)}}}), set("c2", &Path{Root: "a", Steps: []Step{{Idx: num(1)}}}),
			rec("s", call("c1"), call("c2"), call("c1"), call("c2"))),
		// assignment in a function: updates the global if it exists, else stays local
		P(&FuncDecl{&FuncLit{ID: 1, Name: "mk", Body: []Stmt{rec("F1"), set("y", num(1)), &Return{v("y")}}}},
			rec("a", call("mk"), v("y")), set("y", num(9)), rec("b", call("mk"), v("y"))),
		// a parameter shadows the global of the same name; scalars by value, lists by reference
		P(set("a", num(1)), set("b", &ListLit{[]Expr{num(1), num(2)}}),
			&FuncDecl{&FuncLit{ID: 1, Name: "mk", Params: []Param{{Name: "a"}, {Name: "b"}}, Body: []Stmt{rec("F1", v("a"), v("b")),
				set("a", num(5)), &Assign{Target: &Path{Root: "b", Steps: []Step{{Idx: num(0)}}}, Rhs: num(7)}, set("b", &ListLit{[]Expr{num(0)}}), &Return{v("a")}}}},
			rec("p", call("mk", v("a"), v("b")), v("a"), v("b"))),
		// let in a block shadows, := in a block updates the outer variable, inner names die
		P(set("a", num(1)), set("b", num(1)),
			&If{ID: 1, Cond: &Lit{V: true}, Then: []Stmt{let("a", num(2)), set("a", num(3)), set("b", num(4)), set("c", num(5)), rec("in", v("a"), v("b"), v("c"))}},
			rec("out", v("a"), v("b"), v("c"))),
		// closure defined in a block keeps the block's variable alive
		P(set("c1", num(0)), &If{ID: 1, Cond: &Lit{V: true}, Then: []Stmt{let("x", num(1)), set("c1", fn(2, nil, set("x", plus(v("x"), 1)), &Return{v("x")}))}},
			&Try{ID: 3, FinID: 4, Body: []Stmt{let("x", num(50))}, Finally: []Stmt{rec("f", v("x"))}},
			rec("k", call("c1"), call("c1"), v("x"))),
		// recursion with a local per activation
		P(&FuncDecl{&FuncLit{ID: 1, Name: "mk", Params: []Param{{Name: "i"}}, Body: []Stmt{rec("F1", v("i")), let("x", &Bin{"*", v("i"), num(10)}),
			&If{ID: 2, Cond: &Bin{">", v("i"), num(0)}, Then: []Stmt{rec("r", call("mk", &Bin{"-", v("i"), num(1)}))}}, &Return{v("x")}}}},
			rec("t", call("mk", num(3)), v("x"), v("i"))),
		// defaults, missing and surplus arguments
		P(&FuncDecl{&FuncLit{ID: 1, Name: "mk", Params: []Param{{Name: "a"}, {Name: "b", Def: num(2)}, {Name: "c", Def: strLit("d")}}, Body: []Stmt{rec("F1", v("a"), v("b"), v("c")), &Return{v("b")}}}},
			rec("d", call("mk"), call("mk", num(1)), call("mk", num(1), num(5)), call("mk", num(1), num(5), num(6)), call("mk", num(1), num(5), num(6), num(7)), v("a"), v("b"), v("c"))),
		// a default that is an expression: it sees the global at the time of each
		// call, not a local of the caller that happens to have the same name
		P(set("x", num(1)),
			&FuncDecl{&FuncLit{ID: 1, Name: "mk", Params: []Param{{Name: "a", Def: num(0), DefE: v("x")}, {Name: "b", Def: num(0), DefE: plus(v("x"), 10)}}, Body: []Stmt{rec("F1", v("a"), v("b")), &Return{v("a")}}}},
			&FuncDecl{&FuncLit{ID: 2, Name: "c1", Body: []Stmt{let("x", num(50)), &Return{call("mk")}}}},
			rec("d1", call("mk"), call("mk", num(7)), call("c1")), set("x", num(2)), rec("d2", call("mk"), call("c1"), v("x"))),
		// the default of a closure sees the locals of the function that made it
		P(set("mk", fn(1, nil, let("y", num(5)), &Return{&FuncLit{ID: 2, Params: []Param{{Name: "a", Def: num(0), DefE: v("y")}}, Body: []Stmt{rec("F2", v("a")), set("y", plus(v("y"), 1)), &Return{v("a")}}}})),
			set("c1", call("mk")), set("c2", call("mk")),
			rec("d3", call("c1"), call("c1"), call("c2"), call("c1", num(9)), call("c1"), v("y"))),
		// a default calling a function of the declaration scope
		P(set("x", num(3)), &FuncDecl{&FuncLit{ID: 1, Name: "c1", Params: []Param{{Name: "i"}}, Body: []Stmt{&Return{&Bin{"*", v("i"), num(2)}}}}},
			&If{ID: 2, Cond: &Lit{V: true}, Then: []Stmt{let("y", num(4)),
				set("mk", &FuncLit{ID: 3, Params: []Param{{Name: "a", Def: num(0), DefE: call("c1", v("y"))}, {Name: "b", Def: num(0), DefE: call("c1", v("x"))}}, Body: []Stmt{&Return{&ListLit{[]Expr{v("a"), v("b")}}}}})}},
			rec("d4", call("mk"), call("mk", num(1)), v("y"))),
		// try / otherwise / finally are sibling blocks: what the try block defines is
		// gone in the otherwise block, an assignment there defines a new local or
		// updates the enclosing variable
		P(set("a", num(1)),
			&Try{ID: 1, FinID: 2, Except: true, HasOth: true, OthID: 3,
				Body:      []Stmt{let("a", num(2)), set("b", num(3)), let("c", num(4)), rec("t", v("a"), v("b"), v("c"))},
				Otherwise: []Stmt{rec("o1", v("a"), v("b"), v("c")), set("a", num(10)), set("b", num(11)), let("c", num(12)), rec("o2", v("a"), v("b"), v("c"))},
				Finally:   []Stmt{rec("f", v("a"), v("b"), v("c"))}},
			rec("out", v("a"), v("b"), v("c"))),
		// the same inside a function, with a closure made in the otherwise block
		P(set("mk", fn(1, nil, let("a", num(1)),
			&Try{ID: 2, FinID: 3, HasOth: true, OthID: 4,
				Body:      []Stmt{let("x", num(2)), set("a", plus(v("a"), 1))},
				Otherwise: []Stmt{rec("o", v("x"), v("a")), let("x", num(7)), set("c1", fn(5, nil, set("x", plus(v("x"), 1)), &Return{v("x")}))},
				Finally:   []Stmt{rec("f", v("x"), v("a"))}},
			&Return{v("a")})), set("c1", num(0)),
			rec("r", call("mk"), call("c1"), call("c1"), v("x"), v("a"))),
		// diamond: shared base, both middle templates call the base constructor
		P(set("A", &MapLit{Keys: []*Lit{strLit("p"), strLit("l"), strLit("init"), strLit("get")}, Vals: []Expr{num(1), &ListLit{[]Expr{num(1)}},
			fn(1, []string{"a"}, &Assign{Target: dot("this", "ia"), Rhs: v("a")}), fn(2, nil, &Return{dot("this", "p")})}}),
			set("B", &MapLit{Keys: []*Lit{strLit("super"), strLit("q"), strLit("init")}, Vals: []Expr{&ListLit{[]Expr{v("A")}}, num(2),
				fn(3, []string{"a"}, &ExprStmt{&Call{&Path{Root: "super", Steps: []Step{{Idx: num(0)}}}, []Expr{plus(v("a"), 1)}}}, &Assign{Target: dot("this", "ib"), Rhs: v("a")})}}),
			set("C", &MapLit{Keys: []*Lit{strLit("super"), strLit("r"), strLit("init")}, Vals: []Expr{&ListLit{[]Expr{v("A")}}, num(3),
				fn(4, []string{"a"}, &ExprStmt{&Call{&Path{Root: "super", Steps: []Step{{Idx: num(0)}}}, []Expr{plus(v("a"), 2)}}}, &Assign{Target: dot("this", "ic"), Rhs: v("a")})}}),
			set("D", &MapLit{Keys: []*Lit{strLit("super"), strLit("p"), strLit("init")}, Vals: []Expr{&ListLit{[]Expr{v("B"), v("C")}}, num(4),
				fn(5, []string{"a", "b"}, &ExprStmt{&Call{&Path{Root: "super", Steps: []Step{{Idx: num(0)}}}, []Expr{v("a")}}},
					&ExprStmt{&Call{&Path{Root: "super", Steps: []Step{{Idx: num(1)}}}, []Expr{v("b")}}}, &Assign{Target: dot("this", "id"), Rhs: v("b")})}}),
			set("o", &Builtin{"new", []Expr{v("D"), num(10), num(20)}}), set("o2", &Builtin{"new", []Expr{v("B"), num(30)}}),
			&Assign{Target: &Path{Root: "o", Steps: []Step{{Dot: true, Idx: strLit("l")}, {Idx: num(0)}}}, Rhs: num(9)},
			&Assign{Target: dot("o", "p"), Rhs: num(44)},
			rec("o", &Call{dot("o", "get"), nil}, dot("o", "q"), dot("o", "r"), dot("o", "ia"), dot("o", "ib"), dot("o", "ic"), dot("o", "id")),
			rec("o2", &Call{dot("o2", "get"), nil}, dot("o2", "l"), dot("o2", "ia"), dot("o2", "ib"), dot("A", "l"), dot("A", "p"), dot("D", "p"))),
		// a method taken out of its object still sees the object; template change after new does not reach the instance's scalars
		P(set("A", &MapLit{Keys: []*Lit{strLit("p"), strLit("get"), strLit("set")}, Vals: []Expr{num(1),
			fn(1, nil, &Return{dot("this", "p")}), fn(2, []string{"a"}, &Assign{Target: dot("this", "p"), Rhs: v("a")}, &Return{&Lit{V: nil}})}}),
			set("o", &Builtin{"new", []Expr{v("A")}}), set("o2", &Builtin{"new", []Expr{v("A")}}),
			set("c1", dot("o", "get")), &ExprStmt{&Call{dot("o", "set"), []Expr{num(5)}}}, &Assign{Target: dot("A", "p"), Rhs: num(8)},
			set("c", &Builtin{"new", []Expr{v("A")}}),
			rec("m", call("c1"), &Call{dot("o2", "get"), nil}, &Call{dot("c", "get"), nil}, dot("A", "p"))),
		// a method that declares a template of its own, instantiates it and runs its
		// constructor and a method: the outer method still sees ITS object as this
		P(set("A", &MapLit{Keys: []*Lit{strLit("count"), strLit("make")}, Vals: []Expr{num(7),
			fn(1, []string{"a"},
				set("B", &MapLit{Keys: []*Lit{strLit("v"), strLit("init"), strLit("get")}, Vals: []Expr{num(0),
					fn(2, []string{"x"}, &Assign{Target: dot("this", "v"), Rhs: v("x")}),
					fn(3, nil, &Return{dot("this", "v")})}}),
				set("o", &Builtin{"new", []Expr{v("B"), v("a")}}),
				set("r", &Call{dot("o", "get"), nil}),
				rec("in", dot("this", "count"), dot("o", "v"), v("r")),
				&Assign{Target: dot("this", "count"), Rhs: plus(dot("this", "count"), 1)},
				&Return{dot("this", "count")})}}),
			set("c", &Builtin{"new", []Expr{v("A")}}),
			rec("out", &Call{dot("c", "make"), []Expr{num(5)}}, dot("c", "count"), &Call{dot("c", "make"), []Expr{num(6)}}, dot("c", "count"), dot("A", "count"))),
		// the same with the inner object created in the outer constructor
		P(set("B", &MapLit{Keys: []*Lit{strLit("v"), strLit("init")}, Vals: []Expr{num(0),
			fn(2, []string{"x"}, &Assign{Target: dot("this", "v"), Rhs: v("x")})}}),
			set("A", &MapLit{Keys: []*Lit{strLit("part"), strLit("n"), strLit("init")}, Vals: []Expr{&Lit{V: nil}, num(1),
				fn(1, []string{"a"},
					&Assign{Target: dot("this", "part"), Rhs: &Builtin{"new", []Expr{v("B"), v("a")}}},
					&Assign{Target: dot("this", "n"), Rhs: plus(v("a"), 1)})}}),
			set("c", &Builtin{"new", []Expr{v("A"), num(4)}}),
			rec("ctor", dot("c", "n"), &Path{Root: "c", Steps: []Step{{Dot: true, Idx: strLit("part")}, {Dot: true, Idx: strLit("v")}}}, dot("A", "n"), dot("B", "v"))),
	}
}
