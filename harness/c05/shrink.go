package c05

// Shrinking along the generator's own structure: delete statements (in any
// block, including function bodies) and probes while the same finding key is
// still produced. A deletion that makes the program undetermined for the
// reference model is rejected automatically because judge() then reports no
// key.

func exprBlocks(e Expr, out *[]*[]Stmt) {
	switch x := e.(type) {
	case *Path:
		for _, s := range x.Steps {
			exprBlocks(s.Idx, out)
		}
	case *ListLit:
		for _, el := range x.Elems {
			exprBlocks(el, out)
		}
	case *MapLit:
		for _, el := range x.Vals {
			exprBlocks(el, out)
		}
	case *FuncLit:
		*out = append(*out, &x.Body)
		stmtBlocks(x.Body, out)
	case *Call:
		exprBlocks(x.Fn, out)
		for _, el := range x.Args {
			exprBlocks(el, out)
		}
	case *Builtin:
		for _, el := range x.Args {
			exprBlocks(el, out)
		}
	case *Bin:
		exprBlocks(x.L, out)
		exprBlocks(x.R, out)
	}
}

func stmtBlocks(body []Stmt, out *[]*[]Stmt) {
	for _, s := range body {
		switch x := s.(type) {
		case *Assign:
			exprBlocks(x.Target, out)
			exprBlocks(x.Rhs, out)
		case *MultiAssign:
			exprBlocks(x.Rhs, out)
		case *ExprStmt:
			exprBlocks(x.E, out)
		case *FuncDecl:
			exprBlocks(x.F, out)
		case *If:
			exprBlocks(x.Cond, out)
			*out = append(*out, &x.Then)
			stmtBlocks(x.Then, out)
			if x.HasElse {
				*out = append(*out, &x.Else)
				stmtBlocks(x.Else, out)
			}
		case *ForIn:
			for _, e := range x.Range {
				exprBlocks(e, out)
			}
			if x.Iter != nil {
				exprBlocks(x.Iter, out)
			}
			*out = append(*out, &x.Body)
			stmtBlocks(x.Body, out)
		case *ForGuard:
			exprBlocks(x.Cond, out)
			*out = append(*out, &x.Body)
			stmtBlocks(x.Body, out)
		case *Try:
			*out = append(*out, &x.Body)
			stmtBlocks(x.Body, out)
			if x.HasOth {
				*out = append(*out, &x.Otherwise)
				stmtBlocks(x.Otherwise, out)
			}
			*out = append(*out, &x.Finally)
			stmtBlocks(x.Finally, out)
		case *Mutex:
			*out = append(*out, &x.Body)
			stmtBlocks(x.Body, out)
		case *Return:
			exprBlocks(x.E, out)
		case *Rec:
			for _, e := range x.Args {
				exprBlocks(e, out)
			}
		}
	}
}

func allBlocks(p *Program) []*[]Stmt {
	out := []*[]Stmt{&p.Body}
	stmtBlocks(p.Body, &out)
	return out
}

// shrink mutates p in place and returns it together with its verdict.
func shrink(p *Program, v verdict, key string) (*Program, verdict) {
	budget := 400
	best := v
	try := func() bool {
		if budget <= 0 {
			return false
		}
		budget--
		nv := judge(p)
		if nv.dropped == "" && hasKey(nv, key) {
			best = nv
			return true
		}
		return false
	}
	// probes first: they are independent of the program
	if len(p.Probes) > 0 {
		old := p.Probes
		p.Probes = nil
		if !try() {
			p.Probes = old
			for i := 0; i < len(p.Probes); {
				old := p.Probes
				p.Probes = append(append([]Expr{}, old[:i]...), old[i+1:]...)
				if !try() {
					p.Probes = old
					i++
				}
			}
		}
	}
	for progress := true; progress && budget > 0; {
		progress = false
	scan:
		for _, b := range allBlocks(p) {
			for i := len(*b) - 1; i >= 0 && budget > 0; i-- {
				old := *b
				*b = append(append([]Stmt{}, old[:i]...), old[i+1:]...)
				if try() {
					// nested block pointers may be stale now: rescan
					progress = true
					break scan
				}
				*b = old
			}
		}
	}
	// replace a block statement by its body where that keeps the finding
	for _, b := range allBlocks(p) {
		for i := 0; i < len(*b) && budget > 0; i++ {
			var inner []Stmt
			switch x := (*b)[i].(type) {
			case *If:
				inner = x.Then
			case *Try:
				inner = x.Body
			case *Mutex:
				inner = x.Body
			default:
				continue
			}
			old := *b
			nb := append([]Stmt{}, old[:i]...)
			nb = append(nb, inner...)
			nb = append(nb, old[i+1:]...)
			*b = nb
			if !try() {
				*b = old
			}
		}
	}
	return p, best
}

// ---------------------------------------------------------------------------
// deep copy (shrinking mutates its argument)

func cloneExprs(es []Expr) []Expr {
	if es == nil {
		return nil
	}
	r := make([]Expr, len(es))
	for i, e := range es {
		r[i] = cloneExpr(e)
	}
	return r
}

func cloneExpr(e Expr) Expr {
	switch x := e.(type) {
	case nil:
		return nil
	case *Lit:
		return x
	case *Var:
		return x
	case *Path:
		p := &Path{Root: x.Root}
		for _, s := range x.Steps {
			p.Steps = append(p.Steps, Step{Dot: s.Dot, Idx: cloneExpr(s.Idx)})
		}
		return p
	case *ListLit:
		return &ListLit{cloneExprs(x.Elems)}
	case *MapLit:
		return &MapLit{Keys: append([]*Lit{}, x.Keys...), Vals: cloneExprs(x.Vals)}
	case *FuncLit:
		return cloneFunc(x)
	case *Call:
		return &Call{cloneExpr(x.Fn), cloneExprs(x.Args)}
	case *Builtin:
		return &Builtin{x.Name, cloneExprs(x.Args)}
	case *Bin:
		return &Bin{x.Op, cloneExpr(x.L), cloneExpr(x.R)}
	}
	panic("cloneExpr")
}

func cloneFunc(f *FuncLit) *FuncLit {
	return &FuncLit{ID: f.ID, Name: f.Name, Params: append([]Param{}, f.Params...), Body: cloneStmts(f.Body)}
}

func cloneStmts(ss []Stmt) []Stmt {
	if ss == nil {
		return nil
	}
	r := make([]Stmt, len(ss))
	for i, s := range ss {
		switch x := s.(type) {
		case *Assign:
			r[i] = &Assign{x.Let, cloneExpr(x.Target), cloneExpr(x.Rhs)}
		case *MultiAssign:
			r[i] = &MultiAssign{x.Let, append([]string{}, x.Names...), cloneExpr(x.Rhs)}
		case *ExprStmt:
			r[i] = &ExprStmt{cloneExpr(x.E)}
		case *FuncDecl:
			r[i] = &FuncDecl{cloneFunc(x.F)}
		case *If:
			r[i] = &If{x.ID, cloneExpr(x.Cond), cloneStmts(x.Then), cloneStmts(x.Else), x.HasElse}
		case *ForIn:
			r[i] = &ForIn{x.ID, append([]string{}, x.Vars...), cloneExprs(x.Range), cloneExpr(x.Iter), cloneStmts(x.Body)}
		case *ForGuard:
			r[i] = &ForGuard{x.ID, cloneExpr(x.Cond), cloneStmts(x.Body)}
		case *Try:
			r[i] = &Try{x.ID, x.FinID, cloneStmts(x.Body), cloneStmts(x.Finally), x.Except, x.HasOth, x.OthID, cloneStmts(x.Otherwise)}
		case *Mutex:
			r[i] = &Mutex{x.ID, x.Name, cloneStmts(x.Body)}
		case *Return:
			r[i] = &Return{cloneExpr(x.E)}
		case *Rec:
			r[i] = &Rec{x.Tag, cloneExprs(x.Args)}
		default:
			panic("cloneStmts")
		}
	}
	return r
}

func cloneProgram(p *Program) *Program {
	return &Program{Body: cloneStmts(p.Body), Probes: cloneExprs(p.Probes), Names: p.Names}
}
